(* The abstract routing map of Model/Registry.v (t_find, t_lookup, t_add, t_add_rule(s), t_del -- re-stated
   generically in Spec/AbsTrie.v, Registry being the instance at nat) is an abstraction of the concrete
   trie of Model/Trie.v / Model/TrieDel.v: the concrete operations commute with the abstraction, with no
   side condition, along every history.

   Keys.  An abstract node is a list of edge keys (TrieProofs.keys es: the edge path of a concrete node up
   to the spelling of patterns), a verb is the verb string, "*" = star_verb, a method is its name.
   Content.  [cfind root es v] is the name of the method the node at es stores under v ("*" -> n_mall, any
   other verb -> n_meths); cfind_stored is the same thing said with TrieProofs.stored.
   Relations.
     Abs  root t : NoDup keys, and a_find t (keys es) v = cfind root es v        (exact; Abs_stored: the iff with stored)
     AbsR root t : NoDup keys, and a_lookup t (keys es) v = clookup root es v    (what a key resolves to; Abs_AbsR)
   Invariant of the concrete side: Good root = exists L, Inv L root; KeysND root; MI root (the "*" binding of
   a node and every other binding of that node belong to one method).  Good_empty, Good_add, Good_del,
   Good_lifecycle: it holds of every trie of every history.

   Proved:
     refine_lookup / refine_lookup_at / refine_route   a_lookup at a node's key = the binding search uses there
     refine_del / refine_del_R                         remove_method against a_del
     abs_key_valid                                     failing template / selector <-> invalid key
     refine_add_accept, refine_add, refine_add_rel     one binding: same verdict, same "stored now / already
                                                       registered", "already registered" leaves the trie as it is,
                                                       Abs again
     refine_add_rule(s) / refine_append / refine_register / refine_service
                                                       main + additional bindings in order, rule lists,
                                                       appendHandler, the method loop, registerService
     refine_history_exact / refine_history / refine_published / refine_published_exact
                                                       every history of registerService / removeHandler
                                                       (DelProofs.run_ops): same verdicts, Abs at every point
   Record of the repair (Module RefineExample, by vm_compute), about AbsTrie.a_add_loose = Registry.t_add as
   it was before this proof:
     refine_add_refuted, refine_add_verdict_refuted    a "*" key at a node where another method holds a verb
                            binding: rules.go / Model.Trie refuse ("duplicate rule"), a_add_loose accepted
     refine_add_state_refuted                          a verb key at a node where the same method holds "*":
                            rules.go stores the binding, a_add_loose said "already registered" and recorded
                            nothing (t_find differed; t_lookup did not) *)
From Larking Require Import Base.GoSem Model.Lexer Model.Trie Model.Match Model.TrieDel Spec.Grammar Spec.Route
  Proofs.LexerProofs Proofs.MatchProofs Proofs.TrieProofs Proofs.RoutingProofs Proofs.OrderProofs Proofs.DelProofs
  Spec.AbsTrie.
From Larking Require Model.Registry.
Local Open Scope N_scope.

(* ---- the key type of the abstract map: a node named by its edge path up to the spelling of patterns ---- *)
Definition ekey_eqb (a b : ekey) : bool :=
  match a, b with
  | KLit x, KLit y => str_eqb x y
  | KVar x, KVar y => str_eqb x y
  | _, _ => false
  end.
Lemma ekey_eqb_eq a b : ekey_eqb a b = true <-> a = b.
Proof.
  destruct a as [x|x], b as [y|y]; cbn [ekey_eqb]; rewrite ?str_eqb_eq; split; intros H; try discriminate; try congruence.
Qed.
Definition nkey := list ekey.
Definition nkey_eqb : nkey -> nkey -> bool := list_eqb ekey_eqb.
Lemma nkey_eqb_eq a b : nkey_eqb a b = true <-> a = b.
Proof. apply (list_eqb_eq ekey_eqb ekey_eqb_eq). Qed.
Lemma nkey_eqb_refl a : nkey_eqb a a = true.
Proof. now apply nkey_eqb_eq. Qed.
Lemma nkey_eqb_neq a b : nkey_eqb a b = false <-> a <> b.
Proof.
  split.
  - intros H E. apply nkey_eqb_eq in E. congruence.
  - intros H. destruct (nkey_eqb a b) eqn:E; [apply nkey_eqb_eq in E; contradiction|reflexivity].
Qed.

(* every key names a node position: keys is onto *)
Lemma spell_lit s : spell [Tok TLiteral s] = s.
Proof. unfold spell. cbn. now rewrite app_nil_r. Qed.
Lemma keys_onto (ks : nkey) : exists es, keys es = ks.
Proof.
  induction ks as [|k ks [es IH]]; [exists []; reflexivity|].
  destruct k as [s|s].
  - exists (ELit s :: es). cbn. now rewrite <- IH.
  - exists (EVar [Tok TLiteral s] :: es). unfold keys in *. cbn [map edge_key]. now rewrite spell_lit, IH.
Qed.

(* the abstract trie over these keys *)
Notation ctrie := (atrie nkey str str).
Notation ckey := (akey nkey str).
Notation c_find := (a_find nkey str str nkey_eqb str_eqb).
Notation c_lookup := (a_lookup nkey str str nkey_eqb str_eqb star_verb).
Notation c_add := (a_add nkey str str nkey_eqb str_eqb str_eqb star_verb).
Notation c_add_all := (a_add_all nkey str str nkey_eqb str_eqb str_eqb star_verb).
Notation c_add_rule := (a_add_rule nkey str str nkey_eqb str_eqb str_eqb star_verb).
Notation c_add_rules := (a_add_rules nkey str str nkey_eqb str_eqb str_eqb star_verb).
Notation c_del := (a_del nkey str str str_eqb).
Notation c_append := (a_append nkey str str nkey_eqb str_eqb str_eqb star_verb).
Notation c_register := (a_register nkey str str nkey_eqb str_eqb str_eqb star_verb).
Notation c_register_service := (a_register_service nkey str str nkey_eqb str_eqb str_eqb star_verb).
Notation c_add_loose := (a_add_loose nkey str str nkey_eqb str_eqb str_eqb star_verb).
Notation c_owned := (a_owned nkey str str nkey_eqb str_eqb).
Notation c_other := (a_other str str_eqb).
Notation sdel := (odel str_eqb).

Lemma str_eqb_sym a b : str_eqb a b = str_eqb b a.
Proof.
  destruct (str_eqb a b) eqn:E1, (str_eqb b a) eqn:E2; auto.
  - apply str_eqb_eq in E1. subst. now rewrite str_eqb_refl in E2.
  - apply str_eqb_eq in E2. subst. now rewrite str_eqb_refl in E1.
Qed.

(* ---- the content of a concrete trie as a function of (edge path, verb) ---- *)
Definition iown (v : str) (i : list (str * minfo) * option minfo) : option minfo :=
  if str_eqb v star_verb then snd i else assoc v (fst i).
Definition om (o : option minfo) : option str := option_map m_id o.
Definition cfind (root : node) (es : list edge) (v : str) : option str :=
  match info_at root es with Some i => om (iown v i) | None => None end.
Definition clookup (root : node) (es : list edge) (v : str) : option str :=
  oelse (cfind root es v) (cfind root es star_verb).

Lemma iown_stored v i m : iown v i = Some m -> stored i v m.
Proof.
  unfold iown, stored. destruct (str_eqb v star_verb) eqn:E; [apply str_eqb_eq in E; auto|auto].
Qed.
Lemma stored_iown v i m : assoc star_verb (fst i) = None -> stored i v m -> iown v i = Some m.
Proof.
  unfold iown, stored. intros Hn [[-> H]|H].
  - now rewrite str_eqb_refl.
  - destruct (str_eqb v star_verb) eqn:E; [apply str_eqb_eq in E; subst; congruence|exact H].
Qed.

(* the formulation with [stored]: the key (keys es, v) is bound to mid iff the node at es stores under v a
   binding of method mid *)
Definition nostar (root : node) : Prop := forall es i, info_at root es = Some i -> assoc star_verb (fst i) = None.
Lemma cfind_stored root es v mid : nostar root ->
  (cfind root es v = Some mid <-> exists i m, info_at root es = Some i /\ stored i v m /\ m_id m = mid).
Proof.
  intros Hn. unfold cfind. split.
  - destruct (info_at root es) as [i|] eqn:Ei; [|discriminate]. destruct (iown v i) as [m|] eqn:Eo; [|discriminate].
    cbn. intros H. injection H as <-. exists i, m. split; [reflexivity|]. split; [now apply iown_stored|reflexivity].
  - intros (i & m & Ei & Hs & <-). rewrite Ei. rewrite (stored_iown v i m (Hn es i Ei) Hs). reflexivity.
Qed.

Lemma cfind_keys root es1 es2 v : keys es1 = keys es2 -> cfind root es1 v = cfind root es2 v.
Proof. intros H. unfold cfind. now rewrite (info_at_keys root es1 es2 H). Qed.
Lemma cfind_empty es v : cfind empty_node es v = None.
Proof.
  unfold cfind. destruct (info_at empty_node es) as [i|] eqn:Ei; [|reflexivity].
  apply info_at_empty in Ei. subst i. unfold om, iown. cbn. destruct (str_eqb v star_verb); reflexivity.
Qed.
Lemma cfind_leaf_of root es v : om (iown v (info (leaf_of root es))) = cfind root es v.
Proof.
  unfold cfind. destruct (info_at root es) as [i|] eqn:Ei.
  - now rewrite <- (info_leaf_of _ _ _ Ei).
  - rewrite (info_leaf_none _ _ Ei). unfold om, iown. cbn. destruct (str_eqb v star_verb); reflexivity.
Qed.

(* the binding search uses at a node *)
Lemma clookup_bound root es nd verb : nostar root -> walk_to es root = Some nd ->
  clookup root es verb = om (bound_at verb nd).
Proof.
  intros Hn Hw. assert (Ei : info_at root es = Some (info nd)) by (unfold info_at; now rewrite Hw).
  pose proof (Hn es _ Ei) as Hs. cbn [info fst] in Hs.
  unfold clookup, cfind. rewrite Ei. unfold iown, bound_at. rewrite str_eqb_refl. cbn [info fst snd].
  destruct (str_eqb verb star_verb) eqn:Ev.
  - apply str_eqb_eq in Ev. subst verb. rewrite Hs. destruct (n_mall nd); reflexivity.
  - destruct (assoc verb (n_meths nd)); reflexivity.
Qed.
Lemma clookup_absent root es verb : walk_to es root = None -> clookup root es verb = None.
Proof. intros Hw. unfold clookup, cfind, info_at. now rewrite Hw. Qed.


(* the generic lemmas of Spec/AbsTrie.v at these keys *)
Definition cf_cons := a_find_cons nkey str str nkey_eqb str_eqb.
Definition cf_in := a_find_in nkey str str nkey_eqb str_eqb nkey_eqb_eq str_eqb_eq.
Definition cf_none := a_find_none nkey str str nkey_eqb str_eqb nkey_eqb_eq str_eqb_eq.
Definition cf_in_find := a_in_find nkey str str nkey_eqb str_eqb nkey_eqb_eq str_eqb_eq.
Definition cf_del := a_find_del nkey str str nkey_eqb str_eqb str_eqb nkey_eqb_eq str_eqb_eq.
Definition cl_del := a_lookup_del nkey str str nkey_eqb str_eqb str_eqb star_verb nkey_eqb_eq str_eqb_eq.
Definition cl_star := a_lookup_star nkey str str nkey_eqb str_eqb star_verb.
Definition ca_inv := a_add_inv nkey str str nkey_eqb str_eqb str_eqb star_verb str_eqb_eq str_eqb_eq.
Definition c_owned_true := a_owned_true nkey str str nkey_eqb str_eqb nkey_eqb_eq str_eqb_eq.
Definition c_other_false := a_other_false str str_eqb str_eqb_eq.
Definition ca_ok := a_add_ok nkey str str nkey_eqb str_eqb str_eqb star_verb.
Definition ca_err := a_add_err nkey str str nkey_eqb str_eqb str_eqb star_verb.
Definition ca_nodup := a_add_nodup nkey str str nkey_eqb str_eqb str_eqb star_verb nkey_eqb_eq str_eqb_eq str_eqb_eq.
Definition cd_nodup := a_del_nodup nkey str str str_eqb.

Lemma nkey_eqb_sym a b : nkey_eqb a b = nkey_eqb b a.
Proof.
  destruct (nkey_eqb a b) eqn:E1, (nkey_eqb b a) eqn:E2; auto.
  - apply nkey_eqb_eq in E1. subst. now rewrite nkey_eqb_refl in E2.
  - apply nkey_eqb_eq in E2. subst. now rewrite nkey_eqb_refl in E1.
Qed.
Lemma bool_eq_iff (a b : bool) : (a = true <-> b = true) -> a = b.
Proof. destruct a, b; intros [H1 H2]; try reflexivity; [symmetry; apply H1; reflexivity|apply H2; reflexivity]. Qed.
Lemma oelse_none_r (a : option str) : oelse a None = a.
Proof. destruct a; reflexivity. Qed.
Lemma oelse_same (a : option str) : oelse a a = a.
Proof. destruct a; reflexivity. Qed.

Section Refine.
Variables isLetter isNumber : N -> bool.
Variable resolves body_ok resp_ok : str -> list str -> bool.

Notation PatG := (PatG isLetter isNumber).
Notation Inv := (Inv isLetter isNumber resolves).
Notation compiled := (compiled isLetter isNumber resolves).
Notation leaf := (Trie.leaf resolves body_ok resp_ok).
Notation add_binding := (Trie.add_binding resolves body_ok resp_ok isLetter isNumber).
Notation add_additional := (Trie.add_additional resolves body_ok resp_ok isLetter isNumber).
Notation add_rule := (Trie.add_rule resolves body_ok resp_ok isLetter isNumber).
Notation add_rules := (Trie.add_rules resolves body_ok resp_ok isLetter isNumber).
Notation append_handler := (Trie.append_handler resolves body_ok resp_ok isLetter isNumber).
Notation register_methods := (Trie.register_methods resolves body_ok resp_ok isLetter isNumber).
Notation register_service := (Trie.register_service resolves body_ok resp_ok isLetter isNumber).
Notation lex_template := (lex_template isLetter isNumber).
Notation compile := (Trie.compile resolves).

(* ---- the leaf update, on the content ---- *)
Definition sel_fine (mid : str) (b : brule) : bool :=
  (match b_body b with BField p => resolves mid p && body_ok mid p | _ => true end) &&
  (match b_resp b with [] => true | p => resp_ok mid p end).

Lemma leaf_own mid b vfs nd nd' : leaf mid b vfs nd = Ok nd' ->
  forall v, om (iown v (info nd')) = if str_eqb v (b_verb b) then Some mid else om (iown v (info nd)).
Proof.
  intros H v. unfold Trie.leaf in H.
  destruct (_ && _); [cbn [bind] in H|discriminate].
  unfold iown, info, om. cbn [fst snd].
  destruct (n_mall nd) as [y|] eqn:Emall;
  [destruct (conflict mid y) eqn:Ec; [discriminate|apply conflict_id in Ec]|];
  (destruct (str_eqb (b_verb b) star_verb) eqn:Ev;
   [apply str_eqb_eq in Ev; destruct (existsb _ (n_meths nd)) eqn:Ee; [discriminate|] |
    destruct (assoc (b_verb b) (n_meths nd)) as [y0|] eqn:Ea;
      [destruct (conflict mid y0) eqn:Ec0; [discriminate|apply conflict_id in Ec0]|]]);
  injection H as <-; cbn [n_meths n_mall];
  (destruct (str_eqb v (b_verb b)) eqn:Evb;
   [apply str_eqb_eq in Evb; subst v; rewrite ?Ev, ?str_eqb_refl, ?Emall, ?assoc_snoc, ?Ea, ?str_eqb_refl; cbn [option_map]|]).
  all: rewrite ?Emall.
  all: try congruence.
  all: try reflexivity.
  all: try (rewrite Ev in Evb; rewrite Evb; reflexivity).
  all: destruct (str_eqb v star_verb) eqn:Evs; try reflexivity.
  all: rewrite assoc_snoc; destruct (assoc v (n_meths nd)); try reflexivity.
  all: rewrite str_eqb_sym, Evb; reflexivity.
Qed.

Definition idok (mid : str) (o : option str) : Prop := forall x, o = Some x -> x = mid.

(* when the leaf accepts: the selectors are fine, and every binding of the node that meets the verb
   (the "*" binding always, every binding when the verb is "*", else the verb's own) is of this method *)
Lemma leaf_ok_iff mid b vfs nd :
  assoc star_verb (n_meths nd) = None -> NoDup (map fst (n_meths nd)) ->
  (is_ok (leaf mid b vfs nd) = true <->
   sel_fine mid b = true /\ idok mid (om (iown star_verb (info nd))) /\
   (if str_eqb (b_verb b) star_verb then forall v, idok mid (om (iown v (info nd)))
    else idok mid (om (iown (b_verb b) (info nd))))).
Proof.
  intros Hns Hnd. unfold Trie.leaf. fold (sel_fine mid b). unfold idok, iown, info, om. cbn [fst snd]. rewrite str_eqb_refl.
  destruct (sel_fine mid b); cbn [bind]; [|split; [discriminate|intros [X _]; discriminate]].
  destruct (n_mall nd) as [y|] eqn:Emall.
  - destruct (conflict mid y) eqn:Ec.
    + cbn [is_ok]. split; [discriminate|]. intros (_ & H & _). exfalso.
      unfold conflict in Ec. apply negb_true_iff in Ec. apply str_eqb_neq in Ec. apply Ec. now apply H.
    + apply conflict_id in Ec. destruct (str_eqb (b_verb b) star_verb) eqn:Ev.
      * destruct (existsb (fun kv : str * minfo => conflict mid (snd kv)) (n_meths nd)) eqn:Ee; cbn [is_ok].
        -- split; [discriminate|]. intros (_ & _ & H). exfalso. apply existsb_exists in Ee. destruct Ee as ([k y0] & Hin & Hc).
           cbn [snd] in Hc. unfold conflict in Hc. apply negb_true_iff in Hc. apply str_eqb_neq in Hc. apply Hc.
           pose proof (nodup_assoc_in k y0 _ Hnd Hin) as Ha.
           specialize (H k (m_id y0)). destruct (str_eqb k star_verb) eqn:Ek; [apply str_eqb_eq in Ek; subst k; congruence|].
           apply H. now rewrite Ha.
        -- split; [intros _|reflexivity]. split; [reflexivity|]. split; [intros x Hx; cbn in Hx; congruence|].
           intros v x. destruct (str_eqb v star_verb); [cbn; congruence|].
           destruct (assoc v (n_meths nd)) as [y0|] eqn:Ea; [|discriminate]. cbn. intros Hx. injection Hx as <-.
           eapply meths_owned; eauto.
      * destruct (assoc (b_verb b) (n_meths nd)) as [y0|] eqn:Ea.
        -- destruct (conflict mid y0) eqn:Ec0; cbn [is_ok].
           ++ split; [discriminate|]. intros (_ & _ & H). exfalso.
              unfold conflict in Ec0. apply negb_true_iff in Ec0. apply str_eqb_neq in Ec0. apply Ec0. now apply H.
           ++ apply conflict_id in Ec0. split; [intros _|reflexivity]. split; [reflexivity|]. split; intros x Hx; cbn in Hx; congruence.
        -- cbn [is_ok]. split; [intros _|reflexivity]. split; [reflexivity|]. split; intros x Hx; cbn in Hx; congruence.
  - cbn [option_map]. destruct (str_eqb (b_verb b) star_verb) eqn:Ev.
    + destruct (existsb (fun kv : str * minfo => conflict mid (snd kv)) (n_meths nd)) eqn:Ee; cbn [is_ok].
      * split; [discriminate|]. intros (_ & _ & H). exfalso. apply existsb_exists in Ee. destruct Ee as ([k y0] & Hin & Hc).
        cbn [snd] in Hc. unfold conflict in Hc. apply negb_true_iff in Hc. apply str_eqb_neq in Hc. apply Hc.
        pose proof (nodup_assoc_in k y0 _ Hnd Hin) as Ha.
        specialize (H k (m_id y0)). destruct (str_eqb k star_verb) eqn:Ek; [apply str_eqb_eq in Ek; subst k; congruence|].
        apply H. now rewrite Ha.
      * split; [intros _|reflexivity]. split; [reflexivity|]. split; [intros x Hx; discriminate|].
        intros v x. destruct (str_eqb v star_verb); [discriminate|].
        destruct (assoc v (n_meths nd)) as [y0|] eqn:Ea; [|discriminate]. cbn. intros Hx. injection Hx as <-.
        eapply meths_owned; eauto.
    + destruct (assoc (b_verb b) (n_meths nd)) as [y0|] eqn:Ea.
      * destruct (conflict mid y0) eqn:Ec0; cbn [is_ok].
        -- split; [discriminate|]. intros (_ & _ & H). exfalso.
           unfold conflict in Ec0. apply negb_true_iff in Ec0. apply str_eqb_neq in Ec0. apply Ec0. now apply H.
        -- apply conflict_id in Ec0. split; [intros _|reflexivity]. split; [reflexivity|]. split; intros x Hx; cbn in Hx; [discriminate|congruence].
      * cbn [is_ok]. split; [intros _|reflexivity]. split; [reflexivity|]. split; intros x Hx; discriminate.
Qed.

(* ---- upd succeeds exactly when the leaf function does ---- *)
Lemma upd_ok es : forall f nd, is_ok (upd es f nd) = is_ok (f (leaf_of nd es)).
Proof.
  induction es as [|[k|pat] es IH]; intros f nd.
  - reflexivity.
  - rewrite leaf_of_lit. cbn [upd]. rewrite <- IH. destruct (upd es f _); reflexivity.
  - rewrite leaf_of_var. cbn [upd]. rewrite <- IH. destruct (upd es f _); reflexivity.
Qed.
Lemma upd_err es : forall f nd e, f (leaf_of nd es) = Err e -> upd es f nd = Err e.
Proof.
  induction es as [|[k|pat] es IH]; intros f nd e H.
  - exact H.
  - rewrite leaf_of_lit in H. cbn [upd]. now rewrite (IH _ _ _ H).
  - rewrite leaf_of_var in H. cbn [upd]. now rewrite (IH _ _ _ H).
Qed.

Lemma compiled_add mid b es vfs root : compiled mid b es vfs -> add_binding mid root b = upd es (leaf mid b vfs) root.
Proof. intros (toks & El & Ec). unfold Trie.add_binding. rewrite El. cbn [bind]. rewrite Ec. reflexivity. Qed.

(* ---- one binding: what it does to the content, and when it is accepted ---- *)
Definition accepts (root : node) (es : list edge) (v mid : str) : Prop :=
  idok mid (cfind root es star_verb) /\
  (if str_eqb v star_verb then forall v', idok mid (cfind root es v') else idok mid (cfind root es v)).

Lemma leaf_of_nostar root es : nostar root -> assoc star_verb (n_meths (leaf_of root es)) = None.
Proof.
  intros Hn. destruct (info_at root es) as [i|] eqn:Ei.
  - pose proof (Hn es i Ei) as X. now rewrite (info_leaf_of _ _ _ Ei) in X.
  - now rewrite (info_leaf_none _ _ Ei).
Qed.
Lemma leaf_of_nodup root es : Uq root -> NoDup (map fst (n_meths (leaf_of root es))).
Proof.
  intros HU. unfold leaf_of. destruct (walk_to es root) as [n|] eqn:Ew; [|constructor].
  pose proof (walk_Uq es root n HU Ew) as HUn. inversion HUn as [s v ms a U1 U2 U3 U4 U5]; subst. exact U3.
Qed.

Lemma add_ok_iff mid b es vfs root : nostar root -> Uq root -> compiled mid b es vfs ->
  (is_ok (add_binding mid root b) = true <-> sel_fine mid b = true /\ accepts root es (b_verb b) mid).
Proof.
  intros Hn HU Hc. rewrite (compiled_add _ _ _ _ root Hc), upd_ok.
  rewrite (leaf_ok_iff mid b vfs (leaf_of root es) (leaf_of_nostar root es Hn) (leaf_of_nodup root es HU)).
  unfold accepts. rewrite cfind_leaf_of.
  destruct (str_eqb (b_verb b) star_verb).
  - split; intros (A & B & C); (split; [exact A|split; [exact B|]]); intros v; [rewrite <- cfind_leaf_of|rewrite cfind_leaf_of]; apply C.
  - rewrite cfind_leaf_of. tauto.
Qed.

Lemma add_uncompiled mid b root : (forall es vfs, ~ compiled mid b es vfs) -> is_ok (add_binding mid root b) = false.
Proof.
  intros Hno. destruct (add_binding mid root b) as [root'| | |] eqn:E; try reflexivity.
  destruct (add_binding_inv isLetter isNumber resolves body_ok resp_ok _ _ _ _ E) as (es & vfs & _ & Hc & _).
  exfalso. exact (Hno es vfs Hc).
Qed.

Lemma cfind_add mid b es vfs root root' : compiled mid b es vfs -> add_binding mid root b = Ok root' ->
  forall es' v, cfind root' es' v =
    if nkey_eqb (keys es') (keys es) && str_eqb v (b_verb b) then Some mid else cfind root es' v.
Proof.
  intros Hc H es' v.
  destruct (add_binding_inv isLetter isNumber resolves body_ok resp_ok _ _ _ _ H) as (es0 & vfs0 & leaf' & Hc0 & Hu & Hl & Hw & _).
  destruct (compiled_fun _ _ _ _ _ _ _ _ _ Hc0 Hc) as [-> ->].
  pose proof (leaf_keeps resolves body_ok resp_ok mid b vfs) as Hk.
  destruct (nkey_eqb (keys es') (keys es)) eqn:Ek; cbn [andb].
  - apply nkey_eqb_eq in Ek. rewrite (cfind_keys root' es' es v Ek), (cfind_keys root es' es v Ek).
    unfold cfind at 1. unfold info_at. rewrite Hw. rewrite (leaf_own _ _ _ _ _ Hl v). now rewrite cfind_leaf_of.
  - apply nkey_eqb_neq in Ek. unfold cfind. destruct (info_at root es') as [i|] eqn:Ei.
    + now rewrite (upd_info_keep es _ _ _ es' i Hk Hu Ek Ei).
    + destruct (info_at root' es') as [i'|] eqn:Ei'; [|reflexivity].
      destruct (upd_info_inv es _ _ _ leaf' es' i' Hk Hu Hl Ei') as [[E1 _]|[E|E]]; [contradiction|congruence|].
      subst i'. unfold om, iown. cbn. destruct (str_eqb v star_verb); reflexivity.
Qed.


(* a binding the node already has leaves the trie as it is ("Method already registered") *)
Lemma set_assoc_same {A : Type} k (c : A) l : assoc k l = Some c -> set_assoc k c l = l.
Proof.
  induction l as [|[k' v'] l IH]; cbn [assoc set_assoc]; [discriminate|].
  destruct (str_eqb k' k); [intros H; injection H as ->; reflexivity|]. intros H. now rewrite IH.
Qed.
Lemma set_var_same pat c l : names_sorted l -> find_var (spell pat) l = Some c -> set_var pat c l = l.
Proof.
  unfold names_sorted. induction l as [|[p n'] r IH]; cbn [find_var set_var map]; [discriminate|].
  intros Hs. inversion Hs as [|a l' Hs' Hall]; subst.
  destruct (str_eqb (spell p) (spell pat)) eqn:E; [intros H; injection H as ->; reflexivity|].
  intros H. destruct (str_ltb (spell pat) (spell p)) eqn:El.
  - exfalso. destruct (find_var_in _ _ _ H) as (p' & Hin & Hsp). rewrite Forall_forall in Hall.
    assert (X : str_ltb (vname (p, n')) (vname (p', c)) = true) by (apply Hall; now apply in_map).
    unfold vname in X. cbn [fst] in X. rewrite Hsp in X.
    pose proof (str_ltb_trans _ _ _ El X) as Y. rewrite str_ltb_irrefl in Y. discriminate.
  - now rewrite (IH Hs' H).
Qed.
Lemma upd_same (P : list token -> Prop) es : forall f nd k n,
  WFn P k nd -> walk_to es nd = Some n -> f n = Ok n -> upd es f nd = Ok nd.
Proof.
  induction es as [|[key|pat] es IH]; intros f [segs vars meths mall] k n Hw H Hf; cbn [walk_to upd n_segs n_vars n_meths n_mall] in *.
  - injection H as <-. exact Hf.
  - inversion Hw as [k0 s v ms a W1 W2 W3 W4 W5]; subst.
    destruct (assoc key segs) as [c|] eqn:Ea; [|discriminate].
    rewrite (IH f c k n (W1 key c (assoc_in _ _ _ Ea)) H Hf). cbn [bind]. now rewrite (set_assoc_same key c segs Ea).
  - inversion Hw as [k0 s v ms a W1 W2 W3 W4 W5]; subst.
    destruct (find_var (spell pat) vars) as [c|] eqn:Ea; [|discriminate].
    destruct (find_var_in _ _ _ Ea) as (p' & Hin & _). destruct (W2 p' c Hin) as [_ Wc].
    rewrite (IH f c (S k) n Wc H Hf). cbn [bind]. now rewrite (set_var_same pat c vars W3 Ea).
Qed.
Lemma leaf_same mid b vfs nd nd' : leaf mid b vfs nd = Ok nd' -> iown (b_verb b) (info nd) <> None -> nd' = nd.
Proof.
  intros H Hb. unfold Trie.leaf in H. unfold iown, info in Hb. cbn [fst snd] in Hb.
  destruct (_ && _); [cbn [bind] in H|discriminate].
  destruct (match n_mall nd with Some y => conflict mid y | None => false end); [discriminate|].
  destruct (str_eqb (b_verb b) star_verb).
  - destruct (existsb _ _); [discriminate|]. destruct (n_mall nd); [injection H as <-; reflexivity|contradiction].
  - destruct (assoc (b_verb b) (n_meths nd)) as [y|]; [|contradiction].
    destruct (conflict mid y); [discriminate|]. injection H as <-. reflexivity.
Qed.
Theorem add_binding_same mid b es vfs root root' L : Inv L root -> compiled mid b es vfs ->
  add_binding mid root b = Ok root' -> cfind root es (b_verb b) <> None -> root' = root.
Proof.
  intros HI Hc H Hb. rewrite (compiled_add _ _ _ _ root Hc) in H.
  destruct (upd_leaf _ _ _ _ H) as (leaf' & Hl & _).
  unfold cfind, info_at in Hb. unfold leaf_of in Hl. destruct (walk_to es root) as [n|] eqn:Ew; [|contradiction].
  assert (Hn : iown (b_verb b) (info n) <> None) by (destruct (iown (b_verb b) (info n)); [discriminate|contradiction]).
  pose proof (leaf_same _ _ _ _ _ Hl Hn) as ->.
  rewrite (upd_same PatG es _ root 0%nat n (inv_wf _ _ _ _ _ HI) Ew Hl) in H. now injection H as <-.
Qed.

(* ---- removal, on the content ---- *)
Lemma iown_finfo name v i : NoDup (map fst (fst i)) -> om (iown v (finfo name i)) = sdel name (om (iown v i)).
Proof.
  intros Hnd. unfold iown, finfo, om. cbn [fst snd]. destruct (str_eqb v star_verb).
  - unfold del_mall. destruct (snd i) as [m|]; [|reflexivity]. cbn [option_map odel]. destruct (str_eqb (m_id m) name); reflexivity.
  - destruct (assoc v (fst i)) as [y|] eqn:Ea; cbn [option_map odel].
    + destruct (str_eqb (m_id y) name) eqn:Ey.
      * destruct (assoc v (filter (keep_meth name) (fst i))) as [y'|] eqn:Ef; [|reflexivity].
        apply (assoc_filter_inv v y' _ _ Hnd) in Ef. destruct Ef as [Ef Hk]. rewrite Ea in Ef. injection Ef as <-.
        unfold keep_meth in Hk. cbn [snd] in Hk. rewrite Ey in Hk. discriminate.
      * rewrite (assoc_filter_keep v y _ _ Ea); [reflexivity|]. unfold keep_meth. cbn [snd]. now rewrite Ey.
    + now rewrite (assoc_filter_none v _ _ Ea).
Qed.

Lemma cfind_del name root es v : Uq root -> cfind (dnode name root) es v = sdel name (cfind root es v).
Proof.
  intros HU. unfold cfind, info_at. destruct (walk_to es (dnode name root)) as [n'|] eqn:Ew.
  - destruct (walk_del_inv name es root n' HU Ew) as (n & Hw & ->). rewrite Hw, info_dnode. apply iown_finfo.
    pose proof (walk_Uq es root n HU Hw) as HUn. inversion HUn as [s v0 ms a U1 U2 U3 U4 U5]; subst. exact U3.
  - destruct (walk_to es root) as [n|] eqn:Hw; [|reflexivity].
    destruct (iown v (info n)) as [y|] eqn:Eo; [|reflexivity]. unfold om. cbn [option_map odel].
    destruct (str_eqb (m_id y) name) eqn:Ey; [reflexivity|]. exfalso. apply str_eqb_neq in Ey.
    pose proof (walk_del_survives name es root n v y Hw (iown_stored _ _ _ Eo) Ey) as X. congruence.
Qed.

Lemma sdel_some name o m : sdel name o = Some m -> o = Some m /\ m <> name.
Proof.
  destruct o as [x|]; cbn [odel]; [|discriminate]. destruct (str_eqb x name) eqn:E; [discriminate|].
  intros H. injection H as <-. split; [reflexivity|now apply str_eqb_neq].
Qed.

(* ---- what every trie of the life cycle satisfies ---- *)
(* bindings that meet (the "*" binding and any other binding of the node) belong to one method *)
Definition MI (root : node) : Prop :=
  forall es v x y, cfind root es star_verb = Some x -> cfind root es v = Some y -> x = y.

Record Good (root : node) : Prop := {
  g_inv : exists L, Inv L root;
  g_keys : KeysND root;
  g_meet : MI root
}.

Lemma Good_nostar root : Good root -> nostar root.
Proof. intros [[L HI] _ _]. exact (inv_nostar _ _ _ _ _ HI). Qed.
Lemma Good_Uq root : Good root -> Uq root.
Proof. intros [[L HI] HK _]. exact (WFn_KeysND_Uq _ _ _ (inv_wf _ _ _ _ _ HI) HK). Qed.

Lemma Good_empty : Good empty_node.
Proof.
  constructor.
  - exists []. apply Inv_empty.
  - apply KeysND_empty.
  - intros es v x y H. rewrite cfind_empty in H. discriminate.
Qed.

Theorem Good_add mid root b root' : Good root -> add_binding mid root b = Ok root' -> Good root'.
Proof.
  intros HG H. pose proof (Good_nostar _ HG) as Hn. pose proof (Good_Uq _ HG) as HU. destruct HG as [[L HI] HK HM].
  constructor.
  - exists ((mid, b) :: L). eapply Inv_step; eauto.
  - eapply add_binding_KeysND; eauto.
  - destruct (add_binding_inv isLetter isNumber resolves body_ok resp_ok _ _ _ _ H) as (es & vfs & _ & Hc & _).
    assert (Hacc : accepts root es (b_verb b) mid).
    { apply (add_ok_iff mid b es vfs root Hn HU Hc). now rewrite H. }
    destruct Hacc as [A1 A2].
    intros es' v x y. rewrite !(cfind_add mid b es vfs root root' Hc H).
    destruct (nkey_eqb (keys es') (keys es)) eqn:Ek; cbn [andb]; [|apply HM].
    apply nkey_eqb_eq in Ek. rewrite !(cfind_keys root es' es _ Ek).
    intros Hx Hy.
    assert (Ex : x = mid).
    { destruct (str_eqb star_verb (b_verb b)); [congruence|now apply A1]. }
    subst x. destruct (str_eqb v (b_verb b)) eqn:Ev; [congruence|].
    destruct (str_eqb (b_verb b) star_verb) eqn:Eb.
    + symmetry. now apply (A2 v).
    + rewrite str_eqb_sym, Eb in Hx. eapply HM; eauto.
Qed.

Theorem Good_del name root : Good root -> Good (remove_method name root).
Proof.
  intros HG. pose proof (Good_Uq _ HG) as HU. destruct HG as [[L HI] HK HM].
  change (remove_method name root) with (dnode name root). constructor.
  - exists (filter (keepL name) L). now apply del_rule_Inv.
  - now apply del_rule_KeysND.
  - intros es v x y. rewrite !cfind_del by exact HU. intros Hx Hy.
    apply sdel_some in Hx. apply sdel_some in Hy. destruct Hx as [Hx _]. destruct Hy as [Hy _]. eapply HM; eauto.
Qed.

(* ================================================================================================ *)
(* ---- the abstraction relations ---- *)
(* exact: the abstract map holds the same bindings as the trie *)
Record Abs (root : node) (t : ctrie) : Prop := {
  abs_keys : NoDup (map fst t);
  abs_find : forall es v, c_find t (keys es) v = cfind root es v
}.
(* routing: what a key resolves to (own binding, else the "*" binding) is the same *)
Record AbsR (root : node) (t : ctrie) : Prop := {
  absr_keys : NoDup (map fst t);
  absr_lookup : forall es v, c_lookup t (keys es) v = clookup root es v
}.

Lemma Abs_AbsR root t : Abs root t -> AbsR root t.
Proof.
  intros [Hk Hf]. constructor; [exact Hk|]. intros es v. unfold a_lookup, clookup, oelse. now rewrite !Hf.
Qed.

(* the exact relation in the vocabulary of TrieProofs *)
Theorem Abs_stored root t : nostar root ->
  (Abs root t <->
   NoDup (map fst t) /\
   forall es v mid, c_find t (keys es) v = Some mid <->
                    exists i m, info_at root es = Some i /\ stored i v m /\ m_id m = mid).
Proof.
  intros Hn. split.
  - intros [Hk Hf]. split; [exact Hk|]. intros es v mid. rewrite Hf. now apply cfind_stored.
  - intros [Hk Hf]. constructor; [exact Hk|]. intros es v.
    destruct (cfind root es v) as [mid|] eqn:Ec.
    + apply Hf. now apply cfind_stored.
    + destruct (c_find t (keys es) v) as [mid|] eqn:Ea; [|reflexivity].
      apply Hf in Ea. apply (cfind_stored root es v mid Hn) in Ea. congruence.
Qed.

Lemma Abs_empty : Abs empty_node [].
Proof. constructor; [constructor|]. intros es v. now rewrite cfind_empty. Qed.
Lemma AbsR_empty : AbsR empty_node [].
Proof. apply Abs_AbsR, Abs_empty. Qed.

(* ---- refine_lookup ---- *)
Theorem refine_lookup root t es verb : Good root -> AbsR root t ->
  c_lookup t (keys es) verb =
  match walk_to es root with Some nd => om (bound_at verb nd) | None => None end.
Proof.
  intros HG [_ Hl]. rewrite Hl. destruct (walk_to es root) as [nd|] eqn:Ew.
  - apply clookup_bound; [now apply Good_nostar|exact Ew].
  - now apply clookup_absent.
Qed.
Corollary refine_lookup_at root t es nd verb : Good root -> Abs root t -> walk_to es root = Some nd ->
  c_lookup t (keys es) verb = om (bound_at verb nd).
Proof. intros HG HA Hw. rewrite (refine_lookup root t es verb HG (Abs_AbsR _ _ HA)), Hw. reflexivity. Qed.

(* ---- refine_del ---- *)
Theorem refine_del name root t : Good root -> Abs root t -> Abs (remove_method name root) (c_del t name).
Proof.
  intros HG [Hk Hf]. pose proof (Good_Uq _ HG) as HU. change (remove_method name root) with (dnode name root).
  constructor; [now apply cd_nodup|]. intros es v. rewrite (cf_del t name (keys es) v Hk), cfind_del by exact HU. now rewrite Hf.
Qed.
Theorem refine_del_R name root t : Good root -> AbsR root t -> AbsR (remove_method name root) (c_del t name).
Proof.
  intros HG [Hk Hl]. pose proof (Good_Uq _ HG) as HU. change (remove_method name root) with (dnode name root).
  constructor; [now apply cd_nodup|]. intros es v. rewrite (cl_del t name (keys es) v Hk).
  unfold clookup. rewrite !cfind_del by exact HU. apply oelse_odel.
  - pose proof (Hl es star_verb) as X. rewrite cl_star in X. unfold clookup in X. now rewrite oelse_same in X.
  - exact (Hl es v).
Qed.

(* ---- refine_add, one binding ---- *)
(* the abstract key of a binding: the node its template leads to, its verb; invalid when the template
   does not lex or compile (unknown field) or a body / response_body selector is refused *)
Definition abs_key (mid : str) (b : brule) : ckey :=
  match lex_template (b_tmpl b) with
  | Ok ts => match compile (S (length ts)) mid ts with
             | Ok r => AKey (keys (fst r)) (b_verb b) (sel_fine mid b)
             | _ => AKey [] (b_verb b) false
             end
  | _ => AKey [] (b_verb b) false
  end.
Lemma abs_key_compiled mid b es vfs : compiled mid b es vfs -> abs_key mid b = AKey (keys es) (b_verb b) (sel_fine mid b).
Proof. intros (toks & El & Ec). unfold abs_key. now rewrite El, Ec. Qed.
Lemma compiled_dec mid b : (exists es vfs, compiled mid b es vfs) \/ (forall es vfs, ~ compiled mid b es vfs).
Proof.
  unfold TrieProofs.compiled. destruct (lex_template (b_tmpl b)) as [toks| | |] eqn:El.
  - destruct (compile (S (length toks)) mid toks) as [[es vfs]| | |] eqn:Ec.
    + left. exists es, vfs, toks. auto.
    + right. intros es vfs (t2 & E1 & E2). injection E1 as <-. congruence.
    + right. intros es vfs (t2 & E1 & E2). injection E1 as <-. congruence.
    + right. intros es vfs (t2 & E1 & E2). injection E1 as <-. congruence.
  - right. intros es vfs (t2 & E1 & _). discriminate.
  - right. intros es vfs (t2 & E1 & _). discriminate.
  - right. intros es vfs (t2 & E1 & _). discriminate.
Qed.
Lemma abs_key_uncompiled mid b : (forall es vfs, ~ compiled mid b es vfs) -> ak_valid (abs_key mid b) = false.
Proof.
  intros Hno. unfold abs_key. destruct (lex_template (b_tmpl b)) as [toks| | |] eqn:El; try reflexivity.
  destruct (compile (S (length toks)) mid toks) as [[es vfs]| | |] eqn:Ec; try reflexivity.
  exfalso. apply (Hno es vfs). exists toks. auto.
Qed.
(* a failing template or selector is an invalid key, and conversely *)
Theorem abs_key_valid mid b :
  ak_valid (abs_key mid b) = true <-> (exists es vfs, compiled mid b es vfs) /\ sel_fine mid b = true.
Proof.
  destruct (compiled_dec mid b) as [(es & vfs & Hc)|Hno].
  - rewrite (abs_key_compiled _ _ _ _ Hc). cbn [ak_valid]. split; [intros H; split; [eauto|exact H]|tauto].
  - rewrite (abs_key_uncompiled _ _ Hno). split; [discriminate|]. intros [(es & vfs & Hc) _]. exfalso. exact (Hno es vfs Hc).
Qed.

(* acceptance: the trie accepts exactly when the abstract map does *)
Theorem refine_add_accept mid root t b : Good root -> Abs root t ->
  is_ok (add_binding mid root b) = is_ok (c_add t (abs_key mid b) mid).
Proof.
  intros HG [Hk Hf]. pose proof (Good_nostar _ HG) as Hn. pose proof (Good_Uq _ HG) as HU.
  destruct (compiled_dec mid b) as [(es & vfs & Hc)|Hno].
  2:{ rewrite (add_uncompiled mid b root Hno), ca_ok, (abs_key_uncompiled _ _ Hno). reflexivity. }
  rewrite (abs_key_compiled _ _ _ _ Hc). apply bool_eq_iff.
  rewrite (add_ok_iff mid b es vfs root Hn HU Hc). rewrite ca_ok. cbn [ak_node ak_verb ak_valid].
  rewrite !andb_true_iff, negb_true_iff, c_other_false. unfold accepts, idok.
  destruct (str_eqb (b_verb b) star_verb) eqn:Ev.
  - split.
    + intros (Hs & A1 & A2). split; [split; [exact Hs|]|].
      * intros m' F. rewrite Hf in F. now apply A1.
      * apply c_owned_true. intros v m' Hin. apply (A2 v). rewrite <- Hf. now apply cf_in_find.
    + intros [[Hs A1] A2]. split; [exact Hs|]. split.
      * intros x Hx. apply A1. now rewrite Hf.
      * intros v x Hx. rewrite <- Hf in Hx. apply (proj1 (c_owned_true _ _ _) A2 v). now apply cf_in.
  - split.
    + intros (Hs & A1 & A2). split; [split; [exact Hs|]|].
      * intros m' F. rewrite Hf in F. now apply A1.
      * apply negb_true_iff, c_other_false. intros m' F. rewrite Hf in F. now apply A2.
    + intros [[Hs A1] A2]. apply negb_true_iff in A2. split; [exact Hs|]. split.
      * intros x Hx. apply A1. now rewrite Hf.
      * intros x Hx. apply (proj1 (c_other_false _ _) A2). now rewrite Hf.
Qed.

(* the statement: same verdict; when both accept, the same outcome "stored now / already registered" (new
   exactly when the node had no binding under that verb; "already registered" leaves the trie as it
   is), and the results are related again *)
Definition add_agree (root : node) (es : list edge) (v : str) (c : outcome node) (a : outcome (ctrie * bool)) : Prop :=
  match c, a with
  | Ok root', Ok (t', fl) =>
      Abs root' t' /\ Good root' /\ (fl = true <-> cfind root es v = None) /\ (fl = false -> root' = root)
  | Err _, Err e => e = EInvalid
  | _, _ => False
  end.
Theorem refine_add mid root t b es vfs : Good root -> Abs root t -> compiled mid b es vfs ->
  add_agree root es (b_verb b) (add_binding mid root b) (c_add t (abs_key mid b) mid).
Proof.
  intros HG HA Hc. pose proof (refine_add_accept mid root t b HG HA) as Hacc.
  pose proof (add_binding_benign isLetter isNumber resolves body_ok resp_ok mid root b) as Hb.
  pose proof (ca_err t (abs_key mid b) mid) as He.
  destruct (add_binding mid root b) as [root'|e| |] eqn:E; cbn [benign] in Hb; try contradiction;
    destruct (c_add t (abs_key mid b) mid) as [[t' fl]|e'| |] eqn:Ea; try contradiction; cbn [is_ok] in Hacc; try discriminate;
    cbn [add_agree]; [|exact He].
  destruct HA as [Hk Hf]. rewrite (abs_key_compiled _ _ _ _ Hc) in Ea.
  pose proof (ca_nodup _ _ _ _ _ Ea Hk) as Hk'. apply ca_inv in Ea. cbn [ak_node ak_verb ak_valid] in Ea.
  destruct Ea as (_ & _ & _ & Hcase). rewrite Hf in Hcase.
  assert (HA' : Abs root' t').
  { constructor; [exact Hk'|]. intros es' v. rewrite (cfind_add mid b es vfs root root' Hc E).
    destruct Hcase as [(_ & -> & F)|(_ & -> & F)].
    - rewrite Hf. destruct (nkey_eqb (keys es') (keys es)) eqn:Ek; cbn [andb]; [|reflexivity].
      destruct (str_eqb v (b_verb b)) eqn:Ev; [|reflexivity].
      apply nkey_eqb_eq in Ek. apply str_eqb_eq in Ev. subst v. now rewrite (cfind_keys root es' es _ Ek).
    - rewrite cf_cons, Hf. now rewrite (nkey_eqb_sym (keys es) (keys es')), (str_eqb_sym (b_verb b) v). }
  split; [exact HA'|]. split; [eapply Good_add; eauto|].
  assert (Hfl : fl = true <-> cfind root es (b_verb b) = None).
  { destruct Hcase as [(-> & _ & F)|(-> & _ & F)]; rewrite F; split; congruence. }
  split; [exact Hfl|]. intros ->. destruct HG as [[L HI] _ _]. apply (add_binding_same mid b es vfs root root' L HI Hc E).
  intros X. apply Hfl in X. discriminate.
Qed.
(* without naming the edges *)
Corollary refine_add_rel mid root t b root' t' fl : Good root -> Abs root t ->
  add_binding mid root b = Ok root' -> c_add t (abs_key mid b) mid = Ok (t', fl) -> Good root' /\ Abs root' t'.
Proof.
  intros HG HA E Ea.
  destruct (add_binding_inv isLetter isNumber resolves body_ok resp_ok _ _ _ _ E) as (es & vfs & _ & Hc & _).
  pose proof (refine_add mid root t b es vfs HG HA Hc) as X. rewrite E, Ea in X. cbn [add_agree] in X. tauto.
Qed.

(* ================================================================================================ *)
(* ---- composite registrations ---- *)
(* simulation of one composite step: same verdict; when both accept, the results are related again *)
Definition sim {X : Type} (p : X -> ctrie) (c : outcome node) (a : outcome X) : Prop :=
  is_ok c = is_ok a /\
  forall root' x, c = Ok root' -> a = Ok x -> Good root' /\ Abs root' (p x).

Lemma sim_seq {X : Type} (p : X -> ctrie) c1 (a1 : outcome X) (C2 : node -> outcome node) (A2 : X -> outcome ctrie) :
  sim p c1 a1 ->
  (forall root1 x, Good root1 -> Abs root1 (p x) -> sim (fun t => t) (C2 root1) (A2 x)) ->
  sim (fun t => t) (bind c1 C2) (bind a1 A2).
Proof.
  intros [H1 H2] Hnext. unfold sim.
  destruct c1 as [root1| | |], a1 as [x| | |]; cbn [bind is_ok] in *; try discriminate;
    try (split; [reflexivity|intros r y Hr Hy; discriminate]).
  destruct (H2 root1 x eq_refl eq_refl) as [HG HA]. exact (Hnext root1 x HG HA).
Qed.
Lemma sim_add mid root t b : Good root -> Abs root t ->
  sim fst (add_binding mid root b) (c_add t (abs_key mid b) mid).
Proof.
  intros HG HA. split; [now apply refine_add_accept|].
  intros root' [t' fl] Hc Ha. eapply refine_add_rel; eauto.
Qed.
Lemma sim_ret root t : Good root -> Abs root t -> sim (fun t => t) (Ok root) (Ok t).
Proof. intros HG HR. split; [reflexivity|]. intros r x Hr Hx. injection Hr as <-. injection Hx as <-. auto. Qed.

(* the abstract descriptors of concrete rules *)
Definition abs_key_add (mid : str) (a : brule) : ckey :=
  if b_nested a then AKey [] (b_verb a) false else abs_key mid a.
Definition abs_rule (mid : str) (r : hrule) : arule nkey str :=
  ARule (abs_key mid (h_main r)) (map (abs_key_add mid) (h_adds r)).
Definition decl_rules (d : mdecl) : list hrule :=
  d_config d ++ match d_annot d with Some r => [r] | None => [] end.
Definition abs_decl (d : mdecl) : adecl nkey str str :=
  ADecl (d_id d) (abs_key (d_id d) (h_main (implicit_rule (d_id d)))) (map (abs_rule (d_id d)) (decl_rules d)).

(* additional bindings, in order *)
Lemma sim_additional mid : forall adds root t, Good root -> Abs root t ->
  sim (fun t => t) (add_additional mid root adds) (c_add_all t (map (abs_key_add mid) adds) mid).
Proof.
  induction adds as [|a adds IH]; intros root t HG HA; cbn [Trie.add_additional a_add_all map].
  - now apply sim_ret.
  - unfold abs_key_add at 1. destruct (b_nested a).
    + rewrite a_add_invalid by reflexivity. cbn [bind]. split; [reflexivity|intros r x Hr; discriminate].
    + apply (sim_seq fst); [now apply sim_add|]. intros root1 x HG1 HA1. now apply IH.
Qed.

(* a rule: main binding, then its additional bindings *)
Theorem refine_add_rule mid r root t : Good root -> Abs root t ->
  sim (fun t => t) (add_rule mid root r) (c_add_rule t (abs_rule mid r) mid).
Proof.
  intros HG HA. unfold Trie.add_rule, a_add_rule, abs_rule. cbn [ar_main ar_add].
  apply (sim_seq fst); [now apply sim_add|]. intros root1 x HG1 HA1. now apply sim_additional.
Qed.

(* a list of rules, in order *)
Theorem refine_add_rules mid : forall rs root t, Good root -> Abs root t ->
  sim (fun t => t) (add_rules mid root rs) (c_add_rules t (map (abs_rule mid) rs) mid).
Proof.
  induction rs as [|r rs IH]; intros root t HG HA; cbn [Trie.add_rules a_add_rules map].
  - now apply sim_ret.
  - apply (sim_seq (fun t => t)); [now apply refine_add_rule|]. intros root1 x HG1 HA1. now apply IH.
Qed.

(* appendHandler: implicit rule, service-config rules, annotation *)
Lemma add_rules_app mid : forall l1 l2 root,
  add_rules mid root (l1 ++ l2) = (do r <- add_rules mid root l1; add_rules mid r l2).
Proof.
  induction l1 as [|x l1 IH]; intros l2 root; [reflexivity|].
  cbn [app Trie.add_rules]. destruct (add_rule mid root x) as [r1| | |]; cbn [bind]; [apply IH|reflexivity|reflexivity|reflexivity].
Qed.
Lemma add_rule_implicit mid root :
  add_rule mid root (implicit_rule mid) = add_binding mid root (h_main (implicit_rule mid)).
Proof.
  unfold Trie.add_rule. cbn [h_adds implicit_rule Trie.add_additional].
  destruct (add_binding mid root _); reflexivity.
Qed.
Lemma append_handler_eq root d :
  append_handler root d =
  (do root1 <- add_binding (d_id d) root (h_main (implicit_rule (d_id d))); add_rules (d_id d) root1 (decl_rules d)).
Proof.
  unfold Trie.append_handler, decl_rules. rewrite add_rule_implicit.
  destruct (add_binding (d_id d) root (h_main (implicit_rule (d_id d)))) as [root1| | |]; cbn [bind]; try reflexivity.
  rewrite add_rules_app. destruct (add_rules (d_id d) root1 (d_config d)) as [root2| | |]; cbn [bind]; try reflexivity.
  destruct (d_annot d) as [r|]; cbn [Trie.add_rules]; [|reflexivity].
  destruct (add_rule (d_id d) root2 r); reflexivity.
Qed.
Theorem refine_append root t d : Good root -> Abs root t ->
  sim (fun t => t) (append_handler root d) (c_append t (abs_decl d)).
Proof.
  intros HG HA. rewrite append_handler_eq. unfold a_append, abs_decl. cbn [ad_name ad_implicit ad_rules].
  apply (sim_seq fst); [now apply sim_add|]. intros root1 x HG1 HA1. now apply refine_add_rules.
Qed.

(* the method loop of registerService *)
Theorem refine_register : forall ds root t, Good root -> Abs root t ->
  sim (fun t => t) (register_methods root ds) (c_register t (map abs_decl ds)).
Proof.
  induction ds as [|d ds IH]; intros root t HG HA; cbn [Trie.register_methods a_register map].
  - now apply sim_ret.
  - apply (sim_seq (fun t => t)); [now apply refine_append|]. intros root1 x HG1 HA1. now apply IH.
Qed.

(* ================================================================================================ *)
(* ---- histories: registerService and removeHandler interleaved (DelProofs.run_ops) ---- *)
Notation run_ops := (DelProofs.run_ops isLetter isNumber resolves body_ok resp_ok).

Fixpoint arun (t : ctrie) (ops : list op) : ctrie :=
  match ops with
  | [] => t
  | OReg ds :: rest => arun (c_register_service t (map abs_decl ds)) rest
  | ODel name :: rest => arun (c_del t name) rest
  end.
(* the verdicts of the registrations, in order *)
Fixpoint ctrace (root : node) (ops : list op) : list bool :=
  match ops with
  | [] => []
  | OReg ds :: rest => snd (register_service root ds) :: ctrace (fst (register_service root ds)) rest
  | ODel name :: rest => ctrace (remove_method name root) rest
  end.
Fixpoint atrace (t : ctrie) (ops : list op) : list bool :=
  match ops with
  | [] => []
  | OReg ds :: rest => is_ok (c_register t (map abs_decl ds)) :: atrace (c_register_service t (map abs_decl ds)) rest
  | ODel name :: rest => atrace (c_del t name) rest
  end.
Lemma run_ops_app o1 : forall o2 root, run_ops root (o1 ++ o2) = run_ops (run_ops root o1) o2.
Proof. induction o1 as [|[ds|name] o1 IH]; intros o2 root; cbn [app DelProofs.run_ops]; auto. Qed.
Lemma arun_app o1 : forall o2 t, arun t (o1 ++ o2) = arun (arun t o1) o2.
Proof. induction o1 as [|[ds|name] o1 IH]; intros o2 t; cbn [app arun]; auto. Qed.

(* the invariants hold of every trie of the life cycle *)
Theorem Good_lifecycle : forall ops root, Good root -> Good (run_ops root ops).
Proof.
  induction ops as [|[ds|name] ops IH]; intros root HG; cbn [DelProofs.run_ops]; [exact HG| |].
  - apply IH. unfold Trie.register_service. destruct (register_methods root ds) as [r1| | |] eqn:E; cbn [fst]; auto.
    eapply (register_methods_pres isLetter isNumber resolves body_ok resp_ok Good); [|exact E|exact HG].
    intros mid r b r' Hadd Hg. eapply Good_add; eauto.
  - apply IH. now apply Good_del.
Qed.

(* one registerService: all or nothing on both sides, same verdict *)
Theorem refine_service root t ds : Good root -> Abs root t ->
  Good (fst (register_service root ds)) /\
  Abs (fst (register_service root ds)) (c_register_service t (map abs_decl ds)) /\
  snd (register_service root ds) = is_ok (c_register t (map abs_decl ds)).
Proof.
  intros HG HA. destruct (refine_register ds root t HG HA) as [Hv Hrel].
  unfold Trie.register_service, a_register_service.
  destruct (register_methods root ds) as [root'| | |] eqn:Ec; destruct (c_register t (map abs_decl ds)) as [t'| | |] eqn:Ea;
    cbn [is_ok fst snd] in *; try discriminate; auto.
  destruct (Hrel root' t' eq_refl eq_refl). auto.
Qed.

(* every history: the exact relation, the invariants and the verdicts *)
Theorem refine_history_exact : forall ops root t, Good root -> Abs root t ->
  Good (run_ops root ops) /\ Abs (run_ops root ops) (arun t ops) /\ ctrace root ops = atrace t ops.
Proof.
  induction ops as [|[ds|name] ops IH]; intros root t HG HA; cbn [DelProofs.run_ops arun ctrace atrace] in *.
  - auto.
  - destruct (refine_service root t ds HG HA) as (HG1 & HA1 & Hv).
    destruct (IH _ _ HG1 HA1) as (A & B & C). split; [exact A|]. split; [exact B|]. now rewrite Hv, C.
  - apply IH; [now apply Good_del|now apply refine_del].
Qed.
(* ... hence the routing relation *)
Theorem refine_history ops root t : Good root -> Abs root t ->
  AbsR (run_ops root ops) (arun t ops) /\ ctrace root ops = atrace t ops.
Proof.
  intros HG HA. destruct (refine_history_exact ops root t HG HA) as (_ & B & C). split; [now apply Abs_AbsR|exact C].
Qed.

(* at every point of every history of the published trie: what the abstract map resolves a key to is
   what search finds bound at that node, and the registrations had the same verdicts so far *)
Corollary refine_published ops es verb :
  c_lookup (arun [] ops) (keys es) verb =
    match walk_to es (run_ops empty_node ops) with Some nd => om (bound_at verb nd) | None => None end /\
  ctrace empty_node ops = atrace [] ops.
Proof.
  destruct (refine_history_exact ops empty_node [] Good_empty Abs_empty) as (HG & HA & Hv).
  split; [apply refine_lookup; [exact HG|now apply Abs_AbsR]|exact Hv].
Qed.
(* ... and which method a key is bound to in the abstract state is exactly what the trie stores *)
Corollary refine_published_exact ops es v mid :
  (c_find (arun [] ops) (keys es) v = Some mid <->
   exists i m, info_at (run_ops empty_node ops) es = Some i /\ stored i v m /\ m_id m = mid).
Proof.
  destruct (refine_history_exact ops empty_node [] Good_empty Abs_empty) as (HG & HA & _).
  apply (Abs_stored _ _ (Good_nostar _ HG)) in HA. destruct HA as [_ HA]. apply HA.
Qed.

(* ---- requests: the method search serves is the one the abstract map binds at the matched node ---- *)
Variable okconv : list str -> str -> bool.
Theorem refine_route root t verb p m caps : Good root -> AbsR root t ->
  Match.route okconv isLetter isNumber root verb p = Ok (m, caps) ->
  exists es toks, lex_path isLetter isNumber (normalise p) = Ok toks /\ MatchEdges es toks caps /\
                  c_lookup t (keys es) verb = Some (m_id m).
Proof.
  intros HG HR H. unfold Match.route in H.
  destruct (lex_path isLetter isNumber (normalise p)) as [toks| | |] eqn:El; try discriminate.
  destruct (search_sound okconv _ _ _ _ _ H) as (es & nd' & HRe & HB & HM). cbn [fst snd] in HB, HM.
  pose proof HG as [[L HI] _ _].
  destruct (Reach_walk PatG _ _ _ HRe 0%nat (inv_wf _ _ _ _ _ HI)) as (Hw & _ & _).
  exists es, toks. split; [reflexivity|]. split; [exact HM|].
  rewrite (refine_lookup root t es verb HG HR), Hw, HB. reflexivity.
Qed.

End Refine.

(* ================================================================================================ *)
(* ---- concrete instances: where the full-strength statement of refine_add fails, and an example ---- *)
Module RefineExample.
Import DelExample.
Definition POST := sv [80;79;83;84].
Definition px := sv [47;120].      (* "/x" *)
Definition py := sv [47;121].      (* "/y" *)
Definition bind_of (verb tmpl : str) : brule :=
  {| b_verb := verb; b_tmpl := tmpl; b_body := BNone; b_resp := []; b_nested := false |}.
Notation addb := (Trie.add_binding all_ok all_ok all_ok asciiL asciiN).
Notation akey_of := (abs_key asciiL asciiN all_ok all_ok all_ok).
Notation XGood := (Good asciiL asciiN all_ok).
Definition from_ok (r : outcome node) : node := match r with Ok x => x | _ => empty_node end.

Lemma first_binding mid b root t :
  addb mid empty_node b = Ok root -> c_add [] (akey_of mid b) mid = Ok (t, true) -> XGood root /\ Abs root t.
Proof.
  intros E Ea.
  exact (refine_add_rel asciiL asciiN all_ok all_ok all_ok _ _ _ _ _ _ _ (Good_empty asciiL asciiN all_ok) Abs_empty E Ea).
Qed.

(* --- 1. BEFORE THE REPAIR of Registry.t_add (a_add_loose is the old definition).
       A "*" binding at a node where another method holds a verb binding: larking/rules.go and Model/Trie.v
       refuse ("duplicate rule": all bindings that meet belong to one method, in either order -- commit
       0a1e861), the old t_add accepted; the repaired one refuses.  --- *)
Definition root1 : node := from_ok (addb mA empty_node (bind_of GET px)).          (* GET /x -> A *)
Definition t1 : ctrie := [([KLit px], GET, mA)].
Lemma root1_rel : XGood root1 /\ Abs root1 t1.
Proof. apply (first_binding mA (bind_of GET px)); vm_compute; reflexivity. Qed.
Theorem refine_add_refuted :
  XGood root1 /\ Abs root1 t1 /\
  addb mB root1 (bind_of star_verb px) = Err EInvalid /\                                              (* "* /x" for B: refused *)
  c_add_loose t1 (akey_of mB (bind_of star_verb px)) mB = Ok (([KLit px], star_verb, mB) :: t1, true) /\   (* was accepted, new *)
  c_add t1 (akey_of mB (bind_of star_verb px)) mB = Err EInvalid /\                                   (* now refused *)
  (* the same step at nat, node "/x" = 1, verbs "*" = 0 and GET = 1, methods A = 1 and B = 2 *)
  a_add_loose nat nat nat Nat.eqb Nat.eqb Nat.eqb 0%nat [(1, 1, 1)]%nat (AKey 1 0 true)%nat 2%nat
    = Ok ([(1, 0, 2); (1, 1, 1)]%nat, true) /\
  Registry.t_add [(1, 1, 1)]%nat (Registry.BKey 1 0 true) 2%nat = Err EInvalid.
Proof.
  destruct root1_rel as [HG HA]. split; [exact HG|]. split; [exact HA|]. vm_compute. repeat split; reflexivity.
Qed.
Corollary refine_add_verdict_refuted :
  ~ (forall root t mid b, XGood root -> Abs root t -> is_ok (addb mid root b) = is_ok (c_add_loose t (akey_of mid b) mid)).
Proof.
  intros H. destruct refine_add_refuted as (HG & HA & E1 & E2 & _).
  specialize (H root1 t1 mB (bind_of star_verb px) HG HA). rewrite E1, E2 in H. discriminate.
Qed.

(* the repaired Registry refuses the registration that its specification [unobstructed] excludes
   (B's "*" key at node 1 meets A's GET key there); before, both were accepted *)
Local Open Scope nat_scope.
Definition rA := Registry.MDesc 1 10 [Registry.Rule (Registry.BKey 1 1 true) []].     (* A: implicit node 10; GET at node 1 *)
Definition rB := Registry.MDesc 2 20 [Registry.Rule (Registry.BKey 1 0 true) []].     (* B: implicit node 20; "*" at node 1 *)
Example registry_refuses_obstructed :
  map snd (Registry.trace [Registry.RegLocal 0 [rA]; Registry.RegLocal 1 [rB]]) = [Registry.ROk; Registry.RErr] /\
  Registry.unobstructed (Registry.live_table (Registry.trace [Registry.RegLocal 0 [rA]])) [rB] = false /\
  Registry.route (Registry.run [Registry.RegLocal 0 [rA]; Registry.RegLocal 1 [rB]]) 1 1 = Some 1 /\   (* GET at node 1: A *)
  Registry.route (Registry.run [Registry.RegLocal 0 [rA]; Registry.RegLocal 1 [rB]]) 1 7 = None.       (* any other verb: nothing *)
Proof. vm_compute. repeat split; reflexivity. Qed.
Local Close Scope nat_scope.

(* --- 2. BEFORE THE REPAIR.  A verb binding at a node where the same method holds "*": larking stores it
       (methods[verb] = m), the old t_add answered "already registered" and recorded nothing -- not visible
       through t_lookup (the key resolved to the method already), visible through t_find.  The repaired one
       stores it, as new.  --- *)
Definition root2 : node := from_ok (addb mA empty_node (bind_of star_verb px)).    (* "*" /x -> A *)
Definition t2 : ctrie := [([KLit px], star_verb, mA)].
Definition root3 : node := from_ok (addb mA root2 (bind_of GET px)).               (* then GET /x -> A *)
Lemma root2_rel : XGood root2 /\ Abs root2 t2.
Proof. apply (first_binding mA (bind_of star_verb px)); vm_compute; reflexivity. Qed.
Theorem refine_add_state_refuted :
  XGood root2 /\ Abs root2 t2 /\
  addb mA root2 (bind_of GET px) = Ok root3 /\ root3 <> root2 /\                           (* stored: the trie changes *)
  c_add_loose t2 (akey_of mA (bind_of GET px)) mA = Ok (t2, false) /\                      (* was "already registered" *)
  cfind root3 [ELit px] GET = Some mA /\ c_find t2 [KLit px] GET = None /\                (* the binding was missing *)
  ~ Abs root3 t2 /\ AbsR root3 t2 /\
  c_add t2 (akey_of mA (bind_of GET px)) mA = Ok (([KLit px], GET, mA) :: t2, true) /\     (* now: stored, new *)
  Abs root3 (([KLit px], GET, mA) :: t2) /\
  a_add_loose nat nat nat Nat.eqb Nat.eqb Nat.eqb 0%nat [(1, 0, 1)]%nat (AKey 1 1 true)%nat 1%nat = Ok ([(1, 0, 1)]%nat, false) /\
  Registry.t_add [(1, 0, 1)]%nat (Registry.BKey 1 1 true) 1%nat = Ok ([(1, 1, 1); (1, 0, 1)]%nat, true).
Proof.
  destruct root2_rel as [HG HA].
  assert (E : addb mA root2 (bind_of GET px) = Ok root3) by (vm_compute; reflexivity).
  assert (Ea : c_add t2 (akey_of mA (bind_of GET px)) mA = Ok (([KLit px], GET, mA) :: t2, true)) by (vm_compute; reflexivity).
  assert (C1 : cfind root3 [ELit px] GET = Some mA) by (vm_compute; reflexivity).
  assert (C2 : c_find t2 [KLit px] GET = None) by (vm_compute; reflexivity).
  destruct (refine_add_rel asciiL asciiN all_ok all_ok all_ok _ _ _ _ _ _ _ HG HA E Ea) as [HG3 HA3].
  split; [exact HG|]. split; [exact HA|]. split; [exact E|]. split; [vm_compute; discriminate|].
  split; [vm_compute; reflexivity|]. split; [exact C1|]. split; [exact C2|]. split; [|split; [|split; [exact Ea|split; [exact HA3|]]]].
  - intros [_ Hf]. specialize (Hf [ELit px] GET). change (keys [ELit px]) with [KLit px] in Hf. congruence.
  - (* the old result still resolved every key alike *)
    pose proof (Abs_AbsR _ _ HA3) as [_ Hl]. constructor; [repeat constructor; intros []|].
    intros es v. rewrite <- Hl. unfold a_lookup. rewrite !cf_cons.
    destruct (nkey_eqb [KLit px] (keys es)) eqn:Ek; cbn [andb]; [|reflexivity].
    change (str_eqb GET star_verb) with false. destruct (str_eqb GET v) eqn:Ev; [|reflexivity].
    apply nkey_eqb_eq in Ek. apply str_eqb_eq in Ev. subst v. rewrite <- Ek, C2. reflexivity.
  - vm_compute. split; reflexivity.
Qed.

(* --- 3. two methods, a shared node, one removal --- *)
(* A: GET /x with the additional binding GET /y;  B: POST /x;  both with their implicit "*" rule *)
Definition eA := {| d_id := mA; d_config := [{| h_main := bind_of GET px; h_adds := [bind_of GET py] |}]; d_annot := None |}.
Definition eB := {| d_id := mB; d_config := []; d_annot := Some (mk POST px) |}.
Definition history := [OReg [eA; eB]; ODel mB].
Notation crun := (run_ops asciiL asciiN all_ok all_ok all_ok).
Notation xrun := (arun asciiL asciiN all_ok all_ok all_ok).
Definition kS (x : N) : nkey := [KLit (sv [47;83]); KLit (sv [47;x])].      (* the node of "/S/A", "/S/B" *)
Definition tAB : ctrie :=
  [([KLit px], POST, mB); (kS 66, star_verb, mB); ([KLit py], GET, mA); ([KLit px], GET, mA); (kS 65, star_verb, mA)].
Definition tA : ctrie := [([KLit py], GET, mA); ([KLit px], GET, mA); (kS 65, star_verb, mA)].
Definition iX (mid : str) (body : bsel) := {| m_id := mid; m_vars := []; m_body := body; m_resp := [] |}.

Example abstract_counterpart :
  (* the abstract runs *)
  xrun [] [OReg [eA; eB]] = tAB /\ xrun [] history = tA /\
  (* the shared node "/x" of the trie, before and after the removal of B *)
  info_at (crun empty_node [OReg [eA; eB]]) [ELit px] = Some ([(GET, iX mA BNone); (POST, iX mB BNone)], None) /\
  info_at (crun empty_node history) [ELit px] = Some ([(GET, iX mA BNone)], None) /\
  (* keys resolve alike, before ... *)
  c_lookup tAB [KLit px] GET = Some mA /\ clookup (crun empty_node [OReg [eA; eB]]) [ELit px] GET = Some mA /\
  c_lookup tAB [KLit px] POST = Some mB /\ clookup (crun empty_node [OReg [eA; eB]]) [ELit px] POST = Some mB /\
  c_lookup tAB (kS 66) GET = Some mB /\ clookup (crun empty_node [OReg [eA; eB]]) [ELit (sv [47;83]); ELit (sv [47;66])] GET = Some mB /\
  (* ... and after *)
  c_lookup tA [KLit px] POST = None /\ clookup (crun empty_node history) [ELit px] POST = None /\
  c_lookup tA (kS 66) GET = None /\ clookup (crun empty_node history) [ELit (sv [47;83]); ELit (sv [47;66])] GET = None /\
  c_lookup tA [KLit py] GET = Some mA /\ clookup (crun empty_node history) [ELit py] GET = Some mA /\
  (* the same registrations were accepted *)
  ctrace asciiL asciiN all_ok all_ok all_ok empty_node history = [true] /\
  atrace asciiL asciiN all_ok all_ok all_ok [] history = [true].
Proof. vm_compute. repeat split; reflexivity. Qed.

(* the theorems apply to it: the relation holds at both points *)
Example history_related :
  Abs (crun empty_node [OReg [eA; eB]]) tAB /\ Abs (crun empty_node history) tA.
Proof.
  destruct abstract_counterpart as (E1 & E2 & _). rewrite <- E1, <- E2.
  split; apply refine_history_exact; solve [apply Good_empty|apply Abs_empty].
Qed.

End RefineExample.

(* ---- assumptions of the main theorems ---- *)
Print Assumptions Abs_stored.
Print Assumptions refine_lookup.
Print Assumptions refine_route.
Print Assumptions refine_del.
Print Assumptions refine_del_R.
Print Assumptions abs_key_valid.
Print Assumptions add_binding_same.
Print Assumptions refine_add_accept.
Print Assumptions refine_add.
Print Assumptions refine_add_rel.
Print Assumptions refine_add_rule.
Print Assumptions refine_add_rules.
Print Assumptions refine_append.
Print Assumptions refine_register.
Print Assumptions refine_service.
Print Assumptions Good_add.
Print Assumptions Good_del.
Print Assumptions Good_lifecycle.
Print Assumptions refine_history_exact.
Print Assumptions refine_history.
Print Assumptions refine_published.
Print Assumptions refine_published_exact.
Print Assumptions RefineExample.refine_add_refuted.
Print Assumptions RefineExample.refine_add_verdict_refuted.
Print Assumptions RefineExample.registry_refuses_obstructed.
Print Assumptions RefineExample.refine_add_state_refuted.
Print Assumptions RefineExample.abstract_counterpart.
Print Assumptions RefineExample.history_related.
Print Assumptions RegistryInstance.t_add_instance.
Print Assumptions RegistryInstance.step_reglocal_instance.
