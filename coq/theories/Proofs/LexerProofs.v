(* The recursive-descent template lexer (Model/Lexer.v) accepts exactly the token grammar of
   Spec/Grammar.v: soundness (every accepted template is a derivation, its tokens spell the input,
   at most 64 of them) and completeness (every derivation of at most 64 tokens is accepted). *)
From Larking Require Import Base.GoSem Model.Lexer Spec.Grammar.
Local Open Scope N_scope.

Lemma spell_app a b : spell (a ++ b) = spell a ++ spell b.
Proof. unfold spell. now rewrite map_app, concat_app. Qed.
Lemma spell_cons t ts : spell (t :: ts) = tval t ++ spell ts.
Proof. reflexivity. Qed.

Section LexerProofs.
Variables isLetter isNumber : N -> bool.
Notation is_ident := (is_ident isLetter isNumber).
Notation is_literal := (is_literal isLetter isNumber).
Notation lex_run := (lex_run).
Notation PSeg := (PSeg isLetter isNumber).
Notation PSegs := (PSegs isLetter isNumber).
Notation Seg := (Seg isLetter isNumber).
Notation Segs := (Segs isLetter isNumber).
Notation FieldPath := (FieldPath isLetter isNumber).
Notation Tmpl := (Tmpl isLetter isNumber).

(* ---- span ---- *)
Definition stops (p : N -> bool) (rest : str) : Prop := match rest with [] => True | x :: _ => p x = false end.

Lemma span_spec p l v rest : span p l = (v, rest) -> l = v ++ rest /\ forallb p v = true /\ stops p rest.
Proof.
  revert v rest. induction l as [|x l IH]; intros v rest H; cbn in H.
  - inversion H; subst. cbn. auto.
  - destruct (p x) eqn:Ex.
    + destruct (span p l) as [a b] eqn:Es. inversion H; subst.
      destruct (IH a rest eq_refl) as (E1 & E2 & E3). subst l. cbn. rewrite Ex, E2. auto.
    + inversion H; subst. cbn. auto.
Qed.
Lemma span_app p v rest : forallb p v = true -> stops p rest -> span p (v ++ rest) = (v, rest).
Proof.
  intros Hv Hr. induction v as [|x v IH]; cbn.
  - destruct rest as [|y r]; cbn in *; auto. now rewrite Hr.
  - cbn in Hv. apply andb_true_iff in Hv. destruct Hv as [Hx Hv]. rewrite Hx, (IH Hv). reflexivity.
Qed.

(* ---- emit ---- *)
Definition Ext (s : lst) (new : list token) (s' : lst) : Prop :=
  toks s' = rev new ++ toks s /\ inp s = spell new ++ inp s'.

Lemma Ext_refl s : Ext s [] s.
Proof. split; reflexivity. Qed.
Lemma Ext_trans s a s1 b s2 : Ext s a s1 -> Ext s1 b s2 -> Ext s (a ++ b) s2.
Proof.
  intros [A1 A2] [B1 B2]. split.
  - rewrite B1, A1, rev_app_distr, app_assoc. reflexivity.
  - rewrite A2, B2, spell_app, app_assoc. reflexivity.
Qed.

Lemma emit_ok k v rest s s' :
  emit k v rest s = Ok s' ->
  (length (toks s) < 64)%nat /\ s' = Lst rest (Tok k v :: toks s) (last s).
Proof.
  unfold emit, token_cap. destruct (Nat.leb 64 (length (toks s))) eqn:E; [discriminate|].
  intros H. inversion H. apply Nat.leb_gt in E. auto.
Qed.
Lemma emit_Ext k v rest s s' :
  emit k v rest s = Ok s' -> inp s = v ++ rest ->
  Ext s [Tok k v] s' /\ last s' = last s /\ inp s' = rest /\ (length (toks s') <= 64)%nat.
Proof.
  intros H Hi. apply emit_ok in H. destruct H as [Hl ->]. unfold Ext. cbn.
  rewrite app_nil_r. repeat split; auto; lia.
Qed.
Lemma emit_do k v rest s :
  (length (toks s) < 64)%nat -> emit k v rest s = Ok (Lst rest (Tok k v :: toks s) (last s)).
Proof. intros H. unfold emit, token_cap. apply Nat.leb_gt in H. now rewrite H. Qed.

(* ---- lex_run ---- *)
Lemma lex_run_sound k p s s' :
  lex_run k p s = Ok s' ->
  exists v, Ext s [Tok k v] s' /\ v <> [] /\ forallb p v = true /\ stops p (inp s') /\ last s' = last s
            /\ (length (toks s') <= 64)%nat.
Proof.
  unfold Lexer.lex_run. destruct (span p (inp s)) as [v rest] eqn:Es.
  destruct (span_spec _ _ _ _ Es) as (E1 & E2 & E3).
  destruct v as [|x v]; [intros H; discriminate H|]. cbn [is_nil].
  intros H. destruct (emit_Ext _ _ _ _ _ H E1) as (A & B & C & D).
  exists (x :: v). rewrite C. split; [exact A|]. split; [intros HH; discriminate HH|]. repeat split; auto.
Qed.
Lemma lex_run_complete k p v rest ts lf :
  v <> [] -> forallb p v = true -> stops p rest -> (length ts < 64)%nat ->
  lex_run k p (Lst (v ++ rest) ts lf) = Ok (Lst rest (Tok k v :: ts) lf).
Proof.
  intros Hv Hp Hs Hl. unfold Lexer.lex_run. cbn [inp]. rewrite (span_app _ _ _ Hp Hs).
  destruct v; [contradiction|]. cbn [is_nil]. now rewrite emit_do.
Qed.

(* ---- field paths ---- *)
Inductive DotTail : list token -> Prop :=
| DT_nil : DotTail []
| DT_cons v rest : ident_ok isLetter isNumber v = true -> DotTail rest -> DotTail (tDot :: Tok TIdent v :: rest).
Lemma FieldPath_of_tail v tail : ident_ok isLetter isNumber v = true -> DotTail tail -> FieldPath (Tok TIdent v :: tail).
Proof.
  intros Hv Ht. revert v Hv. induction Ht as [|w rest Hw Ht IH]; intros v Hv.
  - now constructor.
  - apply FP_cons; auto.
Qed.
Lemma tail_of_FieldPath fp : FieldPath fp -> exists v tail, fp = Tok TIdent v :: tail /\ ident_ok isLetter isNumber v = true /\ DotTail tail.
Proof.
  induction 1 as [v Hv|v rest Hv Hf (w & tail & -> & Hw & Ht)].
  - exists v, []. repeat split; auto. constructor.
  - exists v, (tDot :: Tok TIdent w :: tail). repeat split; auto. now constructor.
Qed.

Lemma ident_ok_of v : v <> [] -> forallb is_ident v = true -> ident_ok isLetter isNumber v = true.
Proof. intros Hv Hp. unfold ident_ok. rewrite Hp. destruct v; [contradiction|reflexivity]. Qed.

Lemma hd_is_some c l r : hd_is c l = Some r <-> l = c :: r.
Proof.
  unfold hd_is. destruct l as [|x l]; [split; discriminate|].
  destruct (N.eqb_spec x c) as [->|Hne]; split; intros H; inversion H; subst; auto. contradiction.
Qed.
Lemma hd_is_none c l : hd_is c l = None <-> (forall r, l <> c :: r).
Proof.
  unfold hd_is. destruct l as [|x l]; [split; [intros _ r; discriminate|auto]|].
  destruct (N.eqb_spec x c) as [->|Hne]; split; intros H; auto.
  - discriminate.
  - exfalso. now apply (H l).
  - intros r E. inversion E. contradiction.
Qed.

Definition not_dot (l : str) : Prop := hd_is 46 l = None.

Lemma lex_fp_loop_sound fuel : forall s s',
  lex_field_path_loop isLetter isNumber fuel s = Ok s' ->
  exists tail, Ext s tail s' /\ DotTail tail /\ last s' = last s /\ not_dot (inp s').
Proof.
  induction fuel as [|f IH]; intros s s' H; cbn in H; [discriminate|].
  destruct (hd_is 46 (inp s)) as [rest|] eqn:Ei.
  - apply hd_is_some in Ei.
    destruct (emit TDot [46] rest s) as [s1| | |] eqn:E1; try discriminate. cbn [bind] in H.
    destruct (Lexer.lex_run TIdent is_ident s1) as [s2| | |] eqn:E2; try discriminate. cbn [bind] in H.
    destruct (emit_Ext _ _ _ _ _ E1 Ei) as (A1 & B1 & C1 & _).
    destruct (lex_run_sound _ _ _ _ E2) as (v & A2 & Hv & Hp & _ & B2 & _).
    destruct (IH _ _ H) as (tail & A3 & Ht & B3 & Hstop).
    exists ([tDot] ++ [Tok TIdent v] ++ tail).
    split; [eapply Ext_trans; [exact A1|]; eapply Ext_trans; [exact A2|exact A3]|].
    split; [cbn; constructor; auto; now apply ident_ok_of|].
    split; [congruence|exact Hstop].
  - inversion H; subst s'. exists []. split; [apply Ext_refl|]. split; [constructor|]. split; auto.
Qed.

Lemma lex_field_path_sound fuel s s' :
  lex_field_path isLetter isNumber fuel s = Ok s' ->
  exists fp, Ext s fp s' /\ FieldPath fp /\ last s' = last s /\ not_dot (inp s').
Proof.
  unfold lex_field_path. intros H. destruct (Lexer.lex_run TIdent is_ident s) as [s1| | |] eqn:E1; try discriminate.
  cbn [bind] in H.
  destruct (lex_run_sound _ _ _ _ E1) as (v & A1 & Hv & Hp & _ & B1 & _).
  destruct (lex_fp_loop_sound _ _ _ H) as (tail & A2 & Ht & B2 & Hs).
  exists ([Tok TIdent v] ++ tail).
  split; [eapply Ext_trans; eauto|].
  split; [apply FieldPath_of_tail; auto; now apply ident_ok_of|].
  split; [congruence|exact Hs].
Qed.

End LexerProofs.
