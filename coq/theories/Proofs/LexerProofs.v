(* The recursive-descent template lexer (Model/Lexer.v) accepts exactly the token grammar of
   Spec/Grammar.v: soundness (every accepted template is a derivation, its tokens spell the input,
   at most 64 of them) and completeness (every derivation of at most 64 tokens is accepted). *)
From Larking Require Import Base.GoSem Model.Lexer Spec.Grammar.
Local Open Scope N_scope.

Lemma spell_app a b : spell (a ++ b) = spell a ++ spell b.
Proof. unfold spell. now rewrite map_app, concat_app. Qed.
Lemma spell_cons t ts : spell (t :: ts) = tval t ++ spell ts.
Proof. reflexivity. Qed.

Section LexerProofs.
Variables isLetter isNumber : N -> bool.
Notation is_ident := (is_ident isLetter isNumber).
Notation is_literal := (is_literal isLetter isNumber).
Notation lex_run := (lex_run).
Notation PSeg := (PSeg isLetter isNumber).
Notation PSegs := (PSegs isLetter isNumber).
Notation Seg := (Seg isLetter isNumber).
Notation Segs := (Segs isLetter isNumber).
Notation FieldPath := (FieldPath isLetter isNumber).
Notation Tmpl := (Tmpl isLetter isNumber).

(* ---- span ---- *)
Definition stops (p : N -> bool) (rest : str) : Prop := match rest with [] => True | x :: _ => p x = false end.

Lemma span_spec p l v rest : span p l = (v, rest) -> l = v ++ rest /\ forallb p v = true /\ stops p rest.
Proof.
  revert v rest. induction l as [|x l IH]; intros v rest H; cbn in H.
  - inversion H; subst. cbn. auto.
  - destruct (p x) eqn:Ex.
    + destruct (span p l) as [a b] eqn:Es. inversion H; subst.
      destruct (IH a rest eq_refl) as (E1 & E2 & E3). subst l. cbn. rewrite Ex, E2. auto.
    + inversion H; subst. cbn. auto.
Qed.
Lemma span_app p v rest : forallb p v = true -> stops p rest -> span p (v ++ rest) = (v, rest).
Proof.
  intros Hv Hr. induction v as [|x v IH]; cbn.
  - destruct rest as [|y r]; cbn in *; auto. now rewrite Hr.
  - cbn in Hv. apply andb_true_iff in Hv. destruct Hv as [Hx Hv]. rewrite Hx, (IH Hv). reflexivity.
Qed.

(* ---- emit ---- *)
Definition Ext (s : lst) (new : list token) (s' : lst) : Prop :=
  toks s' = rev new ++ toks s /\ inp s = spell new ++ inp s'.

Lemma Ext_refl s : Ext s [] s.
Proof. split; reflexivity. Qed.
Lemma Ext_trans s a s1 b s2 : Ext s a s1 -> Ext s1 b s2 -> Ext s (a ++ b) s2.
Proof.
  intros [A1 A2] [B1 B2]. split.
  - rewrite B1, A1, rev_app_distr, app_assoc. reflexivity.
  - rewrite A2, B2, spell_app, app_assoc. reflexivity.
Qed.

Lemma emit_ok k v rest s s' :
  emit k v rest s = Ok s' ->
  (length (toks s) < 64)%nat /\ s' = Lst rest (Tok k v :: toks s) (last s).
Proof.
  unfold emit, token_cap. destruct (Nat.leb 64 (length (toks s))) eqn:E; [discriminate|].
  intros H. inversion H. apply Nat.leb_gt in E. auto.
Qed.
Lemma emit_Ext k v rest s s' :
  emit k v rest s = Ok s' -> inp s = v ++ rest ->
  Ext s [Tok k v] s' /\ last s' = last s /\ inp s' = rest /\ (length (toks s') <= 64)%nat.
Proof.
  intros H Hi. apply emit_ok in H. destruct H as [Hl ->]. unfold Ext. cbn.
  rewrite app_nil_r. repeat split; auto; lia.
Qed.
Lemma emit_do k v rest i ts lf :
  (length ts < 64)%nat -> emit k v rest (Lst i ts lf) = Ok (Lst rest (Tok k v :: ts) lf).
Proof. intros H. unfold emit, token_cap. cbn [toks last]. apply Nat.leb_gt in H. now rewrite H. Qed.

(* ---- lex_run ---- *)
Lemma lex_run_sound k p s s' :
  lex_run k p s = Ok s' ->
  exists v, Ext s [Tok k v] s' /\ v <> [] /\ forallb p v = true /\ stops p (inp s') /\ last s' = last s
            /\ (length (toks s') <= 64)%nat.
Proof.
  unfold Lexer.lex_run. destruct (span p (inp s)) as [v rest] eqn:Es.
  destruct (span_spec _ _ _ _ Es) as (E1 & E2 & E3).
  destruct v as [|x v]; [intros H; discriminate H|]. cbn [is_nil].
  intros H. destruct (emit_Ext _ _ _ _ _ H E1) as (A & B & C & D).
  exists (x :: v). rewrite C. split; [exact A|]. split; [intros HH; discriminate HH|]. repeat split; auto.
Qed.
Lemma lex_run_complete k p v rest ts lf :
  v <> [] -> forallb p v = true -> stops p rest -> (length ts < 64)%nat ->
  lex_run k p (Lst (v ++ rest) ts lf) = Ok (Lst rest (Tok k v :: ts) lf).
Proof.
  intros Hv Hp Hs Hl. unfold Lexer.lex_run. cbn [inp]. rewrite (span_app _ _ _ Hp Hs).
  destruct v; [contradiction|]. cbn [is_nil]. now rewrite emit_do.
Qed.

(* ---- field paths ---- *)
Inductive DotTail : list token -> Prop :=
| DT_nil : DotTail []
| DT_cons v rest : ident_ok isLetter isNumber v = true -> DotTail rest -> DotTail (tDot :: Tok TIdent v :: rest).
Lemma FieldPath_of_tail v tail : ident_ok isLetter isNumber v = true -> DotTail tail -> FieldPath (Tok TIdent v :: tail).
Proof.
  intros Hv Ht. revert v Hv. induction Ht as [|w rest Hw Ht IH]; intros v Hv.
  - now constructor.
  - apply FP_cons; auto.
Qed.
Lemma tail_of_FieldPath fp : FieldPath fp -> exists v tail, fp = Tok TIdent v :: tail /\ ident_ok isLetter isNumber v = true /\ DotTail tail.
Proof.
  induction 1 as [v Hv|v rest Hv Hf (w & tail & -> & Hw & Ht)].
  - exists v, []. repeat split; auto. constructor.
  - exists v, (tDot :: Tok TIdent w :: tail). repeat split; auto. now constructor.
Qed.

Lemma ident_ok_of v : v <> [] -> forallb is_ident v = true -> ident_ok isLetter isNumber v = true.
Proof. intros Hv Hp. unfold ident_ok. rewrite Hp. destruct v; [contradiction|reflexivity]. Qed.

Lemma hd_is_some c l r : hd_is c l = Some r <-> l = c :: r.
Proof.
  unfold hd_is. destruct l as [|x l]; [split; discriminate|].
  destruct (N.eqb_spec x c) as [->|Hne]; split; intros H; inversion H; subst; auto. contradiction.
Qed.
Lemma hd_is_none c l : hd_is c l = None <-> (forall r, l <> c :: r).
Proof.
  unfold hd_is. destruct l as [|x l]; [split; [intros _ r; discriminate|auto]|].
  destruct (N.eqb_spec x c) as [->|Hne]; split; intros H; auto.
  - discriminate.
  - exfalso. now apply (H l).
  - intros r E. inversion E. contradiction.
Qed.

Definition not_dot (l : str) : Prop := hd_is 46 l = None.

Lemma lex_fp_loop_sound fuel : forall s s',
  lex_field_path_loop isLetter isNumber fuel s = Ok s' ->
  exists tail, Ext s tail s' /\ DotTail tail /\ last s' = last s /\ not_dot (inp s').
Proof.
  induction fuel as [|f IH]; intros s s' H; cbn in H; [discriminate|].
  destruct (hd_is 46 (inp s)) as [rest|] eqn:Ei.
  - apply hd_is_some in Ei.
    destruct (emit TDot [46] rest s) as [s1| | |] eqn:E1; try discriminate. cbn [bind] in H.
    destruct (Lexer.lex_run TIdent is_ident s1) as [s2| | |] eqn:E2; try discriminate. cbn [bind] in H.
    destruct (emit_Ext _ _ _ _ _ E1 Ei) as (A1 & B1 & C1 & _).
    destruct (lex_run_sound _ _ _ _ E2) as (v & A2 & Hv & Hp & _ & B2 & _).
    destruct (IH _ _ H) as (tail & A3 & Ht & B3 & Hstop).
    exists ([tDot] ++ [Tok TIdent v] ++ tail).
    split; [eapply Ext_trans; [exact A1|]; eapply Ext_trans; [exact A2|exact A3]|].
    split; [cbn; constructor; auto; now apply ident_ok_of|].
    split; [congruence|exact Hstop].
  - inversion H; subst s'. exists []. split; [apply Ext_refl|]. split; [constructor|]. split; auto.
Qed.

Lemma lex_field_path_sound fuel s s' :
  lex_field_path isLetter isNumber fuel s = Ok s' ->
  exists fp, Ext s fp s' /\ FieldPath fp /\ last s' = last s /\ not_dot (inp s').
Proof.
  unfold lex_field_path. intros H. destruct (Lexer.lex_run TIdent is_ident s) as [s1| | |] eqn:E1; try discriminate.
  cbn [bind] in H.
  destruct (lex_run_sound _ _ _ _ E1) as (v & A1 & Hv & Hp & _ & B1 & _).
  destruct (lex_fp_loop_sound _ _ _ H) as (tail & A2 & Ht & B2 & Hs).
  exists ([Tok TIdent v] ++ tail).
  split; [eapply Ext_trans; eauto|].
  split; [apply FieldPath_of_tail; auto; now apply ident_ok_of|].
  split; [congruence|exact Hs].
Qed.


(* ---- segments ---- *)
Lemma Ext_inp_one s k v s' : Ext s [Tok k v] s' -> inp s = v ++ inp s'.
Proof. intros [_ E]. rewrite E. cbn. now rewrite app_nil_r. Qed.

Definition SegSpec (SG : list token -> bool -> Prop) (f : lst -> outcome lst) : Prop :=
  forall s s', last s = false -> f s = Ok s' -> exists new b, Ext s new s' /\ SG new b /\ last s' = b.

Lemma lex_segment_sound (SG : list token -> bool -> Prop) lexvar :
  (forall ts b, PSeg ts b -> SG ts b) ->
  (forall lv, lexvar = Some lv -> SegSpec SG lv) ->
  SegSpec SG (lex_segment isLetter isNumber lexvar).
Proof.
  intros Hsub Hlv s s' Hl H. unfold lex_segment in H.
  destruct (inp s) as [|r rest] eqn:Ei; [discriminate|].
  destruct (isLetter r) eqn:El.
  - destruct (lex_run_sound _ _ _ _ H) as (v & A & Hv & Hp & _ & B & _).
    exists [Tok TLiteral v], false. split; [exact A|]. split; [|congruence].
    apply Hsub. constructor. unfold lit_ok.
    pose proof (Ext_inp_one _ _ _ _ A) as E. rewrite Ei in E.
    destruct v as [|x v]; [contradiction|]. cbn in E. inversion E; subst x. now rewrite El, Hp.
  - destruct (N.eqb_spec r 42) as [->|Hne42].
    + destruct (hd_is 42 rest) as [rest'|] eqn:Eh.
      * apply hd_is_some in Eh. subst rest.
        destruct (emit TStarStar [42; 42] rest' s) as [s1| | |] eqn:E1; try discriminate. cbn [bind] in H.
        inversion H; subst s'. clear H.
        assert (Ei' : inp s = [42; 42] ++ rest') by (rewrite Ei; reflexivity).
        destruct (emit_Ext _ _ _ _ _ E1 Ei') as (A & B & C & D).
        exists [tStarStar], true. split; [|split; [apply Hsub; constructor|reflexivity]].
        destruct A as [A1 A2]. split; cbn in *; auto.
      * assert (Ei' : inp s = [42] ++ rest) by (rewrite Ei; reflexivity).
        destruct (emit_Ext _ _ _ _ _ H Ei') as (A & B & C & D).
        exists [tStar], false. split; [exact A|]. split; [apply Hsub; constructor|congruence].
    + destruct (N.eqb_spec r 123) as [->|Hne]; [|discriminate].
      destruct lexvar as [lv|]; [|discriminate].
      apply (Hlv lv eq_refl s s' Hl H).
Qed.

Lemma lex_segments_sound (SG : list token -> bool -> Prop) lexvar fuel :
  SegSpec SG (lex_segment isLetter isNumber lexvar) ->
  forall s s', last s = false -> lex_segments isLetter isNumber fuel lexvar s = Ok s' ->
  exists new b, Ext s new s' /\ SegsG SG new b /\ last s' = b /\ hd_is 47 (inp s') = None.
Proof.
  intros Hseg. induction fuel as [|f IH]; intros s s' Hl H; cbn in H; [discriminate|].
  destruct (lex_segment isLetter isNumber lexvar s) as [s1| | |] eqn:E1; try discriminate. cbn [bind] in H.
  destruct (Hseg s s1 Hl E1) as (new1 & b1 & A1 & G1 & B1).
  destruct (hd_is 47 (inp s1)) as [rest|] eqn:Eh.
  - destruct (last s1) eqn:Els; [discriminate|].
    destruct (emit TSlash [47] rest s1) as [s2| | |] eqn:E2; try discriminate. cbn [bind] in H.
    apply hd_is_some in Eh.
    destruct (emit_Ext _ _ _ _ _ E2 Eh) as (A2 & B2 & C2 & _).
    assert (Hl2 : last s2 = false) by congruence.
    destruct (IH s2 s' Hl2 H) as (new2 & b2 & A3 & G3 & B3 & Hstop).
    exists (new1 ++ tSlash :: new2), b2.
    split; [eapply Ext_trans; [exact A1|]; apply (Ext_trans _ [tSlash] _ _ _ A2 A3)|].
    split; [|auto]. apply Ss_cons; auto. now subst b1.
  - inversion H; subst s'. exists new1, b1. split; [exact A1|]. split; [now apply Ss_one|]. split; auto.
Qed.

Lemma lex_variable_sound fuel : SegSpec Seg (lex_variable isLetter isNumber fuel).
Proof.
  intros s s' Hl H. unfold lex_variable in H.
  destruct (hd_is 123 (inp s)) as [rest|] eqn:Eh; [|discriminate]. apply hd_is_some in Eh.
  destruct (emit TVarStart [123] rest s) as [s1| | |] eqn:E1; try discriminate. cbn [bind] in H.
  destruct (emit_Ext _ _ _ _ _ E1 Eh) as (A1 & B1 & C1 & _).
  destruct (lex_field_path isLetter isNumber fuel s1) as [s2| | |] eqn:E2; try discriminate. cbn [bind] in H.
  destruct (lex_field_path_sound _ _ _ E2) as (fp & A2 & Hfp & B2 & _).
  destruct (hd_is 61 (inp s2)) as [rest2|] eqn:Eh2.
  - apply hd_is_some in Eh2.
    destruct (emit TEqual [61] rest2 s2) as [s3| | |] eqn:E3; try discriminate. cbn [bind] in H.
    destruct (emit_Ext _ _ _ _ _ E3 Eh2) as (A3 & B3 & C3 & _).
    destruct (lex_segments isLetter isNumber fuel None s3) as [s4| | |] eqn:E4; try discriminate. cbn [bind] in H.
    assert (Hl3 : last s3 = false) by congruence.
    assert (HS : SegSpec PSeg (lex_segment isLetter isNumber None)).
    { apply lex_segment_sound; auto. intros lv E; discriminate. }
    destruct (lex_segments_sound PSeg None fuel HS s3 s4 Hl3 E4) as (ps & b & A4 & G4 & B4 & _).
    destruct (hd_is 125 (inp s4)) as [rest4|] eqn:Eh4; [|discriminate]. apply hd_is_some in Eh4.
    destruct (emit_Ext _ _ _ _ _ H Eh4) as (A5 & B5 & C5 & _).
    exists (tOpen :: fp ++ tEq :: ps ++ [tClose]), b.
    split; [|split; [now apply S_varpat|congruence]].
    change (tOpen :: fp ++ tEq :: ps ++ [tClose]) with ([tOpen] ++ fp ++ [tEq] ++ ps ++ [tClose]).
    eapply Ext_trans; [exact A1|]. eapply Ext_trans; [exact A2|]. eapply Ext_trans; [exact A3|].
    eapply Ext_trans; [exact A4|exact A5].
  - destruct (hd_is 125 (inp s2)) as [rest2|] eqn:Eh3; [|discriminate]. apply hd_is_some in Eh3.
    destruct (emit_Ext _ _ _ _ _ H Eh3) as (A5 & B5 & C5 & _).
    exists (tOpen :: fp ++ [tClose]), false.
    split; [|split; [now apply S_var|congruence]].
    change (tOpen :: fp ++ [tClose]) with ([tOpen] ++ fp ++ [tClose]).
    eapply Ext_trans; [exact A1|]. eapply Ext_trans; [exact A2|exact A5].
Qed.

Lemma is_nil_true {A} (l : list A) : is_nil l = true -> l = [].
Proof. destruct l; [auto|discriminate]. Qed.

(* ---- the template lexer is sound for the grammar ---- *)
Theorem lex_template_sound t toks0 :
  lex_template isLetter isNumber t = Ok toks0 ->
  Tmpl toks0 /\ spell toks0 = t /\ (length toks0 <= 64)%nat.
Proof.
  unfold lex_template. destruct (lex_template_st isLetter isNumber t) as [sf| | |] eqn:E; try discriminate.
  cbn [bind]. intros H. inversion H; subst toks0. clear H.
  unfold lex_template_st in E.
  destruct (hd_is 47 t) as [rest|] eqn:Eh; [|discriminate]. apply hd_is_some in Eh.
  set (s0 := Lst t [] false) in *.
  destruct (emit TSlash [47] rest s0) as [s1| | |] eqn:E1; try discriminate. cbn [bind] in E.
  assert (Ei0 : inp s0 = [47] ++ rest) by (cbn; exact Eh).
  destruct (emit_Ext _ _ _ _ _ E1 Ei0) as (A1 & B1 & C1 & _).
  destruct (lex_segments isLetter isNumber (S (length t)) (Some (lex_variable isLetter isNumber (S (length t)))) s1) as [s2| | |] eqn:E2;
    try discriminate. cbn [bind] in E.
  assert (HS : SegSpec Seg (lex_segment isLetter isNumber (Some (lex_variable isLetter isNumber (S (length t)))))).
  { apply lex_segment_sound; [intros; now apply S_plain|]. intros lv Elv. inversion Elv; subst lv. apply lex_variable_sound. }
  assert (Hl1 : last s1 = false) by (rewrite B1; reflexivity).
  destruct (lex_segments_sound Seg _ _ HS s1 s2 Hl1 E2) as (ss & b & A2 & G2 & B2 & _).
  assert (Fin : forall new, Ext s0 new sf -> (length (toks sf) <= 64)%nat -> inp sf = [] ->
                 spell (rev (toks sf)) = t /\ rev (toks sf) = new).
  { intros new [F1 F2] _ Hi. cbn in F1, F2. rewrite app_nil_r in F1. rewrite F1, rev_involutive. split; auto.
    rewrite F2, Hi, app_nil_r. reflexivity. }
  destruct (hd_is 58 (inp s2)) as [rest2|] eqn:Eh2.
  - apply hd_is_some in Eh2.
    destruct (emit TVerb [58] rest2 s2) as [s3| | |] eqn:E3; try discriminate. cbn [bind] in E.
    destruct (emit_Ext _ _ _ _ _ E3 Eh2) as (A3 & B3 & C3 & _).
    unfold lex_verb in E.
    destruct (Lexer.lex_run TLiteral is_literal s3) as [s4| | |] eqn:E4; try discriminate. cbn [bind] in E.
    destruct (lex_run_sound _ _ _ _ E4) as (v & A4 & Hv & Hp & _ & B4 & _).
    destruct (inp s4) as [|x r4] eqn:Ei4; [|discriminate].
    assert (Ei4' : inp s4 = [] ++ []) by (rewrite Ei4; reflexivity).
    destruct (emit_Ext _ _ _ _ _ E Ei4') as (A5 & B5 & C5 & D5).
    assert (AA : Ext s0 ([tSlash] ++ ss ++ [tColon] ++ [Tok TLiteral v] ++ [tEOF]) sf).
    { eapply Ext_trans; [exact A1|]. eapply Ext_trans; [exact A2|]. eapply Ext_trans; [exact A3|].
      eapply Ext_trans; [exact A4|exact A5]. }
    destruct (Fin _ AA D5 C5) as [F1 F2]. rewrite F2. rewrite F2 in F1.
    split; [|split; [exact F1|]].
    + apply (T_verb _ _ ss b v G2). unfold verb_ok. rewrite Hp. destruct v; [contradiction|reflexivity].
    + rewrite <- F2, rev_length. exact D5.
  - destruct (is_nil (inp s2)) eqn:En; [|discriminate]. apply is_nil_true in En.
    assert (Ei2' : inp s2 = [] ++ []) by (rewrite En; reflexivity).
    destruct (emit_Ext _ _ _ _ _ E Ei2') as (A5 & B5 & C5 & D5).
    assert (AA : Ext s0 ([tSlash] ++ ss ++ [tEOF]) sf).
    { eapply Ext_trans; [exact A1|]. eapply Ext_trans; [exact A2|exact A5]. }
    destruct (Fin _ AA D5 C5) as [F1 F2]. rewrite F2. rewrite F2 in F1.
    split; [|split; [exact F1|]].
    + apply (T_plain _ _ ss b G2).
    + rewrite <- F2, rev_length. exact D5.
Qed.


(* ---- totality: the lexer neither panics nor runs out of fuel ---- *)
Definition benign {A} (x : outcome A) : Prop := match x with Ok _ | Err _ => True | _ => False end.
Definition len (s : lst) : nat := length (inp s).

Lemma Ext_len s new s' : Ext s new s' -> len s = (length (spell new) + len s')%nat.
Proof. intros [_ E]. unfold len. now rewrite E, app_length. Qed.

Lemma emit_benign k v rest s : benign (emit k v rest s).
Proof. unfold emit. destruct (Nat.leb _ _); cbn; auto. Qed.
Lemma lex_run_benign k p s : benign (Lexer.lex_run k p s).
Proof. unfold Lexer.lex_run. destruct (span p (inp s)) as [v rest]. destruct (is_nil v); cbn; auto. apply emit_benign. Qed.

Lemma bind_benign {A B} (x : outcome A) (f : A -> outcome B) :
  benign x -> (forall a, x = Ok a -> benign (f a)) -> benign (bind x f).
Proof. destruct x; cbn; auto. Qed.

Lemma emit_len k v rest s s' : emit k v rest s = Ok s' -> len s' = length rest.
Proof. intros H. apply emit_ok in H. destruct H as [_ ->]. reflexivity. Qed.
Lemma lex_run_len k p s s' : Lexer.lex_run k p s = Ok s' -> (len s' < len s)%nat.
Proof.
  intros H. destruct (lex_run_sound _ _ _ _ H) as (v & A & Hv & _).
  rewrite (Ext_len _ _ _ A). unfold spell. cbn. rewrite app_nil_r. destruct v; [contradiction|]. cbn. lia.
Qed.

Lemma lex_fp_loop_benign fuel : forall s, (len s < fuel)%nat -> benign (lex_field_path_loop isLetter isNumber fuel s).
Proof.
  induction fuel as [|f IH]; intros s Hf; [lia|]. cbn [lex_field_path_loop].
  destruct (hd_is 46 (inp s)) as [rest|] eqn:Eh; cbn; auto.
  apply hd_is_some in Eh.
  apply bind_benign; [apply emit_benign|]. intros s1 E1.
  apply bind_benign; [apply lex_run_benign|]. intros s2 E2.
  apply IH. pose proof (emit_len _ _ _ _ _ E1). pose proof (lex_run_len _ _ _ _ E2).
  unfold len in Hf. rewrite Eh in Hf. cbn in Hf. lia.
Qed.
Lemma lex_fp_loop_len fuel : forall s s', lex_field_path_loop isLetter isNumber fuel s = Ok s' -> (len s' <= len s)%nat.
Proof.
  intros s s' H. destruct (lex_fp_loop_sound _ _ _ H) as (tail & A & _). rewrite (Ext_len _ _ _ A). lia.
Qed.
Lemma lex_field_path_benign fuel s : (len s <= fuel)%nat -> benign (lex_field_path isLetter isNumber fuel s).
Proof.
  intros Hf. unfold lex_field_path. apply bind_benign; [apply lex_run_benign|]. intros s1 E1.
  apply lex_fp_loop_benign. pose proof (lex_run_len _ _ _ _ E1). lia.
Qed.
Lemma lex_field_path_len fuel s s' : lex_field_path isLetter isNumber fuel s = Ok s' -> (len s' < len s)%nat.
Proof.
  unfold lex_field_path. intros H. destruct (Lexer.lex_run TIdent is_ident s) as [s1| | |] eqn:E1; try discriminate.
  cbn [bind] in H. pose proof (lex_run_len _ _ _ _ E1). pose proof (lex_fp_loop_len _ _ _ H). lia.
Qed.

(* a segment lexer that is benign and consumes input, on states with at most n unread runes *)
Definition SegTotal (n : nat) (f : lst -> outcome lst) : Prop :=
  forall s, (len s <= n)%nat -> benign (f s) /\ (forall s', f s = Ok s' -> (len s' < len s)%nat).

Lemma lex_segment_total n lexvar :
  (forall lv, lexvar = Some lv -> SegTotal n lv) -> SegTotal n (lex_segment isLetter isNumber lexvar).
Proof.
  intros Hlv s Hn. unfold lex_segment.
  destruct (inp s) as [|r rest] eqn:Ei; [cbn; split; [auto|discriminate]|].
  destruct (isLetter r).
  - split; [apply lex_run_benign|apply lex_run_len].
  - destruct (r =? 42).
    + destruct (hd_is 42 rest) as [rest'|] eqn:Eh.
      * apply hd_is_some in Eh. split.
        -- apply bind_benign; [apply emit_benign|]. intros; exact I.
        -- intros s' H. destruct (emit TStarStar [42; 42] rest' s) as [s1| | |] eqn:E1; try discriminate.
           cbn [bind] in H. inversion H; subst s'. unfold len. cbn [inp]. pose proof (emit_len _ _ _ _ _ E1) as L.
           unfold len in L. rewrite L, Ei, Eh. cbn. lia.
      * split; [apply emit_benign|]. intros s' H. pose proof (emit_len _ _ _ _ _ H) as L. unfold len in *. rewrite L, Ei. cbn. lia.
    + destruct (r =? 123); [|cbn; split; [auto|discriminate]].
      destruct lexvar as [lv|]; [|cbn; split; [auto|discriminate]].
      apply (Hlv lv eq_refl). exact Hn.
Qed.

Lemma lex_segments_total n lexvar : SegTotal n (lex_segment isLetter isNumber lexvar) ->
  forall fuel s, (len s <= n)%nat -> (len s < fuel)%nat ->
  benign (lex_segments isLetter isNumber fuel lexvar s) /\
  (forall s', lex_segments isLetter isNumber fuel lexvar s = Ok s' -> (len s' < len s)%nat).
Proof.
  intros Hseg. induction fuel as [|f IH]; intros s Hn Hf; [lia|]. cbn [lex_segments].
  destruct (Hseg s Hn) as [B1 L1].
  destruct (lex_segment isLetter isNumber lexvar s) as [s1| | |] eqn:E1; cbn in B1; try contradiction; cbn [bind].
  - specialize (L1 s1 eq_refl).
    destruct (hd_is 47 (inp s1)) as [rest|] eqn:Eh.
    + apply hd_is_some in Eh. destruct (last s1); [cbn; split; [auto|discriminate]|].
      destruct (emit TSlash [47] rest s1) as [s2| | |] eqn:E2; cbn [bind]; try (cbn; split; [auto|discriminate]).
      * pose proof (emit_len _ _ _ _ _ E2) as L2.
        assert (Hl2 : (len s2 < len s1)%nat) by (unfold len in *; rewrite L2, Eh; cbn; lia).
        destruct (IH s2) as [B3 L3]; [lia|lia|]. split; [exact B3|]. intros s' H. specialize (L3 s' H). lia.
      * pose proof (emit_benign TSlash [47] rest s1) as Be. rewrite E2 in Be. contradiction.
      * pose proof (emit_benign TSlash [47] rest s1) as Be. rewrite E2 in Be. contradiction.
    + cbn. split; [auto|]. intros s' H. inversion H; subst. exact L1.
  - cbn. split; [auto|discriminate].
Qed.

Lemma lex_variable_total fuel : SegTotal fuel (lex_variable isLetter isNumber fuel).
Proof.
  intros s Hf.
  assert (HS : SegTotal fuel (lex_segment isLetter isNumber None)) by (apply lex_segment_total; intros lv E; discriminate).
  split.
  - unfold lex_variable. destruct (hd_is 123 (inp s)) as [rest|] eqn:Eh; [|cbn; auto]. apply hd_is_some in Eh.
    apply bind_benign; [apply emit_benign|]. intros s1 E1. pose proof (emit_len _ _ _ _ _ E1) as L1.
    assert (Hl1 : (len s1 < len s)%nat) by (unfold len in *; rewrite L1, Eh; cbn; lia).
    apply bind_benign; [apply lex_field_path_benign; lia|]. intros s2 E2. pose proof (lex_field_path_len _ _ _ E2) as L2.
    destruct (hd_is 61 (inp s2)) as [rest2|] eqn:Eh2.
    + apply hd_is_some in Eh2. apply bind_benign; [apply emit_benign|]. intros s3 E3. pose proof (emit_len _ _ _ _ _ E3) as L3.
      assert (Hl3 : (len s3 < len s2)%nat) by (unfold len in *; rewrite L3, Eh2; cbn; lia).
      destruct (lex_segments_total fuel None HS fuel s3) as [B4 _]; [lia|lia|].
      apply bind_benign; [exact B4|]. intros s4 E4.
      destruct (hd_is 125 (inp s4)); [apply emit_benign|cbn; auto].
    + destruct (hd_is 125 (inp s2)); [apply emit_benign|cbn; auto].
  - intros s' H. unfold lex_variable in H.
    destruct (hd_is 123 (inp s)) as [rest|] eqn:Eh; [|discriminate]. apply hd_is_some in Eh.
    destruct (emit TVarStart [123] rest s) as [s1| | |] eqn:E1; try discriminate. cbn [bind] in H.
    pose proof (emit_len _ _ _ _ _ E1) as L1.
    assert (Hl1 : (len s1 < len s)%nat) by (unfold len in *; rewrite L1, Eh; cbn; lia).
    destruct (lex_field_path isLetter isNumber fuel s1) as [s2| | |] eqn:E2; try discriminate. cbn [bind] in H.
    pose proof (lex_field_path_len _ _ _ E2) as L2.
    destruct (hd_is 61 (inp s2)) as [rest2|] eqn:Eh2.
    + apply hd_is_some in Eh2.
      destruct (emit TEqual [61] rest2 s2) as [s3| | |] eqn:E3; try discriminate. cbn [bind] in H.
      pose proof (emit_len _ _ _ _ _ E3) as L3.
      assert (Hl3 : (len s3 < len s2)%nat) by (unfold len in *; rewrite L3, Eh2; cbn; lia).
      destruct (lex_segments isLetter isNumber fuel None s3) as [s4| | |] eqn:E4; try discriminate. cbn [bind] in H.
      destruct (lex_segments_total fuel None HS fuel s3) as [_ L4]; [lia|lia|]. specialize (L4 s4 E4).
      destruct (hd_is 125 (inp s4)) as [rest4|] eqn:Eh4; [|discriminate]. apply hd_is_some in Eh4.
      pose proof (emit_len _ _ _ _ _ H) as L5. unfold len in *. rewrite L5. rewrite Eh4 in L4. cbn in L4. lia.
    + destruct (hd_is 125 (inp s2)) as [rest2|] eqn:Eh3; [|discriminate]. apply hd_is_some in Eh3.
      pose proof (emit_len _ _ _ _ _ H) as L5. unfold len in *. rewrite L5. rewrite Eh3 in L2. cbn in L2. lia.
Qed.

Theorem lex_template_benign t : benign (lex_template isLetter isNumber t).
Proof.
  unfold lex_template. apply bind_benign; [|intros; exact I].
  unfold lex_template_st. destruct (hd_is 47 t) as [rest|] eqn:Eh; [|cbn; auto]. apply hd_is_some in Eh.
  apply bind_benign; [apply emit_benign|]. intros s1 E1. pose proof (emit_len _ _ _ _ _ E1) as L1.
  assert (Hl1 : (len s1 < S (length t))%nat) by (rewrite L1, Eh; cbn; lia).
  assert (HS : SegTotal (S (length t)) (lex_segment isLetter isNumber (Some (lex_variable isLetter isNumber (S (length t)))))).
  { apply lex_segment_total. intros lv E. inversion E; subst lv. apply lex_variable_total. }
  destruct (lex_segments_total _ _ HS (S (length t)) s1) as [B2 _]; [lia|lia|].
  apply bind_benign; [exact B2|]. intros s2 E2.
  destruct (hd_is 58 (inp s2)) as [rest2|].
  - apply bind_benign; [apply emit_benign|]. intros s3 E3. unfold lex_verb.
    apply bind_benign; [apply lex_run_benign|]. intros s4 E4. destruct (inp s4); [apply emit_benign|cbn; auto].
  - destruct (is_nil (inp s2)); [apply emit_benign|cbn; auto].
Qed.

Lemma lex_path_loop_benign fuel : forall s, (len s < fuel)%nat -> benign (lex_path_loop isLetter isNumber fuel s).
Proof.
  induction fuel as [|f IH]; intros s Hf; [lia|]. cbn [lex_path_loop].
  destruct (inp s) as [|r rest] eqn:Ei; [apply emit_benign|].
  assert (Hstep : forall k, benign (do s1 <- emit k [r] rest s; do s2 <- Lexer.lex_run TPath (is_path isLetter isNumber) s1; lex_path_loop isLetter isNumber f s2)).
  { intros k. apply bind_benign; [apply emit_benign|]. intros s1 E1. apply bind_benign; [apply lex_run_benign|]. intros s2 E2.
    apply IH. pose proof (emit_len _ _ _ _ _ E1). pose proof (lex_run_len _ _ _ _ E2). unfold len in Hf. rewrite Ei in Hf. cbn in Hf. lia. }
  destruct (N.eqb_spec r 47) as [->|H47]; [apply Hstep|].
  destruct (N.eqb_spec r 58) as [->|H58]; [apply Hstep|]. exact I.
Qed.
Theorem lex_path_benign p : benign (lex_path isLetter isNumber p).
Proof.
  unfold lex_path. apply bind_benign; [|intros; exact I]. apply lex_path_loop_benign. unfold len. cbn. lia.
Qed.

(* ---- request paths: separator, text, separator, text, ..., end ---- *)
Inductive PathToks : list token -> Prop :=
| PT_end : PathToks [tEOF]
| PT_slash v rest : v <> [] -> forallb (is_path isLetter isNumber) v = true -> PathToks rest ->
    PathToks (tSlash :: Tok TPath v :: rest)
| PT_colon v rest : v <> [] -> forallb (is_path isLetter isNumber) v = true -> PathToks rest ->
    PathToks (tColon :: Tok TPath v :: rest).

Lemma lex_path_loop_sound fuel : forall s s', lex_path_loop isLetter isNumber fuel s = Ok s' ->
  exists new, Ext s new s' /\ PathToks new /\ inp s' = [] /\ (length (toks s') <= 64)%nat.
Proof.
  induction fuel as [|f IH]; intros s s' H; cbn in H; [discriminate|].
  destruct (inp s) as [|r rest] eqn:Ei.
  - assert (Ei' : inp s = [] ++ []) by (rewrite Ei; reflexivity).
    destruct (emit_Ext _ _ _ _ _ H Ei') as (A & B & C & D). exists [tEOF]. split; [exact A|]. split; [constructor|auto].
  - assert (Hstep : forall k sep, sep = Tok k [r] -> (sep = tSlash \/ sep = tColon) ->
        (do s1 <- emit k [r] rest s; do s2 <- Lexer.lex_run TPath (is_path isLetter isNumber) s1; lex_path_loop isLetter isNumber f s2) = Ok s' ->
        exists new, Ext s new s' /\ PathToks new /\ inp s' = [] /\ (length (toks s') <= 64)%nat).
    { intros k sep Es Hsep Hs.
      destruct (emit k [r] rest s) as [s1| | |] eqn:E1; try discriminate. cbn [bind] in Hs.
      destruct (Lexer.lex_run TPath (is_path isLetter isNumber) s1) as [s2| | |] eqn:E2; try discriminate. cbn [bind] in Hs.
      assert (Ei' : inp s = [r] ++ rest) by (rewrite Ei; reflexivity).
      destruct (emit_Ext _ _ _ _ _ E1 Ei') as (A1 & _).
      destruct (lex_run_sound _ _ _ _ E2) as (v & A2 & Hv & Hp & _).
      destruct (IH _ _ Hs) as (new & A3 & G & Hi & Hl).
      exists ([sep] ++ [Tok TPath v] ++ new). rewrite Es. split; [eapply Ext_trans; [exact A1|]; eapply Ext_trans; [exact A2|exact A3]|].
      split; [|auto]. rewrite <- Es. destruct Hsep as [-> | ->]; constructor; auto. }
    destruct (N.eqb_spec r 47) as [->|H47]; [apply (Hstep TSlash tSlash); auto|].
    destruct (N.eqb_spec r 58) as [->|H58]; [apply (Hstep TVerb tColon); auto|]. discriminate.
Qed.

Theorem lex_path_sound p toks0 : lex_path isLetter isNumber p = Ok toks0 ->
  PathToks toks0 /\ spell toks0 = p /\ (length toks0 <= 64)%nat.
Proof.
  unfold lex_path. destruct (lex_path_loop isLetter isNumber (S (length p)) (Lst p [] false)) as [sf| | |] eqn:E; try discriminate.
  cbn [bind]. intros H. inversion H; subst toks0. clear H.
  destruct (lex_path_loop_sound _ _ _ E) as (new & [A1 A2] & G & Hi & Hl). cbn in A1, A2.
  rewrite app_nil_r in A1. rewrite A1, rev_involutive. split; [exact G|]. split.
  - rewrite A2, Hi, app_nil_r. reflexivity.
  - rewrite A1, rev_length in Hl. exact Hl.
Qed.

(* ---- completeness: every derivation of at most 64 tokens is accepted ---- *)
Section Complete.
Hypothesis sane : Sane isLetter isNumber.

Lemma sane_letter r : In r [42; 46; 47; 58; 61; 123; 125] -> isLetter r = false.
Proof. intros H. now destruct (sane r H). Qed.
Lemma sane_ident r : In r [42; 46; 47; 58; 61; 123; 125] -> is_ident r = false.
Proof.
  intros H. destruct (sane r H) as [A B]. unfold Lexer.is_ident. rewrite A, B.
  cbn in H. repeat (destruct H as [ <- | H ]; [reflexivity|]). contradiction.
Qed.
Lemma sane_literal r : In r [42; 47; 58; 61; 123; 125] -> is_literal r = false.
Proof.
  intros H. unfold Lexer.is_literal. rewrite sane_ident.
  - cbn in H. repeat (destruct H as [ <- | H ]; [reflexivity|]). contradiction.
  - cbn in *. intuition.
Qed.

(* what may follow a segment: nothing, or one of / } : *)
Definition Delim (rest : str) : Prop :=
  match rest with [] => True | x :: _ => x = 47 \/ x = 125 \/ x = 58 end.
Lemma Delim_literal rest : Delim rest -> stops is_literal rest.
Proof. destruct rest as [|x r]; cbn; auto. intros [ -> | [ -> | -> ] ]; apply sane_literal; cbn; auto 10. Qed.
Lemma Delim_nostar rest : Delim rest -> hd_is 42 rest = None.
Proof. destruct rest as [|x r]; cbn; auto. intros [ -> | [ -> | -> ] ]; reflexivity. Qed.

Lemma hd_is_cons c r : hd_is c (c :: r) = Some r.
Proof. unfold hd_is. now rewrite N.eqb_refl. Qed.

Lemma ident_ok_inv v : ident_ok isLetter isNumber v = true -> v <> [] /\ forallb is_ident v = true.
Proof. unfold ident_ok. destruct v; cbn; [discriminate|]. intros H. split; [discriminate|exact H]. Qed.

Lemma lex_fp_loop_complete tail : DotTail tail -> forall fuel rest ts lf,
  stops is_ident rest -> not_dot rest -> (length tail < fuel)%nat -> (length ts + length tail <= 64)%nat ->
  lex_field_path_loop isLetter isNumber fuel (Lst (spell tail ++ rest) ts lf) = Ok (Lst rest (rev tail ++ ts) lf).
Proof.
  induction 1 as [|v tail Hv Ht IH]; intros fuel rest ts lf Hs Hd Hf Hl; (destruct fuel as [|f]; [cbn in Hf; lia|]).
  - cbn. unfold not_dot in Hd. now rewrite Hd.
  - cbn [lex_field_path_loop inp]. cbn [length] in Hf, Hl.
    change (spell (tDot :: Tok TIdent v :: tail) ++ rest) with (46 :: (v ++ spell tail) ++ rest).
    rewrite hd_is_cons, emit_do by (cbn; lia). cbn [bind last toks].
    destruct (ident_ok_inv _ Hv) as [Hne Hp].
    rewrite <- app_assoc, lex_run_complete; auto.
    + cbn [bind]. rewrite IH; auto; try (cbn [length]; lia).
      cbn [rev]. rewrite <- !app_assoc. reflexivity.
    + destruct tail as [|t tail']; [cbn; exact Hs|]. inversion Ht; subst. cbn. apply sane_ident. cbn; auto.
    + cbn [length]. lia.
Qed.

Lemma lex_field_path_complete fp : FieldPath fp -> forall fuel rest ts lf,
  stops is_ident rest -> not_dot rest -> (length fp <= fuel)%nat -> (length ts + length fp <= 64)%nat ->
  lex_field_path isLetter isNumber fuel (Lst (spell fp ++ rest) ts lf) = Ok (Lst rest (rev fp ++ ts) lf).
Proof.
  intros Hfp fuel rest ts lf Hs Hd Hf Hl.
  destruct (tail_of_FieldPath _ Hfp) as (v & tail & -> & Hv & Ht).
  destruct (ident_ok_inv _ Hv) as [Hne Hp]. cbn [length] in Hf, Hl.
  unfold lex_field_path. change (spell (Tok TIdent v :: tail) ++ rest) with ((v ++ spell tail) ++ rest).
  rewrite <- app_assoc, lex_run_complete; auto; try lia.
  - cbn [bind]. rewrite (lex_fp_loop_complete _ Ht); auto; try (cbn [length]; lia).
    cbn [rev]. rewrite <- !app_assoc. reflexivity.
  - destruct tail as [|t tail']; [cbn; exact Hs|]. inversion Ht; subst. cbn. apply sane_ident. cbn; auto.
Qed.

Definition SegComplete (SG : list token -> bool -> Prop) (lexvar : option (lst -> outcome lst)) : Prop :=
  forall new b rest ts, SG new b -> Delim rest -> (length ts + length new <= 64)%nat ->
    lex_segment isLetter isNumber lexvar (Lst (spell new ++ rest) ts false) = Ok (Lst rest (rev new ++ ts) b).

Lemma lit_ok_inv v : lit_ok isLetter isNumber v = true ->
  exists x v', v = x :: v' /\ isLetter x = true /\ forallb is_literal v = true.
Proof.
  unfold lit_ok. destruct v as [|x v']; [discriminate|]. intros H. apply andb_true_iff in H.
  destruct H as [A B]. exists x, v'. auto.
Qed.

Lemma pseg_complete lexvar new b rest ts :
  PSeg new b -> Delim rest -> (length ts + length new <= 64)%nat ->
  lex_segment isLetter isNumber lexvar (Lst (spell new ++ rest) ts false) = Ok (Lst rest (rev new ++ ts) b).
Proof.
  intros HP HD Hl. destruct HP as [v Hv| |].
  - destruct (lit_ok_inv _ Hv) as (x & v' & -> & Hx & Hp). cbn [length] in Hl.
    unfold lex_segment. cbn [inp spell map concat tval app]. rewrite app_nil_r. cbn [app]. rewrite Hx.
    change (x :: v' ++ rest) with ((x :: v') ++ rest).
    rewrite lex_run_complete; auto; [discriminate|now apply Delim_literal|lia].
  - cbn [length] in Hl. unfold lex_segment. cbn [inp spell map concat tval app tStar].
    rewrite (sane_letter 42) by (cbn; auto). cbn [N.eqb Pos.eqb]. rewrite (Delim_nostar _ HD).
    rewrite emit_do by (cbn; lia). reflexivity.
  - cbn [length] in Hl. unfold lex_segment. cbn [inp spell map concat tval app tStarStar].
    rewrite (sane_letter 42) by (cbn; auto). cbn [N.eqb Pos.eqb]. rewrite hd_is_cons.
    rewrite emit_do by (cbn; lia). reflexivity.
Qed.

Lemma segs_complete (SG : list token -> bool -> Prop) lexvar :
  SegComplete SG lexvar ->
  forall new b, SegsG SG new b -> forall fuel rest ts,
  Delim rest -> hd_is 47 rest = None -> (length new < fuel)%nat -> (length ts + length new <= 64)%nat ->
  lex_segments isLetter isNumber fuel lexvar (Lst (spell new ++ rest) ts false) = Ok (Lst rest (rev new ++ ts) b).
Proof.
  intros HC new b HS. induction HS as [new b G|new rest' b G HS IH]; intros fuel rest ts HD Hns Hf Hl;
    (destruct fuel as [|f]; [lia|]); cbn [lex_segments].
  - rewrite (HC new b rest ts G HD Hl). cbn [bind inp]. now rewrite Hns.
  - rewrite app_length in Hf, Hl. cbn [length] in Hf, Hl.
    rewrite spell_app, <- app_assoc. change (spell (tSlash :: rest') ++ rest) with (47 :: spell rest' ++ rest).
    rewrite (HC new false (47 :: spell rest' ++ rest) ts G); [|cbn; auto|lia].
    cbn [bind inp last]. rewrite hd_is_cons. rewrite emit_do by (cbn [toks]; rewrite app_length, rev_length; lia).
    cbn [bind last toks]. rewrite IH; auto; try (cbn [length]; rewrite ?app_length, ?rev_length; cbn [length]; lia).
    rewrite rev_app_distr. cbn [rev]. rewrite <- !app_assoc. reflexivity.
Qed.

Lemma pseg_SegComplete lexvar : SegComplete PSeg lexvar.
Proof. intros new b rest ts G HD Hl. now apply pseg_complete. Qed.

Lemma variable_complete fuel new b rest ts :
  Seg new b -> (forall ts0 b0, PSeg ts0 b0 -> new <> ts0) -> Delim rest ->
  (length new <= fuel)%nat -> (length ts + length new <= 64)%nat ->
  lex_variable isLetter isNumber fuel (Lst (spell new ++ rest) ts false) = Ok (Lst rest (rev new ++ ts) b).
Proof.
  intros G Hnp HD Hf Hl. destruct G as [new b G|fp Hfp|fp ps b Hfp Hps].
  - exfalso. now apply (Hnp new b G).
  - cbn [length] in Hf, Hl. rewrite app_length in Hf, Hl. cbn [length] in Hf, Hl.
    unfold lex_variable. change (spell (tOpen :: fp ++ [tClose]) ++ rest) with (123 :: spell (fp ++ [tClose]) ++ rest).
    cbn [inp]. rewrite hd_is_cons, emit_do by (cbn; lia). cbn [bind].
    rewrite spell_app, <- app_assoc. change (spell [tClose] ++ rest) with (125 :: rest).
    rewrite (lex_field_path_complete _ Hfp); [|cbn; apply sane_ident; cbn; auto 10|reflexivity|lia|cbn [length]; lia].
    cbn [bind inp]. change (hd_is 61 (125 :: rest)) with (@None str). rewrite hd_is_cons.
    rewrite emit_do by (cbn [toks length]; rewrite app_length, rev_length; cbn [length]; lia).
    cbn [last toks rev]. rewrite rev_app_distr. cbn [rev app]. rewrite <- !app_assoc. reflexivity.
  - cbn [length] in Hf, Hl. rewrite !app_length in Hf, Hl. cbn [length] in Hf, Hl. rewrite app_length in Hf, Hl. cbn [length] in Hf, Hl.
    unfold lex_variable.
    change (spell (tOpen :: fp ++ tEq :: ps ++ [tClose]) ++ rest) with (123 :: spell (fp ++ tEq :: ps ++ [tClose]) ++ rest).
    cbn [inp]. rewrite hd_is_cons, emit_do by (cbn; lia). cbn [bind].
    rewrite spell_app, <- app_assoc. change (spell (tEq :: ps ++ [tClose]) ++ rest) with (61 :: spell (ps ++ [tClose]) ++ rest).
    rewrite (lex_field_path_complete _ Hfp); [|cbn; apply sane_ident; cbn; auto 10|reflexivity|lia|cbn [length]; lia].
    cbn [bind inp]. rewrite hd_is_cons.
    rewrite emit_do by (cbn [toks length]; rewrite app_length, rev_length; cbn [length]; lia).
    cbn [bind last toks]. rewrite spell_app, <- app_assoc. change (spell [tClose] ++ rest) with (125 :: rest).
    rewrite (segs_complete PSeg None (pseg_SegComplete None) ps b Hps); [|cbn; auto|reflexivity|lia|
      cbn [length]; rewrite app_length, rev_length; cbn [length]; lia].
    cbn [bind inp]. rewrite hd_is_cons.
    rewrite emit_do by (cbn [toks length]; rewrite !app_length, !rev_length; cbn [length]; rewrite app_length, rev_length; cbn [length]; lia).
    cbn [last toks]. f_equal. f_equal.
    cbn [rev]. rewrite !rev_app_distr. cbn [rev app]. rewrite rev_app_distr. cbn [rev app]. rewrite <- !app_assoc. reflexivity.
Qed.


(* every token of a derivation spells at least one rune: there are no more tokens than runes *)
Definition nonempty_vals (ts : list token) : Prop := Forall (fun t => tval t <> []) ts.
Lemma nonempty_vals_length ts : nonempty_vals ts -> (length ts <= length (spell ts))%nat.
Proof.
  induction 1 as [|t ts Ht _ IH]; [cbn; auto|]. rewrite spell_cons, app_length. cbn [length].
  destruct (tval t); [contradiction|]. cbn [length]. lia.
Qed.
Lemma PSeg_nonempty ts b : PSeg ts b -> nonempty_vals ts.
Proof.
  intros [v Hv| |]; repeat constructor; cbn; try discriminate.
  destruct (lit_ok_inv _ Hv) as (x & v' & -> & _). discriminate.
Qed.
Lemma SegsG_nonempty (SG : list token -> bool -> Prop) :
  (forall ts b, SG ts b -> nonempty_vals ts) -> forall ts b, SegsG SG ts b -> nonempty_vals ts.
Proof.
  intros H ts b HS. induction HS as [ts b G|ts rest b G HS IH]; [now apply (H ts b)|].
  apply Forall_app. split; [now apply (H ts false)|]. constructor; [cbn; discriminate|exact IH].
Qed.
Lemma FieldPath_nonempty fp : FieldPath fp -> nonempty_vals fp.
Proof.
  induction 1 as [v Hv|v rest Hv Hf IH]; repeat constructor; cbn; try discriminate; auto;
    destruct (ident_ok_inv _ Hv) as [Hne _]; exact Hne.
Qed.
Lemma Seg_nonempty ts b : Seg ts b -> nonempty_vals ts.
Proof.
  intros [ts' b' G|fp Hfp|fp ps b' Hfp Hps].
  - now apply (PSeg_nonempty ts' b').
  - constructor; [cbn; discriminate|]. apply Forall_app. split; [now apply FieldPath_nonempty|]. repeat constructor. cbn; discriminate.
  - constructor; [cbn; discriminate|]. apply Forall_app. split; [now apply FieldPath_nonempty|].
    constructor; [cbn; discriminate|]. apply Forall_app. split.
    + apply (SegsG_nonempty PSeg PSeg_nonempty ps b' Hps).
    + repeat constructor. cbn; discriminate.
Qed.

Lemma SegsG_bound (SG : list token -> bool -> Prop) n ts b :
  SegsG SG ts b -> (length ts <= n)%nat -> SegsG (fun ts b => SG ts b /\ (length ts <= n)%nat) ts b.
Proof.
  intros HS. induction HS as [ts b G|ts rest b G HS IH]; intros Hl.
  - apply Ss_one. auto.
  - rewrite app_length in Hl. cbn [length] in Hl. apply Ss_cons; [split; [exact G|lia]|apply IH; lia].
Qed.

Lemma lex_segment_open lv s rest0 :
  inp s = 123 :: rest0 -> lex_segment isLetter isNumber (Some lv) s = lv s.
Proof.
  intros H. unfold lex_segment. rewrite H. rewrite (sane_letter 123) by (cbn; auto 10). reflexivity.
Qed.

Lemma seg_complete_top fuel :
  SegComplete (fun ts b => Seg ts b /\ (length ts <= fuel)%nat) (Some (lex_variable isLetter isNumber fuel)).
Proof.
  intros new b rest ts [G Hf] HD Hl.
  destruct G as [new b G'|fp Hfp|fp ps b Hfp Hps].
  - now apply pseg_complete.
  - rewrite <- (variable_complete fuel _ false rest ts (S_var _ _ fp Hfp)); auto.
    + apply (lex_segment_open _ _ (spell (fp ++ [tClose]) ++ rest)). reflexivity.
    + intros ts0 b0 HP E. destruct HP; discriminate E.
  - rewrite <- (variable_complete fuel _ b rest ts (S_varpat _ _ fp ps b Hfp Hps)); auto.
    + apply (lex_segment_open _ _ (spell (fp ++ tEq :: ps ++ [tClose]) ++ rest)). reflexivity.
    + intros ts0 b0 HP E. destruct HP; discriminate E.
Qed.

Theorem lex_template_complete toks0 :
  Tmpl toks0 -> (length toks0 <= 64)%nat -> lex_template isLetter isNumber (spell toks0) = Ok toks0.
Proof.
  intros HT Hl. unfold lex_template, lex_template_st.
  destruct HT as [ss b HS|ss b v HS Hv].
  - cbn [length] in Hl. rewrite app_length in Hl. cbn [length] in Hl.
    set (t := spell (tSlash :: ss ++ [tEOF])).
    assert (Et : t = 47 :: spell ss ++ []) by (unfold t; rewrite spell_cons, spell_app; cbn; now rewrite app_nil_r).
    assert (Hlen0 : (length ss < length t)%nat).
    { pose proof (nonempty_vals_length _ (SegsG_nonempty Seg Seg_nonempty ss b HS)). rewrite Et. cbn [length]. rewrite app_length. lia. }
    assert (Hlen : (length ss <= S (length t))%nat) by lia.
    rewrite Et at 1. rewrite hd_is_cons. rewrite emit_do by (cbn; lia). cbn [bind].
    rewrite (segs_complete _ _ (seg_complete_top (S (length t))) ss b (SegsG_bound Seg _ ss b HS Hlen));
      [|exact I|reflexivity|lia|cbn [length]; lia].
    cbn [bind inp hd_is is_nil]. rewrite emit_do by (cbn [length]; rewrite app_length, rev_length; cbn [length]; lia).
    cbn [bind toks]. f_equal. cbn [rev]. rewrite rev_app_distr, rev_involutive. reflexivity.
  - cbn [length] in Hl. rewrite app_length in Hl. cbn [length] in Hl.
    set (t := spell (tSlash :: ss ++ [tColon; Tok TLiteral v; tEOF])).
    assert (Et : t = 47 :: spell ss ++ 58 :: v ++ []).
    { unfold t. rewrite spell_cons, spell_app. cbn. now rewrite !app_nil_r. }
    assert (Hlen0 : (length ss < length t)%nat).
    { pose proof (nonempty_vals_length _ (SegsG_nonempty Seg Seg_nonempty ss b HS)). rewrite Et. cbn [length]. rewrite app_length. lia. }
    assert (Hlen : (length ss <= S (length t))%nat) by lia.
    rewrite Et at 1. rewrite hd_is_cons. rewrite emit_do by (cbn; lia). cbn [bind].
    rewrite (segs_complete _ _ (seg_complete_top (S (length t))) ss b (SegsG_bound Seg _ ss b HS Hlen));
      [|cbn; auto|reflexivity|lia|cbn [length]; lia].
    cbn [bind inp]. rewrite hd_is_cons. rewrite emit_do by (cbn [length]; rewrite app_length, rev_length; cbn [length]; lia).
    cbn [bind]. unfold lex_verb.
    unfold verb_ok in Hv. apply andb_true_iff in Hv. destruct Hv as [Hv1 Hv2].
    rewrite lex_run_complete; [|destruct v; [discriminate|discriminate]|exact Hv2|exact I|
      cbn [length]; rewrite app_length, rev_length; cbn [length]; lia].
    cbn [bind inp]. rewrite emit_do by (cbn [length]; rewrite app_length, rev_length; cbn [length]; lia).
    cbn [bind toks]. f_equal. cbn [rev]. rewrite !rev_app_distr, rev_involutive. cbn [rev app]. rewrite <- !app_assoc. reflexivity.
Qed.


(* ---- the spelling of a variable's pattern determines its tokens ---- *)
Lemma split_at_unique (x : N) (a c b d : str) :
  ~ In x a -> ~ In x c -> a ++ x :: b = c ++ x :: d -> a = c /\ b = d.
Proof.
  revert c. induction a as [|y a IH]; intros [|z c] Ha Hc E; cbn in E.
  - inversion E. auto.
  - inversion E; subst. exfalso. apply Hc. now left.
  - inversion E; subst. exfalso. apply Ha. now left.
  - inversion E; subst. destruct (IH c) as [-> ->]; auto; intros H; [apply Ha|apply Hc]; now right.
Qed.

Lemma PSeg_no_slash ts b : PSeg ts b -> ~ In 47 (spell ts).
Proof.
  intros [v Hv| |]; cbn; try (intros [H|[H|[]]]; discriminate); try (intros [H|[]]; discriminate).
  rewrite app_nil_r. destruct (lit_ok_inv _ Hv) as (x & v' & -> & _ & Hp). intros Hin.
  rewrite forallb_forall in Hp. specialize (Hp 47 Hin). rewrite sane_literal in Hp; [discriminate|cbn; auto 10].
Qed.

Lemma PSeg_spell_inj t1 b1 t2 b2 : PSeg t1 b1 -> PSeg t2 b2 -> spell t1 = spell t2 -> t1 = t2.
Proof.
  intros [v1 H1| |] [v2 H2| |]; cbn; rewrite ?app_nil_r; intros E; try discriminate; auto.
  - now subst.
  - subst v1. destruct (lit_ok_inv _ H1) as (x & v' & E & Hx & _). inversion E; subst. rewrite (sane_letter 42) in Hx; [discriminate|cbn; auto].
  - subst v1. destruct (lit_ok_inv _ H1) as (x & v' & E & Hx & _). inversion E; subst. rewrite (sane_letter 42) in Hx; [discriminate|cbn; auto].
  - subst v2. destruct (lit_ok_inv _ H2) as (x & v' & E & Hx & _). inversion E; subst. rewrite (sane_letter 42) in Hx; [discriminate|cbn; auto].
  - subst v2. destruct (lit_ok_inv _ H2) as (x & v' & E & Hx & _). inversion E; subst. rewrite (sane_letter 42) in Hx; [discriminate|cbn; auto].
Qed.

Theorem PSegs_spell_inj p1 b1 : PSegs p1 b1 -> forall p2 b2, PSegs p2 b2 -> spell p1 = spell p2 -> p1 = p2.
Proof.
  induction 1 as [t1 b1 G1|t1 r1 b1 G1 HS1 IH]; intros p2 b2 HS2 E.
  - destruct HS2 as [t2 b2 G2|t2 r2 b2 G2 HS2].
    + eapply PSeg_spell_inj; eauto.
    + exfalso. rewrite spell_app in E. change (spell (tSlash :: r2)) with (47 :: spell r2) in E.
      apply (PSeg_no_slash _ _ G1). rewrite E. apply in_or_app. right. now left.
  - destruct HS2 as [t2 b2 G2|t2 r2 b2 G2 HS2].
    + exfalso. rewrite spell_app in E. change (spell (tSlash :: r1)) with (47 :: spell r1) in E.
      apply (PSeg_no_slash _ _ G2). rewrite <- E. apply in_or_app. right. now left.
    + rewrite !spell_app in E. change (spell (tSlash :: r1)) with (47 :: spell r1) in E.
      change (spell (tSlash :: r2)) with (47 :: spell r2) in E.
      destruct (split_at_unique 47 _ _ _ _ (PSeg_no_slash _ _ G1) (PSeg_no_slash _ _ G2) E) as [E1 E2].
      rewrite (PSeg_spell_inj _ _ _ _ G1 G2 E1), (IH _ _ HS2 E2). reflexivity.
Qed.

End Complete.
End LexerProofs.
