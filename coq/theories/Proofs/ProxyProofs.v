(* Proofs about Model/Proxy.v: the proxied system (client, backend, handler main loop, pump) is
   a refinement of the direct system (client, backend) under every schedule; the direct system is
   confluent; hence every resting state of the proxied system has the transcript of every resting
   state of the direct system. *)
From Larking Require Import Base.GoSem Model.Proxy.
Local Open Scope list_scope.

(* ------------------------------------------------------------------------------------------ *)
(* generic: deterministic processes whose steps commute (on invariant states) reach at most one
   resting state *)
Section Confluence.
  Variables (St Pid : Type) (step : Pid -> St -> option St) (Inv : St -> Prop).
  Hypothesis pid_dec : forall p q : Pid, {p = q} + {p <> q}.
  Hypothesis inv_step : forall s p s', Inv s -> step p s = Some s' -> Inv s'.
  Hypothesis diamond : forall s p q s1 s2, Inv s -> p <> q -> step p s = Some s1 -> step q s = Some s2 ->
      exists s', step q s1 = Some s' /\ step p s2 = Some s'.

  Inductive steps : nat -> St -> St -> Prop :=
  | steps_O : forall s, steps 0 s s
  | steps_S : forall n p s s1 t, step p s = Some s1 -> steps n s1 t -> steps (S n) s t.

  Definition resting (s : St) : Prop := forall p, step p s = None.

  Lemma steps_inv : forall n s t, steps n s t -> Inv s -> Inv t.
  Proof. induction 1 as [|n p s s1 t Hs _ IH]; intros Hi; eauto. Qed.

  Lemma steps_push : forall n s t, steps n s t -> Inv s -> resting t ->
    forall p s1, step p s = Some s1 -> exists m, n = S m /\ steps m s1 t.
  Proof.
    induction 1 as [s|n q s s2 t Hq Hrest IH]; intros Hi Hstuck p s1 Hp.
    - rewrite (Hstuck p) in Hp. discriminate.
    - destruct (pid_dec p q) as [->|Hne].
      + rewrite Hq in Hp. injection Hp as <-. eauto.
      + destruct (diamond s p q s1 s2 Hi Hne Hp Hq) as (s' & Hq' & Hp').
        destruct (IH (inv_step _ _ _ Hi Hq) Hstuck p s' Hp') as (m & -> & Hm).
        exists (S m). split; [reflexivity|]. econstructor; eauto.
  Qed.

  Lemma resting_unique : forall n s t, steps n s t -> Inv s -> resting t ->
    forall m t', steps m s t' -> resting t' -> t = t'.
  Proof.
    induction 1 as [s|n p s s1 t Hp Hrest IH]; intros Hi Hstuck m t' Hm Hstuck'.
    - inversion Hm as [|? q ? s2 ? Hq]; subst; [reflexivity|]. rewrite (Hstuck q) in Hq. discriminate.
    - destruct (steps_push _ _ _ Hm Hi Hstuck' p s1 Hp) as (k & -> & Hk).
      eapply IH; eauto.
  Qed.
End Confluence.
Arguments steps {St Pid} step n s t.
Arguments resting {St Pid} step s.

(* ------------------------------------------------------------------------------------------ *)
(* the direct system *)
Lemma dpid_dec : forall p q : dpid, {p = q} + {p <> q}.
Proof. decide equality. Qed.

Definition dinv (d : dstate) : Prop := bdone (dbk d) = false -> cfinal (dcall d) = None.

Ltac inv_some :=
  repeat match goal with
  | H : Some _ = Some _ |- _ => injection H as H; try subst
  | H : MSend _ _ = MSend _ _ |- _ => injection H; clear H; intros; try subst
  | H : None = Some _ |- _ => discriminate H
  | H : Some _ = None |- _ => discriminate H
  end.

Ltac break_match_hyp :=
  match goal with
  | H : context [match ?x with _ => _ end] |- _ => destruct x eqn:?; cbn in *; try discriminate
  | H : context [if ?x then _ else _] |- _ => destruct x eqn:?; cbn in *; try discriminate
  end.

Lemma dinv_init : forall sc, dinv (init_d sc).
Proof. intros sc _. unfold init_d, init_call. destruct (client_streams (s_shape sc)); reflexivity. Qed.

Lemma dinv_step : forall sc d p d', dinv d -> step_d sc p d = Some d' -> dinv d'.
Proof.
  intros sc [[u c dn fn] [cp cr cf] [bp br be bd]] p d' Hi Hs. unfold dinv in *. cbn in *.
  destruct p; cbn in Hs; unfold client_step, client_recv, backend_step in Hs; cbn in Hs;
    repeat break_match_hyp; inv_some; cbn; intros; try discriminate; try congruence; auto.
Qed.

Lemma direct_diamond : forall sc d p q d1 d2, dinv d -> p <> q ->
  step_d sc p d = Some d1 -> step_d sc q d = Some d2 ->
  exists d', step_d sc q d1 = Some d' /\ step_d sc p d2 = Some d'.
Proof.
  intros sc [[u c dn fn] [cp cr cf] [bp br be bd]] p q d1 d2 Hi Hne H1 H2.
  unfold dinv in Hi. cbn in Hi.
  destruct p, q; try congruence; clear Hne;
    cbn in H1, H2; unfold client_step, client_recv, backend_step in H1, H2; cbn in H1, H2.
  all: destruct bd; [discriminate|]; specialize (Hi eq_refl); subst fn.
  all: repeat break_match_hyp; inv_some.
  all: try match goal with H : _ && false = true |- _ => rewrite andb_false_r in H; discriminate end.
  all: cbn; unfold client_step, client_recv, backend_step; cbn;
       repeat match goal with H : _ = _ |- _ => rewrite H end; cbn;
       try rewrite <- app_assoc; cbn; eauto.
Qed.

Lemma run_d_steps : forall sc sched d, exists n, steps (step_d sc) n d (run_d sc sched d).
Proof.
  intros sc sched. induction sched as [|p r IH]; intros d; cbn.
  - exists 0. constructor.
  - destruct (step_d sc p d) as [d'|] eqn:E.
    + destruct (IH d') as (n & Hn). exists (S n). econstructor; eauto.
    + apply IH.
Qed.

Lemma steps_d_unique : forall sc n m d t t', dinv d ->
  steps (step_d sc) n d t -> resting (step_d sc) t ->
  steps (step_d sc) m d t' -> resting (step_d sc) t' -> t = t'.
Proof.
  intros sc n m d t t' Hi H1 R1 H2 R2.
  eapply (resting_unique dstate dpid (step_d sc) dinv dpid_dec); eauto.
  - intros; eapply dinv_step; eauto.
  - intros; eapply direct_diamond; eauto.
Qed.

(* the direct system is confluent: all schedules that come to rest do so in the same state *)
Lemma direct_confluent : forall sc sa sb,
  stuck_d sc (run_d sc sa (init_d sc)) -> stuck_d sc (run_d sc sb (init_d sc)) ->
  run_d sc sa (init_d sc) = run_d sc sb (init_d sc).
Proof.
  intros sc sa sb Ha Hb.
  destruct (run_d_steps sc sa (init_d sc)) as (n & Hn).
  destruct (run_d_steps sc sb (init_d sc)) as (m & Hm).
  eapply steps_d_unique; eauto using dinv_init.
Qed.

(* ------------------------------------------------------------------------------------------ *)
(* the proxied system: abstraction to the direct system and its invariant *)
Definition hand_up (s : pstate) : list (list N) :=
  (match pp s with PSend m => [m] | _ => [] end) ++ (match pm s with MFirstSend m => [m] | _ => [] end).
Definition hand_down (s : pstate) : list (list N) :=
  match pm s with MSend h _ => h | _ => [] end.

Definition abs (s : pstate) : dstate :=
  DState (Call (up (back s) ++ hand_up s ++ up (front s)) (closed (front s))
               (down (front s) ++ hand_down s ++ down (back s)) (cfinal (back s)))
         (pcl s) (pbk s).

Definition pinv (sc : script) (s : pstate) : Prop :=
  let cs := client_streams (s_shape sc) in
  let ss := server_streams (s_shape sc) in
  (forall f, cfinal (front s) = Some f ->
     cfinal (back s) = Some f /\ pm s = MDone /\ (ss || ok f = true -> down (back s) = [])) /\
  (bdone (pbk s) = false -> cfinal (back s) = None) /\
  (closed (back s) = true -> hand_up s = [] /\ up (front s) = [] /\ closed (front s) = true) /\
  (cs = false -> closed (front s) = true /\ pp s = POff /\
     match pm s with
     | MOpen | MFirstRecv => up (front s) = [s_req sc] /\ closed (back s) = false
     | MFirstSend _ => up (front s) = [] /\ closed (back s) = false
     | _ => up (front s) = [] /\ closed (back s) = true
     end) /\
  (opened s = true -> bmd s = s_reqmd sc) /\
  (match pm s with MRecv | MSend _ _ | MDone => opened s = true | _ => True end) /\
  (forall h f, pm s = MSend h (Some f) ->
     cfinal (back s) = Some f /\ (ss || ok f = true -> down (back s) = [])) /\
  (pm s = MDone -> cfinal (front s) <> None) /\
  (pp s = PDone -> closed (back s) = true) /\
  (cs = true -> match pm s with
                | MOpen => pp s = POff /\ closed (back s) = false
                | MFirstRecv | MFirstSend _ => False
                | _ => pp s <> POff
                end).

Lemma pinv_init : forall sc, pinv sc (init_p sc).
Proof.
  intros sc. unfold pinv, init_p, init_call.
  destruct (s_shape sc); cbn; repeat split; intros; try discriminate; try congruence; auto.
Qed.

Lemma abs_init : forall sc, abs (init_p sc) = init_d sc.
Proof.
  intros sc. unfold abs, init_p, init_d, init_call, hand_up, hand_down.
  destruct (s_shape sc); cbn; reflexivity.
Qed.

Ltac destruct_pstate s :=
  destruct s as [[fu fc fd ff] [bu bc bd bf] [cp cr cf] [kp kr ke kd] m p op bm].
Ltac break_in H :=
  match type of H with
  | context [match ?x with _ => _ end] =>
      lazymatch x with context [match _ with _ => _ end] => fail | _ => idtac end;
      destruct x eqn:?; cbn in H; try discriminate H
  end.
Ltac fwd :=
  repeat match goal with
  | H : Some _ = Some _ |- _ => injection H as H; try subst
  | H : MSend _ _ = MSend _ _ |- _ => injection H; clear H; intros; try subst
  | H : _ /\ _ |- _ => destruct H
  | H : ?a = ?a -> _ |- _ => specialize (H eq_refl)
  | H : true || _ = true -> _ |- _ => specialize (H eq_refl)
  | H : ?A -> _, H' : ?A |- _ => match type of A with Prop => specialize (H H') end
  | H : forall f, Some ?x = Some f -> @?P f |- _ => specialize (H _ eq_refl)
  | H : forall h f, MSend ?h0 (Some ?x) = MSend h (Some f) -> @?P h f |- _ => specialize (H _ _ eq_refl)
  end.
Ltac split_andb :=
  repeat match goal with
  | H : _ && _ = true |- _ => apply andb_prop in H; destruct H
  | H : negb _ = true |- _ => apply negb_true_iff in H
  end.
Ltac conj_split := repeat match goal with |- _ /\ _ => split end.
Ltac rew_bools :=
  repeat match goal with
  | H : ?x = true, H' : context [?x] |- _ => rewrite H in H'
  | H : ?x = false, H' : context [?x] |- _ => rewrite H in H'
  end.
Ltac fin_inv := intros; cbn in *; fwd; subst; cbn in *; conj_split; intros; cbn in *; fwd; rew_bools; cbn in *; fwd;
  try discriminate; try congruence; eauto.
Ltac abs_tac :=
  unfold abs, hand_up, hand_down; cbn; unfold client_step, client_recv, backend_step; cbn;
  repeat match goal with H : ?x = _ |- context[?x] => rewrite H end; cbn;
  repeat rewrite <- app_assoc; cbn; rewrite ?app_nil_r; try reflexivity.

Lemma sim_client : forall sc s s', pinv sc s -> step_p sc PClient s = Some s' ->
  pinv sc s' /\ step_d sc DClient (abs s) = Some (abs s').
Proof.
  intros sc s s' Hi Hs. destruct_pstate s.
  unfold pinv in Hi. cbn in Hi. destruct Hi as (I1 & I2 & I3 & I4 & I5 & I6 & I7 & I8 & I9 & I10).
  cbn in Hs. unfold client_step, client_recv in Hs. cbn in Hs.
  repeat break_in Hs; inv_some; split_andb;
  (split; [unfold pinv; cbn; conj_split; fin_inv | fwd; subst; abs_tac ]).
Qed.

Lemma sim_backend : forall sc s s', pinv sc s -> step_p sc PBackend s = Some s' ->
  pinv sc s' /\ step_d sc DBackend (abs s) = Some (abs s').
Proof.
  intros sc s s' Hi Hs. destruct_pstate s.
  unfold pinv in Hi. cbn in Hi. destruct Hi as (I1 & I2 & I3 & I4 & I5 & I6 & I7 & I8 & I9 & I10).
  cbn in Hs. unfold backend_step in Hs. cbn in Hs.
  repeat break_in Hs; inv_some; split_andb;
  (split; [unfold pinv; cbn; conj_split; fin_inv | fwd; subst; abs_tac ]).
Qed.

Ltac abs_eq :=
  unfold abs, hand_up, hand_down; cbn;
  repeat rewrite <- app_assoc; cbn; rewrite ?app_nil_r; try reflexivity.

Lemma sim_pump : forall sc s s', pinv sc s -> step_p sc PPump s = Some s' ->
  pinv sc s' /\ abs s' = abs s.
Proof.
  intros sc s s' Hi Hs. destruct_pstate s.
  unfold pinv in Hi. cbn in Hi. destruct Hi as (I1 & I2 & I3 & I4 & I5 & I6 & I7 & I8 & I9 & I10).
  cbn in Hs. unfold pump_step in Hs. cbn in Hs.
  repeat break_in Hs; inv_some; split_andb;
  destruct (client_streams (s_shape sc)) eqn:Hcs; destruct m; cbn in *; fwd; try discriminate; try contradiction;
  (split; [unfold pinv; cbn; conj_split; fin_inv | fwd; subst; abs_eq ]).
Qed.

Lemma sim_main : forall sc s s', pinv sc s -> step_p sc PMain s = Some s' ->
  pinv sc s' /\ abs s' = abs s.
Proof.
  intros sc s s' Hi Hs. destruct_pstate s.
  unfold pinv in Hi. cbn in Hi. destruct Hi as (I1 & I2 & I3 & I4 & I5 & I6 & I7 & I8 & I9 & I10).
  cbn in Hs. unfold main_step in Hs. cbn in Hs.
  repeat break_in Hs; inv_some; split_andb;
  destruct (client_streams (s_shape sc)) eqn:Hcs; cbn in *; fwd; try discriminate; try contradiction;
  (split; [unfold pinv; cbn; conj_split; fin_inv | fwd; subst; abs_eq ]).
Qed.

(* when the proxied system cannot move, the direct system in the corresponding state cannot either *)
Lemma stuck_pres : forall sc s, pinv sc s -> stuck_p sc s -> stuck_d sc (abs s).
Proof.
  intros sc s Hi Hst.
  pose proof (Hst PClient) as Hc; pose proof (Hst PBackend) as Hb;
  pose proof (Hst PMain) as Hm; pose proof (Hst PPump) as Hp. clear Hst.
  destruct_pstate s.
  unfold pinv in Hi. cbn in Hi. destruct Hi as (I1 & I2 & I3 & I4 & I5 & I6 & I7 & I8 & I9 & I10).
  cbn in Hc, Hb, Hm, Hp. unfold client_step, client_recv, backend_step, main_step, pump_step in *. cbn in *.
  repeat break_in Hm; repeat break_in Hp;
  destruct (client_streams (s_shape sc)) eqn:Hcs; cbn in *; fwd; try discriminate; try contradiction; try congruence;
  repeat break_in Hc; repeat break_in Hb; cbn in *; fwd; try discriminate; try contradiction; try congruence;
  intros q; destruct q; abs_tac.
Qed.

Lemma stuck_opened : forall sc s, pinv sc s -> step_p sc PMain s = None -> bmd s = s_reqmd sc.
Proof.
  intros sc s Hi Hm. destruct_pstate s.
  unfold pinv in Hi. cbn in Hi. destruct Hi as (I1 & I2 & I3 & I4 & I5 & I6 & I7 & I8 & I9 & I10).
  cbn in Hm. unfold main_step in Hm. cbn in Hm.
  repeat break_in Hm;
  destruct (client_streams (s_shape sc)) eqn:Hcs; cbn in *; fwd; try discriminate; try contradiction; try congruence; auto.
Qed.

Lemma steps_snoc : forall St Pid (step : Pid -> St -> option St) n a b, steps step n a b ->
  forall p c, step p b = Some c -> steps step (S n) a c.
Proof.
  induction 1 as [s|n q s s1 t Hq Hr IH]; intros p c Hp.
  - econstructor; eauto. constructor.
  - econstructor; eauto.
Qed.

(* every step of the proxied system is a step of the direct system or leaves its abstraction unchanged *)
Lemma sim_step : forall sc p s s', pinv sc s -> step_p sc p s = Some s' ->
  pinv sc s' /\ (abs s' = abs s \/ exists q, step_d sc q (abs s) = Some (abs s')).
Proof.
  intros sc p s s' Hi Hs. destruct p.
  - destruct (sim_client _ _ _ Hi Hs); eauto.
  - destruct (sim_backend _ _ _ Hi Hs); eauto.
  - destruct (sim_main _ _ _ Hi Hs); eauto.
  - destruct (sim_pump _ _ _ Hi Hs); eauto.
Qed.

Lemma run_p_sim : forall sc sched s n, pinv sc s -> steps (step_d sc) n (init_d sc) (abs s) ->
  pinv sc (run_p sc sched s) /\ exists n', steps (step_d sc) n' (init_d sc) (abs (run_p sc sched s)).
Proof.
  intros sc sched. induction sched as [|p r IH]; intros s n Hi Hn; cbn.
  - eauto.
  - destruct (step_p sc p s) as [s'|] eqn:E; [|eauto].
    destruct (sim_step _ _ _ _ Hi E) as (Hi' & [Heq | (q & Hq)]).
    + rewrite <- Heq in Hn. eauto.
    + eapply IH; eauto. eapply steps_snoc; eauto.
Qed.

Lemma reach_sim : forall sc sched,
  pinv sc (run_p sc sched (init_p sc)) /\
  exists n, steps (step_d sc) n (init_d sc) (abs (run_p sc sched (init_p sc))).
Proof.
  intros sc sched. eapply run_p_sim; [apply pinv_init|]. rewrite abs_init. constructor.
Qed.

Lemma transcript_abs : forall sc s, pinv sc s -> stuck_p sc s -> transcript_p s = transcript_d sc (abs s).
Proof.
  intros sc s Hi Hst. unfold transcript_p, transcript_d. cbn.
  rewrite (stuck_opened sc s Hi (Hst PMain)). reflexivity.
Qed.

(* the resting state of a proxied run is, up to the handler's buffers, the resting state of every direct run *)
Theorem proxy_refines_direct : forall sc sp sd,
  stuck_p sc (run_p sc sp (init_p sc)) -> stuck_d sc (run_d sc sd (init_d sc)) ->
  abs (run_p sc sp (init_p sc)) = run_d sc sd (init_d sc).
Proof.
  intros sc sp sd Hp Hd.
  destruct (reach_sim sc sp) as (Hi & n & Hn).
  destruct (run_d_steps sc sd (init_d sc)) as (m & Hm).
  eapply steps_d_unique; eauto using dinv_init. apply stuck_pres; auto.
Qed.

Theorem transparent : forall sc sp sd,
  stuck_p sc (run_p sc sp (init_p sc)) -> stuck_d sc (run_d sc sd (init_d sc)) ->
  transcript_p (run_p sc sp (init_p sc)) = transcript_d sc (run_d sc sd (init_d sc)).
Proof.
  intros sc sp sd Hp Hd.
  rewrite <- (proxy_refines_direct sc sp sd Hp Hd).
  apply transcript_abs; auto. apply reach_sim.
Qed.

Theorem no_stuck : forall sc sp,
  stuck_p sc (run_p sc sp (init_p sc)) -> stuck_d sc (abs (run_p sc sp (init_p sc))).
Proof. intros sc sp H. apply stuck_pres; auto. apply reach_sim. Qed.

(* ------------------------------------------------------------------------------------------ *)
(* termination under every schedule: a measure that every step lowers *)
Definition rank_m (m : mpc) : nat :=
  match m with
  | MOpen => 5 | MFirstRecv => 4 | MFirstSend _ => 3 | MRecv => 2
  | MSend [] None => 3 | MSend _ None => 2 | MSend _ (Some _) => 1 | MDone => 0
  end.
Definition rank_p (p : ppc) : nat := match p with PDone => 0 | _ => 1 end.
Definition measure (s : pstate) : nat :=
  5 * length (cpc (pcl s)) + (match cfin (pcl s) with None => 1 | Some _ => 0 end) +
  5 * length (bpc (pbk s)) + (if bdone (pbk s) then 0 else 1) +
  4 * length (up (front s)) + 3 * length (hand_up s) + 2 * length (up (back s)) +
  4 * length (down (back s)) + 3 * length (hand_down s) + 2 * length (down (front s)) +
  rank_m (pm s) + rank_p (pp s).

Lemma step_lowers : forall sc q s s', step_p sc q s = Some s' -> measure s' < measure s.
Proof.
  intros sc q s s' Hs. destruct_pstate s.
  destruct q; cbn in Hs; unfold client_step, client_recv, backend_step, main_step, pump_step in Hs; cbn in Hs;
  repeat break_in Hs; inv_some; unfold measure, hand_up, hand_down; cbn;
  rewrite ?app_length; cbn; try lia.
  destruct bd; cbn; lia.
Qed.

Lemma steps_bounded : forall sc n s t, steps (step_p sc) n s t -> n + measure t <= measure s.
Proof.
  induction 1 as [s|n p s s1 t Hp _ IH]; [lia|].
  pose proof (step_lowers _ _ _ _ Hp). lia.
Qed.

Lemma run_p_steps : forall sc sched s, exists n, steps (step_p sc) n s (run_p sc sched s).
Proof.
  intros sc sched. induction sched as [|p r IH]; intros s; cbn.
  - exists 0. constructor.
  - destruct (step_p sc p s) as [s'|] eqn:E.
    + destruct (IH s') as (n & Hn). exists (S n). econstructor; eauto.
    + apply IH.
Qed.

Lemma is_stuck_p_spec : forall sc s, is_stuck_p sc s = true <-> stuck_p sc s.
Proof.
  intros sc s. unfold is_stuck_p, stuck_p. split.
  - intros H p.
    destruct (step_p sc PClient s) eqn:E1; [discriminate|].
    destruct (step_p sc PBackend s) eqn:E2; [discriminate|].
    destruct (step_p sc PMain s) eqn:E3; [discriminate|].
    destruct (step_p sc PPump s) eqn:E4; [discriminate|].
    destruct p; assumption.
  - intros H. rewrite (H PClient), (H PBackend), (H PMain), (H PPump). reflexivity.
Qed.

(* every schedule can be continued to a resting state; no schedule makes more than
   measure (init_p sc) effective steps *)
Lemma comes_to_rest : forall k sc s, measure s <= k -> exists sched, stuck_p sc (run_p sc sched s).
Proof.
  induction k as [|k IH]; intros sc s Hk.
  - exists []. cbn. intros p. destruct (step_p sc p s) as [s'|] eqn:E; [|reflexivity].
    pose proof (step_lowers _ _ _ _ E). lia.
  - destruct (is_stuck_p sc s) eqn:E.
    + exists []. cbn. apply is_stuck_p_spec; assumption.
    + assert (exists p s', step_p sc p s = Some s') as (p & s' & Hp).
      { unfold is_stuck_p in E.
        destruct (step_p sc PClient s) eqn:E1; [eauto|].
        destruct (step_p sc PBackend s) eqn:E2; [eauto|].
        destruct (step_p sc PMain s) eqn:E3; [eauto|].
        destruct (step_p sc PPump s) eqn:E4; [eauto|]. discriminate. }
      pose proof (step_lowers _ _ _ _ Hp).
      destruct (IH sc s') as (sched & Hs); [lia|].
      exists (p :: sched). cbn. rewrite Hp. assumption.
Qed.

Theorem bounded_runs : forall sc sched, exists n,
  steps (step_p sc) n (init_p sc) (run_p sc sched (init_p sc)) /\ n <= measure (init_p sc).
Proof.
  intros sc sched.
  destruct (run_p_steps sc sched (init_p sc)) as (n & Hn). exists n. split; [assumption|].
  pose proof (steps_bounded _ _ _ _ Hn). lia.
Qed.

Lemma run_p_app : forall sc a b s, run_p sc (a ++ b) s = run_p sc b (run_p sc a s).
Proof.
  intros sc a b. induction a as [|p r IH]; intros s; cbn; [reflexivity|].
  destruct (step_p sc p s); apply IH.
Qed.

Theorem terminates : forall sc sched, exists more, stuck_p sc (run_p sc (sched ++ more) (init_p sc)).
Proof.
  intros sc sched.
  destruct (comes_to_rest (measure (run_p sc sched (init_p sc))) sc (run_p sc sched (init_p sc)) (le_n _)) as (more & Hm).
  exists more. rewrite run_p_app. assumption.
Qed.

(* ------------------------------------------------------------------------------------------ *)
(* unary calls in closed form *)
Lemma client_done_idle : forall sc n c cr f b,
  run_d sc (repeat DClient n) (DState c (Cst [] cr (Some f)) b) = DState c (Cst [] cr (Some f)) b.
Proof. intros sc n. induction n as [|n IH]; intros; cbn; [reflexivity|apply IH]. Qed.

Lemma client_skip : forall sc o r c cr b,
  client_streams (s_shape sc) = false -> (o <> CRecv) ->
  step_d sc DClient (DState c (Cst (o :: r) cr None) b) = Some (DState c (Cst r cr None) b).
Proof.
  intros sc o r c cr b Hcs Ho. cbn. unfold client_step. cbn. rewrite Hcs.
  destruct o; [reflexivity|congruence|reflexivity].
Qed.

Lemma client_final : forall sc r c cr f b,
  server_streams (s_shape sc) = false -> cfinal c = Some f ->
  (forall o r', r = o :: r' -> o = CRecv) ->
  step_d sc DClient (DState c (Cst r cr None) b) =
  Some (DState c (Cst [] (cr ++ (if ok f then down c else [])) (Some f)) b).
Proof.
  intros sc r c cr f b Hss Hf Hr. cbn. unfold client_step. cbn.
  destruct r as [|o r']; [|rewrite (Hr o r' eq_refl)]; unfold client_recv; rewrite Hss, Hf; reflexivity.
Qed.

Lemma client_drain : forall sc cops c cr f b,
  client_streams (s_shape sc) = false -> server_streams (s_shape sc) = false -> cfinal c = Some f ->
  run_d sc (repeat DClient (S (length cops))) (DState c (Cst cops cr None) b) =
  DState c (Cst [] (cr ++ (if ok f then down c else [])) (Some f)) b.
Proof.
  intros sc cops. induction cops as [|o r IH]; intros c cr f b Hcs Hss Hf.
  - cbn [length repeat run_d]. rewrite (client_final sc [] c cr f b Hss Hf); [reflexivity|discriminate].
  - change (repeat DClient (S (length (o :: r)))) with (DClient :: repeat DClient (S (length r))).
    cbn [run_d].
    destruct o.
    + rewrite client_skip by (auto; discriminate). apply IH; auto.
    + rewrite (client_final sc (CRecv :: r) c cr f b Hss Hf).
      * apply client_done_idle.
      * intros o r' E. congruence.
    + rewrite client_skip by (auto; discriminate). apply IH; auto.
Qed.

Definition unary_script (req x : list N) (f : fin) (reqmd : md) (cops : list cop) : script :=
  Script Un req cops (BRecv :: (if ok f then [BSend x] else [])) f reqmd.

Lemma run_d_app : forall sc a b d, run_d sc (a ++ b) d = run_d sc b (run_d sc a d).
Proof.
  intros sc a b. induction a as [|p r IH]; intros d; cbn; [reflexivity|].
  destruct (step_d sc p d); apply IH.
Qed.

Lemma unary_direct : forall req x f reqmd cops,
  let sc := unary_script req x f reqmd cops in
  exists sd, stuck_d sc (run_d sc sd (init_d sc)) /\
    transcript_d sc (run_d sc sd (init_d sc)) =
    Transcript [req] false reqmd (if ok f then [x] else []) (Some f).
Proof.
  intros req x f reqmd cops sc.
  exists ([DBackend; DBackend; DBackend] ++ repeat DClient (S (length cops))).
  rewrite run_d_app.
  assert (run_d sc [DBackend; DBackend; DBackend] (init_d sc) =
          DState (Call [] true (if ok f then [x] else []) (Some f)) (Cst cops [] None) (Bst [] [req] false true)) as ->.
  { unfold sc, unary_script. destruct (ok f); reflexivity. }
  rewrite client_drain with (f := f); [|reflexivity|reflexivity|reflexivity].
  split.
  - intros p. destruct p; reflexivity.
  - unfold transcript_d. cbn. destruct (ok f); reflexivity.
Qed.

Theorem unary_transparent : forall req x f reqmd cops sp,
  let sc := unary_script req x f reqmd cops in
  stuck_p sc (run_p sc sp (init_p sc)) ->
  transcript_p (run_p sc sp (init_p sc)) = Transcript [req] false reqmd (if ok f then [x] else []) (Some f).
Proof.
  intros req x f reqmd cops sp sc Hp.
  destruct (unary_direct req x f reqmd cops) as (sd & Hd & Ht).
  fold sc in Hd, Ht. rewrite <- Ht. apply transparent; assumption.
Qed.

Theorem no_hang_added : forall sc sp sd,
  stuck_p sc (run_p sc sp (init_p sc)) -> stuck_d sc (run_d sc sd (init_d sc)) ->
  cfin (dcl (run_d sc sd (init_d sc))) <> None -> cfin (pcl (run_p sc sp (init_p sc))) <> None.
Proof.
  intros sc sp sd Hp Hd Hc. pose proof (transparent sc sp sd Hp Hd) as T.
  apply (f_equal t_cfin) in T. cbn in T. rewrite T. exact Hc.
Qed.
