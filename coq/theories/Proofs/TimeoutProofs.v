From Larking Require Import Base.GoSem Model.Timeout.
Local Open Scope Z_scope.

Lemma digits_val_bound : forall ds acc, forallb is_digit ds = true -> 0 <= acc ->
  acc * 10 ^ Z.of_nat (length ds) <= digits_val acc ds < (acc + 1) * 10 ^ Z.of_nat (length ds).
Proof.
  induction ds as [|d r IH]; intros acc H Ha; cbn [digits_val length].
  - cbn. lia.
  - cbn [forallb] in H. apply andb_true_iff in H. destruct H as [Hd Hr].
    unfold is_digit in Hd.
    specialize (IH (acc * 10 + (Z.of_N d - 48)) Hr ltac:(lia)).
    rewrite Nat2Z.inj_succ, Z.pow_succ_r by lia.
    assert (0 < 10 ^ Z.of_nat (length r)) by (apply Z.pow_pos_nonneg; lia).
    nia.
Qed.

Lemma split_last (s : bytes) : s <> [] -> s = removelast s ++ [last s 0%N].
Proof. apply app_removelast_last. Qed.

Lemma removelast_length {A} (s : list A) : length (removelast s) = (length s - 1)%nat.
Proof. induction s as [|a [|b r] IH]; cbn [removelast length] in *; lia. Qed.

Lemma unit_ns_pos u d : unit_ns u = Some d -> 1 <= d <= 3600000000000.
Proof.
  unfold unit_ns. repeat match goal with |- context [if ?c then _ else _] => destruct c end;
    intros H; inversion H; lia.
Qed.

Lemma wrap64_small x : 0 <= x < 2 ^ 63 -> wrap64 x = x.
Proof.
  intros H. unfold wrap64. rewrite Z.mod_small by lia.
  replace (x <? 2 ^ 63) with true by lia. reflexivity.
Qed.

(* a product below 2^63 unless the unit is hours *)
Lemma product_small ds d : forallb is_digit ds = true -> (length ds <= 8)%nat ->
  1 <= d <= 60000000000 -> 0 <= d * digits_val 0 ds < 2 ^ 63.
Proof.
  intros Hd Hl Hu. pose proof (digits_val_bound ds 0 Hd ltac:(lia)) as B.
  assert (10 ^ Z.of_nat (length ds) <= 10 ^ 8) by (apply Z.pow_le_mono_r; lia).
  change (10 ^ 8) with 100000000 in *. nia.
Qed.

Theorem decode_timeout_sound s ns : decode_timeout s = Some ns -> legal s ns.
Proof.
  unfold decode_timeout. destruct (Nat.ltb (length s) 2) eqn:L2; [discriminate|].
  destruct (Nat.ltb 9 (length s)) eqn:L9; [discriminate|].
  apply Nat.ltb_ge in L2, L9.
  destruct (unit_ns (last s 0%N)) as [d|] eqn:U; [|discriminate].
  unfold parse_uint. destruct (removelast s) as [|c r] eqn:RL.
  { discriminate. }
  rewrite <- RL. destruct (forallb is_digit (removelast s)) eqn:FD; [|discriminate].
  intros H. exists (removelast s), (last s 0%N), d.
  assert (Hne : s <> []) by (destruct s; [cbn in L2; lia|discriminate]).
  pose proof (removelast_length s) as RLen.
  repeat split; auto; try lia.
  { now apply split_last. }
  pose proof (unit_ns_pos _ _ U) as Ud.
  pose proof (digits_val_bound (removelast s) 0 FD ltac:(lia)) as B.
  destruct ((d =? 3600000000000) && (max_hours <? digits_val 0 (removelast s))) eqn:C.
  - inversion H; subst. apply andb_true_iff in C. destruct C as [C1 C2].
    assert (d = 3600000000000) by lia. subst d. unfold max_hours, max_i64 in *.
    change ((2 ^ 63 - 1) / 3600000000000) with 2562047 in C2. lia.
  - inversion H; subst. apply andb_false_iff in C.
    destruct (Z.eqb_spec d 3600000000000) as [E|NE].
    + destruct C as [C|C]; [discriminate|]. subst d. unfold max_hours, max_i64 in *.
      change ((2 ^ 63 - 1) / 3600000000000) with 2562047 in C.
      rewrite wrap64_small by lia. lia.
    + assert (d <= 60000000000).
      { clear - U NE. unfold unit_ns in U.
        repeat match type of U with context [if ?c then _ else _] => destruct c end; inversion U; lia. }
      pose proof (product_small (removelast s) d FD ltac:(lia) ltac:(lia)) as P.
      rewrite wrap64_small by lia. unfold max_i64. lia.
Qed.

Lemma removelast_app_last {A} (ds : list A) u : removelast (ds ++ [u]) = ds.
Proof. apply removelast_last. Qed.
Lemma last_app_last {A} (ds : list A) (u d : A) : last (ds ++ [u]) d = u.
Proof. apply last_last. Qed.

Theorem decode_timeout_complete s ns : legal s ns -> decode_timeout s = Some ns.
Proof.
  intros (ds & u & d & -> & Hl & Hd & Hu & ->).
  assert (D : exists ns', decode_timeout (ds ++ [u]) = Some ns').
  { unfold decode_timeout. rewrite app_length. cbn [length].
    replace (Nat.ltb (length ds + 1) 2) with false by (symmetry; apply Nat.ltb_ge; lia).
    replace (Nat.ltb 9 (length ds + 1)) with false by (symmetry; apply Nat.ltb_ge; lia).
    rewrite last_app_last, Hu, removelast_app_last. unfold parse_uint.
    destruct ds; [cbn in Hl; lia|]. rewrite Hd.
    destruct (_ && _); eauto. }
  destruct D as [ns' D]. rewrite D. f_equal.
  apply decode_timeout_sound in D. destruct D as (ds' & u' & d' & E & _ & _ & Hu' & ->).
  apply app_inj_tail in E. destruct E as [-> ->]. congruence.
Qed.

(* malformed strings, spelled out: each is refused *)
Theorem decode_timeout_refuses s : (forall ns, ~ legal s ns) -> decode_timeout s = None.
Proof.
  intros H. destruct (decode_timeout s) as [ns|] eqn:D; [|reflexivity].
  exfalso. exact (H ns (decode_timeout_sound _ _ D)).
Qed.

Lemma legal_no_sign s ns c r : legal s ns -> s = c :: r -> c <> 43%N /\ c <> 45%N /\ c <> 32%N.
Proof.
  intros (ds & u & d & -> & Hl & Hd & _) E. destruct ds as [|x ds']; [cbn in Hl; lia|].
  cbn [app] in E. inversion E; subst. cbn [forallb] in Hd. apply andb_true_iff in Hd.
  destruct Hd as [Hx _]. unfold is_digit in Hx. lia.
Qed.
