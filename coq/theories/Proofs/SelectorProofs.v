(* Proofs for C19: the selector trie of larking/mux.go (Model/Selector.v) against the reading of
   the selector syntax in Spec/SelectorSpec.v. *)
From Larking Require Import Base.GoSem Spec.SelectorSpec Model.Selector.
From Coq Require Import Permutation.

Local Open Scope nat_scope.

(* ------------------------------------------------------------------------------------------ *)
(* strings.Cut against strings.Split                                                            *)

Lemma split_nonnil s : split s <> [].
Proof.
  destruct s as [|c s]; cbn; [discriminate|].
  destruct (N.eqb c dot); [discriminate|]. destruct (split s); discriminate.
Qed.

Lemma split_cut s :
  split s = let '(a, b, f) := cut s in if f then a :: split b else [a].
Proof.
  induction s as [|c s IH]; cbn; [reflexivity|].
  destruct (N.eqb c dot); [reflexivity|].
  rewrite IH. destruct (cut s) as [[a b] f]. destruct f; reflexivity.
Qed.

Lemma cut_le s : let '(a, b, f) := cut s in length b <= length s.
Proof.
  induction s as [|c s IH]; cbn; [lia|].
  destruct (N.eqb c dot); [lia|]. destruct (cut s) as [[a b] f]. lia.
Qed.
Lemma cut_length s : let '(a, b, f) := cut s in
  (s <> [] -> length b < length s) /\ (f = false -> a = s /\ b = []).
Proof.
  induction s as [|c s IH]; cbn.
  - split; [congruence|auto].
  - destruct (N.eqb c dot).
    + split; [intros _; lia|discriminate].
    + pose proof (cut_le s) as L. destruct (cut s) as [[a b] f]. destruct IH as [IH1 IH2]. split.
      * intros _. cbn. lia.
      * intros ->. destruct (IH2 eq_refl) as [-> ->]. auto.
Qed.

(* "the remainder string is empty", on the components that remain *)
Definition rest_nil (cs : list str) : bool :=
  match cs with [] => true | [c] => is_nil c | _ => false end.

Lemma rest_nil_split x : rest_nil (split x) = is_nil x.
Proof.
  destruct x as [|c x]; cbn; [reflexivity|].
  destruct (N.eqb c dot).
  - pose proof (split_nonnil x). destruct (split x); [congruence|reflexivity].
  - pose proof (split_nonnil x). destruct (split x) as [|h [|h2 t]]; [congruence|reflexivity|reflexivity].
Qed.

Lemma bytes_eqb_refl a : bytes_eqb a a = true.
Proof. apply bytes_eqb_eq. reflexivity. Qed.
Lemma bytes_eqb_neq a b : bytes_eqb a b = false <-> a <> b.
Proof.
  split.
  - intros H E. apply bytes_eqb_eq in E. congruence.
  - intros H. destruct (bytes_eqb a b) eqn:E; [apply bytes_eqb_eq in E; congruence|reflexivity].
Qed.
Lemma strs_eqb_eq (a b : list str) : list_eqb bytes_eqb a b = true <-> a = b.
Proof. apply list_eqb_eq. apply bytes_eqb_eq. Qed.

(* ------------------------------------------------------------------------------------------ *)
(* association lists                                                                            *)

Lemma find_upd_same {A} k (v : A) l : find_kid k (upd_kid k v l) = Some v.
Proof.
  induction l as [|[k' v'] l IH]; cbn.
  - now rewrite bytes_eqb_refl.
  - destruct (bytes_eqb k k') eqn:E; cbn; [now rewrite bytes_eqb_refl|now rewrite E].
Qed.
Lemma find_upd_other {A} k k' (v : A) l : k' <> k -> find_kid k' (upd_kid k v l) = find_kid k' l.
Proof.
  intros N. induction l as [|[k2 v2] l IH]; cbn.
  - apply bytes_eqb_neq in N. now rewrite N.
  - destruct (bytes_eqb k k2) eqn:E; cbn.
    + apply bytes_eqb_eq in E. subst k2. apply bytes_eqb_neq in N. now rewrite N.
    + destruct (bytes_eqb k' k2); auto.
Qed.

(* ------------------------------------------------------------------------------------------ *)
(* what a selector string means to setRules                                                     *)

Inductive nsel := NExact (p : list str) | NWild (p : list str) | NPanic.
Definition npre (c : str) (n : nsel) : nsel :=
  match n with NExact p => NExact (c :: p) | NWild p => NWild (c :: p) | NPanic => NPanic end.
Fixpoint norm_cs (cs : list str) : nsel :=
  match cs with
  | [] => NExact []
  | c :: cs' =>
    if bytes_eqb c star_c then (if rest_nil cs' then NWild [] else NPanic)
    else if is_nil c then NExact []
    else npre c (norm_cs cs')
  end.
Definition norm (s : str) : nsel := norm_cs (split s).
Definition nsel_eqb (a b : nsel) : bool :=
  match a, b with
  | NExact p, NExact q | NWild p, NWild q => list_eqb bytes_eqb p q
  | NPanic, NPanic => true
  | _, _ => false
  end.
Lemma nsel_eqb_eq a b : nsel_eqb a b = true <-> a = b.
Proof.
  destruct a, b; cbn; try (split; [discriminate|congruence]); try tauto.
  - rewrite strs_eqb_eq. split; congruence.
  - rewrite strs_eqb_eq. split; congruence.
Qed.

Section Trie.
Variable R : Type.
Variable sel : R -> str.
Notation trie := (trie R).

Fixpoint insert (p : list str) (w : bool) (r : R) (t : trie) : trie :=
  match p with
  | [] => if w then Node (wild t ++ [r]) (exact t) (kids t) else Node (wild t) (exact t ++ [r]) (kids t)
  | c :: p' =>
    let sub := match find_kid c (kids t) with Some s => s | None => empty end in
    Node (wild t) (exact t) (upd_kid c (insert p' w r sub) (kids t))
  end.
Definition ins (n : nsel) (r : R) (t : trie) : outcome trie :=
  match n with
  | NExact p => Ok (insert p false r t)
  | NWild p => Ok (insert p true r t)
  | NPanic => Panic PExplicit
  end.

Lemma ins_npre c n r t :
  ins (npre c n) r t =
  (do s' <- ins n r (match find_kid c (kids t) with Some s => s | None => empty end) ;
   Ok (Node (wild t) (exact t) (upd_kid c s' (kids t)))).
Proof. destruct n; reflexivity. Qed.

Lemma set_one_norm : forall fuel s r t, length s < fuel -> set_one fuel r s t = ins (norm s) r t.
Proof.
  induction fuel as [|fuel IH]; intros s r t Hlen; [lia|].
  cbn [set_one]. unfold norm. rewrite split_cut.
  pose proof (cut_length s) as HC.
  destruct (cut s) as [[tag name] f] eqn:EC. destruct HC as [HC1 HC2].
  assert (Hrec : is_nil tag = false -> set_one fuel r name
            (match find_kid tag (kids t) with Some s0 => s0 | None => empty end)
          = ins (norm name) r (match find_kid tag (kids t) with Some s0 => s0 | None => empty end)).
  { intros Ht. apply IH. destruct s as [|x s].
    - cbn in EC. inversion EC; subst. discriminate Ht.
    - specialize (HC1 ltac:(discriminate)). lia. }
  destruct f.
  - cbn [norm_cs]. rewrite rest_nil_split.
    destruct (bytes_eqb tag star_c); [destruct (is_nil name); reflexivity|].
    destruct (is_nil tag) eqn:Et; [reflexivity|].
    rewrite ins_npre. rewrite (Hrec eq_refl). reflexivity.
  - destruct (HC2 eq_refl) as [-> ->]. cbn [norm_cs rest_nil is_nil].
    destruct (bytes_eqb s star_c); [reflexivity|].
    destruct (is_nil s) eqn:Et; [reflexivity|].
    rewrite ins_npre. rewrite (Hrec eq_refl). reflexivity.
Qed.

Fixpoint build (rs : list R) (t : trie) : outcome trie :=
  match rs with
  | [] => Ok t
  | r :: rs' => do t' <- ins (norm (sel r)) r t ; build rs' t'
  end.

Lemma set_rules_build rs : set_rules sel rs = build rs empty.
Proof.
  unfold set_rules.
  assert (G : forall rs acc,
    fold_left (fun acc r => do t <- acc ; set_one (S (length (sel r))) r (sel r) t) rs acc
    = (do t <- acc ; build rs t)).
  { clear rs. induction rs as [|r rs IH]; intros acc; cbn [fold_left build].
    - destruct acc; reflexivity.
    - rewrite IH. destruct acc as [t| | |]; cbn [bind]; try reflexivity.
      rewrite set_one_norm by lia. reflexivity. }
  rewrite G. reflexivity.
Qed.

(* ---- addressing nodes by the list of components leading to them ---- *)
Fixpoint node_at (t : trie) (p : list str) : option trie :=
  match p with
  | [] => Some t
  | c :: p' => match find_kid c (kids t) with Some s => node_at s p' | None => None end
  end.
Definition wild_at (t : trie) (p : list str) : list R :=
  match node_at t p with Some n => wild n | None => [] end.
Definition exact_at (t : trie) (p : list str) : list R :=
  match node_at t p with Some n => exact n | None => [] end.

Lemma node_at_empty p : node_at empty p = match p with [] => Some empty | _ => None end.
Proof. destruct p; reflexivity. Qed.

Lemma node_at_app t p c :
  node_at t (p ++ [c]) = match node_at t p with Some n => find_kid c (kids n) | None => None end.
Proof.
  revert t. induction p as [|d p IH]; intros t; cbn.
  - destruct (find_kid c (kids t)); reflexivity.
  - destruct (find_kid d (kids t)); auto.
Qed.

Lemma at_insert : forall p w r t q,
  wild_at (insert p w r t) q = wild_at t q ++ (if w && list_eqb bytes_eqb p q then [r] else []) /\
  exact_at (insert p w r t) q = exact_at t q ++ (if negb w && list_eqb bytes_eqb p q then [r] else []).
Proof.
  unfold wild_at, exact_at.
  induction p as [|c p IH]; intros w r t q.
  - destruct t as [wl ex ks]. destruct q as [|d q]; destruct w; cbn; rewrite ?app_nil_r; auto.
  - destruct t as [wl ex ks]. destruct q as [|d q].
    + cbn. rewrite !andb_false_r, !app_nil_r. auto.
    + cbn [insert node_at kids wild exact list_eqb].
      destruct (bytes_eqb c d) eqn:E.
      * apply bytes_eqb_eq in E. subst d. rewrite find_upd_same. cbn [andb].
        destruct (IH w r (match find_kid c ks with Some s => s | None => empty end) q) as [I1 I2].
        rewrite I1, I2. destruct (find_kid c ks); [auto|].
        rewrite node_at_empty. destruct q; auto.
      * rewrite find_upd_other by (intros ->; rewrite bytes_eqb_refl in E; discriminate).
        cbn [andb]. rewrite !andb_false_r, !app_nil_r. auto.
Qed.

Lemma build_at : forall rs t t', build rs t = Ok t' -> forall q,
  wild_at t' q = wild_at t q ++ filter (fun r => nsel_eqb (norm (sel r)) (NWild q)) rs /\
  exact_at t' q = exact_at t q ++ filter (fun r => nsel_eqb (norm (sel r)) (NExact q)) rs.
Proof.
  induction rs as [|r rs IH]; intros t t' H q; cbn [build] in H.
  - inversion H; subst. cbn. rewrite !app_nil_r. auto.
  - destruct (norm (sel r)) as [p|p|] eqn:En; cbn [ins bind] in H; [| |discriminate].
    + destruct (IH _ _ H q) as [I1 I2]. destruct (at_insert p false r t q) as [A1 A2].
      rewrite I1, I2, A1, A2. cbn [filter]. rewrite En. cbn [nsel_eqb negb andb].
      rewrite app_nil_r. split; [reflexivity|].
      rewrite <- app_assoc. destruct (list_eqb bytes_eqb p q); reflexivity.
    + destruct (IH _ _ H q) as [I1 I2]. destruct (at_insert p true r t q) as [A1 A2].
      rewrite I1, I2, A1, A2. cbn [filter]. rewrite En. cbn [nsel_eqb negb andb].
      rewrite app_nil_r. split; [|reflexivity].
      rewrite <- app_assoc. destruct (list_eqb bytes_eqb p q); reflexivity.
Qed.

Lemma build_panic : forall rs t,
  (exists r, In r rs /\ norm (sel r) = NPanic) -> build rs t = Panic PExplicit.
Proof.
  induction rs as [|r rs IH]; intros t [x [Hin Hx]]; [destruct Hin|].
  cbn [build]. destruct (norm (sel r)) eqn:En; cbn [ins bind]; try reflexivity;
    (destruct Hin as [->|Hin]; [congruence|apply IH; eauto]).
Qed.
Lemma build_ok : forall rs t,
  (forall r, In r rs -> norm (sel r) <> NPanic) -> exists t', build rs t = Ok t'.
Proof.
  induction rs as [|r rs IH]; intros t H; cbn [build]; [eauto|].
  destruct (norm (sel r)) eqn:En; cbn [ins bind].
  - apply IH. intros; apply H; now right.
  - apply IH. intros; apply H; now right.
  - exfalso. apply (H r); [now left|assumption].
Qed.

(* ---- getRules ---- *)
Fixpoint get_cs (t : trie) (cs : list str) : list R :=
  match cs with
  | [] => exact t
  | c :: cs' =>
    if rest_nil cs then exact t
    else wild t ++ match find_kid c (kids t) with Some s => get_cs s cs' | None => [] end
  end.

Lemma get_split : forall fuel name t, length name < fuel -> get fuel t name = Ok (get_cs t (split name)).
Proof.
  induction fuel as [|fuel IH]; intros name t Hlen; [lia|].
  cbn [get]. destruct name as [|x name]; [reflexivity|].
  cbn [is_nil]. rewrite split_cut.
  pose proof (cut_length (x :: name)) as HC.
  destruct (cut (x :: name)) as [[tag rest] f]. destruct HC as [HC1 HC2].
  specialize (HC1 ltac:(discriminate)).
  destruct f.
  - pose proof (split_nonnil rest) as NN.
    cbn [get_cs]. destruct (split rest) as [|h tl] eqn:Es; [congruence|]. cbn [rest_nil].
    destruct (find_kid tag (kids t)) as [s|]; [|now rewrite app_nil_r].
    rewrite IH by (cbn in *; lia). rewrite Es. reflexivity.
  - destruct (HC2 eq_refl) as [-> ->]. cbn [get_cs rest_nil is_nil].
    destruct (find_kid (x :: name) (kids t)) as [s|]; [|now rewrite app_nil_r].
    destruct fuel as [|fuel]; [cbn in Hlen; lia|]. reflexivity.
Qed.

(* the walk of getRules for a name without empty components, in terms of addresses *)
Fixpoint walk (t0 : trie) (pre cs : list str) : list R :=
  match cs with
  | [] => exact_at t0 pre
  | c :: cs' => wild_at t0 pre ++ walk t0 (pre ++ [c]) cs'
  end.

Lemma walk_none t0 : forall cs pre, node_at t0 pre = None -> walk t0 pre cs = [].
Proof.
  induction cs as [|c cs IH]; intros pre H; cbn [walk]; unfold exact_at, wild_at; rewrite H; [reflexivity|].
  cbn. apply IH. rewrite node_at_app, H. reflexivity.
Qed.

Lemma get_cs_walk t0 : forall cs pre n,
  forallb nonempty cs = true -> node_at t0 pre = Some n -> get_cs n cs = walk t0 pre cs.
Proof.
  induction cs as [|c cs IH]; intros pre n Hne Hn.
  - cbn. unfold exact_at. now rewrite Hn.
  - cbn [forallb] in Hne. apply andb_true_iff in Hne. destruct Hne as [Hc Hne].
    cbn [get_cs walk].
    assert (RN : rest_nil (c :: cs) = false).
    { unfold nonempty in Hc. destruct cs; cbn; [now destruct (is_nil c)|reflexivity]. }
    rewrite RN. unfold wild_at at 1. rewrite Hn. f_equal.
    destruct (find_kid c (kids n)) as [s|] eqn:Ef.
    + apply IH; [assumption|]. rewrite node_at_app, Hn. assumption.
    + symmetry. apply walk_none. rewrite node_at_app, Hn. assumption.
Qed.

(* the same walk over the rule list instead of the trie *)
Fixpoint spec_walk (rs : list R) (pre cs : list str) : list R :=
  match cs with
  | [] => filter (fun r => nsel_eqb (norm (sel r)) (NExact pre)) rs
  | c :: cs' => filter (fun r => nsel_eqb (norm (sel r)) (NWild pre)) rs ++ spec_walk rs (pre ++ [c]) cs'
  end.

Lemma walk_spec rs t0 : build rs empty = Ok t0 -> forall cs pre, walk t0 pre cs = spec_walk rs pre cs.
Proof.
  intros B. induction cs as [|c cs IH]; intros pre; cbn [walk spec_walk];
    destruct (build_at _ _ _ B pre) as [W E]; unfold wild_at, exact_at in *;
    rewrite node_at_empty in *.
  - rewrite E. destruct pre; reflexivity.
  - rewrite W, IH. destruct pre; reflexivity.
Qed.
End Trie.

(* ------------------------------------------------------------------------------------------ *)
(* which normalised selectors the walk collects                                                 *)

Fixpoint ncov_b (n : nsel) (pre cs : list str) : bool :=
  match cs with
  | [] => nsel_eqb n (NExact pre)
  | c :: cs' => nsel_eqb n (NWild pre) || ncov_b n (pre ++ [c]) cs'
  end.

(* the meaning of a normalised selector: exact path, or wildcard below a strict prefix *)
Definition ncov (n : nsel) (cs : list str) : Prop :=
  n = NExact cs \/ exists a b, cs = a ++ b /\ b <> [] /\ n = NWild a.

Lemma ncov_b_spec n : forall cs pre,
  ncov_b n pre cs = true <->
  (n = NExact (pre ++ cs) \/ exists a b, cs = a ++ b /\ b <> [] /\ n = NWild (pre ++ a)).
Proof.
  induction cs as [|c cs IH]; intros pre; cbn [ncov_b].
  - rewrite nsel_eqb_eq, app_nil_r. split; [auto|].
    intros [H|[a [b [H1 [H2 _]]]]]; [assumption|].
    symmetry in H1. apply app_eq_nil in H1. destruct H1; congruence.
  - rewrite orb_true_iff, nsel_eqb_eq, IH. rewrite <- !app_assoc. cbn [app]. split.
    + intros [H|[H|[a [b [H1 [H2 H3]]]]]].
      * right. exists [], (c :: cs). rewrite app_nil_r. repeat split; [discriminate|assumption].
      * now left.
      * right. exists (c :: a), b. rewrite <- app_assoc in H3. subst cs. auto.
    + intros [H|[a [b [H1 [H2 H3]]]]]; [auto|].
      destruct a as [|x a].
      * left. now rewrite app_nil_r in H3.
      * cbn in H1. inversion H1; subst. right. right. exists a, b. rewrite <- app_assoc. auto.
Qed.

Lemma ncov_b_ncov n cs : ncov_b n [] cs = true <-> ncov n cs.
Proof. rewrite ncov_b_spec. reflexivity. Qed.

Lemma ncov_b_len n : forall cs pre, ncov_b n pre cs = true ->
  match n with NExact p | NWild p => length pre <= length p | NPanic => False end.
Proof.
  intros cs pre H. apply ncov_b_spec in H.
  destruct H as [->|[a [b [_ [_ ->]]]]]; rewrite app_length; lia.
Qed.

Lemma filter_disj_perm {A} (f g : A -> bool) l :
  (forall x, f x = true -> g x = false) ->
  Permutation (filter f l ++ filter g l) (filter (fun x => f x || g x) l).
Proof.
  intros D. induction l as [|a l IH]; cbn; [constructor|].
  destruct (f a) eqn:Ef.
  - rewrite (D _ Ef). cbn. now constructor.
  - destruct (g a); cbn; [|assumption].
    etransitivity; [apply Permutation_sym, Permutation_middle|]. now constructor.
Qed.

Section Select.
Variable R : Type.
Variable sel : R -> str.

Lemma spec_walk_perm rs : forall cs pre,
  Permutation (spec_walk R sel rs pre cs) (filter (fun r => ncov_b (norm (sel r)) pre cs) rs).
Proof.
  induction cs as [|c cs IH]; intros pre; cbn [spec_walk ncov_b]; [reflexivity|].
  etransitivity; [apply Permutation_app_head, IH|].
  apply (filter_disj_perm (fun r => nsel_eqb (norm (sel r)) (NWild pre))
                          (fun r => ncov_b (norm (sel r)) (pre ++ [c]) cs)).
  intros r E. apply nsel_eqb_eq in E.
  destruct (ncov_b (norm (sel r)) (pre ++ [c]) cs) eqn:F; [|reflexivity].
  apply ncov_b_len in F. rewrite E in F. rewrite app_length in F. cbn in F. lia.
Qed.

(* select on all inputs: set_rules then get_rules *)
Lemma select_build rs name t0 :
  build R sel rs empty = Ok t0 -> select sel rs name = Ok (get_cs R t0 (split name)).
Proof.
  intros B. unfold select. rewrite set_rules_build, B. cbn [bind].
  unfold get_rules. apply get_split. lia.
Qed.

Lemma select_walk rs name :
  (forall r, In r rs -> norm (sel r) <> NPanic) -> wf_name name = true ->
  select sel rs name = Ok (spec_walk R sel rs [] (split name)).
Proof.
  intros NP WF. destruct (build_ok R sel rs empty NP) as [t0 B].
  rewrite (select_build _ _ _ B). f_equal.
  unfold wf_name, wf_name_cs in WF. apply andb_true_iff in WF. destruct WF as [_ WF].
  rewrite (get_cs_walk R t0 (split name) [] t0 WF eq_refl).
  apply walk_spec. assumption.
Qed.

Lemma select_panics rs name :
  (exists r, In r rs /\ norm (sel r) = NPanic) -> select sel rs name = Panic PExplicit.
Proof.
  intros H. unfold select. rewrite set_rules_build, (build_panic R sel rs empty H). reflexivity.
Qed.

Lemma select_total rs name :
  (exists l, select sel rs name = Ok l) \/ select sel rs name = Panic PExplicit.
Proof.
  assert (D : (exists r, In r rs /\ norm (sel r) = NPanic) \/ (forall r, In r rs -> norm (sel r) <> NPanic)).
  { clear name. induction rs as [|r rs IH]; [right; intros r []|].
    destruct (norm (sel r)) eqn:En.
    - destruct IH as [[x [Hi Hx]]|IH]; [left; exists x; split; [now right|assumption]|].
      right. intros y [<-|Hy]; [congruence|auto].
    - destruct IH as [[x [Hi Hx]]|IH]; [left; exists x; split; [now right|assumption]|].
      right. intros y [<-|Hy]; [congruence|auto].
    - left. exists r. split; [now left|assumption]. }
  destruct D as [D|D].
  - right. now apply select_panics.
  - left. destruct (build_ok R sel rs empty D) as [t0 B]. rewrite (select_build _ _ _ B). eauto.
Qed.

Lemma select_norm rs name :
  (forall r, In r rs -> norm (sel r) <> NPanic) -> wf_name name = true ->
  exists l, select sel rs name = Ok l /\
    Permutation l (filter (fun r => ncov_b (norm (sel r)) [] (split name)) rs) /\
    forall r, In r l <-> In r rs /\ ncov (norm (sel r)) (split name).
Proof.
  intros NP WF. eexists. split; [apply select_walk; assumption|].
  pose proof (spec_walk_perm rs (split name) []) as P. split; [assumption|].
  intros r. split.
  - intros H. apply (Permutation_in _ P) in H. apply filter_In in H.
    destruct H as [H1 H2]. split; [assumption|]. now apply ncov_b_ncov.
  - intros [H1 H2]. apply (Permutation_in _ (Permutation_sym P)).
    apply filter_In. split; [assumption|]. now apply ncov_b_ncov.
Qed.
End Select.

(* ------------------------------------------------------------------------------------------ *)
(* well-formed selectors: normalisation is the identity, and agrees with the specification      *)

Lemma norm_wf : forall scs, wf_sel_cs scs = true ->
  norm_cs scs = if bytes_eqb (last scs []) star_c then NWild (removelast scs) else NExact scs.
Proof.
  induction scs as [|c scs IH]; intros WF; [discriminate|].
  destruct scs as [|c2 rest].
  - cbn in WF. unfold nonempty in WF. cbn [norm_cs rest_nil last removelast].
    destruct (bytes_eqb c star_c); [reflexivity|]. destruct (is_nil c); [discriminate|reflexivity].
  - cbn [wf_sel_cs] in WF. apply andb_true_iff in WF. destruct WF as [WF1 WF].
    apply andb_true_iff in WF1. destruct WF1 as [Hc Hs]. unfold nonempty in Hc.
    change (last (c :: c2 :: rest) []) with (last (c2 :: rest) []).
    change (removelast (c :: c2 :: rest)) with (c :: removelast (c2 :: rest)).
    specialize (IH WF). remember (c2 :: rest) as tl eqn:Etl.
    cbn [norm_cs]. destruct (bytes_eqb c star_c); [discriminate|].
    destruct (is_nil c); [discriminate|]. rewrite IH.
    destruct (bytes_eqb (last tl []) star_c); reflexivity.
Qed.

Lemma wf_not_panic s : wf_sel s = true -> norm s <> NPanic.
Proof.
  unfold wf_sel, norm. intros WF. rewrite (norm_wf _ WF).
  destruct (bytes_eqb _ _); discriminate.
Qed.

Lemma is_prefix_spec : forall p l, is_prefix p l = true <-> exists q, l = p ++ q.
Proof.
  induction p as [|a p IH]; intros l; cbn.
  - split; eauto.
  - destruct l as [|b l]; [split; [discriminate|intros [q H]; discriminate]|].
    rewrite andb_true_iff, bytes_eqb_eq, IH. split.
    + intros [-> [q ->]]. eauto.
    + intros [q H]. inversion H; subst. eauto.
Qed.

Lemma covers_cs_b_spec scs ncs : covers_cs_b scs ncs = true <-> covers_cs scs ncs.
Proof.
  unfold covers_cs_b, covers_cs. rewrite orb_true_iff, strs_eqb_eq. split.
  - intros [H|H]; [now left|]. right.
    destruct (rev scs) as [|l rp] eqn:Er; [discriminate|].
    apply andb_true_iff in H. destruct H as [H H3]. apply andb_true_iff in H. destruct H as [H1 H2].
    apply bytes_eqb_eq in H1. subst l. apply is_prefix_spec in H2. destruct H2 as [q ->].
    exists (rev rp), q. split; [|split; [reflexivity|]].
    + rewrite <- (rev_involutive scs), Er. reflexivity.
    + intros ->. apply Nat.ltb_lt in H3. rewrite app_nil_r, rev_length in H3. lia.
  - intros [H|[p [q [-> [-> Hq]]]]]; [now left|]. right.
    rewrite rev_app_distr. cbn [rev app]. rewrite bytes_eqb_refl, rev_involutive. cbn [andb].
    apply andb_true_iff. split; [apply is_prefix_spec; eauto|].
    apply Nat.ltb_lt. rewrite rev_length, app_length. destruct q; [congruence|cbn; lia].
Qed.

Lemma ncov_wf scs ncs : wf_sel_cs scs = true -> (ncov (norm_cs scs) ncs <-> covers_cs scs ncs).
Proof.
  intros WF. rewrite (norm_wf _ WF). unfold ncov, covers_cs.
  assert (NN : scs <> []) by (destruct scs; [discriminate|discriminate]).
  destruct (bytes_eqb (last scs []) star_c) eqn:El.
  - apply bytes_eqb_eq in El.
    assert (Es : scs = removelast scs ++ [star_c]) by (rewrite <- El; now apply app_removelast_last).
    split.
    + intros [H|[a [b [H1 [H2 H3]]]]]; [discriminate|]. inversion H3; subst a.
      right. exists (removelast scs), b. auto.
    + intros [H|[p [q [H1 [H2 H3]]]]].
      * right. exists (removelast scs), [star_c]. subst ncs. split; [assumption|]. split; [discriminate|reflexivity].
      * right. rewrite Es in H1. apply app_inj_tail in H1. destruct H1 as [H1 _].
        exists p, q. rewrite H1. auto.
  - split.
    + intros [H|[a [b [_ [_ H]]]]]; [inversion H; now left|discriminate].
    + intros [H|[p [q [H1 _]]]]; [left; now subst|].
      subst scs. rewrite last_last, bytes_eqb_refl in El. discriminate.
Qed.

Lemma ncov_b_covers_b s name : wf_sel s = true ->
  ncov_b (norm s) [] (split name) = covers_b s name.
Proof.
  intros WF. unfold covers_b.
  assert (H : ncov_b (norm s) [] (split name) = true <-> covers_cs_b (split s) (split name) = true).
  { rewrite ncov_b_ncov, covers_cs_b_spec. now apply ncov_wf. }
  destruct (ncov_b _ _ _), (covers_cs_b _ _); try reflexivity.
  - symmetry. now apply H.
  - now apply H.
Qed.

(* ------------------------------------------------------------------------------------------ *)
(* the component reading and the string reading of "covers" agree, for all strings               *)

Lemma split_app_dot a b : split (a ++ dot :: b) = split a ++ split b.
Proof.
  induction a as [|c a IH]; cbn.
  - reflexivity.
  - destruct (N.eqb c dot); [now rewrite IH|].
    rewrite IH. pose proof (split_nonnil a). destruct (split a); [congruence|reflexivity].
Qed.

Lemma join_split s : join (split s) = s.
Proof.
  induction s as [|c s IH]; [reflexivity|].
  cbn [split]. pose proof (split_nonnil s) as NN.
  destruct (N.eqb c dot) eqn:E.
  - apply N.eqb_eq in E. subst c. destruct (split s) as [|h t]; [congruence|].
    change (join ([] :: h :: t)) with ([] ++ dot :: join (h :: t)). now rewrite IH.
  - destruct (split s) as [|h [|h2 t]]; [congruence| |].
    + cbn in *. now rewrite IH.
    + change (join ((c :: h) :: h2 :: t)) with (c :: (h ++ dot :: join (h2 :: t))).
      change (join (h :: h2 :: t)) with (h ++ dot :: join (h2 :: t)) in IH. now rewrite IH.
Qed.

Lemma join_app : forall A B, A <> [] -> B <> [] -> join (A ++ B) = join A ++ dot :: join B.
Proof.
  induction A as [|a A IH]; intros B HA HB; [congruence|].
  destruct A as [|a2 A].
  - destruct B as [|b B]; [congruence|]. reflexivity.
  - change (join ((a :: a2 :: A) ++ B)) with (a ++ dot :: join ((a2 :: A) ++ B)).
    rewrite (IH B ltac:(discriminate) HB).
    change (join (a :: a2 :: A)) with (a ++ dot :: join (a2 :: A)).
    rewrite <- app_assoc. reflexivity.
Qed.

Lemma covers_split sel name : covers sel name <-> covers_cs (split sel) (split name).
Proof.
  unfold covers, covers_cs. split.
  - intros [->|[->|[p [q [-> ->]]]]].
    + now left.
    + right. exists [], (split name). split; [reflexivity|]. split; [reflexivity|apply split_nonnil].
    + right. exists (split p), (split q). rewrite !split_app_dot. split; [reflexivity|].
      split; [reflexivity|apply split_nonnil].
  - intros [H|[P [Q [H1 [H2 HQ]]]]].
    + left. rewrite <- (join_split sel), <- (join_split name). now rewrite H.
    + right. destruct P as [|p0 P].
      * left. rewrite <- (join_split sel), H1. reflexivity.
      * right. exists (join (p0 :: P)), (join Q).
        rewrite <- (join_split sel) at 1. rewrite <- (join_split name) at 1. rewrite H1, H2.
        rewrite !join_app by (try discriminate; assumption). split; reflexivity.
Qed.

(* ------------------------------------------------------------------------------------------ *)
(* main statements                                                                              *)

Section Main.
Variable R : Type.
Variable sel : R -> str.

Theorem select_bind rs name :
  (forall r, In r rs -> wf_sel (sel r) = true) -> wf_name name = true ->
  exists l, select sel rs name = Ok l /\
    Permutation l (filter (fun r => covers_b (sel r) name) rs) /\
    (forall r, In r l <-> In r rs /\ covers (sel r) name).
Proof.
  intros WS WN.
  assert (NP : forall r, In r rs -> norm (sel r) <> NPanic) by (intros r H; apply wf_not_panic; auto).
  destruct (select_norm R sel rs name NP WN) as [l [E [P I]]].
  exists l. split; [assumption|]. split.
  - rewrite (filter_ext_in (fun r => covers_b (sel r) name) (fun r => ncov_b (norm (sel r)) [] (split name))); [assumption|].
    intros r Hr. symmetry. apply ncov_b_covers_b. auto.
  - intros r. rewrite I. split; intros [H1 H2]; (split; [assumption|]).
    + apply covers_split. apply (ncov_wf _ _ (WS _ H1)). assumption.
    + apply (ncov_wf _ _ (WS _ H1)). apply covers_split. assumption.
Qed.

(* order: by depth of the selector (wildcards from the root down, then the exact selector),
   within one depth in configuration order *)
Theorem select_order rs name :
  (forall r, In r rs -> wf_sel (sel r) = true) -> wf_name name = true ->
  select sel rs name = Ok (spec_walk R sel rs [] (split name)).
Proof.
  intros WS WN. apply select_walk; [|assumption]. intros r H. apply wf_not_panic. auto.
Qed.

(* appendHandler: a configuration whose only rule bound to the method is r registers exactly what
   the annotation r registers *)
Theorem append_same_as_annotation (St : Type) (add_rule : R -> St -> outcome St)
        (implicit r : R) rs name t s :
  set_rules sel rs = Ok t -> get_rules t name = Ok [r] ->
  append_handler add_rule implicit t name None s =
  append_handler add_rule implicit empty name (Some r) s.
Proof.
  intros _ G. unfold append_handler. rewrite G. cbn [bind].
  assert (E : get_rules (@empty R) name = Ok []).
  { unfold get_rules. rewrite get_split by lia. f_equal.
    pose proof (split_nonnil name). destruct (split name) as [|c cs]; [congruence|].
    cbn. destruct cs; [destruct (is_nil c)|]; reflexivity. }
  rewrite E. reflexivity.
Qed.
End Main.

(* ------------------------------------------------------------------------------------------ *)
(* corollaries                                                                                  *)

(* a selector that does not end in '*' covers only itself *)
Lemma exact_covers s name : last s 0%N <> 42%N -> (covers s name <-> s = name).
Proof.
  intros L. unfold covers. split; [|auto].
  intros [H|[H|[p [q [H _]]]]]; [assumption| |].
  - subst s. cbn in L. congruence.
  - exfalso. apply L. subst s. change (p ++ [dot; 42%N]) with (p ++ [dot] ++ [42%N]).
    rewrite app_assoc. apply last_last.
Qed.

(* which component lists make setRules panic: a '*' component, reached through non-empty non-'*'
   components, that is followed by anything but the end of the string (or one trailing dot) *)
Lemma norm_panic_iff : forall cs,
  norm_cs cs = NPanic <->
  exists a b, cs = a ++ star_c :: b /\ rest_nil b = false /\
              Forall (fun c => is_nil c = false /\ bytes_eqb c star_c = false) a.
Proof.
  induction cs as [|c cs IH]; cbn [norm_cs].
  - split; [discriminate|]. intros [a [b [H _]]]. destruct a; discriminate.
  - destruct (bytes_eqb c star_c) eqn:Es.
    + apply bytes_eqb_eq in Es. subst c. split.
      * destruct (rest_nil cs) eqn:Er; [discriminate|]. intros _. exists [], cs. auto.
      * intros [a [b [H [Hb Ha]]]]. destruct a as [|x a].
        -- cbn in H. inversion H; subst. now rewrite Hb.
        -- cbn in H. inversion H; subst. inversion Ha as [|? ? [_ Hx] _]; subst.
           rewrite bytes_eqb_refl in Hx. discriminate.
    + destruct (is_nil c) eqn:En.
      * split; [discriminate|]. intros [a [b [H [Hb Ha]]]]. destruct a as [|x a].
        -- cbn in H. inversion H; subst. cbn in Es. discriminate.
        -- cbn in H. inversion H; subst. inversion Ha as [|? ? [Hx _] _]; subst. congruence.
      * split.
        -- intros H. assert (H' : norm_cs cs = NPanic) by (destruct (norm_cs cs); [discriminate|discriminate|reflexivity]).
           apply IH in H'. destruct H' as [a [b [-> [Hb Ha]]]].
           exists (c :: a), b. split; [reflexivity|]. split; [assumption|]. constructor; auto.
        -- intros [a [b [H [Hb Ha]]]]. destruct a as [|x a].
           ++ cbn in H. inversion H; subst. rewrite bytes_eqb_refl in Es. discriminate.
           ++ cbn in H. inversion H; subst. inversion Ha; subst.
              assert (H' : norm_cs (a ++ star_c :: b) = NPanic) by (apply IH; eauto).
              rewrite H'. reflexivity.
Qed.

Section Panic.
Variable R : Type.
Variable sel : R -> str.
Lemma select_panic_iff rs name :
  select sel rs name = Panic PExplicit <-> exists r, In r rs /\ norm (sel r) = NPanic.
Proof.
  split; [|apply select_panics].
  intros H.
  assert (D : (exists r, In r rs /\ norm (sel r) = NPanic) \/ (forall r, In r rs -> norm (sel r) <> NPanic)).
  { clear. induction rs as [|r rs IH]; [right; intros r []|].
    destruct (norm (sel r)) eqn:En.
    - destruct IH as [[x [Hi Hx]]|IH]; [left; exists x; split; [now right|assumption]|].
      right. intros y [<-|Hy]; [congruence|auto].
    - destruct IH as [[x [Hi Hx]]|IH]; [left; exists x; split; [now right|assumption]|].
      right. intros y [<-|Hy]; [congruence|auto].
    - left. exists r. split; [now left|assumption]. }
  destruct D as [D|D]; [assumption|].
  destruct (build_ok R sel rs empty D) as [t0 B]. rewrite (select_build _ _ _ _ _ B) in H. discriminate.
Qed.
End Panic.

(* ------------------------------------------------------------------------------------------ *)
(* the statements of Properties/C19.v                                                           *)

Lemma bind_iff_thm : forall (R : Type) (sel : R -> str) (rs : list R) (name : str),
  (forall r, In r rs -> wf_sel (sel r) = true) -> wf_name name = true ->
  exists l, select sel rs name = Ok l /\ forall r, In r l <-> In r rs /\ covers (sel r) name.
Proof. intros R sel rs name WS WN. destruct (select_bind R sel rs name WS WN) as [l [E [_ I]]]. eauto. Qed.

Lemma bind_multiplicity_thm : forall (R : Type) (sel : R -> str) (rs : list R) (name : str),
  (forall r, In r rs -> wf_sel (sel r) = true) -> wf_name name = true ->
  exists l, select sel rs name = Ok l /\ Permutation l (filter (fun r => covers_b (sel r) name) rs).
Proof. intros R sel rs name WS WN. destruct (select_bind R sel rs name WS WN) as [l [E [P _]]]. eauto. Qed.

Lemma covers_decided_thm : forall sel name,
  (covers_b sel name = true <-> covers sel name) /\ (covers sel name <-> covers_cs (split sel) (split name)).
Proof. intros. split; [unfold covers_b; rewrite covers_cs_b_spec; symmetry|]; apply covers_split. Qed.

Lemma exact_binds_only_itself_thm : forall (R : Type) (sel : R -> str) (rs : list R) (name : str) l r,
  (forall r, In r rs -> wf_sel (sel r) = true) -> wf_name name = true ->
  select sel rs name = Ok l -> In r l -> last (sel r) 0%N <> 42%N -> sel r = name.
Proof.
  intros R sel rs name l r WS WN E Hin L.
  destruct (select_bind R sel rs name WS WN) as [l' [E' [_ I]]].
  rewrite E in E'. inversion E'; subst l'. apply I in Hin. destruct Hin as [_ C].
  now apply (exact_covers _ _ L).
Qed.

Lemma total_thm : forall (R : Type) (sel : R -> str) (rs : list R) (name : str),
  ((exists l, select sel rs name = Ok l) \/ select sel rs name = Panic PExplicit) /\
  (select sel rs name = Panic PExplicit <->
   exists r a b, In r rs /\ split (sel r) = a ++ star_c :: b /\ rest_nil b = false /\
                 Forall (fun c => is_nil c = false /\ bytes_eqb c star_c = false) a).
Proof.
  intros R sel rs name. split; [apply select_total|].
  rewrite select_panic_iff. split.
  - intros [r [Hin Hn]]. apply norm_panic_iff in Hn. destruct Hn as [a [b H]]. exists r, a, b. tauto.
  - intros [r [a [b [Hin H]]]]. exists r. split; [assumption|]. apply norm_panic_iff. eauto.
Qed.

Lemma healthz_thm : forall (R : Type) (sel : R -> str) (rs : list R) (hc hw : R) (name : str),
  sel hc = healthz_check -> sel hw = healthz_watch ->
  (forall r, In r rs -> wf_sel (sel r) = true) -> wf_name name = true ->
  exists l, select sel (rs ++ [hc; hw]) name = Ok l /\
    (In hc l <-> name = healthz_check) /\ (In hw l <-> name = healthz_watch).
Proof.
  intros R sel rs hc hw name Hc Hw WS WN.
  assert (WS' : forall r, In r (rs ++ [hc; hw]) -> wf_sel (sel r) = true).
  { intros r H. apply in_app_or in H. destruct H as [H|[<-|[<-|[]]]]; [auto|rewrite Hc|rewrite Hw]; reflexivity. }
  destruct (select_bind R sel _ name WS' WN) as [l [E [_ I]]]. exists l. split; [assumption|].
  rewrite !I, Hc, Hw.
  assert (Lc : last healthz_check 0%N <> 42%N) by (vm_compute; discriminate).
  assert (Lw : last healthz_watch 0%N <> 42%N) by (vm_compute; discriminate).
  rewrite (exact_covers _ name Lc), (exact_covers _ name Lw).
  split; (split; [intros [_ H]; now symmetry|intros ->; split; [apply in_or_app; right; cbn; auto|reflexivity]]).
Qed.
