(* Proofs about Model/Snapshot.v: published snapshots are never written, a writer's work is
   invisible until its store, readers are linearizable at their load. *)
From Larking Require Import Base.GoSem Model.Registry Model.Snapshot Proofs.RegistryProofs.
Local Open Scope nat_scope.

(* ---------- heap basics ---------- *)
Lemma cell_wr h l c x : cell_at (wr h l c) x = if l =? x then Some c else cell_at h x.
Proof. unfold cell_at, wr; cbn [cells]. apply aget_aset. Qed.
Lemma node_wr_other h l c x : l <> x -> node_at (wr h l c) x = node_at h x.
Proof. intro N. unfold node_at. rewrite cell_wr. apply Nat.eqb_neq in N. rewrite N. reflexivity. Qed.
Lemma node_wr_same h l n : node_at (wr h l (CNode n)) l = n.
Proof. unfold node_at. rewrite cell_wr, Nat.eqb_refl. reflexivity. Qed.

Definition frame (h h' : heap) (ws : list loc) : Prop := forall x, ~ In x ws -> cell_at h' x = cell_at h x.
Definition closed (h : heap) (s : snap) : Prop :=
  In (sroot s) (sregion s) /\
  forall l, In l (sregion s) -> forall e, In e (nkids (node_at h l)) -> In (snd e) (sregion s).
(* the writer's working copy: all of it allocated since the writer began *)
Definition Own (b : loc) (h : heap) (s : snap) : Prop :=
  (forall l, In l (footprint s) -> b <= l < next h) /\ closed h s.

Lemma aget_in {A} k (l : list (nat * A)) v : aget k l = Some v -> In (k, v) l.
Proof.
  induction l as [|[a x] l IH]; cbn [aget]; [discriminate|].
  destruct (a =? k) eqn:E; [apply Nat.eqb_eq in E; subst; intro H; inversion H; left; reflexivity|].
  intro H. right. apply IH. exact H.
Qed.

Lemma closed_frame h h' s : closed h s -> (forall x, In x (sregion s) -> cell_at h' x = cell_at h x) -> closed h' s.
Proof.
  intros [R C] F. split; [exact R|]. intros l Hl e He. apply (C l Hl). unfold node_at in *. rewrite <- (F l Hl). exact He.
Qed.

(* ---------- nav_create ---------- *)
Lemma nav_create_spec b labels : forall h s l, Own b h s -> In l (sregion s) ->
  let '(h', s', l', ws) := nav_create h s l labels in
  Own b h' s' /\ In l' (sregion s') /\ (forall x, In x ws -> b <= x) /\ frame h h' ws /\ next h <= next h'.
Proof.
  induction labels as [|lab rest IH]; intros h s l O Hl; cbn [nav_create].
  - split; [exact O|]. split; [exact Hl|]. split; [intros x []|]. split; [intros x _; reflexivity|lia].
  - destruct (aget lab (nkids (node_at h l))) as [p|] eqn:K.
    + apply IH; [exact O|]. destruct O as [_ [_ C]]. apply (C l Hl (lab, p)). apply aget_in. exact K.
    + cbn [al]. set (p := next h).
      set (h1 := Heap (aset p (CNode (Node [] [])) (cells h)) (S p)).
      set (h2 := wr h1 l (CNode (Node (aset lab p (nkids (node_at h l))) (nbinds (node_at h l))))).
      set (s2 := Snap (sroot s) (p :: sregion s) (shm s) (scm s)).
      destruct O as [F [R C]].
      assert (Lp : l < p) by (apply (F l); right; right; exact Hl).
      assert (Bp : b <= p).
      { pose proof (F (shm s) (or_introl eq_refl)). unfold p. lia. }
      assert (N1 : forall x, x <> p -> x <> l -> cell_at h2 x = cell_at h x).
      { intros x X1 X2. unfold h2. rewrite cell_wr. destruct (l =? x) eqn:E; [apply Nat.eqb_eq in E; congruence|].
        unfold cell_at, h1; cbn [cells]. rewrite aget_aset. destruct (p =? x) eqn:E2; [apply Nat.eqb_eq in E2; congruence|reflexivity]. }
      assert (O2 : Own b h2 s2).
      { split.
        - intros x Hx. assert (NX : next h2 = S p) by reflexivity. rewrite NX.
          assert (HF : x = shm s \/ x = scm s \/ x = p \/ In x (sregion s)).
          { cbn in Hx. intuition. }
          destruct HF as [->|[->|[->|Hx']]].
          + pose proof (F (shm s) (or_introl eq_refl)). unfold p in *. lia.
          + pose proof (F (scm s) (or_intror (or_introl eq_refl))). unfold p in *. lia.
          + lia.
          + pose proof (F x (or_intror (or_intror Hx'))). unfold p in *. lia.
        - split; [right; exact R|]. intros x Hx e He. change (sregion s2) with (p :: sregion s) in *.
          destruct (Nat.eq_dec x l) as [->|Xl].
          + unfold h2 in He. rewrite node_wr_same in He. cbn [nkids] in He. destruct He as [<-|He].
            * left; reflexivity.
            * right. apply (C l Hl e He).
          + destruct Hx as [<-|Hx].
            * unfold h2 in He. rewrite node_wr_other in He by (intro; apply Xl; congruence).
              unfold node_at, cell_at, h1 in He; cbn [cells] in He. rewrite aget_aset, Nat.eqb_refl in He. destruct He.
            * right. apply (C x Hx e). unfold node_at in *. rewrite <- (N1 x); [exact He| |exact Xl].
              pose proof (F x (or_intror (or_intror Hx))). fold p in H. lia. }
      specialize (IH h2 s2 p O2 (or_introl eq_refl)).
      destruct (nav_create h2 s2 p rest) as [[[h3 s3] l3] ws].
      destruct IH as (A1 & A2 & A3 & A4 & A5). split; [exact A1|]. split; [exact A2|]. split; [|split].
      * intros x [<-|[<-|Hx]]; [exact Bp| |apply A3; exact Hx]. apply (F l). right; right; exact Hl.
      * intros x Hx. rewrite A4 by (intro Q; apply Hx; right; right; exact Q).
        apply N1; intro Q; apply Hx; [left|right; left]; congruence.
      * unfold h2, h1 in A5; cbn [wr next] in A5. fold p. lia.
Qed.

Lemma nav_create_maps labels : forall h s l,
  let '(_, s', _, _) := nav_create h s l labels in shm s' = shm s /\ scm s' = scm s.
Proof.
  induction labels as [|lab rest IH]; intros h s l; cbn [nav_create]; [auto|].
  destruct (aget lab (nkids (node_at h l))) as [p|]; [apply IH|]. cbn [al].
  match goal with |- context [nav_create ?a ?b ?c rest] => specialize (IH a b c); destruct (nav_create a b c rest) as [[[h3 s3] l3] ws] end.
  exact IH.
Qed.

(* ---------- the other primitives ---------- *)
Lemma fold_del_spec m reg : forall h,
  let h' := fold_left (fun hh l => wr hh l (CNode (del_binds m (node_at hh l)))) reg h in
  next h' = next h /\ (forall x, nkids (node_at h' x) = nkids (node_at h x)) /\ frame h h' reg.
Proof.
  induction reg as [|l reg IH]; intro h; cbn [fold_left].
  - split; [reflexivity|]. split; [reflexivity|]. intros x _. reflexivity.
  - specialize (IH (wr h l (CNode (del_binds m (node_at h l))))). cbv zeta in IH. destruct IH as (A & B & C).
    split; [exact A|]. split.
    + intro x. rewrite B. destruct (Nat.eq_dec l x) as [->|N]; [rewrite node_wr_same; reflexivity|rewrite node_wr_other by exact N; reflexivity].
    + intros x Hx. rewrite C by (intro Q; apply Hx; right; exact Q). rewrite cell_wr.
      destruct (l =? x) eqn:E; [apply Nat.eqb_eq in E; exfalso; apply Hx; left; exact E|reflexivity].
Qed.

Lemma apply_mut_spec b h s mu : Own b h s ->
  let '(h', s', ws) := apply_mut h s mu in
  Own b h' s' /\ (forall x, In x ws -> b <= x) /\ frame h h' ws /\ next h <= next h'.
Proof.
  intro O. destruct mu as [labels verb m|m|v|v]; cbn [apply_mut].
  - pose proof (nav_create_spec b labels h s (sroot s) O (proj1 (proj2 O))) as N.
    pose proof (nav_create_maps labels h s (sroot s)) as M.
    destruct (nav_create h s (sroot s) labels) as [[[h1 s1] l] ws].
    destruct N as ([F [R C]] & A2 & A3 & A4 & A5). split; [|split; [|split]].
    + split; [exact F|]. split; [exact R|]. intros x Hx e He.
      destruct (Nat.eq_dec l x) as [->|N]; [rewrite node_wr_same in He|rewrite node_wr_other in He by exact N]; apply (C x Hx e He).
    + intros x Hx. apply in_app_or in Hx. destruct Hx as [Hx|[<-|[]]]; [apply A3; exact Hx|].
      apply (F l). right; right; exact A2.
    + intros x Hx. rewrite cell_wr. destruct (l =? x) eqn:E.
      * apply Nat.eqb_eq in E. exfalso. apply Hx. apply in_or_app. right. left. exact E.
      * apply A4. intro Q. apply Hx. apply in_or_app. left. exact Q.
    + exact A5.
  - destruct (fold_del_spec m (sregion s) h) as (A & B & C). destruct O as [F [R Cl]].
    split; [|split; [|split]].
    + split; [intros x Hx; rewrite A; apply F; exact Hx|]. split; [exact R|].
      intros x Hx e He. rewrite B in He. apply (Cl x Hx e He).
    + intros x Hx. apply (F x). right; right; exact Hx.
    + exact C.
    + rewrite A. lia.
  - destruct O as [F [R Cl]]. split; [|split; [|split]].
    + split; [exact F|]. split; [exact R|]. intros x Hx e He.
      destruct (Nat.eq_dec (shm s) x) as [E|N].
      * unfold node_at in He. rewrite cell_wr in He. apply Nat.eqb_eq in E. rewrite E in He. destruct He.
      * rewrite node_wr_other in He by exact N. apply (Cl x Hx e He).
    + intros x [<-|[]]. apply (F (shm s)). left; reflexivity.
    + intros x Hx. rewrite cell_wr. destruct (shm s =? x) eqn:E; [apply Nat.eqb_eq in E; exfalso; apply Hx; left; exact E|reflexivity].
    + cbn. lia.
  - destruct O as [F [R Cl]]. split; [|split; [|split]].
    + split; [exact F|]. split; [exact R|]. intros x Hx e He.
      destruct (Nat.eq_dec (scm s) x) as [E|N].
      * unfold node_at in He. rewrite cell_wr in He. apply Nat.eqb_eq in E. rewrite E in He. destruct He.
      * rewrite node_wr_other in He by exact N. apply (Cl x Hx e He).
    + intros x [<-|[]]. apply (F (scm s)). right; left; reflexivity.
    + intros x Hx. rewrite cell_wr. destruct (scm s =? x) eqn:E; [apply Nat.eqb_eq in E; exfalso; apply Hx; left; exact E|reflexivity].
    + cbn. lia.
Qed.

(* ---------- clone ---------- *)
Lemma index_of_some p reg : In p reg -> exists i, index_of p reg = Some i /\ i < length reg.
Proof.
  induction reg as [|q reg IH]; [intros []|]. cbn [index_of length]. intro H.
  destruct (q =? p) eqn:E; [exists 0; split; [reflexivity|lia]|].
  destruct H as [->|H]; [rewrite Nat.eqb_refl in E; discriminate|].
  destruct (IH H) as (i & -> & Hi). exists (S i). split; [reflexivity|lia].
Qed.
Lemma remap_in p reg b : In p reg -> In (remap reg b p) (seq b (length reg)).
Proof. intro H. unfold remap. destruct (index_of_some p reg H) as (i & -> & Hi). apply in_seq. lia. Qed.

Lemma aget_app_fresh {A} x (l1 l2 : list (nat * A)) : (forall k v, In (k, v) l1 -> k <> x) -> aget x (l1 ++ l2) = aget x l2.
Proof.
  induction l1 as [|[k v] l1 IH]; intro H; cbn [app aget]; [reflexivity|].
  destruct (k =? x) eqn:E; [apply Nat.eqb_eq in E; exfalso; apply (H k v); [left; reflexivity|exact E]|].
  apply IH. intros k' v' Hin. apply (H k' v'). right. exact Hin.
Qed.
Lemma aget_combine_seq {A} (vals : list A) : forall b i rest d, i < length vals ->
  aget (b + i) (combine (seq b (length vals)) vals ++ rest) = Some (nth i vals d).
Proof.
  induction vals as [|v vals IH]; intros b i rest d Hi; cbn [length] in *; [lia|].
  cbn [seq combine app aget]. destruct i as [|i].
  - rewrite Nat.add_0_r, Nat.eqb_refl. reflexivity.
  - destruct (b =? b + S i) eqn:E; [apply Nat.eqb_eq in E; lia|].
    replace (b + S i) with (S b + i) by lia. apply IH. lia.
Qed.
Lemma in_combine_seq {A} b (vals : list A) k v : In (k, v) (combine (seq b (length vals)) vals) -> b <= k < b + length vals.
Proof. intro H. apply in_combine_l in H. apply in_seq in H. exact H. Qed.

Lemma nth_map_lt {A B} (f : A -> B) l : forall i d d', i < length l -> nth i (map f l) d' = f (nth i l d).
Proof.
  induction l as [|a l IH]; intros i d d' Hi; cbn [length] in Hi; [lia|].
  destruct i; cbn [map nth]; [reflexivity|]. apply IH. lia.
Qed.

Lemma clone_spec h p :
  (forall s, p = Some s -> closed h s) ->
  let '(h', s') := clone_snap h p in
  Own (next h) h' s' /\ frame h h' (footprint s') /\ next h <= next h'.
Proof.
  intro Hc. destruct p as [s|]; cbn [clone_snap].
  - specialize (Hc s eq_refl). destruct Hc as [R C].
    set (reg := sregion s). set (n := length reg). set (b := next h).
    set (vals := map (fun l => CNode (clone_node reg b (node_at h l))) reg).
    assert (Lv : length vals = n) by (unfold vals; rewrite map_length; reflexivity).
    split; [|split].
    + split.
      * intros x Hx. clear Lv. subst vals b n reg. unfold footprint in *; cbn [shm scm sregion next] in *.
        destruct Hx as [<-|[<-|Hx]]; [lia|lia|]. apply in_seq in Hx. lia.
      * split; cbn [sroot sregion]; [apply remap_in; exact R|].
        intros x Hx e He. apply in_seq in Hx. destruct Hx as [X1 X2].
        assert (Xb : x - b < length reg) by (unfold b, n, reg in *; lia).
        replace x with (b + (x - b)) in He by lia.
        unfold node_at, cell_at in He; cbn [cells] in He.
        fold reg n b vals in He. rewrite <- Lv in He at 1.
        rewrite (aget_combine_seq vals b (x - b) _ (CHmap [])) in He by lia.
        unfold vals in He. rewrite (nth_map_lt _ reg (x - b) 0) in He by exact Xb.
        cbn [clone_node nkids] in He.
        apply in_map_iff in He. destruct He as (e0 & <- & He0). cbn [snd].
        apply remap_in. apply (C (nth (x - b) reg 0)); [apply nth_In; exact Xb|exact He0].
    + intros x Hx. unfold footprint in Hx; cbn [shm scm sregion] in Hx. unfold cell_at; cbn [cells]. rewrite aget_app_fresh.
      * cbn [aget]. clear Lv. subst vals b n reg. destruct (next h + length (sregion s) =? x) eqn:E1; [apply Nat.eqb_eq in E1; exfalso; apply Hx; left; exact E1|].
        destruct (next h + length (sregion s) + 1 =? x) eqn:E2; [apply Nat.eqb_eq in E2; exfalso; apply Hx; right; left; exact E2|]. reflexivity.
      * intros k v Hin E. subst k. apply Hx. right; right. apply in_combine_l in Hin. exact Hin.
    + cbn [next]. lia.
  - split; [|split].
    + split.
      * intros x Hx. unfold footprint in *; cbn [shm scm sregion next] in *. destruct Hx as [<-|[<-|[<-|[]]]]; lia.
      * split; cbn [sroot sregion]; [left; reflexivity|]. intros x [<-|[]] e He.
        unfold node_at, cell_at in He; cbn [cells aget] in He. rewrite Nat.eqb_refl in He. destruct He.
    + intros x Hx. unfold footprint in Hx; cbn [shm scm sregion] in Hx. unfold cell_at; cbn [cells aget].
      destruct (next h =? x) eqn:E1; [apply Nat.eqb_eq in E1; exfalso; apply Hx; right; right; left; exact E1|].
      destruct (next h + 1 =? x) eqn:E2; [apply Nat.eqb_eq in E2; exfalso; apply Hx; left; exact E2|].
      destruct (next h + 2 =? x) eqn:E3; [apply Nat.eqb_eq in E3; exfalso; apply Hx; right; left; exact E3|]. reflexivity.
    + cbn [next]. lia.
Qed.

(* ---------- the world invariant ---------- *)
Definition bound (w : world) : loc := match cur w with Some ws => wbase ws | None => next (hp w) end.
Definition reader_ok (w : world) (r : rstate) : Prop :=
  match r with RWalk s l _ _ => In s (stored w) /\ In l (sregion s) | RDone _ => True end.
Record WI (w : world) : Prop := {
  wA : forall s, In s (stored w) -> forall l, In l (footprint s) -> l < bound w;
  wB : forall s, In s (stored w) -> closed (hp w) s;
  wC : match cur w with Some ws => Own (wbase ws) (hp w) (wsnap ws) | None => True end;
  wD : pub w = match stored w with [] => None | s :: _ => Some s end;
  wE : bound w <= next (hp w);
  wF : Forall (reader_ok w) (readers w) }.

Lemma WI0 : WI world0.
Proof. constructor; cbn; auto; try tauto. Qed.

(* an event changes no cell outside what it reports as written, and writes nothing below the bound *)
Lemma wstep_frame w e : WI w ->
  frame (hp w) (hp (wstep w e)) (writes_of w e) /\ (forall x, In x (writes_of w e) -> bound w <= x).
Proof.
  intro I. destruct e as [|mu| | |labels verb|i]; cbn [wstep writes_of]; try (split; [intros x _; reflexivity|intros x []]).
  - destruct (cur w) as [ws|] eqn:Cw; [split; [intros x _; reflexivity|intros x []]|].
    pose proof (clone_spec (hp w) (pub w)) as S.
    destruct (clone_snap (hp w) (pub w)) as [h s]. cbn [hp].
    destruct S as ([F _] & A & _).
    { intros s0 E. apply (wB _ I). pose proof (wD _ I) as D. rewrite E in D. destruct (stored w); [discriminate|]. inversion D. left; reflexivity. }
    unfold bound. rewrite Cw. split.
    + exact A.
    + intros x Hx. apply F. exact Hx.
  - destruct (cur w) as [ws|] eqn:Cw; [|split; [intros x _; reflexivity|intros x []]].
    pose proof (apply_mut_spec (wbase ws) (hp w) (wsnap ws) mu) as S. generalize (wC _ I). rewrite Cw. intro O.
    specialize (S O). destruct (apply_mut (hp w) (wsnap ws) mu) as [[h s] wl]. cbn [hp snd].
    destruct S as (_ & A & B & _). unfold bound. rewrite Cw. split; assumption.
  - destruct (cur w); cbn [hp]; (split; [intros x _; reflexivity|intros x []]).
Qed.

Lemma pub_stored w s : WI w -> pub w = Some s -> In s (stored w).
Proof. intros I E. pose proof (wD _ I) as D. rewrite E in D. destruct (stored w); [discriminate|]. inversion D. left; reflexivity. Qed.

Lemma stored_cells_stable w e s x : WI w -> In s (stored w) -> In x (footprint s) ->
  cell_at (hp (wstep w e)) x = cell_at (hp w) x.
Proof.
  intros I Hs Hx. destruct (wstep_frame w e I) as [F B]. apply F. intro Q.
  pose proof (B x Q). pose proof (wA _ I s Hs x Hx). lia.
Qed.

Lemma stored_mono w e s : In s (stored w) -> In s (stored (wstep w e)).
Proof.
  intro H. destruct e as [|mu| | |labels verb|i]; cbn [wstep]; try exact H.
  - destruct (cur w); [exact H|]. destruct (clone_snap (hp w) (pub w)). exact H.
  - destruct (cur w); [|exact H]. destruct (apply_mut _ _ _) as [[? ?] ?]. exact H.
  - destruct (cur w); [right; exact H|exact H].
Qed.

Lemma Forall_upd {A} (P : A -> Prop) f l : forall i, Forall P l -> (forall x, P x -> P (f x)) -> Forall P (upd i f l).
Proof.
  induction l as [|a l IH]; intros i F Hf; [destruct i; constructor|].
  inversion F; subst. destruct i; cbn [upd]; constructor; auto.
Qed.

Lemma rstep_ok w h r : (forall s, In s (stored w) -> closed h s) -> reader_ok w r -> reader_ok w (rstep h r).
Proof.
  intros C O. destruct r as [s l rest verb|res]; [|exact I]. destruct O as [Hs Hl].
  destruct rest as [|lab rest]; cbn [rstep]; [exact I|].
  destruct (aget lab (nkids (node_at h l))) as [p|] eqn:K; [|exact I]. split; [exact Hs|].
  apply (proj2 (C s Hs) l Hl (lab, p)). apply aget_in. exact K.
Qed.

Lemma reader_ok_stored w w' r : (forall s, In s (stored w) -> In s (stored w')) -> reader_ok w r -> reader_ok w' r.
Proof. intros M O. destruct r; [|exact I]. destruct O. split; auto. Qed.

Lemma wstep_WI w e : WI w -> WI (wstep w e).
Proof.
  intro I.
  assert (STB : forall s, In s (stored w) -> closed (hp (wstep w e)) s).
  { intros s Hs. apply (closed_frame (hp w)); [apply (wB _ I s Hs)|].
    intros x Hx. apply (stored_cells_stable w e s x I Hs). right; right; exact Hx. }
  destruct e as [|mu| | |labels verb|i]; cbn [wstep] in *.
  - (* EBegin *)
    destruct (cur w) as [ws|] eqn:Cw; [exact I|].
    pose proof (clone_spec (hp w) (pub w)) as S. destruct (clone_snap (hp w) (pub w)) as [h s].
    destruct S as (O & _ & L). { intros s0 E. apply (wB _ I). apply (pub_stored w s0 I E). }
    constructor; cbn [hp pub stored cur readers bound wbase wsnap].
    + intros s0 Hs l Hl. pose proof (wA _ I s0 Hs l Hl) as B. unfold bound in B. rewrite Cw in B. exact B.
    + exact STB.
    + exact O.
    + apply (wD _ I).
    + unfold bound; cbn [cur wbase hp]. exact L.
    + eapply Forall_impl; [|apply (wF _ I)]. intros r. apply reader_ok_stored. auto.
  - (* EMut *)
    destruct (cur w) as [ws|] eqn:Cw; [|exact I].
    pose proof (apply_mut_spec (wbase ws) (hp w) (wsnap ws) mu) as S. pose proof (wC _ I) as O. rewrite Cw in O.
    specialize (S O). destruct (apply_mut (hp w) (wsnap ws) mu) as [[h s] wl]. destruct S as (O' & _ & _ & L).
    constructor; cbn [hp pub stored cur readers wbase wsnap].
    + intros s0 Hs l Hl. pose proof (wA _ I s0 Hs l Hl) as B. unfold bound in *. rewrite Cw in B. exact B.
    + exact STB.
    + exact O'.
    + apply (wD _ I).
    + pose proof (wE _ I) as E. unfold bound in *. rewrite Cw in E. cbn [cur wbase hp]. lia.
    + eapply Forall_impl; [|apply (wF _ I)]. intros r. apply reader_ok_stored. auto.
  - (* EStore *)
    destruct (cur w) as [ws|] eqn:Cw; [|exact I].
    pose proof (wC _ I) as O. rewrite Cw in O. pose proof (wE _ I) as E. unfold bound in E. rewrite Cw in E.
    constructor; cbn [hp pub stored cur readers]; unfold bound; cbn [cur hp].
    + intros s0 [<-|Hs] l Hl; [apply (proj1 O l Hl)|].
      pose proof (wA _ I s0 Hs l Hl) as B. unfold bound in B. rewrite Cw in B. lia.
    + intros s0 [<-|Hs]; [apply O|apply (wB _ I s0 Hs)].
    + exact Logic.I.
    + reflexivity.
    + lia.
    + eapply Forall_impl; [|apply (wF _ I)]. intros r. apply reader_ok_stored. intros s0 Hs. right; exact Hs.
  - (* EAbort *)
    pose proof (wE _ I) as E.
    constructor; cbn [hp pub stored cur readers]; unfold bound; cbn [cur hp]; try apply I; auto.
    intros s0 Hs l Hl. pose proof (wA _ I s0 Hs l Hl). lia.
  - (* ELoad *)
    constructor; cbn [hp pub stored cur readers]; try apply I.
    apply Forall_app. split; [apply (wF _ I)|]. constructor; [|constructor].
    destruct (pub w) as [s|] eqn:P; [|exact Logic.I]. pose proof (pub_stored w s I P) as Hs.
    split; [exact Hs|apply (wB _ I s Hs)].
  - (* ERead *)
    constructor; cbn [hp pub stored cur readers]; try apply I.
    apply Forall_upd; [apply (wF _ I)|]. intros r. apply rstep_ok. apply (wB _ I).
Qed.

Lemma exec_WI es : forall w, WI w -> WI (exec w es).
Proof. induction es as [|e es IH]; intros w I; cbn [exec]; [exact I|]. apply IH. apply wstep_WI. exact I. Qed.

(* ---------- immutability ---------- *)
Lemma published_immutable es e l s : let w := exec world0 es in
  In l (writes_of w e) -> In s (stored w) -> ~ In l (footprint s).
Proof.
  intros w Hl Hs Q. pose proof (exec_WI es world0 WI0) as I. fold w in I.
  pose proof (proj2 (wstep_frame w e I) l Hl). pose proof (wA _ I s Hs l Q). lia.
Qed.
Lemma writes_complete es e x : let w := exec world0 es in
  ~ In x (writes_of w e) -> cell_at (hp (wstep w e)) x = cell_at (hp w) x.
Proof. intros w. apply (proj1 (wstep_frame w e (exec_WI es world0 WI0))). Qed.

Lemma snapshot_content_fixed es' : forall w s x, WI w -> In s (stored w) -> In x (footprint s) ->
  cell_at (hp (exec w es')) x = cell_at (hp w) x.
Proof.
  induction es' as [|e es' IH]; intros w s x I Hs Hx; cbn [exec]; [reflexivity|].
  rewrite (IH (wstep w e) s x); [|apply wstep_WI; exact I|apply stored_mono; exact Hs|exact Hx].
  apply (stored_cells_stable w e s x I Hs Hx).
Qed.

(* ---------- readers ---------- *)
Lemma finish_ext h h' s : closed h s -> (forall x, In x (sregion s) -> cell_at h' x = cell_at h x) ->
  forall rest l verb, In l (sregion s) -> finish h' l rest verb = finish h l rest verb.
Proof.
  intros [R C] F. induction rest as [|lab rest IH]; intros l verb Hl; cbn [finish]; unfold node_at; rewrite (F l Hl); [reflexivity|].
  fold (node_at h l). destruct (aget lab (nkids (node_at h l))) as [p|] eqn:K; [|reflexivity].
  apply IH. apply (C l Hl (lab, p)). apply aget_in. exact K.
Qed.

Definition answer (h : heap) (r : rstate) : option method :=
  match r with RWalk _ l rest verb => finish h l rest verb | RDone res => res end.
Lemma answer_rstep h r : answer h (rstep h r) = answer h r.
Proof.
  destruct r as [s l rest verb|res]; [|reflexivity]. destruct rest as [|lab rest]; cbn [rstep answer finish]; [reflexivity|].
  destruct (aget lab (nkids (node_at h l))); reflexivity.
Qed.
Lemma nth_upd {A} (f : A -> A) l d : forall i j, i < length l ->
  nth i (upd j f l) d = if i =? j then f (nth i l d) else nth i l d.
Proof.
  induction l as [|a l IH]; intros i j Hi; cbn [length] in Hi; [lia|].
  destruct j, i; cbn [upd nth Nat.eqb]; try reflexivity. apply IH. lia.
Qed.
Lemma upd_length {A} (f : A -> A) l : forall i, length (upd i f l) = length l.
Proof. induction l as [|a l IH]; intro i; destruct i; cbn [upd length]; auto. Qed.
Lemma readers_mono w e : length (readers w) <= length (readers (wstep w e)).
Proof.
  destruct e as [|mu| | |labels verb|i]; cbn [wstep].
  - destruct (cur w); [lia|]. destruct (clone_snap _ _). cbn [readers]. lia.
  - destruct (cur w); [|lia]. destruct (apply_mut _ _ _) as [[? ?] ?]. cbn [readers]. lia.
  - destruct (cur w); cbn [readers]; lia.
  - cbn [readers]. lia.
  - cbn [readers]. rewrite app_length. lia.
  - cbn [readers]. rewrite upd_length. lia.
Qed.

Lemma answer_stable w e i d : WI w -> i < length (readers w) ->
  answer (hp (wstep w e)) (nth i (readers (wstep w e)) d) = answer (hp w) (nth i (readers w) d).
Proof.
  intros I Hi.
  assert (HEAP : forall r, In r (readers w) -> answer (hp (wstep w e)) r = answer (hp w) r).
  { intros r Hr. pose proof (proj1 (Forall_forall _ _) (wF _ I) r Hr) as O.
    destruct r as [s l rest verb|res]; [|reflexivity]. destruct O as [Hs Hl]. cbn [answer].
    apply (finish_ext (hp w) _ s); [apply (wB _ I s Hs)| |exact Hl].
    intros x Hx. apply (stored_cells_stable w e s x I Hs). right; right; exact Hx. }
  assert (SAME : readers (wstep w e) = readers w -> answer (hp (wstep w e)) (nth i (readers (wstep w e)) d) = answer (hp w) (nth i (readers w) d)).
  { intro E. rewrite E. apply HEAP. apply nth_In. exact Hi. }
  destruct e as [|mu| | |labels verb|j]; cbn [wstep] in *.
  - destruct (cur w); [reflexivity|]. destruct (clone_snap (hp w) (pub w)). apply SAME. reflexivity.
  - destruct (cur w); [|reflexivity]. destruct (apply_mut _ _ _) as [[? ?] ?]. apply SAME. reflexivity.
  - destruct (cur w); reflexivity.
  - reflexivity.
  - cbn [hp readers]. rewrite app_nth1 by exact Hi. reflexivity.
  - cbn [hp readers]. rewrite nth_upd by exact Hi. destruct (i =? j); [apply answer_rstep|reflexivity].
Qed.

Lemma answer_exec es : forall w i d, WI w -> i < length (readers w) ->
  answer (hp (exec w es)) (nth i (readers (exec w es)) d) = answer (hp w) (nth i (readers w) d).
Proof.
  induction es as [|e es IH]; intros w i d I Hi; cbn [exec]; [reflexivity|].
  rewrite IH; [apply answer_stable; assumption|apply wstep_WI; exact I|].
  pose proof (readers_mono w e). lia.
Qed.

(* under every interleaving: the request that loads after es1 gets the route of the snapshot that
   was published at that moment (the newest stored one), evaluated as if atomically at its load *)
Lemma linearizable es1 labels verb es2 :
  let w1 := exec world0 es1 in
  let w2 := exec (wstep w1 (ELoad labels verb)) es2 in
  answer (hp w2) (nth (length (readers w1)) (readers w2) (RDone None)) = route_snap (hp w1) (pub w1) labels verb /\
  pub w1 = match stored w1 with [] => None | s :: _ => Some s end.
Proof.
  intros w1 w2. pose proof (exec_WI es1 world0 WI0) as I. fold w1 in I. split; [|apply (wD _ I)].
  unfold w2. rewrite answer_exec.
  - cbn [wstep hp readers]. rewrite app_nth2 by lia. rewrite Nat.sub_diag. cbn [nth].
    unfold route_snap. destruct (pub w1); reflexivity.
  - apply wstep_WI. exact I.
  - cbn [wstep readers]. rewrite app_length. cbn. lia.
Qed.

(* ---------- all or nothing ---------- *)
Lemma pub_dec_helper (a b : option snap) : {a = b} + {a <> b}.
Proof. repeat decide equality. Qed.

Lemma only_store_publishes w e : pub (wstep w e) <> pub w -> e = EStore.
Proof.
  destruct e as [|mu| | |labels verb|i]; cbn [wstep]; try (intro H; exfalso; apply H; reflexivity); [| |reflexivity].
  - destruct (cur w); [intro H; exfalso; apply H; reflexivity|]. destruct (clone_snap _ _). intro H; exfalso; apply H; reflexivity.
  - destruct (cur w); [|intro H; exfalso; apply H; reflexivity]. destruct (apply_mut _ _ _) as [[? ?] ?]. intro H; exfalso; apply H; reflexivity.
Qed.

Lemma invisible_until_store es' : forall w, WI w -> ~ In EStore es' ->
  pub (exec w es') = pub w /\ stored (exec w es') = stored w /\
  forall labels verb, route_snap (hp (exec w es')) (pub w) labels verb = route_snap (hp w) (pub w) labels verb.
Proof.
  induction es' as [|e es' IH]; intros w I N; cbn [exec]; [auto|].
  assert (Ne : e <> EStore) by (intro Q; apply N; left; rewrite Q; reflexivity).
  assert (P : pub (wstep w e) = pub w).
  { destruct (pub_dec_helper (pub (wstep w e)) (pub w)) as [E|E]; [exact E|]. exfalso. apply Ne. apply (only_store_publishes w e E). }
  assert (S : stored (wstep w e) = stored w).
  { destruct e as [|mu| | |labels verb|i]; cbn [wstep]; try reflexivity.
    - destruct (cur w); [reflexivity|]. destruct (clone_snap _ _). reflexivity.
    - destruct (cur w); [|reflexivity]. destruct (apply_mut _ _ _) as [[? ?] ?]. reflexivity.
    - contradiction. }
  destruct (IH (wstep w e) (wstep_WI w e I)) as (A & B & C). { intro Q. apply N. right; exact Q. }
  split; [congruence|]. split; [congruence|]. intros labels verb. rewrite <- P, C, P.
  unfold route_snap. destruct (pub w) as [s|] eqn:Pw; [|reflexivity].
  pose proof (pub_stored w s I Pw) as Hs.
  apply (finish_ext (hp w) _ s); [apply (wB _ I s Hs)| |apply (wB _ I s Hs)].
  intros x Hx. apply (stored_cells_stable w e s x I Hs). right; right; exact Hx.
Qed.
