From Larking Require Import Base.GoSem Base.Pct Base.B64 Model.Status.
Local Open Scope Z_scope.

Lemma http_status_in_range : forallb (fun c => match http_status_code c with Ok v => v =? ref_http c | _ => false end)
  (map Z.of_nat (seq 0 17)) = true.
Proof. vm_compute. reflexivity. Qed.
Lemma ws_status_in_range : forallb (fun c => match ws_status_code c with Ok v => v =? ref_ws c | _ => false end)
  (map Z.of_nat (seq 0 17)) = true.
Proof. vm_compute. reflexivity. Qed.

Lemma in_range_list c : 0 <= c < 17 -> In c (map Z.of_nat (seq 0 17)).
Proof. intros H. apply in_map_iff. exists (Z.to_nat c). split; [lia|]. apply in_seq. lia. Qed.

Theorem http_status_total c : 0 <= c -> http_status_code c = Ok (ref_http c).
Proof.
  intros H. destruct (Z_lt_ge_dec c 17) as [L|G].
  - pose proof (proj1 (forallb_forall _ _) http_status_in_range c (in_range_list c ltac:(lia))) as P.
    cbn beta in P. destruct (http_status_code c); try discriminate. f_equal. lia.
  - unfold http_status_code. cbn [length codeToHTTPStatus]. replace (Z.of_nat 17 <=? c) with true by lia.
    unfold ref_http. repeat match goal with |- context [?a =? ?b] => replace (a =? b) with false by lia end. reflexivity.
Qed.
Theorem ws_status_total c : 0 <= c -> ws_status_code c = Ok (ref_ws c).
Proof.
  intros H. destruct (Z_lt_ge_dec c 17) as [L|G].
  - pose proof (proj1 (forallb_forall _ _) ws_status_in_range c (in_range_list c ltac:(lia))) as P.
    cbn beta in P. destruct (ws_status_code c); try discriminate. f_equal. lia.
  - unfold ws_status_code. cbn [length codeToHTTPStatus]. replace (Z.of_nat 17 <=? c) with true by lia.
    unfold ref_ws. repeat match goal with |- context [?a =? ?b] => replace (a =? b) with false by lia end. reflexivity.
Qed.

(* frames *)
Lemma un_be32_be32 n : (n < 4294967296)%N ->
  match be32 n with [a; b; c; d] => un_be32 a b c d = n | _ => False end.
Proof.
  intros H. unfold be32, un_be32.
  pose proof (N.div_mod n 256 ltac:(lia)). pose proof (N.div_mod (n / 256) 256 ltac:(lia)).
  pose proof (N.div_mod (n / 256 / 256) 256 ltac:(lia)).
  rewrite !N.div_div in * by lia. change (256 * 256)%N with 65536%N in *. change (65536 * 256)%N with 16777216%N in *.
  assert (n / 16777216 < 256)%N by (apply N.div_lt_upper_bound; lia).
  rewrite (N.mod_small (n / 16777216) 256) by lia. lia.
Qed.

Theorem parse_frames_roundtrip : forall fs fuel,
  Forall (fun f => (N.of_nat (length (snd f)) < 4294967296)%N) fs ->
  (length (concat (map (fun f => frame (fst f) (snd f)) fs)) < fuel)%nat ->
  parse_frames fuel (concat (map (fun f => frame (fst f) (snd f)) fs)) = Some fs.
Proof.
  induction fs as [|[flag p] fs IH]; intros fuel H Hf.
  - destruct fuel; [cbn in Hf; lia|reflexivity].
  - inversion H as [|? ? Hp Hfs]; subst. destruct fuel as [|f]; [lia|].
    cbn [map concat fst snd] in *. unfold frame at 1. unfold frame at 1 in Hf.
    pose proof (un_be32_be32 _ Hp) as U.
    destruct (be32 (N.of_nat (length p))) as [|a [|b [|c [|d [|]]]]] eqn:E; try contradiction.
    cbn [app parse_frames]. rewrite U, Nat2N.id.
    replace (Nat.ltb (length (p ++ concat (map (fun f0 => frame (fst f0) (snd f0)) fs))) (length p)) with false
      by (symmetry; apply Nat.ltb_ge; rewrite app_length; lia).
    pose proof (firstn_app_len p (concat (map (fun f0 => frame (fst f0) (snd f0)) fs)) 0) as F1.
    pose proof (skipn_app_len p (concat (map (fun f0 => frame (fst f0) (snd f0)) fs)) 0) as F2.
    rewrite Nat.add_0_r in F1, F2. rewrite F1, F2. cbn [firstn skipn]. rewrite app_nil_r.
    rewrite IH; auto. cbn [app length] in Hf. rewrite !app_length in Hf. cbn [length] in Hf. lia.
Qed.

Lemma ws_reason_fits msg : (length (ws_reason msg) <= 123)%nat /\ exists r, msg = ws_reason msg ++ r.
Proof. unfold ws_reason. split; [apply firstn_le_length|]. exists (skipn 123 msg). symmetry. apply firstn_skipn. Qed.
