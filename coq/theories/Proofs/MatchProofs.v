(* Soundness, totality and completeness of variable.index / path.search (Model/Match.v) against the
   declarative covering relation of Spec/Route.v. *)
From Larking Require Import Base.GoSem Model.Lexer Model.Trie Model.Match Spec.Route.

(* ---- break_at ---- *)
Lemma break_at_spec p l a b :
  break_at p l = (a, b) ->
  l = a ++ b /\ Forall (fun t => p t = false) a /\ match b with [] => True | t :: _ => p t = true end.
Proof.
  revert a b. induction l as [|t l IH]; intros a b H; cbn in H.
  - inversion H; subst. repeat split; auto.
  - destruct (p t) eqn:Ept.
    + inversion H; subst. repeat split; auto.
    + destruct (break_at p l) as [a' b'] eqn:Eb. inversion H; subst.
      destruct (IH a' b eq_refl) as (E1 & E2 & E3). subst l. repeat split; auto.
Qed.

Lemma break_at_app p a r :
  Forall (fun t => p t = false) a -> match r with [] => True | t :: _ => p t = true end ->
  break_at p (a ++ r) = (a, r).
Proof.
  intros Ha Hr. induction Ha as [|t a Ht Ha IH]; cbn.
  - destruct r as [|t r]; cbn; auto. now rewrite Hr.
  - rewrite Ht, IH. reflexivity.
Qed.

(* ---- variable.index ---- *)
Lemma nosep_iff t : nosep t <-> (is TSlash t || is TVerb t) = false.
Proof. unfold nosep. rewrite orb_false_iff. tauto. Qed.

Lemma var_index_sound pat : forall rest c z,
  var_index pat rest = Ok (Some (c, z)) -> rest = c ++ z /\ MatchPat pat c z.
Proof.
  induction pat as [|p pat IH]; intros rest c z H; cbn in H.
  - inversion H; subst. split; [reflexivity|constructor].
  - destruct rest as [|t rest']; [discriminate|].
    destruct (ttyp p) eqn:Ep; try discriminate.
    + (* slash *)
      destruct (is TSlash t) eqn:Et; [|discriminate].
      destruct (var_index pat rest') as [[[c' z']|]| | |] eqn:Er; try discriminate.
      inversion H; subst. destruct (IH _ _ _ Er) as [E M]. subst rest'.
      split; [reflexivity|]. now apply MP_slash.
    + (* star *)
      destruct (break_at (fun x => is TSlash x || is TVerb x) (t :: rest')) as [a b] eqn:Eb.
      destruct (var_index pat b) as [[[c' z']|]| | |] eqn:Er; try discriminate.
      inversion H; subst. destruct (IH _ _ _ Er) as [E M]. subst b.
      destruct (break_at_spec _ _ _ _ Eb) as (E1 & E2 & E3).
      split; [now rewrite E1, app_assoc|].
      apply MP_star; auto.
      * eapply Forall_impl; [|exact E2]. intros x Hx. apply (proj2 (nosep_iff x)). exact Hx.
      * unfold at_sep. revert E3. destruct (c' ++ z) as [|x l]; auto. intros E3. now apply orb_true_iff.
      * rewrite <- E1. discriminate.
    + (* starstar *)
      destruct (break_at (is TVerb) (t :: rest')) as [a b] eqn:Eb.
      destruct (var_index pat b) as [[[c' z']|]| | |] eqn:Er; try discriminate.
      inversion H; subst. destruct (IH _ _ _ Er) as [E M]. subst b.
      destruct (break_at_spec _ _ _ _ Eb) as (E1 & E2 & E3).
      split; [now rewrite E1, app_assoc|].
      apply MP_starstar; auto.
      all: try (rewrite <- E1; discriminate).
      all: unfold at_verb; revert E3; destruct (c' ++ z); auto.
    + (* literal *)
      destruct (is TPath t && str_eqb (tval p) (tval t)) eqn:Et; [|discriminate].
      apply andb_true_iff in Et. destruct Et as [Et1 Et2].
      destruct (var_index pat rest') as [[[c' z']|]| | |] eqn:Er; try discriminate.
      inversion H; subst. destruct (IH _ _ _ Er) as [E M]. subst rest'.
      split; [reflexivity|]. apply MP_lit; auto. now apply (list_eqb_eq N.eqb N.eqb_eq).
Qed.

Lemma var_index_complete pat c z :
  MatchPat pat c z -> var_index pat (c ++ z) = Ok (Some (c, z)).
Proof.
  induction 1 as [z|p t pat c z Hp Ht M IH|p t pat c z Hp Ht Hv M IH|p a pat c z Hp Ha Hs Hne M IH|p a pat c z Hp Ha Hs Hne M IH].
  - reflexivity.
  - cbn. rewrite Hp, Ht, IH. reflexivity.
  - cbn. rewrite Hp, Ht, Hv. replace (str_eqb (tval t) (tval t)) with true; [now rewrite IH|].
    symmetry. now apply (list_eqb_eq N.eqb N.eqb_eq).
  - rewrite <- app_assoc. cbn [var_index].
    destruct (a ++ c ++ z) as [|t r] eqn:E; [contradiction|]. rewrite Hp, <- E.
    rewrite break_at_app.
    + now rewrite IH.
    + eapply Forall_impl; [|exact Ha]. intros x Hx. apply (proj1 (nosep_iff x)). exact Hx.
    + unfold at_sep in Hs. destruct (c ++ z); auto. now apply orb_true_iff.
  - rewrite <- app_assoc. cbn [var_index].
    destruct (a ++ c ++ z) as [|t r] eqn:E; [contradiction|]. rewrite Hp, <- E.
    rewrite break_at_app; auto. now rewrite IH.
Qed.

Lemma var_index_total pat : forallb pat_tok_ok pat = true ->
  forall rest, exists r, var_index pat rest = Ok r.
Proof.
  induction pat as [|p pat IH]; intros Hok rest; cbn.
  - eauto.
  - cbn in Hok. apply andb_true_iff in Hok. destruct Hok as [Hp Hok]. specialize (IH Hok).
    destruct rest as [|t rest']; [eauto|].
    unfold pat_tok_ok in Hp. destruct (ttyp p); try discriminate.
    + destruct (is TSlash t); [|eauto]. destruct (IH rest') as [r ->]. destruct r as [[? ?]|]; eauto.
    + destruct (break_at _ (t :: rest')) as [a b]. destruct (IH b) as [r ->]. destruct r as [[? ?]|]; eauto.
    + destruct (break_at _ (t :: rest')) as [a b]. destruct (IH b) as [r ->]. destruct r as [[? ?]|]; eauto.
    + destruct (is TPath t && _); [|eauto]. destruct (IH rest') as [r ->]. destruct r as [[? ?]|]; eauto.
Qed.

(* what a variable consumes is never longer than what is there *)
Lemma var_index_length pat rest c z : var_index pat rest = Ok (Some (c, z)) -> (length z <= length rest)%nat.
Proof. intros H. apply var_index_sound in H. destruct H as [-> _]. rewrite app_length. lia. Qed.


Ltac nope := let HH := fresh in intros HH; cbn in HH; discriminate HH.

Section Search.
Variable okconv : list str -> str -> bool.

Lemma pick_bound verb nd m ps : pick verb nd = Ok (m, ps) -> bound_at verb nd = Some m /\ ps = [].
Proof.
  unfold pick, bound_at. destruct (assoc verb (n_meths nd)); [intros H; inversion H; auto|].
  destruct (n_mall nd); intros H; inversion H; auto.
Qed.
Lemma bound_pick verb nd m : bound_at verb nd = Some m -> pick verb nd = Ok (m, []).
Proof.
  unfold pick, bound_at. destruct (assoc verb (n_meths nd)); [intros H; inversion H; auto|].
  destruct (n_mall nd); intros H; inversion H; auto.
Qed.

(* ---- soundness ---- *)
Definition Sound (verb : str) (nd : node) (toks : list token) (r : result) : Prop :=
  exists es nd', Reach nd es nd' /\ bound_at verb nd' = Some (fst r) /\ MatchEdges es toks (snd r).

Lemma try_vars_sound verb rec tl vs m ps :
  (forall nd toks r, rec nd toks = Ok r -> Sound verb nd toks r) ->
  try_vars okconv rec tl vs = Ok (m, ps) ->
  exists pat nxt c z ps', In (pat, nxt) vs /\ var_index pat tl = Ok (Some (c, z)) /\
    Sound verb nxt z (m, ps') /\ ps = ps' ++ [spell c].
Proof.
  intros Hrec. induction vs as [|[pat nxt] vs IH]; cbn [try_vars]; [nope|].
  destruct (var_index pat tl) as [[[c z]|]| | |] eqn:Ev; try (nope).
  - destruct (rec nxt z) as [[m' ps']| | |] eqn:Er; try (nope).
    + destruct (Nat.ltb (length ps') (length (m_vars m'))); [|nope].
      destruct (nth_error (m_vars m') _) as [fds|]; [|nope].
      intros H.
      assert (E : m' = m /\ ps = ps' ++ [spell c]).
      { destruct (is_nil fds); [inversion H; auto|]. destruct (okconv fds (spell c)); inversion H; auto. }
      destruct E as [-> ->].
      exists pat, nxt, c, z, ps'. split; [now left|]. split; [exact Ev|]. split; [now apply Hrec|reflexivity].
    + intros H. destruct (IH H) as (p' & n' & c' & z' & q & Hin & R). exists p', n', c', z', q. split; [now right|exact R].
  - intros H. destruct (IH H) as (p' & n' & c' & z' & q & Hin & R). exists p', n', c', z', q. split; [now right|exact R].
Qed.

Theorem search_sound fuel verb : forall nd toks r,
  search okconv fuel verb nd toks = Ok r -> Sound verb nd toks r.
Proof.
  induction fuel as [|f IH]; intros nd toks r H; cbn in H; [discriminate|].
  unfold search_body in H.
  assert (Hvars : forall t0 t1 rest,
             toks = t0 :: t1 :: rest ->
             (if is TSlash t0 then try_vars okconv (search okconv f verb) (t1 :: rest) (n_vars nd) else Err ENotFound) = Ok r ->
             Sound verb nd toks r).
  { intros t0 t1 rest -> Hv. destruct (is TSlash t0) eqn:Et; [|discriminate].
    destruct r as [m ps].
    destruct (try_vars_sound verb _ _ _ _ _ IH Hv) as (pat & nxt & c & z & ps' & Hin & Hi & (es & nd' & HR & HB & HM) & ->).
    apply var_index_sound in Hi. destruct Hi as [E MP].
    exists (EVar pat :: es), nd'. split; [|split].
    - eapply R_var; eauto.
    - exact HB.
    - cbn [snd] in *. rewrite E. apply ME_var; auto. rewrite <- E. discriminate. }
  destruct toks as [|t0 [|t1 rest]].
  - destruct r as [m ps]. apply pick_bound in H. destruct H as [HB ->].
    exists [], nd. repeat split; [constructor|exact HB|constructor; cbn; lia].
  - destruct r as [m ps]. apply pick_bound in H. destruct H as [HB ->].
    exists [], nd. repeat split; [constructor|exact HB|constructor; cbn; lia].
  - destruct (assoc (tval t0 ++ tval t1) (n_segs nd)) as [nxt|] eqn:Ea.
    + destruct (search okconv f verb nxt rest) as [r'| | |] eqn:Er; try discriminate.
      * inversion H; subst r'. destruct (IH _ _ _ Er) as (es & nd' & HR & HB & HM).
        exists (ELit (tval t0 ++ tval t1) :: es), nd'. repeat split; auto.
        -- eapply R_lit; eauto.
        -- now apply ME_lit.
      * eapply Hvars; eauto.
    + eapply Hvars; eauto.
Qed.

(* ---- totality: with enough fuel and a well-formed trie the search neither panics nor runs dry ---- *)
Definition benign {A} (x : outcome A) : Prop := match x with Ok _ | Err _ => True | _ => False end.

Lemma TrieInv_lit nd k key c : TrieInv nd k -> assoc key (n_segs nd) = Some c -> TrieInv c k.
Proof.
  intros [I1 I2] Ha. split.
  - intros es nd' verb m HR HB. now apply (I1 (ELit key :: es) nd' verb m (R_lit _ _ _ _ _ Ha HR)).
  - intros es nd' pat c' HR Hin. now apply (I2 (ELit key :: es) nd' pat c' (R_lit _ _ _ _ _ Ha HR)).
Qed.
Lemma TrieInv_var nd k pat c : TrieInv nd k -> In (pat, c) (n_vars nd) -> TrieInv c (S k).
Proof.
  intros [I1 I2] Ha. split.
  - intros es nd' verb m HR HB. rewrite (I1 (EVar pat :: es) nd' verb m (R_var _ _ _ _ _ Ha HR) HB). cbn. lia.
  - intros es nd' pat' c' HR Hin. now apply (I2 (EVar pat :: es) nd' pat' c' (R_var _ _ _ _ _ Ha HR)).
Qed.

(* a successful search below a node that k variables lead to returns at most (#vars of the binding - k) captures *)
Lemma sound_caps_length verb nd k toks m ps :
  TrieInv nd k -> Sound verb nd toks (m, ps) -> (k + length ps = length (m_vars m))%nat.
Proof.
  intros [I1 _] (es & nd' & HR & HB & HM). cbn [fst snd] in *.
  rewrite (I1 es nd' verb m HR HB).
  assert (E : length ps = nvars es).
  { clear -HM. induction HM; cbn; auto. rewrite app_length. cbn. lia. }
  lia.
Qed.

Lemma try_vars_total verb rec tl vs nd k :
  TrieInv nd k -> (forall pat c, In (pat, c) vs -> In (pat, c) (n_vars nd)) ->
  (forall pat c z, In (pat, c) vs -> (length z <= length tl)%nat -> benign (rec c z)) ->
  (forall nd toks r, rec nd toks = Ok r -> Sound verb nd toks r) ->
  benign (try_vars okconv rec tl vs).
Proof.
  intros Inv Hsub Hrec Hsound. induction vs as [|[pat nxt] vs IH]; cbn [try_vars benign]; auto.
  assert (Hin : In (pat, nxt) (n_vars nd)) by (apply Hsub; now left).
  assert (Hok : forallb pat_tok_ok pat = true).
  { destruct Inv as [_ I2]. apply (I2 [] nd pat nxt (R_here nd) Hin). }
  assert (IH' : benign (try_vars okconv rec tl vs)).
  { apply IH; intros; [apply Hsub|eapply Hrec]; try (right; eassumption); auto. }
  destruct (var_index_total pat Hok tl) as [[[c z]|] Ev]; rewrite Ev; auto.
  pose proof (var_index_length _ _ _ _ Ev) as HL0.
  specialize (Hrec pat nxt z (or_introl eq_refl) HL0).
  destruct (rec nxt z) as [[m ps]| | |] eqn:Er; cbn in Hrec; try contradiction; auto.
  pose proof (sound_caps_length verb nxt (S k) z m ps (TrieInv_var _ _ _ _ Inv Hin) (Hsound _ _ _ Er)) as HL.
  replace (Nat.ltb (length ps) (length (m_vars m))) with true by (symmetry; apply Nat.ltb_lt; lia).
  destruct (nth_error (m_vars m) (length (m_vars m) - length ps - 1)) as [fds|] eqn:En.
  - destruct (is_nil fds); cbn; auto. destruct (okconv fds (spell c)); cbn; auto.
  - apply nth_error_None in En. lia.
Qed.

Theorem search_total fuel verb : forall nd k toks,
  TrieInv nd k -> (length toks < fuel)%nat -> benign (search okconv fuel verb nd toks).
Proof.
  induction fuel as [|f IH]; intros nd k toks Inv Hf; [lia|].
  cbn [search]. unfold search_body.
  destruct toks as [|t0 [|t1 rest]].
  - unfold pick. destruct (assoc verb (n_meths nd)); cbn; auto. destruct (n_mall nd); cbn; auto.
  - unfold pick. destruct (assoc verb (n_meths nd)); cbn; auto. destruct (n_mall nd); cbn; auto.
  - assert (Hvars : benign (if is TSlash t0 then try_vars okconv (search okconv f verb) (t1 :: rest) (n_vars nd) else Err ENotFound)).
    { destruct (is TSlash t0); cbn [benign]; auto.
      eapply try_vars_total with (nd := nd) (k := k) (verb := verb); auto.
      - intros pat c z Hin Hz. apply (IH c (S k) z); [eapply TrieInv_var; eauto|]. cbn [length] in *. lia.
      - intros. eapply search_sound; eauto. }
    destruct (assoc (tval t0 ++ tval t1) (n_segs nd)) as [nxt|] eqn:Ea; auto.
    assert (Hl : benign (search okconv f verb nxt rest)).
    { apply (IH nxt k rest); [eapply TrieInv_lit; eauto|]. cbn [length] in *. lia. }
    destruct (search okconv f verb nxt rest); cbn in Hl; try contradiction; cbn [benign]; auto.
Qed.

(* ---- completeness: a covered path is served (when every capture converts) ---- *)
Hypothesis conv_all : forall fp t, okconv fp t = true.

Lemma try_vars_complete verb rec tl vs nd k pat nxt c z r0 :
  TrieInv nd k -> (forall pat c, In (pat, c) vs -> In (pat, c) (n_vars nd)) ->
  (forall pat c z, In (pat, c) vs -> (length z <= length tl)%nat -> benign (rec c z)) ->
  (forall nd toks r, rec nd toks = Ok r -> Sound verb nd toks r) ->
  In (pat, nxt) vs -> var_index pat tl = Ok (Some (c, z)) -> rec nxt z = Ok r0 ->
  exists r, try_vars okconv rec tl vs = Ok r.
Proof.
  intros Inv Hsub Hrec Hsound Hin Hv Hr. induction vs as [|[pat0 nxt0] vs IH]; [contradiction|].
  cbn [try_vars].
  assert (Hin0 : In (pat0, nxt0) (n_vars nd)) by (apply Hsub; now left).
  assert (Hok : forallb pat_tok_ok pat0 = true).
  { destruct Inv as [_ I2]. apply (I2 [] nd pat0 nxt0 (R_here nd) Hin0). }
  assert (Hcont : (pat0, nxt0) <> (pat, nxt) \/ True -> In (pat, nxt) vs -> exists r, try_vars okconv rec tl vs = Ok r).
  { intros _ Hin'. apply IH; auto; intros; [apply Hsub|eapply Hrec]; try (right; eassumption); auto. }
  assert (Hhead : forall c1 z1 m ps, var_index pat0 tl = Ok (Some (c1, z1)) -> rec nxt0 z1 = Ok (m, ps) ->
            exists r, (if Nat.ltb (length ps) (length (m_vars m)) then
                         match nth_error (m_vars m) (length (m_vars m) - length ps - 1) with
                         | Some fds => if is_nil fds then Ok (m, ps ++ [spell c1])
                                       else if okconv fds (spell c1) then Ok (m, ps ++ [spell c1]) else Err EOther
                         | None => Panic PIndex end else Panic PIndex) = Ok r).
  { intros c1 z1 m ps Ev1 Er1.
    pose proof (sound_caps_length verb nxt0 (S k) z1 m ps (TrieInv_var _ _ _ _ Inv Hin0) (Hsound _ _ _ Er1)) as HL.
    replace (Nat.ltb (length ps) (length (m_vars m))) with true by (symmetry; apply Nat.ltb_lt; lia).
    destruct (nth_error (m_vars m) (length (m_vars m) - length ps - 1)) as [fds|] eqn:En.
    - rewrite conv_all. destruct (is_nil fds); eauto.
    - apply nth_error_None in En. lia. }
  destruct Hin as [E|Hin'].
  - inversion E; subst pat0 nxt0. rewrite Hv. destruct r0 as [m ps]. rewrite Hr. eapply Hhead; eauto.
  - destruct (var_index_total pat0 Hok tl) as [[[c1 z1]|] Ev1]; rewrite Ev1; [|apply Hcont; auto].
    pose proof (var_index_length _ _ _ _ Ev1) as HL0.
    pose proof (Hrec pat0 nxt0 z1 (or_introl eq_refl) HL0) as Hb.
    destruct (rec nxt0 z1) as [[m ps]| | |] eqn:Er1; cbn in Hb; try contradiction.
    + eapply Hhead; eauto.
    + apply Hcont; auto.
Qed.

Theorem search_complete verb es : forall toks caps, MatchEdges es toks caps ->
  forall fuel nd k nd' m, TrieInv nd k -> (length toks < fuel)%nat ->
  Reach nd es nd' -> bound_at verb nd' = Some m ->
  exists r, search okconv fuel verb nd toks = Ok r.
Proof.
  induction 1 as [toks Hl|t0 t1 rest es caps HM IH|pat t0 c z es caps Ht Hne HP HM IH];
    intros fuel nd k nd' m Inv Hf HR HB; (destruct fuel as [|f]; [lia|]); cbn [search]; unfold search_body.
  - inversion HR; subst. destruct toks as [|t0 [|t1 rest]]; cbn in Hl; try lia; rewrite (bound_pick _ _ _ HB); eauto.
  - inversion HR as [|? key cn ? ? Ha HR'|]; subst. rewrite Ha.
    destruct (IH f cn k nd' m) as [r Hr]; auto.
    + eapply TrieInv_lit; eauto.
    + cbn [length] in Hf. lia.
    + rewrite Hr. eauto.
  - inversion HR as [| |? ? cn ? ? Hin HR']; subst.
    destruct (c ++ z) as [|t1 rest] eqn:Ecz; [contradiction|].
    assert (Hvars : exists r, try_vars okconv (search okconv f verb) (t1 :: rest) (n_vars nd) = Ok r).
    { destruct (IH f cn (S k) nd' m) as [r0 Hr0]; auto.
      - eapply TrieInv_var; eauto.
      - assert (length z <= length (t1 :: rest))%nat by (rewrite <- Ecz, app_length; lia). cbn [length] in *. lia.
      - eapply try_vars_complete with (nd := nd) (k := k) (verb := verb) (pat := pat) (nxt := cn) (c := c) (z := z); eauto.
        + intros p0 c0 z0 Hin0 Hz. apply (search_total f verb c0 (S k) z0); [eapply TrieInv_var; eauto|]. cbn [length] in *. lia.
        + intros. eapply search_sound; eauto.
        + rewrite <- Ecz. now apply var_index_complete. }
    rewrite Ht.
    destruct (assoc (tval t0 ++ tval t1) (n_segs nd)) as [nxt|] eqn:Ea; auto.
    assert (Hb : benign (search okconv f verb nxt rest)).
    { apply (search_total f verb nxt k rest); [eapply TrieInv_lit; eauto|]. cbn [length] in *. lia. }
    destruct (search okconv f verb nxt rest); cbn in Hb; try contradiction; eauto.
Qed.

(* literal-over-wildcard: when the next separator and text are spelled by a literal edge below which
   the rest of the path is served, that is the answer, whatever variables the node also has *)
Theorem search_literal_first fuel verb nd t0 t1 rest nxt r :
  assoc (tval t0 ++ tval t1) (n_segs nd) = Some nxt ->
  search okconv fuel verb nxt rest = Ok r ->
  search okconv (S fuel) verb nd (t0 :: t1 :: rest) = Ok r.
Proof. intros Ha Hr. cbn [search]. unfold search_body. now rewrite Ha, Hr. Qed.
End Search.
