(* Removal of a method's rules from the routing trie (Model/TrieDel.v: path.delRule, path.alive):
   what is stored where afterwards (content), no dead nodes, the invariants of built tries carried to
   the bindings of the other methods, and the routing statements: the removed method is never served,
   the search stays total, and removal = never having registered (the trie routes every request as
   the trie built from the other methods' bindings alone).
   The association lists of the model stand for Go maps: the content statements assume that keys are
   keys (KeysND / Uq), which registration establishes and removal preserves. *)
From Larking Require Import Base.GoSem Model.Lexer Model.Trie Model.Match Model.TrieDel Spec.Grammar Spec.Route
  Proofs.LexerProofs Proofs.MatchProofs Proofs.TrieProofs Proofs.RoutingProofs Proofs.OrderProofs Proofs.AcceptProofs.
From Coq Require Import Sorting.Sorted Permutation.
Local Open Scope N_scope.

(* ---- induction over the nested node type ---- *)
Section NodeInd.
Variable P : node -> Prop.
Hypothesis Hstep : forall segs vars meths mall,
  (forall k c, In (k, c) segs -> P c) -> (forall p c, In (p, c) vars -> P c) -> P (Node segs vars meths mall).
Lemma node_induction : forall nd, P nd.
Proof.
  fix IH 1. intros [segs vars meths mall]. apply Hstep.
  - induction segs as [|[k0 c0] r IHr]; intros k c Hin.
    + destruct Hin.
    + destruct Hin as [E|Hin].
      * injection E as _ E2. rewrite <- E2. apply IH.
      * exact (IHr k c Hin).
  - induction vars as [|[k0 c0] r IHr]; intros k c Hin.
    + destruct Hin.
    + destruct Hin as [E|Hin].
      * injection E as _ E2. rewrite <- E2. apply IH.
      * exact (IHr k c Hin).
Qed.
End NodeInd.
Ltac node_ind := match goal with |- forall nd : node, @?P nd => apply (node_induction P); cbv beta end.

(* ---- small list facts ---- *)
Lemma existsb_false_in {A} (f : A -> bool) l : existsb f l = false -> forall x, In x l -> f x = false.
Proof.
  intros H x Hin. destruct (f x) eqn:E; auto.
  assert (existsb f l = true) by (apply existsb_exists; eauto). congruence.
Qed.
Lemma in_existsb_false {A} (f : A -> bool) l : (forall x, In x l -> f x = false) -> existsb f l = false.
Proof.
  intros H. destruct (existsb f l) eqn:E; auto. apply existsb_exists in E. destruct E as (x & Hin & Hx).
  rewrite (H x Hin) in Hx. discriminate.
Qed.
Lemma filter_all {A} (f : A -> bool) l : (forall x, In x l -> f x = true) -> filter f l = l.
Proof.
  induction l as [|a l IH]; intros H; cbn; auto.
  rewrite (H a (or_introl eq_refl)). f_equal. apply IH. intros x Hx. apply H. now right.
Qed.
Lemma map_all_id {A} (f : A -> A) l : (forall x, In x l -> f x = x) -> map f l = l.
Proof.
  induction l as [|a l IH]; intros H; cbn; auto.
  rewrite (H a (or_introl eq_refl)). f_equal. apply IH. intros x Hx. apply H. now right.
Qed.

(* ---- no dead nodes: "some binding at or below", and "every node below the root has one" ---- *)
Inductive HasB : node -> Prop :=
| HasB_meth segs vars meths mall : meths <> [] -> HasB (Node segs vars meths mall)
| HasB_mall segs vars meths m : HasB (Node segs vars meths (Some m))
| HasB_seg segs vars meths mall k c : In (k, c) segs -> HasB c -> HasB (Node segs vars meths mall)
| HasB_var segs vars meths mall p c : In (p, c) vars -> HasB c -> HasB (Node segs vars meths mall).
Inductive Live : node -> Prop :=
| Live_intro segs vars meths mall :
    (forall k c, In (k, c) segs -> HasB c /\ Live c) ->
    (forall p c, In (p, c) vars -> HasB c /\ Live c) ->
    Live (Node segs vars meths mall).

Lemma HasB_alive nd : HasB nd -> alive nd = true.
Proof.
  intros H.
  destruct H as [segs vars meths mall Hm|segs vars meths m|segs vars meths mall k c Hin Hc|segs vars meths mall p c Hin Hc];
    unfold alive; cbn [n_meths n_mall n_vars n_segs].
  - destruct meths; [congruence|reflexivity].
  - destruct meths; reflexivity.
  - destruct meths, mall, vars, segs; try reflexivity; contradiction.
  - destruct meths, mall, vars, segs; try reflexivity; contradiction.
Qed.
Lemma alive_HasB nd : Live nd -> alive nd = true -> HasB nd.
Proof.
  intros HL Ha. inversion HL as [segs vars meths mall L1 L2]; subst.
  destruct meths as [|x ms]; [|apply HasB_meth; discriminate].
  destruct mall as [m|]; [apply HasB_mall|].
  destruct vars as [|[p c] vs]; [|eapply HasB_var; [now left|]; apply (L2 p c); now left].
  destruct segs as [|[k c] ss]; [cbn in Ha; discriminate|].
  eapply HasB_seg; [now left|]. apply (L1 k c); now left.
Qed.
Lemma Live_Reach_child c es n : Reach c es n -> Live c -> HasB c -> Live n /\ HasB n.
Proof.
  induction 1 as [nd|nd key c es nd' Ha HR IH|nd pat c es nd' Hin HR IH]; intros HL HB; auto.
  - inversion HL as [s v ms a L1 L2]; subst. cbn [n_segs] in Ha.
    destruct (L1 key c (assoc_in _ _ _ Ha)) as [Hb Hl]. auto.
  - inversion HL as [s v ms a L1 L2]; subst. cbn [n_vars] in Hin.
    destruct (L2 pat c Hin) as [Hb Hl]. auto.
Qed.
Lemma Live_Reach nd es n : Reach nd es n -> es <> [] -> Live nd -> Live n /\ HasB n.
Proof.
  intros HR Hne HL. inversion HR as [nd0|nd0 key c es' nd' Ha HR'|nd0 pat c es' nd' Hin HR']; subst; [contradiction| |].
  - inversion HL as [s v ms a L1 L2]; subst. cbn [n_segs] in Ha.
    destruct (L1 key c (assoc_in _ _ _ Ha)) as [Hb Hl]. eapply Live_Reach_child; eauto.
  - inversion HL as [s v ms a L1 L2]; subst. cbn [n_vars] in Hin.
    destruct (L2 pat c Hin) as [Hb Hl]. eapply Live_Reach_child; eauto.
Qed.

(* walking by name meets live nodes only *)
Lemma stored_HasB n key m : stored (info n) key m -> HasB n.
Proof.
  destruct n as [segs vars meths mall]. unfold stored, info. cbn [fst snd n_meths n_mall].
  intros [[_ H]|H]; [subst mall; apply HasB_mall|]. apply HasB_meth. intros ->. discriminate.
Qed.
Lemma walk_HasB es : forall n0 n2, walk_to es n0 = Some n2 -> HasB n2 -> HasB n0.
Proof.
  induction es as [|[k|pat] es IH]; intros [segs vars meths mall] n2 H Hb; cbn [walk_to n_segs n_vars] in H.
  - injection H as <-. exact Hb.
  - destruct (assoc k segs) as [c|] eqn:Ea; [|discriminate]. eapply HasB_seg; [apply (assoc_in _ _ _ Ea)|eauto].
  - destruct (find_var (spell pat) vars) as [c|] eqn:Ea; [|discriminate].
    destruct (find_var_in _ _ _ Ea) as (p' & Hin & _). eapply HasB_var; [exact Hin|eauto].
Qed.
Lemma Live_walk_child es : forall c n, walk_to es c = Some n -> Live c -> HasB c -> Live n /\ HasB n.
Proof.
  induction es as [|[k|pat] es IH]; intros [segs vars meths mall] n H HL Hb; cbn [walk_to n_segs n_vars] in H.
  - injection H as <-. auto.
  - destruct (assoc k segs) as [c|] eqn:Ea; [|discriminate]. inversion HL as [s v ms a L1 L2]; subst.
    destruct (L1 k c (assoc_in _ _ _ Ea)) as [Hb' Hl']. eauto.
  - destruct (find_var (spell pat) vars) as [c|] eqn:Ea; [|discriminate]. inversion HL as [s v ms a L1 L2]; subst.
    destruct (find_var_in _ _ _ Ea) as (p' & Hin & _). destruct (L2 p' c Hin) as [Hb' Hl']. eauto.
Qed.
Lemma Live_walk es nd n : walk_to es nd = Some n -> es <> [] -> Live nd -> Live n /\ HasB n.
Proof.
  destruct es as [|[k|pat] es]; [contradiction| |]; destruct nd as [segs vars meths mall]; intros H _ HL;
    cbn [walk_to n_segs n_vars] in H; inversion HL as [s v ms a L1 L2]; subst.
  - destruct (assoc k segs) as [c|] eqn:Ea; [|discriminate].
    destruct (L1 k c (assoc_in _ _ _ Ea)) as [Hb' Hl']. eapply Live_walk_child; eauto.
  - destruct (find_var (spell pat) vars) as [c|] eqn:Ea; [|discriminate].
    destruct (find_var_in _ _ _ Ea) as (p' & Hin & _). destruct (L2 p' c Hin) as [Hb' Hl']. eapply Live_walk_child; eauto.
Qed.

(* ---- keys are keys: the association lists model Go maps, variables have distinct names ---- *)
Inductive Uq : node -> Prop :=
| Uq_intro segs vars meths mall :
    NoDup (map fst segs) -> NoDup (map vname vars) -> NoDup (map fst meths) ->
    (forall k c, In (k, c) segs -> Uq c) -> (forall p c, In (p, c) vars -> Uq c) ->
    Uq (Node segs vars meths mall).

Lemma nodup_assoc_in {A : Type} k (c : A) l : NoDup (map fst l) -> In (k, c) l -> assoc k l = Some c.
Proof.
  induction l as [|[k0 c0] r IH]; intros Hnd Hin; [contradiction|].
  cbn [map fst] in Hnd. inversion Hnd as [|x l' Hnotin Hnd']; subst. cbn [assoc].
  destruct Hin as [E|Hin].
  - injection E as -> ->. now rewrite str_eqb_refl.
  - destruct (str_eqb k0 k) eqn:E; [|auto]. apply str_eqb_eq in E. subst k0.
    exfalso. apply Hnotin. apply in_map_iff. exists (k, c). auto.
Qed.
Lemma nodup_find_in p c l : NoDup (map vname l) -> In (p, c) l -> find_var (spell p) l = Some c.
Proof.
  induction l as [|[p0 c0] r IH]; intros Hnd Hin; [contradiction|].
  cbn [map] in Hnd. inversion Hnd as [|x l' Hnotin Hnd']; subst. cbn [find_var].
  destruct Hin as [E|Hin].
  - injection E as -> ->. now rewrite str_eqb_refl.
  - destruct (str_eqb (spell p0) (spell p)) eqn:E; [|auto]. apply str_eqb_eq in E.
    exfalso. apply Hnotin. apply in_map_iff. exists (p, c). split; [unfold vname; cbn [fst]; congruence|exact Hin].
Qed.
Lemma walk_Uq es : forall nd n, Uq nd -> walk_to es nd = Some n -> Uq n.
Proof.
  induction es as [|[k|pat] es IH]; intros [segs vars meths mall] n HU H; cbn [walk_to n_segs n_vars] in H;
    inversion HU as [s v ms a U1 U2 U3 U4 U5]; subst.
  - injection H as <-. exact HU.
  - destruct (assoc k segs) as [c|] eqn:Ea; [|discriminate]. eapply IH; [|exact H]. apply (U4 k c). now apply assoc_in.
  - destruct (find_var (spell pat) vars) as [c|] eqn:Ea; [|discriminate].
    destruct (find_var_in _ _ _ Ea) as (p' & Hin & _). eapply IH; [|exact H]. eauto.
Qed.

(* a binding at or below, found by walking *)
Lemma HasB_walk : forall n, Uq n -> HasB n -> exists es n2 key m, walk_to es n = Some n2 /\ stored (info n2) key m.
Proof.
  intros n HU Hb. revert HU.
  induction Hb as [segs vars meths mall Hm|segs vars meths m|segs vars meths mall k c Hin Hc IH|segs vars meths mall p c Hin Hc IH]; intros HU.
  - destruct meths as [|[v m] ms]; [congruence|]. exists [], (Node segs vars ((v, m) :: ms) mall), v, m. split; [reflexivity|].
    right. cbn. now rewrite str_eqb_refl.
  - exists [], (Node segs vars meths (Some m)), star_verb, m. split; [reflexivity|]. left. auto.
  - inversion HU as [s v ms a U1 U2 U3 U4 U5]; subst. destruct (IH (U4 k c Hin)) as (es & n2 & key & m & Hw & Hs).
    exists (ELit k :: es), n2, key, m. split; [|exact Hs]. cbn [walk_to n_segs]. now rewrite (nodup_assoc_in k c segs U1 Hin).
  - inversion HU as [s v ms a U1 U2 U3 U4 U5]; subst. destruct (IH (U5 p c Hin)) as (es & n2 & key & m & Hw & Hs).
    exists (EVar p :: es), n2, key, m. split; [|exact Hs]. cbn [walk_to n_vars]. now rewrite (nodup_find_in p c vars U2 Hin).
Qed.

(* liveness stated on walks gives liveness *)
Lemma walk_Live : forall nd, Uq nd -> (forall es n, es <> [] -> walk_to es nd = Some n -> HasB n) -> Live nd.
Proof.
  node_ind. intros segs vars meths mall IHs IHv HU H. inversion HU as [s v ms a U1 U2 U3 U4 U5]; subst. constructor.
  - intros k c Hin. pose proof (nodup_assoc_in k c segs U1 Hin) as Ea. split.
    + apply (H [ELit k] c); [discriminate|]. cbn [walk_to n_segs]. now rewrite Ea.
    + apply (IHs k c Hin (U4 k c Hin)). intros es n Hne Hw. apply (H (ELit k :: es) n); [discriminate|]. cbn [walk_to n_segs]. now rewrite Ea.
  - intros p c Hin. pose proof (nodup_find_in p c vars U2 Hin) as Ea. split.
    + apply (H [EVar p] c); [discriminate|]. cbn [walk_to n_vars]. now rewrite Ea.
    + apply (IHv p c Hin (U5 p c Hin)). intros es n Hne Hw. apply (H (EVar p :: es) n); [discriminate|]. cbn [walk_to n_vars]. now rewrite Ea.
Qed.

Lemma NoDup_map_filter {A B : Type} (g : A -> B) f l : NoDup (map g l) -> NoDup (map g (filter f l)).
Proof.
  induction l as [|a l IH]; cbn [map filter]; intros H; [constructor|].
  inversion H as [|x l' Hnotin Hnd]; subst. destruct (f a); cbn [map]; auto.
  constructor; [|auto]. intros Hin. apply Hnotin. apply in_map_iff in Hin. destruct Hin as (z & E & Hz).
  apply filter_In in Hz. apply in_map_iff. exists z. tauto.
Qed.
Lemma assoc_filter_none {A : Type} k (f : str * A -> bool) l : assoc k l = None -> assoc k (filter f l) = None.
Proof.
  induction l as [|[k0 v0] r IH]; cbn [assoc filter]; auto.
  destruct (str_eqb k0 k) eqn:E; [discriminate|]. intros H. destruct (f (k0, v0)); cbn [assoc]; [rewrite E|]; auto.
Qed.
Lemma assoc_filter_keep {A : Type} k (v : A) (f : str * A -> bool) l :
  assoc k l = Some v -> f (k, v) = true -> assoc k (filter f l) = Some v.
Proof.
  induction l as [|[k0 v0] r IH]; cbn [assoc filter]; [discriminate|]. intros H Hf.
  destruct (str_eqb k0 k) eqn:E.
  - injection H as ->. apply str_eqb_eq in E. subst k0. rewrite Hf. cbn [assoc]. now rewrite str_eqb_refl.
  - destruct (f (k0, v0)); cbn [assoc]; [rewrite E|]; auto.
Qed.
Lemma assoc_filter_inv {A : Type} k (v : A) (f : str * A -> bool) l :
  NoDup (map fst l) -> assoc k (filter f l) = Some v -> assoc k l = Some v /\ f (k, v) = true.
Proof.
  induction l as [|[k0 v0] r IH]; intros Hnd H; [discriminate|].
  cbn [map fst] in Hnd. inversion Hnd as [|x l' Hnotin Hnd']; subst. cbn [filter] in H. cbn [assoc].
  destruct (str_eqb k0 k) eqn:E.
  - apply str_eqb_eq in E. subst k0. destruct (f (k, v0)) eqn:Ef.
    + cbn [assoc] in H. rewrite str_eqb_refl in H. injection H as <-. auto.
    + exfalso. apply assoc_in in H. apply filter_In in H. apply Hnotin. apply in_map_iff. exists (k, v). tauto.
  - destruct (f (k0, v0)); [cbn [assoc] in H; rewrite E in H|]; auto.
Qed.

Section Del.
Variable name : str.

Definition dnode (nd : node) : node := fst (del_rule name nd).
Definition dok (nd : node) : bool := snd (del_rule name nd).
Definition keptn (c : node) : bool := negb (dok c) || alive (dnode c).
Definition kept {K : Type} (kc : K * node) : bool := keptn (snd kc).
Definition dmap {K : Type} (kc : K * node) : K * node := (fst kc, dnode (snd kc)).
Definition dany {K : Type} (kc : K * node) : bool := dok (snd kc).

Lemma del_children_cons {K : Type} rec (k : K) c r :
  del_children rec ((k, c) :: r) =
  let '(c', okc) := rec c in
  let '(r', okr) := del_children rec r in
  if okc then (if alive c' then (k, c') :: r' else r', true) else ((k, c') :: r', okr).
Proof. reflexivity. Qed.

(* the loops over children as a filter followed by a map *)
Lemma del_children_eq {K : Type} (l : list (K * node)) :
  del_children (del_rule name) l = (map dmap (filter kept l), existsb dany l).
Proof.
  induction l as [|[k c] r IH]; [reflexivity|].
  rewrite del_children_cons, IH. unfold kept, keptn, dmap, dany, dok, dnode. cbn [filter existsb map fst snd].
  destruct (del_rule name c) as [c' okc] eqn:E. cbn [fst snd].
  destruct okc; cbn [negb orb]; [destruct (alive c')|]; cbn [map fst snd]; rewrite ?E; reflexivity.
Qed.

Definition del_ok_of (segs : list (str * node)) (vars : list (list token * node))
           (meths : list (str * minfo)) (mall : option minfo) : bool :=
  existsb dany segs || existsb dany vars || existsb (fun kv => negb (keep_meth name kv)) meths || snd (del_mall name mall).

Lemma del_rule_eq segs vars meths mall :
  del_rule name (Node segs vars meths mall) =
  (Node (map dmap (filter kept segs)) (map dmap (filter kept vars))
        (filter (keep_meth name) meths) (fst (del_mall name mall)),
   del_ok_of segs vars meths mall).
Proof.
  cbn [del_rule]. rewrite !del_children_eq. unfold del_meths, del_ok_of. destruct (del_mall name mall). reflexivity.
Qed.

Lemma dnode_eq segs vars meths mall :
  dnode (Node segs vars meths mall) =
  Node (map dmap (filter kept segs)) (map dmap (filter kept vars))
       (filter (keep_meth name) meths) (fst (del_mall name mall)).
Proof. unfold dnode. now rewrite del_rule_eq. Qed.
Lemma dok_eq segs vars meths mall : dok (Node segs vars meths mall) = del_ok_of segs vars meths mall.
Proof. unfold dok. now rewrite del_rule_eq. Qed.

Lemma in_dchildren {K : Type} (k : K) c' (l : list (K * node)) :
  In (k, c') (map dmap (filter kept l)) <-> exists c, In (k, c) l /\ c' = dnode c /\ kept (k, c) = true.
Proof.
  rewrite in_map_iff. split.
  - intros ([k0 c0] & E & Hin). apply filter_In in Hin. destruct Hin as [Hin Hk].
    unfold dmap in E. cbn [fst snd] in E. injection E as E1 E2. subst k0 c'. exists c0. auto.
  - intros (c & Hin & -> & Hk). exists (k, c). split; [reflexivity|]. apply filter_In. auto.
Qed.


(* ---- a method that is not in the trie: nothing changes, ok = false; and conversely ---- *)
Inductive NoName : node -> Prop :=
| NoName_intro segs vars meths mall :
    (forall k c, In (k, c) segs -> NoName c) ->
    (forall p c, In (p, c) vars -> NoName c) ->
    (forall v m, In (v, m) meths -> m_id m <> name) ->
    (forall m, mall = Some m -> m_id m <> name) ->
    NoName (Node segs vars meths mall).

Lemma keep_meth_true kv : keep_meth name kv = true <-> m_id (snd kv) <> name.
Proof. unfold keep_meth. rewrite negb_true_iff. apply str_eqb_neq. Qed.
Lemma keep_meth_false kv : keep_meth name kv = false <-> m_id (snd kv) = name.
Proof. unfold keep_meth. rewrite negb_false_iff. apply str_eqb_eq. Qed.

Lemma del_mall_spec mall :
  (forall m, fst (del_mall name mall) = Some m <-> mall = Some m /\ m_id m <> name) /\
  (snd (del_mall name mall) = false <-> forall m, mall = Some m -> m_id m <> name) /\
  (snd (del_mall name mall) = false -> fst (del_mall name mall) = mall).
Proof.
  unfold del_mall. destruct mall as [y|]; [destruct (str_eqb (m_id y) name) eqn:E|]; cbn [fst snd].
  - apply str_eqb_eq in E. split; [|split].
    + intros m. split; [discriminate|]. intros [H1 H2]. injection H1 as ->. contradiction.
    + split; [discriminate|]. intros H. exfalso. now apply (H y).
    + discriminate.
  - apply str_eqb_neq in E. split; [|split].
    + intros m. split; [intros H; injection H as ->; auto|]. intros [H _]. exact H.
    + split; [|reflexivity]. intros _ m H. injection H as ->. exact E.
    + reflexivity.
  - split; [|split].
    + intros m. split; [discriminate|]. intros [H _]. discriminate.
    + split; [|reflexivity]. intros _ m H. discriminate.
    + reflexivity.
Qed.

(* everything that is left belongs to other methods *)
Theorem del_rule_NoName : forall nd, NoName (dnode nd).
Proof.
  node_ind. intros segs vars meths mall IHs IHv. rewrite dnode_eq. constructor.
  - intros k c' Hin. apply in_dchildren in Hin. destruct Hin as (c & Hin & -> & _). eauto.
  - intros p c' Hin. apply in_dchildren in Hin. destruct Hin as (c & Hin & -> & _). eauto.
  - intros v m Hin. apply filter_In in Hin. destruct Hin as [_ Hk]. now apply keep_meth_true in Hk.
  - intros m Hm. now apply (proj1 (del_mall_spec mall)) in Hm.
Qed.

Lemma del_ok_false segs vars meths mall :
  del_ok_of segs vars meths mall = false <->
  (forall k c, In (k, c) segs -> dok c = false) /\ (forall p c, In (p, c) vars -> dok c = false) /\
  (forall v m, In (v, m) meths -> m_id m <> name) /\ (forall m, mall = Some m -> m_id m <> name).
Proof.
  unfold del_ok_of. rewrite !orb_false_iff. split.
  - intros [[[H1 H2] H3] H4]. split; [|split; [|split]].
    + intros k c Hin. apply (existsb_false_in _ _ H1 (k, c) Hin).
    + intros p c Hin. apply (existsb_false_in _ _ H2 (p, c) Hin).
    + intros v m Hin. pose proof (existsb_false_in _ _ H3 (v, m) Hin) as X. cbn beta in X.
      apply negb_false_iff in X. now apply keep_meth_true in X.
    + now apply (proj1 (proj2 (del_mall_spec mall))).
  - intros (H1 & H2 & H3 & H4). repeat split.
    + apply in_existsb_false. intros [k c] Hin. apply (H1 k c Hin).
    + apply in_existsb_false. intros [p c] Hin. apply (H2 p c Hin).
    + apply in_existsb_false. intros [v m] Hin. apply negb_false_iff. apply keep_meth_true. cbn [snd]. eauto.
    + now apply (proj1 (proj2 (del_mall_spec mall))).
Qed.

(* ok = false: the trie is what it was (Go mutates in place; nothing was written) *)
Theorem del_rule_false_same : forall nd, dok nd = false -> dnode nd = nd.
Proof.
  node_ind. intros segs vars meths mall IHs IHv H. rewrite dok_eq in H. rewrite dnode_eq.
  pose proof (proj1 (del_ok_false _ _ _ _) H) as (H1 & H2 & H3 & H4).
  f_equal.
  - rewrite filter_all; [apply map_all_id|].
    + intros [k c] Hin. unfold dmap. cbn [fst snd]. f_equal. apply (IHs k c Hin). eauto.
    + intros [k c] Hin. unfold kept, keptn. cbn [snd]. now rewrite (H1 k c Hin).
  - rewrite filter_all; [apply map_all_id|].
    + intros [k c] Hin. unfold dmap. cbn [fst snd]. f_equal. apply (IHv k c Hin). eauto.
    + intros [k c] Hin. unfold kept, keptn. cbn [snd]. now rewrite (H2 k c Hin).
  - apply filter_all. intros [v m] Hin. apply keep_meth_true. cbn [snd]. eauto.
  - apply (proj2 (proj2 (del_mall_spec mall))). now apply (proj1 (proj2 (del_mall_spec mall))).
Qed.

Theorem dok_false_iff : forall nd, dok nd = false <-> NoName nd.
Proof.
  node_ind. intros segs vars meths mall IHs IHv. rewrite dok_eq, del_ok_false. split.
  - intros (H1 & H2 & H3 & H4). constructor; auto.
    + intros k c Hin. apply (IHs k c Hin). eauto.
    + intros p c Hin. apply (IHv p c Hin). eauto.
  - intros H. inversion H as [s v ms a N1 N2 N3 N4]; subst. repeat split; auto.
    + intros k c Hin. apply (IHs k c Hin). eauto.
    + intros p c Hin. apply (IHv p c Hin). eauto.
Qed.

(* removal of a method that has no binding anywhere returns (nd, false) *)
Theorem del_rule_absent nd : NoName nd -> del_rule name nd = (nd, false).
Proof.
  intros H. apply dok_false_iff in H. pose proof (del_rule_false_same nd H) as E.
  unfold dok, dnode in *. destruct (del_rule name nd) as [n' o]. cbn [fst snd] in *. now subst.
Qed.
(* ... and ok = true exactly when some binding of the method was there *)
Theorem del_rule_ok_iff nd : snd (del_rule name nd) = true <-> ~ NoName nd.
Proof.
  fold (dok nd). rewrite <- dok_false_iff. destruct (dok nd); split; intros H; try discriminate; try reflexivity; try (intros X; discriminate). exfalso. now apply H.
Qed.

(* ---- (c) the structural invariant is preserved ---- *)
Lemma sorted_map_filter {A : Type} (R : str -> str -> Prop) (g : A -> str) f l :
  StronglySorted R (map g l) -> StronglySorted R (map g (filter f l)).
Proof.
  induction l as [|a l IH]; cbn [map filter]; intros H; [constructor|].
  inversion H as [|x l' Hs Hall]; subst. destruct (f a); cbn [map]; auto.
  constructor; [auto|]. rewrite Forall_forall in *. intros y Hy. apply Hall.
  apply in_map_iff in Hy. destruct Hy as (z & <- & Hz). apply filter_In in Hz. apply in_map. tauto.
Qed.
Lemma map_vname_dmap l : map vname (map dmap l) = map vname l.
Proof. rewrite map_map. apply map_ext. intros [p c]. reflexivity. Qed.
Lemma map_fst_dmap {K : Type} (l : list (K * node)) : map fst (map dmap l) = map fst l.
Proof. rewrite map_map. apply map_ext. intros [p c]. reflexivity. Qed.

Theorem del_rule_WFn (P : list token -> Prop) : forall nd k, WFn P k nd -> WFn P k (dnode nd).
Proof.
  node_ind. intros segs vars meths mall IHs IHv k Hw.
  inversion Hw as [k0 s v ms a W1 W2 W3 W4 W5]; subst. rewrite dnode_eq. constructor.
  - intros key c' Hin. apply in_dchildren in Hin. destruct Hin as (c & Hin & -> & _). apply (IHs key c Hin). eauto.
  - intros pat c' Hin. apply in_dchildren in Hin. destruct Hin as (c & Hin & -> & _).
    destruct (W2 pat c Hin) as [Pp Wc]. split; [exact Pp|]. apply (IHv pat c Hin). exact Wc.
  - unfold names_sorted. rewrite map_vname_dmap. apply sorted_map_filter. exact W3.
  - intros v0 m Hin. apply filter_In in Hin. destruct Hin as [Hin _]. eauto.
  - intros m Hm. apply (proj1 (del_mall_spec mall)) in Hm. destruct Hm as [Hm _]. eauto.
Qed.

(* ---- (a) what is left never serves the removed method ---- *)
Lemma NoName_Reach nd es nd' : Reach nd es nd' -> NoName nd -> NoName nd'.
Proof.
  induction 1 as [nd|nd key c es nd' Ha HR IH|nd pat c es nd' Hin HR IH]; intros HN; auto.
  - apply IH. inversion HN as [s v ms a N1 N2 N3 N4]; subst. cbn [n_segs] in Ha. apply (N1 key c). now apply assoc_in.
  - apply IH. inversion HN as [s v ms a N1 N2 N3 N4]; subst. cbn [n_vars] in Hin. eauto.
Qed.
Lemma NoName_bound verb nd m : NoName nd -> bound_at verb nd = Some m -> m_id m <> name.
Proof.
  intros HN HB. inversion HN as [s v ms a N1 N2 N3 N4]; subst. unfold bound_at in HB. cbn [n_meths n_mall] in HB.
  destruct (assoc verb ms) as [m0|] eqn:Ea.
  - injection HB as ->. apply (N3 verb m). now apply assoc_in.
  - now apply N4.
Qed.
Theorem search_NoName okconv fuel verb nd toks m ps :
  NoName nd -> search okconv fuel verb nd toks = Ok (m, ps) -> m_id m <> name.
Proof.
  intros HN H. destruct (search_sound okconv _ _ _ _ _ H) as (es & nd' & HR & HB & _). cbn [fst] in HB.
  eapply NoName_bound; [eapply NoName_Reach; eauto|exact HB].
Qed.

(* ---- no dead nodes ---- *)
Theorem del_rule_Live : forall nd, Live nd -> Live (dnode nd).
Proof.
  node_ind. intros segs vars meths mall IHs IHv HL. inversion HL as [s v ms a L1 L2]; subst. rewrite dnode_eq. constructor.
  - intros k c' Hin. apply in_dchildren in Hin. destruct Hin as (c & Hin & -> & Hk). destruct (L1 k c Hin) as [Hb Hl].
    unfold kept, keptn in Hk. cbn [snd] in Hk. destruct (dok c) eqn:Ed; cbn [negb orb] in Hk.
    + pose proof (IHs k c Hin Hl) as Hl'. split; [now apply alive_HasB|exact Hl'].
    + rewrite (del_rule_false_same c Ed). auto.
  - intros k c' Hin. apply in_dchildren in Hin. destruct Hin as (c & Hin & -> & Hk). destruct (L2 k c Hin) as [Hb Hl].
    unfold kept, keptn in Hk. cbn [snd] in Hk. destruct (dok c) eqn:Ed; cbn [negb orb] in Hk.
    + pose proof (IHv k c Hin Hl) as Hl'. split; [now apply alive_HasB|exact Hl'].
    + rewrite (del_rule_false_same c Ed). auto.
Qed.

(* every node search can reach below the root of the result is alive, and has a binding at or below it *)
Theorem del_rule_no_dead nd es n :
  Live nd -> Reach (dnode nd) es n -> es <> [] -> alive n = true /\ HasB n.
Proof.
  intros HL HR Hne. destruct (Live_Reach _ _ _ HR Hne (del_rule_Live nd HL)) as [_ Hb]. split; [now apply HasB_alive|exact Hb].
Qed.

(* ---- content: what is stored where, afterwards ---- *)
Definition finfo (i : list (str * minfo) * option minfo) : list (str * minfo) * option minfo :=
  (filter (keep_meth name) (fst i), fst (del_mall name (snd i))).

Lemma info_dnode n : info (dnode n) = finfo (info n).
Proof. destruct n as [segs vars meths mall]. rewrite dnode_eq. reflexivity. Qed.

Lemma stored_finfo_keep i key m : stored i key m -> m_id m <> name -> stored (finfo i) key m.
Proof.
  unfold stored, finfo. cbn [fst snd]. intros [[-> H]|H] Hm.
  - left. split; [reflexivity|]. apply (proj1 (del_mall_spec (snd i))). auto.
  - right. apply assoc_filter_keep; [exact H|]. now apply keep_meth_true.
Qed.
Lemma stored_finfo_other i key m : stored (finfo i) key m -> m_id m <> name.
Proof.
  unfold stored, finfo. cbn [fst snd]. intros [[_ H]|H].
  - now apply (proj1 (del_mall_spec (snd i))) in H.
  - apply assoc_in in H. apply filter_In in H. destruct H as [_ H]. now apply keep_meth_true in H.
Qed.
Lemma stored_finfo_inv i key m : NoDup (map fst (fst i)) -> stored (finfo i) key m -> stored i key m /\ m_id m <> name.
Proof.
  intros Hnd H. split; [|now apply (stored_finfo_other i key)]. revert H.
  unfold stored, finfo. cbn [fst snd]. intros [[-> H]|H].
  - left. split; [reflexivity|]. now apply (proj1 (del_mall_spec (snd i))) in H.
  - right. now apply (assoc_filter_inv key m _ _ Hnd) in H.
Qed.
Theorem stored_finfo_iff i key m : NoDup (map fst (fst i)) -> (stored (finfo i) key m <-> stored i key m /\ m_id m <> name).
Proof. intros Hnd. split; [now apply stored_finfo_inv|]. intros [A B]. now apply stored_finfo_keep. Qed.

Lemma assoc_dchildren_keep k c l :
  assoc k l = Some c -> keptn c = true -> assoc k (map dmap (filter kept l)) = Some (dnode c).
Proof.
  induction l as [|[k0 c0] r IH]; cbn [assoc]; [discriminate|]. intros H Hk. cbn [filter]. unfold kept at 1. cbn [snd].
  destruct (str_eqb k0 k) eqn:E.
  - injection H as ->. rewrite Hk. cbn [map]. unfold dmap at 1. cbn [fst snd assoc]. now rewrite E.
  - destruct (keptn c0); [cbn [map]; unfold dmap at 1; cbn [fst snd assoc]; rewrite E|]; auto.
Qed.
Lemma assoc_dchildren_inv k c' l :
  NoDup (map fst l) -> assoc k (map dmap (filter kept l)) = Some c' ->
  exists c, assoc k l = Some c /\ c' = dnode c /\ keptn c = true.
Proof.
  induction l as [|[k0 c0] r IH]; intros Hnd H; [discriminate|].
  cbn [map fst] in Hnd. inversion Hnd as [|x l' Hnotin Hnd']; subst.
  cbn [filter] in H. unfold kept at 1 in H. cbn [snd] in H. cbn [assoc]. destruct (str_eqb k0 k) eqn:E.
  - destruct (keptn c0) eqn:Ek.
    + cbn [map] in H. unfold dmap at 1 in H. cbn [fst snd assoc] in H. rewrite E in H. injection H as <-. exists c0. auto.
    + exfalso. apply str_eqb_eq in E. subst k0. apply assoc_in in H. apply Hnotin. apply in_dchildren in H.
      destruct H as (c & Hin & _). apply in_map_iff. exists (k, c). auto.
  - destruct (keptn c0).
    + cbn [map] in H. unfold dmap at 1 in H. cbn [fst snd assoc] in H. rewrite E in H. auto.
    + auto.
Qed.
Lemma find_dchildren_keep nm c l :
  find_var nm l = Some c -> keptn c = true -> find_var nm (map dmap (filter kept l)) = Some (dnode c).
Proof.
  induction l as [|[p0 c0] r IH]; cbn [find_var]; [discriminate|]. intros H Hk. cbn [filter]. unfold kept at 1. cbn [snd].
  destruct (str_eqb (spell p0) nm) eqn:E.
  - injection H as ->. rewrite Hk. cbn [map]. unfold dmap at 1. cbn [fst snd find_var]. now rewrite E.
  - destruct (keptn c0); [cbn [map]; unfold dmap at 1; cbn [fst snd find_var]; rewrite E|]; auto.
Qed.
Lemma find_dchildren_inv nm c' l :
  NoDup (map vname l) -> find_var nm (map dmap (filter kept l)) = Some c' ->
  exists c, find_var nm l = Some c /\ c' = dnode c /\ keptn c = true.
Proof.
  induction l as [|[p0 c0] r IH]; intros Hnd H; [discriminate|].
  cbn [map] in Hnd. inversion Hnd as [|x l' Hnotin Hnd']; subst.
  cbn [filter] in H. unfold kept at 1 in H. cbn [snd] in H. cbn [find_var]. destruct (str_eqb (spell p0) nm) eqn:E.
  - destruct (keptn c0) eqn:Ek.
    + cbn [map] in H. unfold dmap at 1 in H. cbn [fst snd find_var] in H. rewrite E in H. injection H as <-. exists c0. auto.
    + exfalso. apply str_eqb_eq in E. apply find_var_in in H. destruct H as (p' & Hin & Hs).
      apply Hnotin. apply in_dchildren in Hin. destruct Hin as (c & Hin & _). apply in_map_iff. exists (p', c).
      split; [unfold vname; cbn [fst]; congruence|exact Hin].
  - destruct (keptn c0).
    + cbn [map] in H. unfold dmap at 1 in H. cbn [fst snd find_var] in H. rewrite E in H. auto.
    + auto.
Qed.

(* every node of the result is the image of the node at the same place *)
Theorem walk_del_inv es : forall nd n', Uq nd -> walk_to es (dnode nd) = Some n' ->
  exists n, walk_to es nd = Some n /\ n' = dnode n.
Proof.
  induction es as [|[k|pat] es IH]; intros [segs vars meths mall] n' HU H.
  - cbn [walk_to] in *. injection H as <-. eauto.
  - rewrite dnode_eq in H. cbn [walk_to n_segs] in *. inversion HU as [s v ms a U1 U2 U3 U4 U5]; subst.
    destruct (assoc k (map dmap (filter kept segs))) as [c'|] eqn:Ea; [|discriminate].
    destruct (assoc_dchildren_inv _ _ _ U1 Ea) as (c & Hc & -> & _). rewrite Hc. apply IH; auto. apply (U4 k c). now apply assoc_in.
  - rewrite dnode_eq in H. cbn [walk_to n_vars] in *. inversion HU as [s v ms a U1 U2 U3 U4 U5]; subst.
    destruct (find_var (spell pat) (map dmap (filter kept vars))) as [c'|] eqn:Ea; [|discriminate].
    destruct (find_dchildren_inv _ _ _ U2 Ea) as (c & Hc & -> & _). rewrite Hc. apply IH; auto.
    destruct (find_var_in _ _ _ Hc) as (p' & Hin & _). eauto.
Qed.

(* a node with a binding of another method, and every node on the way to it, stays *)
Theorem walk_del_survives es : forall nd n key m,
  walk_to es nd = Some n -> stored (info n) key m -> m_id m <> name -> walk_to es (dnode nd) = Some (dnode n).
Proof.
  induction es as [|[k|pat] es IH]; intros [segs vars meths mall] n key m H Hs Hm.
  - cbn [walk_to] in *. injection H as <-. reflexivity.
  - rewrite dnode_eq. cbn [walk_to n_segs] in *. destruct (assoc k segs) as [c|] eqn:Ea; [|discriminate].
    pose proof (IH c n key m H Hs Hm) as Hw. rewrite (assoc_dchildren_keep k c segs Ea); [exact Hw|].
    unfold keptn. apply orb_true_iff. right. apply HasB_alive. eapply walk_HasB; [exact Hw|].
    apply (stored_HasB _ key m). rewrite info_dnode. now apply stored_finfo_keep.
  - rewrite dnode_eq. cbn [walk_to n_vars] in *. destruct (find_var (spell pat) vars) as [c|] eqn:Ea; [|discriminate].
    pose proof (IH c n key m H Hs Hm) as Hw. rewrite (find_dchildren_keep _ c vars Ea); [exact Hw|].
    unfold keptn. apply orb_true_iff. right. apply HasB_alive. eapply walk_HasB; [exact Hw|].
    apply (stored_HasB _ key m). rewrite info_dnode. now apply stored_finfo_keep.
Qed.

(* the same, in the vocabulary of TrieProofs *)
Theorem del_rule_info_inv nd es i' : Uq nd -> info_at (dnode nd) es = Some i' ->
  exists i, info_at nd es = Some i /\ i' = finfo i /\ NoDup (map fst (fst i)).
Proof.
  unfold info_at. intros HU H. destruct (walk_to es (dnode nd)) as [n'|] eqn:Ew; [|discriminate]. injection H as <-.
  destruct (walk_del_inv es nd n' HU Ew) as (n & Hw & ->). rewrite Hw. exists (info n). split; [reflexivity|]. split; [apply info_dnode|].
  pose proof (walk_Uq es nd n HU Hw) as HUn. inversion HUn as [s v ms a U1 U2 U3 U4 U5]; subst. exact U3.
Qed.
Theorem del_rule_info_survives nd es i key m :
  info_at nd es = Some i -> stored i key m -> m_id m <> name ->
  info_at (dnode nd) es = Some (finfo i) /\ stored (finfo i) key m.
Proof.
  unfold info_at. intros H Hs Hm. destruct (walk_to es nd) as [n|] eqn:Ew; [|discriminate]. injection H as <-.
  rewrite (walk_del_survives es nd n key m Ew Hs Hm). rewrite info_dnode. split; [reflexivity|now apply stored_finfo_keep].
Qed.
(* exactly the bindings of the other methods, at the same places *)
Theorem del_rule_content nd es key m : Uq nd ->
  ((exists i', info_at (dnode nd) es = Some i' /\ stored i' key m) <->
   (exists i, info_at nd es = Some i /\ stored i key m /\ m_id m <> name)).
Proof.
  intros HU. split.
  - intros (i' & Hi & Hs). destruct (del_rule_info_inv nd es i' HU Hi) as (i & Hi0 & -> & Hnd).
    apply (stored_finfo_inv i key m Hnd) in Hs. exists i. tauto.
  - intros (i & Hi & Hs & Hm). exists (finfo i). now apply del_rule_info_survives.
Qed.

Theorem del_rule_Uq : forall nd, Uq nd -> Uq (dnode nd).
Proof.
  node_ind. intros segs vars meths mall IHs IHv HU. inversion HU as [s v ms a U1 U2 U3 U4 U5]; subst. rewrite dnode_eq. constructor.
  - rewrite map_fst_dmap. now apply NoDup_map_filter.
  - rewrite map_vname_dmap. now apply NoDup_map_filter.
  - now apply NoDup_map_filter.
  - intros k c' Hin. apply in_dchildren in Hin. destruct Hin as (c & Hin & -> & _). eauto.
  - intros p c' Hin. apply in_dchildren in Hin. destruct Hin as (c & Hin & -> & _). eauto.
Qed.

(* a node (other than the root) is there afterwards exactly when a binding of another method sits at or below it *)
Theorem del_rule_domain nd es : Uq nd -> Live nd -> es <> [] ->
  (exists_at (dnode nd) es <->
   exists es2 i key m, info_at nd (es ++ es2) = Some i /\ stored i key m /\ m_id m <> name).
Proof.
  intros HU HL Hne. unfold exists_at. split.
  - intros Hex. destruct (walk_to es (dnode nd)) as [n'|] eqn:Ew; [|congruence].
    destruct (Live_walk es _ n' Ew Hne (del_rule_Live nd HL)) as [_ Hb].
    pose proof (walk_Uq es _ n' (del_rule_Uq nd HU) Ew) as HUn.
    destruct (HasB_walk n' HUn Hb) as (es2 & n2 & key & m & Hw2 & Hs).
    assert (Hi : info_at (dnode nd) (es ++ es2) = Some (info n2)) by (unfold info_at; now rewrite walk_to_app, Ew, Hw2).
    destruct (proj1 (del_rule_content nd (es ++ es2) key m HU)) as (i & A & B & C); [eauto|]. exists es2, i, key, m. auto.
  - intros (es2 & i & key & m & Hi & Hs & Hm).
    destruct (del_rule_info_survives nd (es ++ es2) i key m Hi Hs Hm) as [Hi' _].
    unfold info_at in Hi'. rewrite walk_to_app in Hi'. destruct (walk_to es (dnode nd)); [discriminate|discriminate].
Qed.

End Del.

(* ---- what registration maintains besides Inv: the keys of the association lists are keys ---- *)
Inductive KeysND : node -> Prop :=
| KeysND_intro segs vars meths mall :
    NoDup (map fst segs) -> NoDup (map fst meths) ->
    (forall k c, In (k, c) segs -> KeysND c) -> (forall p c, In (p, c) vars -> KeysND c) ->
    KeysND (Node segs vars meths mall).

Lemma KeysND_empty : KeysND empty_node.
Proof. constructor; cbn; try constructor; contradiction. Qed.

Lemma sorted_nodup l : StronglySorted (fun a b => str_ltb a b = true) l -> NoDup l.
Proof.
  induction 1 as [|a l Hs IH Hall]; constructor; auto. intros Hin. rewrite Forall_forall in Hall.
  pose proof (Hall a Hin) as X. rewrite str_ltb_irrefl in X. discriminate.
Qed.

Lemma WFn_KeysND_Uq (P : list token -> Prop) : forall nd k, WFn P k nd -> KeysND nd -> Uq nd.
Proof.
  node_ind. intros segs vars meths mall IHs IHv k Hw HK.
  inversion Hw as [k0 s v ms a W1 W2 W3 W4 W5]; subst. inversion HK as [s v ms a K1 K2 K3 K4]; subst.
  constructor; auto.
  - apply sorted_nodup. exact W3.
  - intros key c Hin. eapply (IHs key c Hin); eauto.
  - intros p c Hin. destruct (W2 p c Hin) as [_ Wc]. eapply (IHv p c Hin); eauto.
Qed.

Lemma set_assoc_keys {A : Type} k (v : A) l x : In x (map fst (set_assoc k v l)) -> x = k \/ In x (map fst l).
Proof.
  induction l as [|[k' v'] l IH]; cbn [set_assoc map fst In].
  - intros [H|[]]. auto.
  - destruct (str_eqb k' k); cbn [map fst In]; [tauto|]. intros [H|H]; [tauto|]. destruct (IH H); tauto.
Qed.
Lemma set_assoc_nodup {A : Type} k (v : A) l : NoDup (map fst l) -> NoDup (map fst (set_assoc k v l)).
Proof.
  induction l as [|[k' v'] l IH]; cbn [set_assoc map fst]; intros H.
  - constructor; [intros []|constructor].
  - inversion H as [|x l' Hnotin Hnd]; subst. destruct (str_eqb k' k) eqn:E; cbn [map fst]; [constructor; auto|].
    constructor; [|auto]. intros Hin. destruct (set_assoc_keys _ _ _ _ Hin) as [->|Hin']; [|contradiction].
    rewrite str_eqb_refl in E. discriminate.
Qed.

Lemma upd_KeysND es0 : forall f nd nd',
  KeysND nd -> (forall leaf leaf', KeysND leaf -> f leaf = Ok leaf' -> KeysND leaf') ->
  upd es0 f nd = Ok nd' -> KeysND nd'.
Proof.
  induction es0 as [|[key|pat] es0 IH]; intros f nd nd' HK Hf H; cbn in H.
  - eauto.
  - destruct (upd es0 f _) as [c'| | |] eqn:Eu; try discriminate. injection H as <-.
    inversion HK as [segs vars meths mall K1 K2 K3 K4]; subst. cbn [n_segs n_vars n_meths n_mall] in *.
    assert (Hc : KeysND c').
    { eapply IH; [|exact Hf|exact Eu]. destruct (assoc key segs) as [c|] eqn:Ea; [|apply KeysND_empty].
      apply (K3 key c). now apply assoc_in. }
    constructor; auto.
    + now apply set_assoc_nodup.
    + intros key2 c2 Hin. destruct (in_set_assoc _ _ _ _ _ Hin) as [[-> ->]|Hin']; [exact Hc|eauto].
  - destruct (upd es0 f _) as [c'| | |] eqn:Eu; try discriminate. injection H as <-.
    inversion HK as [segs vars meths mall K1 K2 K3 K4]; subst. cbn [n_segs n_vars n_meths n_mall] in *.
    assert (Hc : KeysND c').
    { eapply IH; [|exact Hf|exact Eu]. destruct (find_var (spell pat) vars) as [c|] eqn:Ea; [|apply KeysND_empty].
      destruct (find_var_in _ _ _ Ea) as (p' & Hin & _). eauto. }
    constructor; auto.
    intros p c Hin. destruct (in_set_var _ _ _ _ _ Hin) as [[-> _]|Hin']; [exact Hc|eauto].
Qed.

Definition keepL (name : str) (x : str * brule) : bool := negb (str_eqb (fst x) name).
Lemma keepL_in name L x : In x (filter (keepL name) L) <-> In x L /\ fst x <> name.
Proof. rewrite filter_In. unfold keepL. rewrite negb_true_iff. now rewrite str_eqb_neq. Qed.

Lemma prefix_split a : forall es_b, is_prefix (keys a) (keys es_b) = true -> exists e1 e2, es_b = e1 ++ e2 /\ keys e1 = keys a.
Proof.
  induction a as [|x a IH]; intros es_b H.
  - exists [], es_b. auto.
  - destruct es_b as [|y es_b]; [cbn in H; discriminate|].
    change (keys (x :: a)) with (edge_key x :: keys a) in H. change (keys (y :: es_b)) with (edge_key y :: keys es_b) in H.
    apply is_prefix_cons in H. destruct H as [E H]. destruct (IH _ H) as (e1 & e2 & -> & Hk).
    exists (y :: e1), e2. split; [reflexivity|]. unfold keys in *. cbn [map]. congruence.
Qed.
Lemma is_prefix_app a b : is_prefix a (a ++ b) = true.
Proof. induction a as [|x a IH]; cbn; auto. destruct (ekey_dec x x); [exact IH|contradiction]. Qed.
Lemma keys_app a b : keys (a ++ b) = keys a ++ keys b.
Proof. apply map_app. Qed.

Section DelRouting.
Variables isLetter isNumber : N -> bool.
Variable resolves body_ok resp_ok : str -> list str -> bool.
Variable okconv : list str -> str -> bool.

Notation PatG := (PatG isLetter isNumber).
Notation Inv := (Inv isLetter isNumber resolves).
Notation InvX := (InvX isLetter isNumber resolves).
Notation Distinct := (Distinct isLetter isNumber resolves).
Notation at_node := (at_node isLetter isNumber resolves).
Notation compiled := (compiled isLetter isNumber resolves).
Notation route := (route okconv isLetter isNumber).
Notation add_binding := (add_binding resolves body_ok resp_ok isLetter isNumber).
Notation leaf := (leaf resolves body_ok resp_ok).
Notation build_from := (build_from isLetter isNumber resolves body_ok resp_ok).

(* ---- registration keeps the keys distinct ---- *)
Lemma leaf_KeysND mid b vfs nd nd' : leaf mid b vfs nd = Ok nd' -> KeysND nd -> KeysND nd'.
Proof.
  intros H HK. destruct (leaf_keeps resolves body_ok resp_ok mid b vfs nd nd' H) as [Hs Hv].
  pose proof (leaf_nodup resolves body_ok resp_ok mid b vfs nd nd' H) as Hn.
  destruct nd as [s v ms a], nd' as [s' v' ms' a']. cbn [n_segs n_vars n_meths] in *. subst s' v'.
  inversion HK as [s0 v0 ms0 a0 K1 K2 K3 K4]; subst. constructor; auto.
Qed.
Theorem add_binding_KeysND mid root b root' : add_binding mid root b = Ok root' -> KeysND root -> KeysND root'.
Proof.
  intros H HK. destruct (add_binding_inv isLetter isNumber resolves body_ok resp_ok _ _ _ _ H) as (es0 & vfs & leaf' & _ & Hu & _).
  eapply upd_KeysND; [exact HK| |exact Hu]. intros l l' Hl Hf. eapply leaf_KeysND; eauto.
Qed.
(* anything that one accepted binding preserves holds of everything registration builds *)
Section Chain.
Variable Q : node -> Prop.
Hypothesis Qstep : forall mid root b root', add_binding mid root b = Ok root' -> Q root -> Q root'.

Lemma build_from_pres l : forall root r, build_from root l = Ok r -> Q root -> Q r.
Proof.
  induction l as [|[mid b] l IH]; intros root r H HK; cbn in H.
  - injection H as <-. exact HK.
  - destruct (add_binding mid root b) as [r1| | |] eqn:E1; try discriminate. cbn [bind] in H.
    eapply IH; [exact H|]. eapply Qstep; eauto.
Qed.
Lemma add_additional_pres mid : forall adds root root',
  Trie.add_additional resolves body_ok resp_ok isLetter isNumber mid root adds = Ok root' -> Q root -> Q root'.
Proof.
  induction adds as [|a adds IH]; intros root root' H HK; cbn in H.
  - injection H as <-. exact HK.
  - destruct (b_nested a); [discriminate|].
    destruct (add_binding mid root a) as [r1| | |] eqn:E1; try discriminate. cbn [bind] in H.
    eapply IH; [exact H|]. eapply Qstep; eauto.
Qed.
Lemma add_rule_pres mid r root root' :
  Trie.add_rule resolves body_ok resp_ok isLetter isNumber mid root r = Ok root' -> Q root -> Q root'.
Proof.
  unfold Trie.add_rule. intros H HK.
  destruct (add_binding mid root (h_main r)) as [r1| | |] eqn:E1; try discriminate. cbn [bind] in H.
  eapply add_additional_pres; [exact H|]. eapply Qstep; eauto.
Qed.
Lemma add_rules_pres mid : forall rs root root',
  Trie.add_rules resolves body_ok resp_ok isLetter isNumber mid root rs = Ok root' -> Q root -> Q root'.
Proof.
  induction rs as [|r rs IH]; intros root root' H HK; cbn in H.
  - injection H as <-. exact HK.
  - destruct (Trie.add_rule resolves body_ok resp_ok isLetter isNumber mid root r) as [r1| | |] eqn:E1; try discriminate.
    cbn [bind] in H. eapply IH; [exact H|]. eapply add_rule_pres; eauto.
Qed.
Lemma append_handler_pres d root root' :
  Trie.append_handler resolves body_ok resp_ok isLetter isNumber root d = Ok root' -> Q root -> Q root'.
Proof.
  unfold Trie.append_handler. intros H HK.
  destruct (Trie.add_rule resolves body_ok resp_ok isLetter isNumber (d_id d) root (implicit_rule (d_id d))) as [r1|e| |] eqn:E1; try discriminate.
  pose proof (add_rule_pres _ _ _ _ E1 HK) as HK1.
  destruct (Trie.add_rules resolves body_ok resp_ok isLetter isNumber (d_id d) r1 (d_config d)) as [r2| | |] eqn:E2; try discriminate.
  cbn [bind] in H. pose proof (add_rules_pres _ _ _ _ E2 HK1) as HK2.
  destruct (d_annot d) as [r|]; [eapply add_rule_pres; eauto|]. injection H as <-. exact HK2.
Qed.
Lemma register_methods_pres : forall ds root root',
  Trie.register_methods resolves body_ok resp_ok isLetter isNumber root ds = Ok root' -> Q root -> Q root'.
Proof.
  induction ds as [|d ds IH]; intros root root' H HK; cbn in H.
  - injection H as <-. exact HK.
  - destruct (Trie.append_handler resolves body_ok resp_ok isLetter isNumber root d) as [r1| | |] eqn:E1; try discriminate.
    cbn [bind] in H. eapply IH; [exact H|]. eapply append_handler_pres; eauto.
Qed.
(* every trie a history of registerService calls publishes *)
Lemma published_pres : forall svcs root, Q root -> Q (run_services isLetter isNumber resolves body_ok resp_ok root svcs).
Proof.
  induction svcs as [|ds svcs IH]; intros root HK; cbn [run_services]; [exact HK|].
  apply IH. unfold Trie.register_service.
  destruct (Trie.register_methods resolves body_ok resp_ok isLetter isNumber root ds) as [r1| | |] eqn:E; cbn [fst]; auto.
  eapply register_methods_pres; eauto.
Qed.
End Chain.

Theorem build_from_KeysND l root r : build_from root l = Ok r -> KeysND root -> KeysND r.
Proof. apply build_from_pres. exact add_binding_KeysND. Qed.
Theorem published_KeysND svcs : KeysND (run_services isLetter isNumber resolves body_ok resp_ok empty_node svcs).
Proof. apply published_pres; [exact add_binding_KeysND|apply KeysND_empty]. Qed.

(* registration creates no dead node: every node it makes leads to the binding it stores *)
Lemma Live_empty : Live empty_node.
Proof. constructor; cbn; contradiction. Qed.
Lemma set_assoc_has {A : Type} k (v : A) l : In (k, v) (set_assoc k v l).
Proof.
  induction l as [|[k' v'] l IH]; cbn [set_assoc]; [now left|].
  destruct (str_eqb k' k) eqn:E; [apply str_eqb_eq in E; subst; now left|now right].
Qed.
Lemma set_var_has pat n l : exists p, In (p, n) (set_var pat n l).
Proof.
  induction l as [|[p0 n0] l IH]; cbn [set_var]; [exists pat; now left|].
  destruct (str_eqb (spell p0) (spell pat)); [exists p0; now left|].
  destruct (str_ltb (spell pat) (spell p0)); [exists pat; now left|]. destruct IH as [p Hp]. exists p. now right.
Qed.
Lemma upd_Live es0 : forall f nd nd',
  Live nd -> (forall lf lf', Live lf -> f lf = Ok lf' -> Live lf' /\ HasB lf') ->
  upd es0 f nd = Ok nd' -> Live nd' /\ HasB nd'.
Proof.
  induction es0 as [|[key|pat] es0 IH]; intros f nd nd' HL Hf H; cbn in H.
  - eauto.
  - destruct (upd es0 f _) as [c'| | |] eqn:Eu; try discriminate. injection H as <-.
    inversion HL as [segs vars meths mall L1 L2]; subst. cbn [n_segs n_vars n_meths n_mall] in *.
    assert (Hc : Live c' /\ HasB c').
    { eapply IH; [|exact Hf|exact Eu]. destruct (assoc key segs) as [c|] eqn:Ea; [|apply Live_empty].
      apply (L1 key c). now apply assoc_in. }
    split.
    + constructor; auto. intros key2 c2 Hin. destruct (in_set_assoc _ _ _ _ _ Hin) as [[-> ->]|Hin']; [tauto|eauto].
    + eapply HasB_seg; [apply set_assoc_has|tauto].
  - destruct (upd es0 f _) as [c'| | |] eqn:Eu; try discriminate. injection H as <-.
    inversion HL as [segs vars meths mall L1 L2]; subst. cbn [n_segs n_vars n_meths n_mall] in *.
    assert (Hc : Live c' /\ HasB c').
    { eapply IH; [|exact Hf|exact Eu]. destruct (find_var (spell pat) vars) as [c|] eqn:Ea; [|apply Live_empty].
      destruct (find_var_in _ _ _ Ea) as (p' & Hin & _). apply (L2 p' c Hin). }
    split.
    + constructor; auto. intros p c Hin. destruct (in_set_var _ _ _ _ _ Hin) as [[-> _]|Hin']; [tauto|eauto].
    + destruct (set_var_has pat c' vars) as [p Hp]. eapply HasB_var; [exact Hp|tauto].
Qed.
Theorem add_binding_Live mid root b root' : add_binding mid root b = Ok root' -> Live root -> Live root'.
Proof.
  intros H HL. destruct (add_binding_inv isLetter isNumber resolves body_ok resp_ok _ _ _ _ H) as (es0 & vfs & leaf' & _ & Hu & _).
  eapply (upd_Live es0 (leaf mid b vfs) root root' HL); [|exact Hu].
  intros lf lf' Hl Hf. destruct (leaf_keeps resolves body_ok resp_ok mid b vfs lf lf' Hf) as [Hs Hv].
  destruct (leaf_spec resolves body_ok resp_ok _ _ _ _ _ Hf) as (_ & _ & (m & Hm & _)). split.
  - destruct lf as [s v ms a], lf' as [s' v' ms' a']. cbn [n_segs n_vars] in *. subst s' v'.
    inversion Hl as [s0 v0 ms0 a0 L1 L2]; subst. constructor; auto.
  - eapply stored_HasB; eauto.
Qed.
Theorem build_from_Live l root r : build_from root l = Ok r -> Live root -> Live r.
Proof. apply build_from_pres. exact add_binding_Live. Qed.
Theorem published_Live svcs : Live (run_services isLetter isNumber resolves body_ok resp_ok empty_node svcs).
Proof. apply published_pres; [exact add_binding_Live|apply Live_empty]. Qed.

(* ... and so does removal *)
Theorem del_rule_KeysND name : forall nd, KeysND nd -> KeysND (dnode name nd).
Proof.
  node_ind. intros segs vars meths mall IHs IHv HK. inversion HK as [s v ms a K1 K2 K3 K4]; subst. rewrite dnode_eq. constructor.
  - rewrite map_fst_dmap. now apply NoDup_map_filter.
  - now apply NoDup_map_filter.
  - intros k c' Hin. apply in_dchildren in Hin. destruct Hin as (c & Hin & -> & _). eauto.
  - intros p c' Hin. apply in_dchildren in Hin. destruct Hin as (c & Hin & -> & _). eauto.
Qed.

(* ---- (b) the invariant of built tries, for the bindings of the other methods ---- *)
Theorem del_rule_Inv name L nd : Inv L nd -> KeysND nd -> Inv (filter (keepL name) L) (dnode name nd).
Proof.
  intros [Iw In_ Ip Ipr] HK. pose proof (WFn_KeysND_Uq _ _ _ Iw HK) as HU. constructor.
  - now apply del_rule_WFn.
  - intros es i' Hi. destruct (del_rule_info_inv name nd es i' HU Hi) as (i & Hi0 & -> & _).
    unfold finfo. cbn [fst]. apply assoc_filter_none. eauto.
  - intros es i' key m Hi Hs. destruct (del_rule_info_inv name nd es i' HU Hi) as (i & Hi0 & -> & Hnd).
    apply (stored_finfo_inv name i key m Hnd) in Hs. destruct Hs as [Hs Hm].
    destruct (Ip es i key m Hi0 Hs) as (mid & b & es' & A & B & C & D & E & F). exists mid, b, es'.
    split; [apply keepL_in; split; [exact A|cbn [fst]; congruence]|]. auto.
  - intros mid b Hin. apply keepL_in in Hin. destruct Hin as [Hin Hne]. cbn [fst] in Hne.
    destruct (Ipr mid b Hin) as (es & vfs & i & m & Hc & Hi & Hs & Hm).
    destruct (del_rule_info_survives name nd es i (b_verb b) m Hi Hs) as [Hi' Hs']; [congruence|].
    exists es, vfs, (finfo name i), m. auto.
Qed.

Lemma InvX_Live L nd : InvX L nd -> Uq nd -> Live nd.
Proof.
  intros [HI Hd _ _] HU. apply walk_Live; [exact HU|]. intros es n Hne Hw.
  assert (Hex : exists_at nd es) by (unfold exists_at; congruence).
  apply Hd in Hex. destruct Hex as [->|([mid b] & es_b & vfs & Hin & Hc & Hp)]; [contradiction|].
  destruct (inv_present _ _ _ _ _ HI mid b Hin) as (es1 & vfs1 & i & m & Hc1 & Hi & Hs & Hm).
  cbn [fst snd] in Hc. destruct (compiled_fun _ _ _ _ _ _ _ _ _ Hc Hc1) as [<- <-].
  destruct (prefix_split es es_b Hp) as (e1 & e2 & -> & Hk).
  unfold info_at in Hi. rewrite walk_to_app, (walk_to_keys e1 es nd Hk), Hw in Hi.
  destruct (walk_to e2 n) as [n2|] eqn:E2; [|discriminate]. injection Hi as <-.
  eapply walk_HasB; [exact E2|]. eapply stored_HasB; eauto.
Qed.

Theorem del_rule_InvX name L nd : InvX L nd -> KeysND nd -> InvX (filter (keepL name) L) (dnode name nd).
Proof.
  intros HX HK. pose proof HX as [HI Hd Hi Hnd].
  pose proof (WFn_KeysND_Uq _ _ _ (inv_wf _ _ _ _ _ HI) HK) as HU. pose proof (InvX_Live L nd HX HU) as HL.
  constructor.
  - now apply del_rule_Inv.
  - intros es. destruct es as [|e es'].
    { split; [now left|]. intros _. unfold exists_at. cbn. discriminate. }
    rewrite (del_rule_domain name nd (e :: es') HU HL) by discriminate. split.
    + intros (es2 & i & key & m & Hinfo & Hs & Hm). right.
      destruct (inv_prov _ _ _ _ _ HI _ i key m Hinfo Hs) as (mid & b & es_b & A & B & C & D & E & F).
      exists (mid, b), es_b, (m_vars m). split; [apply keepL_in; cbn [fst]; split; [exact A|congruence]|].
      split; [exact E|]. rewrite <- F, keys_app. apply is_prefix_app.
    + intros [E|([mid b] & es_b & vfs & Hin & Hc & Hp)]; [discriminate|].
      apply keepL_in in Hin. destruct Hin as [Hin Hne]. cbn [fst snd] in *.
      destruct (inv_present _ _ _ _ _ HI mid b Hin) as (es1 & vfs1 & i & m & Hc1 & Hi1 & Hs & Hm).
      destruct (compiled_fun _ _ _ _ _ _ _ _ _ Hc Hc1) as [<- <-].
      destruct (prefix_split (e :: es') es_b Hp) as (e1 & e2 & -> & Hk).
      exists e2, i, (b_verb b), m. split; [|split; [exact Hs|congruence]].
      rewrite <- Hi1. apply info_at_keys. rewrite !keys_app. now rewrite Hk.
  - intros es i' key m Hinfo. destruct (del_rule_info_inv name nd es i' HU Hinfo) as (i & Hi0 & -> & Hn).
    rewrite (stored_finfo_iff name i key m Hn). rewrite (Hi es i key m Hi0). split.
    + intros [(x & eb & vb & A & B & C & D & E) Hm]. exists x, eb, vb.
      split; [apply keepL_in; split; [exact A|]|auto]. subst m. exact Hm.
    + intros (x & eb & vb & A & B & C & D & E). apply keepL_in in A. destruct A as [A Hne].
      split; [exists x, eb, vb; auto|]. subst m. exact Hne.
  - intros es i' Hinfo. destruct (del_rule_info_inv name nd es i' HU Hinfo) as (i & Hi0 & -> & Hn).
    unfold finfo. cbn [fst]. now apply NoDup_map_filter.
Qed.

(* ---- the user-visible statements ---- *)

(* (a) whatever the trie, a request is never routed to the removed method afterwards *)
Theorem route_after_del_not_removed name nd verb p m caps :
  route (remove_method name nd) verb p = Ok (m, caps) -> m_id m <> name.
Proof.
  unfold Match.route, remove_method. destruct (lex_path isLetter isNumber (normalise p)) as [toks| | |]; try discriminate.
  apply search_NoName. apply del_rule_NoName.
Qed.

(* (c) the search still neither panics nor runs out of fuel *)
Theorem del_rule_TrieInv name nd k : WFn PatG k nd -> TrieInv (remove_method name nd) k.
Proof. intros Hw. apply (WFn_TrieInv PatG (PatG_ok isLetter isNumber)). now apply del_rule_WFn. Qed.
Theorem route_after_del_total name L nd verb p :
  Inv L nd -> KeysND nd -> benign (route (remove_method name nd) verb p).
Proof.
  intros HI HK. apply (route_total isLetter isNumber resolves body_ok resp_ok okconv (filter (keepL name) L)).
  now apply del_rule_Inv.
Qed.
Theorem route_after_del_total_wf name nd verb p :
  WFn PatG 0 nd -> benign (route (remove_method name nd) verb p).
Proof.
  intros Hw. unfold Match.route.
  pose proof (lex_path_benign isLetter isNumber (normalise p)) as Hl.
  destruct (lex_path isLetter isNumber (normalise p)) as [toks| | |]; cbn in Hl; try contradiction; [|exact I].
  eapply search_total; [|lia]. apply del_rule_TrieInv. exact Hw.
Qed.

(* (b) soundness and completeness of routing, for the bindings of the other methods *)
Theorem dispatch_sound_after_del name L nd verb p m caps :
  Sane isLetter isNumber -> Inv L nd -> KeysND nd ->
  route (remove_method name nd) verb p = Ok (m, caps) ->
  exists mid b es toks,
    In (mid, b) L /\ mid <> name /\ m_id m = mid /\ covers_verb (b_verb b) verb /\ m_body m = b_body b /\
    compiled mid b es (m_vars m) /\
    lex_path isLetter isNumber (normalise p) = Ok toks /\ MatchEdges es toks caps.
Proof.
  intros sane HI HK H.
  destruct (dispatch_sound isLetter isNumber resolves okconv sane _ _ verb p m caps (del_rule_Inv name L nd HI HK) H)
    as (mid & b & es & toks & A & B).
  apply keepL_in in A. destruct A as [A Hne]. exists mid, b, es, toks. auto.
Qed.
Theorem dispatch_complete_after_del name L nd verb p mid b es vfs toks caps :
  Sane isLetter isNumber -> (forall fp t, okconv fp t = true) -> Inv L nd -> KeysND nd ->
  In (mid, b) L -> mid <> name -> covers_verb (b_verb b) verb ->
  compiled mid b es vfs -> lex_path isLetter isNumber (normalise p) = Ok toks -> MatchEdges es toks caps ->
  exists r, route (remove_method name nd) verb p = Ok r.
Proof.
  intros sane conv_all HI HK Hin Hne Hcov Hc El HM.
  apply (dispatch_complete isLetter isNumber resolves okconv sane conv_all (filter (keepL name) L) _ verb p mid b es vfs toks caps); auto.
  - now apply del_rule_Inv.
  - apply keepL_in. auto.
Qed.

(* (b) removal = never having registered: the trie after removal routes every request as any trie
   does whose content is exactly the bindings of the other methods *)
Theorem route_after_del_same name L nd L0 nd0 verb p :
  Sane isLetter isNumber -> InvX L nd -> KeysND nd ->
  InvX L0 nd0 -> (forall x, In x L0 <-> In x L /\ fst x <> name) ->
  route (remove_method name nd) verb p = route nd0 verb p.
Proof.
  intros sane HX HK HX0 Hmem.
  apply (route_same isLetter isNumber resolves okconv sane (filter (keepL name) L) L0); auto.
  - now apply del_rule_InvX.
  - intros x. rewrite keepL_in. symmetry. apply Hmem.
Qed.

(* registering the bindings of the other methods only, in the same order, is accepted too *)
Theorem build_without name l nd :
  NoDup l -> Distinct l -> build_from empty_node l = Ok nd ->
  exists nd0, build_from empty_node (filter (keepL name) l) = Ok nd0.
Proof.
  intros HN HD H1.
  assert (D1 : Distinct (rev l ++ [])) by (eapply Distinct_sub; [|exact HD]; intros x Hx; rewrite app_nil_r in Hx; now apply in_rev).
  assert (N1 : NoDup (rev l ++ [])) by (rewrite app_nil_r; now apply NoDup_rev).
  destruct (build_facts isLetter isNumber resolves body_ok resp_ok l [] empty_node nd (InvX_empty isLetter isNumber resolves) D1 N1 H1) as [F C].
  apply (build_accept isLetter isNumber resolves body_ok resp_ok (filter (keepL name) l) [] empty_node (InvX_empty isLetter isNumber resolves)).
  - eapply Distinct_sub; [|exact HD]. intros x Hx. rewrite app_nil_r in Hx. apply in_rev in Hx. apply filter_In in Hx. tauto.
  - rewrite app_nil_r. apply NoDup_rev. now apply NoDup_filter.
  - intros x Hx. apply F. apply filter_In in Hx. tauto.
  - intros x y Hx Hy Hne. rewrite app_nil_r in Hy. apply filter_In in Hx. apply filter_In in Hy.
    apply C; [tauto|rewrite app_nil_r; tauto|exact Hne].
Qed.

(* the trie built from a list of bindings, with one method removed, routes every request -- any
   verb, any path: same binding, same captures, or the same refusal -- as the trie built from the
   bindings of the other methods alone; and that trie exists *)
Theorem removal_is_never_registering name l nd :
  Sane isLetter isNumber -> NoDup l -> Distinct l -> build_from empty_node l = Ok nd ->
  exists nd0, build_from empty_node (filter (keepL name) l) = Ok nd0 /\
    forall verb p, route (remove_method name nd) verb p = route nd0 verb p.
Proof.
  intros sane HN HD H1. destruct (build_without name l nd HN HD H1) as [nd0 H0]. exists nd0. split; [exact H0|].
  intros verb p.
  assert (D1 : Distinct (rev l ++ [])) by (eapply Distinct_sub; [|exact HD]; intros x Hx; rewrite app_nil_r in Hx; now apply in_rev).
  assert (D0 : Distinct (rev (filter (keepL name) l) ++ [])).
  { eapply Distinct_sub; [|exact HD]. intros x Hx. rewrite app_nil_r in Hx. apply in_rev in Hx. apply filter_In in Hx. tauto. }
  pose proof (build_InvX isLetter isNumber resolves body_ok resp_ok l [] empty_node nd (InvX_empty isLetter isNumber resolves) D1 H1) as X1.
  pose proof (build_InvX isLetter isNumber resolves body_ok resp_ok _ [] empty_node nd0 (InvX_empty isLetter isNumber resolves) D0 H0) as X0.
  apply (route_after_del_same name (rev l ++ []) nd (rev (filter (keepL name) l) ++ []) nd0 verb p sane X1); [|exact X0|].
  - eapply build_from_KeysND; [exact H1|apply KeysND_empty].
  - intros x. rewrite !app_nil_r, <- !in_rev. apply keepL_in.
Qed.
(* without the NoDup hypothesis: if the smaller registration is accepted *)
Theorem removal_is_never_registering' name l nd nd0 :
  Sane isLetter isNumber -> Distinct l -> build_from empty_node l = Ok nd ->
  build_from empty_node (filter (keepL name) l) = Ok nd0 ->
  forall verb p, route (remove_method name nd) verb p = route nd0 verb p.
Proof.
  intros sane HD H1 H0 verb p.
  assert (D1 : Distinct (rev l ++ [])) by (eapply Distinct_sub; [|exact HD]; intros x Hx; rewrite app_nil_r in Hx; now apply in_rev).
  assert (D0 : Distinct (rev (filter (keepL name) l) ++ [])).
  { eapply Distinct_sub; [|exact HD]. intros x Hx. rewrite app_nil_r in Hx. apply in_rev in Hx. apply filter_In in Hx. tauto. }
  pose proof (build_InvX isLetter isNumber resolves body_ok resp_ok l [] empty_node nd (InvX_empty isLetter isNumber resolves) D1 H1) as X1.
  pose proof (build_InvX isLetter isNumber resolves body_ok resp_ok _ [] empty_node nd0 (InvX_empty isLetter isNumber resolves) D0 H0) as X0.
  apply (route_after_del_same name (rev l ++ []) nd (rev (filter (keepL name) l) ++ []) nd0 verb p sane X1); [|exact X0|].
  - eapply build_from_KeysND; [exact H1|apply KeysND_empty].
  - intros x. rewrite !app_nil_r, <- !in_rev. apply keepL_in.
Qed.

(* ---- the life cycle of the published trie: registerService and removeHandler interleaved ---- *)
Inductive op := OReg (ds : list mdecl) | ODel (name : str).
Fixpoint run_ops (root : node) (ops : list op) : node :=
  match ops with
  | [] => root
  | OReg ds :: rest => run_ops (fst (Trie.register_service resolves body_ok resp_ok isLetter isNumber root ds)) rest
  | ODel name :: rest => run_ops (remove_method name root) rest
  end.

Theorem lifecycle_Inv : forall ops L root, Inv L root -> KeysND root -> Live root ->
  exists L', Inv L' (run_ops root ops) /\ KeysND (run_ops root ops) /\ Live (run_ops root ops).
Proof.
  induction ops as [|[ds|name] ops IH]; intros L root HI HK HL; cbn [run_ops].
  - eauto.
  - unfold Trie.register_service.
    destruct (Trie.register_methods resolves body_ok resp_ok isLetter isNumber root ds) as [r1| | |] eqn:E; cbn [fst]; eauto.
    destruct (register_methods_Inv isLetter isNumber resolves body_ok resp_ok ds L root r1 HI E) as (A & HI1 & _).
    apply (IH (A ++ L) r1 HI1).
    + eapply (register_methods_pres KeysND add_binding_KeysND); eauto.
    + eapply (register_methods_pres Live add_binding_Live); eauto.
  - apply (IH (filter (keepL name) L)).
    + now apply del_rule_Inv.
    + now apply del_rule_KeysND.
    + now apply del_rule_Live.
Qed.

(* in every state of that life cycle: the search neither panics nor runs dry, and it never wanders
   into a dead subtree: every node it can reach below the root is alive *)
Theorem lifecycle_route_total ops verb p : benign (route (run_ops empty_node ops) verb p).
Proof.
  destruct (lifecycle_Inv ops [] empty_node (Inv_empty isLetter isNumber resolves) KeysND_empty Live_empty) as (L' & HI & _).
  exact (route_total isLetter isNumber resolves body_ok resp_ok okconv L' _ verb p HI).
Qed.
Theorem lifecycle_no_dead ops es n : Reach (run_ops empty_node ops) es n -> es <> [] -> alive n = true /\ HasB n.
Proof.
  destruct (lifecycle_Inv ops [] empty_node (Inv_empty isLetter isNumber resolves) KeysND_empty Live_empty) as (L' & _ & _ & HL).
  intros HR Hne. destruct (Live_Reach _ _ _ HR Hne HL) as [_ Hb]. split; [now apply HasB_alive|exact Hb].
Qed.

End DelRouting.

(* ---- a concrete instance ---- *)
Module DelExample.
Definition asciiL (r : N) : bool := ((65 <=? r) && (r <=? 90)) || ((97 <=? r) && (r <=? 122)).
Definition asciiN (r : N) : bool := (48 <=? r) && (r <=? 57).
Definition all_ok (_ : str) (_ : list str) := true.
Definition conv_ok (_ : list str) (_ : str) := true.
Definition sv (l : list N) : str := l.
Definition GET := sv [71;69;84].
Definition mk verb tmpl := {| h_main := {| b_verb := verb; b_tmpl := tmpl; b_body := BNone; b_resp := []; b_nested := false |}; h_adds := [] |}.
Definition mA : str := sv [47;83;47;65].   (* "/S/A": GET /aa/{s1}/v1 and GET /aa/{s3=**} *)
Definition mB : str := sv [47;83;47;66].   (* "/S/B": GET /aa/{s2}/v2 and GET /aa/b/v1 *)
Definition dA := {| d_id := mA; d_config := [mk GET (sv [47;97;97;47;123;115;51;61;42;42;125])];
                    d_annot := Some (mk GET (sv [47;97;97;47;123;115;49;125;47;118;49])) |}.
Definition dB := {| d_id := mB; d_config := [mk GET (sv [47;97;97;47;98;47;118;49])];
                    d_annot := Some (mk GET (sv [47;97;97;47;123;115;50;125;47;118;50])) |}.
(* both methods hang below the literal child "/aa" and share its variable child "*" *)
Definition rootAB := run_services asciiL asciiN all_ok all_ok all_ok empty_node [[dA; dB]].
Definition rootA := run_services asciiL asciiN all_ok all_ok all_ok empty_node [[dA]].
Definition who (root : node) (verb p : str) :=
  match route conv_ok asciiL asciiN root verb p with Ok (m, caps) => Some (m_id m, caps) | _ => None end.
Definition p1 := sv [47;97;97;47;120;47;118;49].     (* /aa/x/v1 *)
Definition p2 := sv [47;97;97;47;120;47;118;50].     (* /aa/x/v2 *)
Definition p3 := sv [47;97;97;47;98;47;118;49].      (* /aa/b/v1 *)

(* the hypotheses of the theorems above hold of the trie *)
Example rootAB_hyps :
  (exists L, Inv asciiL asciiN all_ok L rootAB) /\ KeysND rootAB /\ Live rootAB.
Proof.
  split; [|split].
  - destruct (published_Inv asciiL asciiN all_ok all_ok all_ok [[dA; dB]] [] empty_node (Inv_empty asciiL asciiN all_ok)) as (L' & HI & _). eauto.
  - apply published_KeysND.
  - apply published_Live.
Qed.

Example before_removal :
  who rootAB GET p1 = Some (mA, [sv [120]]) /\          (* /aa/x/v1 : A, s1 = x *)
  who rootAB GET p2 = Some (mB, [sv [120]]) /\          (* /aa/x/v2 : B, s2 = x *)
  who rootAB GET p3 = Some (mB, []) /\                  (* /aa/b/v1 : B's literal rule wins over A's {s1} *)
  who rootAB GET mB = Some (mB, []).                    (* the implicit rule /S/B *)
Proof. vm_compute. auto. Qed.

Example after_removal :
  let r := remove_method mB rootAB in
  snd (del_rule mB rootAB) = true /\
  who r GET p1 = Some (mA, [sv [120]]) /\               (* unchanged *)
  who r GET p2 = Some (mA, [sv [120;47;118;50]]) /\     (* A's /aa/{s3=**} takes over, s3 = x/v2 *)
  who r GET p3 = Some (mA, [sv [98]]) /\                (* A's /aa/{s1}/v1 takes over, s1 = b *)
  who r GET mB = None /\                                (* nothing left of B *)
  r = rootA /\                                          (* the trie is the one that never saw B *)
  del_rule mB r = (r, false).                           (* removing again: nothing to do *)
Proof. vm_compute. repeat split. Qed.

(* why the content statements assume that keys are keys (KeysND): an association list with a repeated
   key is not a Go map; removing the first entry would uncover the shadowed one. Registration never
   builds such a list (published_KeysND) and Go's maps cannot hold one. *)
Definition iA := {| m_id := mA; m_vars := []; m_body := BNone; m_resp := [] |}.
Definition iB := {| m_id := mB; m_vars := []; m_body := BNone; m_resp := [] |}.
Definition dup := Node [(sv [47;97], Node [] [] [] (Some iB)); (sv [47;97], Node [] [] [] (Some iA))] [] [] None.
Example keys_hypothesis_needed :
  info_at dup [ELit (sv [47;97])] = Some ([], Some iB) /\
  info_at (remove_method mB dup) [ELit (sv [47;97])] = Some ([], Some iA).
Proof. vm_compute. auto. Qed.

End DelExample.

(* ---- assumptions of the main theorems ---- *)
Print Assumptions del_rule_NoName.
Print Assumptions del_rule_absent.
Print Assumptions del_rule_ok_iff.
Print Assumptions del_rule_false_same.
Print Assumptions del_rule_content.
Print Assumptions del_rule_info_inv.
Print Assumptions del_rule_info_survives.
Print Assumptions del_rule_domain.
Print Assumptions del_rule_Live.
Print Assumptions del_rule_no_dead.
Print Assumptions del_rule_WFn.
Print Assumptions del_rule_TrieInv.
Print Assumptions del_rule_KeysND.
Print Assumptions del_rule_Inv.
Print Assumptions del_rule_InvX.
Print Assumptions route_after_del_not_removed.
Print Assumptions route_after_del_total.
Print Assumptions route_after_del_total_wf.
Print Assumptions dispatch_sound_after_del.
Print Assumptions dispatch_complete_after_del.
Print Assumptions route_after_del_same.
Print Assumptions build_without.
Print Assumptions removal_is_never_registering.
Print Assumptions removal_is_never_registering'.
Print Assumptions published_KeysND.
Print Assumptions published_Live.
Print Assumptions lifecycle_Inv.
Print Assumptions lifecycle_route_total.
Print Assumptions lifecycle_no_dead.
Print Assumptions DelExample.after_removal.
