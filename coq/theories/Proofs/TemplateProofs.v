(* The string-level specification of templates (Spec/Template.v: parse_tmpl, which splits text) and the
   token-level one (Spec/Grammar.v: the grammar Tmpl; Model/Lexer.v: lex_template) accept the same
   templates and give them the same structure (Spec/TemplateAbs.v: AbsT). *)
From Larking Require Import Base.GoSem Model.Lexer Spec.Grammar Spec.Template Spec.TemplateAbs Proofs.LexerProofs.
Local Open Scope N_scope.

(* ================= text: cut, split_on, split_top, join ================= *)

Lemma sstr_eqb_eq a b : sstr_eqb a b = true <-> a = b.
Proof. apply bytes_eqb_eq. Qed.
Lemma sstr_eqb_refl a : sstr_eqb a a = true.
Proof. now apply sstr_eqb_eq. Qed.

(* [free bad s]: none of the runes of [bad] occurs in [s] *)
Definition free (bad : list N) (s : sstr) : Prop := forall x, In x s -> ~ In x bad.

Lemma free_nil bad : free bad [].
Proof. intros x []. Qed.
Lemma free_app bad a b : free bad (a ++ b) <-> free bad a /\ free bad b.
Proof.
  split.
  - intros H. split; intros x Hx; apply H; apply in_or_app; auto.
  - intros [Ha Hb] x Hx. apply in_app_or in Hx. destruct Hx; auto.
Qed.
Lemma free_cons bad x a : free bad (x :: a) <-> ~ In x bad /\ free bad a.
Proof.
  split.
  - intros H. split; [apply H; now left|intros y Hy; apply H; now right].
  - intros [Hx Ha] y [<-|Hy]; auto.
Qed.
Lemma free_mono bad bad' s : incl bad' bad -> free bad s -> free bad' s.
Proof. intros Hi H x Hx Hb. apply (H x Hx). now apply Hi. Qed.
Lemma free_notin bad s c : free bad s -> In c bad -> ~ In c s.
Proof. intros H Hc Hs. exact (H c Hs Hc). Qed.

Lemma join_cons c a parts : parts <> [] -> join c (a :: parts) = a ++ c :: join c parts.
Proof. destruct parts as [|h t]; [contradiction|]. intros _. reflexivity. Qed.
Lemma join_one c a : join c [a] = a.
Proof. cbn. apply app_nil_r. Qed.

Lemma free_join bad c parts : ~ In c bad -> Forall (free bad) parts -> free bad (join c parts).
Proof.
  intros Hc H. induction H as [|a parts Ha H IH]; [apply free_nil|].
  destruct parts as [|h t].
  - now rewrite join_one.
  - rewrite join_cons by discriminate. apply free_app. split; [exact Ha|]. apply free_cons. auto.
Qed.

(* ---- cut ---- *)
Lemma cut_spec c s a b : cut c s = (a, b) -> match b with Some r => s = a ++ c :: r | None => s = a end.
Proof.
  revert a b. induction s as [|x s IH]; intros a b H; cbn in H.
  - inversion H; subst. reflexivity.
  - destruct (N.eqb_spec x c) as [->|Hne].
    + inversion H; subst. reflexivity.
    + destruct (cut c s) as [a' b'] eqn:E. inversion H; subst. specialize (IH a' b eq_refl).
      destruct b as [r|]; rewrite IH; reflexivity.
Qed.
Lemma cut_none c s : ~ In c s -> cut c s = (s, None).
Proof.
  induction s as [|x s IH]; intros H; cbn; [reflexivity|].
  destruct (N.eqb_spec x c) as [->|Hne]; [exfalso; apply H; now left|].
  rewrite IH; [reflexivity|]. intros Hi. apply H. now right.
Qed.
Lemma cut_some c a b : ~ In c a -> cut c (a ++ c :: b) = (a, Some b).
Proof.
  induction a as [|x a IH]; intros H; cbn.
  - now rewrite N.eqb_refl.
  - destruct (N.eqb_spec x c) as [->|Hne]; [exfalso; apply H; now left|].
    rewrite IH; [reflexivity|]. intros Hi. apply H. now right.
Qed.

(* ---- split_on ---- *)
Lemma split_on_nonnil c s : split_on c s <> [].
Proof.
  destruct s as [|x s]; cbn; [discriminate|].
  destruct (split_on c s) as [|h t]; [discriminate|]. destruct (x =? c); discriminate.
Qed.
Lemma split_on_join c s : join c (split_on c s) = s.
Proof.
  induction s as [|x s IH]; [reflexivity|]. cbn [split_on].
  destruct (split_on c s) as [|h t] eqn:E.
  - cbn in IH. subst s. reflexivity.
  - destruct (N.eqb_spec x c) as [->|Hne].
    + rewrite join_cons by discriminate. now rewrite IH.
    + cbn in IH |- *. now rewrite IH.
Qed.
Lemma split_on_app c a rest : ~ In c a ->
  split_on c (a ++ rest) = (a ++ hd [] (split_on c rest)) :: tl (split_on c rest).
Proof.
  induction a as [|x a IH]; intros H.
  - cbn [app]. pose proof (split_on_nonnil c rest) as Hn. destruct (split_on c rest); [contradiction|reflexivity].
  - cbn [app split_on]. rewrite IH by (intros Hi; apply H; now right).
    destruct (N.eqb_spec x c) as [->|Hne]; [exfalso; apply H; now left|reflexivity].
Qed.
Lemma split_on_seps c t : Forall (fun p => ~ In c p) t -> split_on c (flat_map (fun x => c :: x) t) = [] :: t.
Proof.
  induction 1 as [|a t Ha H IH]; [reflexivity|].
  change (flat_map (fun x => c :: x) (a :: t)) with (c :: a ++ flat_map (fun x => c :: x) t). cbn [split_on].
  rewrite split_on_app by exact Ha. rewrite IH. cbn [hd tl]. rewrite app_nil_r, N.eqb_refl. reflexivity.
Qed.
Lemma split_on_of_join c parts : parts <> [] -> Forall (fun p => ~ In c p) parts -> split_on c (join c parts) = parts.
Proof.
  intros Hn H. destruct H as [|a t Ha H]; [contradiction|]. cbn [join].
  rewrite split_on_app by exact Ha. rewrite split_on_seps by exact H. cbn [hd tl]. now rewrite app_nil_r.
Qed.

(* ---- split_top ---- *)
Lemma split_top_join s : forall d parts, split_top d s = Some parts -> join 47 parts = s /\ parts <> [].
Proof.
  induction s as [|x s IH]; intros d parts H; cbn [split_top] in H.
  - destruct d; [discriminate|]. inversion H; subst. split; [reflexivity|discriminate].
  - assert (Hgen : forall d', match split_top d' s with Some (h :: t) => Some ((x :: h) :: t) | _ => None end = Some parts ->
                     join 47 parts = x :: s /\ parts <> []).
    { intros d' H'. destruct (split_top d' s) as [[|h t]|] eqn:E; try discriminate.
      inversion H'; subst. destruct (IH _ _ E) as [IH1 _]. split; [|discriminate].
      cbn in IH1 |- *. now rewrite IH1. }
    destruct (x =? 123) eqn:E1; [destruct d; [discriminate|now apply (Hgen true)]|].
    destruct (x =? 125) eqn:E2; [destruct d; [now apply (Hgen false)|discriminate]|].
    destruct ((x =? 47) && negb d) eqn:E3; [|now apply (Hgen d)].
    apply andb_true_iff in E3. destruct E3 as [E3 _]. apply N.eqb_eq in E3. subst x.
    destruct (split_top false s) as [l|] eqn:E; [|discriminate]. inversion H; subst.
    destruct (IH _ _ E) as [IH1 IH2]. split; [|discriminate].
    rewrite join_cons by exact IH2. now rewrite IH1.
Qed.

(* a run of runes that are no braces (and, outside braces, no "/") stays in the current piece *)
Lemma split_top_run d a rest : free [123; 125] a -> (d = false -> ~ In 47 a) ->
  split_top d (a ++ rest) = match split_top d rest with Some (h :: t) => Some ((a ++ h) :: t) | _ => None end.
Proof.
  induction a as [|x a IH]; intros Hf Hs.
  - cbn [app]. destruct (split_top d rest) as [[|h t]|] eqn:E; try reflexivity.
    exfalso. apply split_top_join in E. destruct E as [_ E]. now apply E.
  - apply free_cons in Hf. destruct Hf as [Hx Hf]. cbn [app split_top].
    destruct (N.eqb_spec x 123) as [->|H1]; [exfalso; apply Hx; cbn; auto|].
    destruct (N.eqb_spec x 125) as [->|H2]; [exfalso; apply Hx; cbn; auto|].
    assert (E3 : (x =? 47) && negb d = false).
    { destruct d; [apply andb_false_r|]. rewrite andb_true_r. apply N.eqb_neq. intros ->. apply (Hs eq_refl). now left. }
    rewrite E3. rewrite IH; [|exact Hf|intros Hd Hi; apply (Hs Hd); now right].
    destruct (split_top d rest) as [[|h t]|]; reflexivity.
Qed.

(* a top-level piece: no brace and no "/" at all, or one "{...}" without inner braces *)
Definition Top (a : sstr) : Prop :=
  free [47; 123; 125] a \/ exists inner, a = 123 :: inner ++ [125] /\ free [123; 125] inner.

Lemma split_top_piece a rest : Top a ->
  split_top false (a ++ rest) = match split_top false rest with Some (h :: t) => Some ((a ++ h) :: t) | _ => None end.
Proof.
  intros [Hf|(inner & -> & Hf)].
  - apply split_top_run.
    + eapply free_mono; [|exact Hf]. intros x Hx. cbn in *. intuition.
    + intros _. apply (free_notin _ _ _ Hf). cbn; auto.
  - cbn [app]. rewrite <- app_assoc. cbn [split_top]. change (123 =? 123) with true. cbv iota.
    rewrite split_top_run; [|exact Hf|discriminate]. cbn [app split_top].
    change (125 =? 123) with false. change (125 =? 125) with true. cbv iota.
    destruct (split_top false rest) as [[|h t]|]; try reflexivity.
    rewrite <- app_assoc. reflexivity.
Qed.
Lemma split_top_seps t : Forall Top t -> split_top false (flat_map (fun x => 47 :: x) t) = Some ([] :: t).
Proof.
  induction 1 as [|a t Ha H IH]; [reflexivity|].
  change (flat_map (fun x => 47 :: x) (a :: t)) with (47 :: a ++ flat_map (fun x => 47 :: x) t).
  cbn [split_top]. change (47 =? 123) with false. change (47 =? 125) with false. change (47 =? 47) with true. cbn [andb negb].
  cbv iota. rewrite split_top_piece by exact Ha. rewrite IH. now rewrite app_nil_r.
Qed.
Lemma split_top_of_join parts : parts <> [] -> Forall Top parts -> split_top false (join 47 parts) = Some parts.
Proof.
  intros Hn H. destruct H as [|a t Ha H]; [contradiction|]. cbn [join].
  rewrite split_top_piece by exact Ha. rewrite split_top_seps by exact H. now rewrite app_nil_r.
Qed.

(* ---- map_opt ---- *)
Lemma map_opt_Forall2 {A B} (f : A -> option B) l r : map_opt f l = Some r <-> Forall2 (fun a b => f a = Some b) l r.
Proof.
  revert r. induction l as [|x l IH]; intros r; cbn.
  - split; intros H; inversion H; subst; [constructor|reflexivity].
  - split.
    + intros H. destruct (f x) as [y|] eqn:Ex; [|discriminate]. destruct (map_opt f l) as [ys|] eqn:El; [|discriminate].
      inversion H; subst. constructor; [exact Ex|]. now apply IH.
    + intros H. inversion H as [|? y ? ys Hx Hl]; subst. rewrite Hx. apply IH in Hl. now rewrite Hl.
Qed.

(* ================= "only the last segment may be a double star" ================= *)
Definition is_ss (p : pseg) : bool := match p with PStarStar => true | _ => false end.
Fixpoint ends_ss (l : list pseg) : bool :=
  match l with [] => false | p :: r => if is_nil r then is_ss p else ends_ss r end.
Definition noss (l : list pseg) : bool := forallb (fun p => negb (is_ss p)) l.

Lemma noss_spec l : noss l = starstar_last l && negb (ends_ss l).
Proof.
  induction l as [|p r IH]; [reflexivity|].
  cbn [noss forallb starstar_last ends_ss]. fold (noss r). rewrite IH.
  destruct p; cbn [is_ss negb andb]; destruct r as [|q r']; cbn [is_nil]; try reflexivity.
Qed.
Lemma ssl_app l1 l2 : l2 <> [] -> starstar_last (l1 ++ l2) = noss l1 && starstar_last l2.
Proof.
  intros Hn. induction l1 as [|p l1 IH]; [reflexivity|].
  cbn [app starstar_last noss forallb]. fold (noss l1).
  destruct p; cbn [is_ss negb andb]; try exact IH.
  destruct (l1 ++ l2) eqn:E; [|reflexivity]. apply app_eq_nil in E. destruct E as [_ E]. contradiction.
Qed.
Lemma ends_ss_app l1 l2 : l2 <> [] -> ends_ss (l1 ++ l2) = ends_ss l2.
Proof.
  intros Hn. induction l1 as [|p l1 IH]; [reflexivity|].
  cbn [app ends_ss]. destruct (l1 ++ l2) eqn:E; [apply app_eq_nil in E; destruct E as [_ E]; contradiction|].
  cbn [is_nil]. exact IH.
Qed.

(* ================= S { "/" S }, generically ================= *)
Section Gen.
Context {E : Type}.
Variable pl : E -> list pseg.                 (* the plain segments an element contributes to [flat] *)
Variable SG : list token -> bool -> Prop.     (* the grammar of one element *)
Variable AbsE : list token -> E -> Prop.
Variable P : sstr -> E * nat -> Prop.         (* "this text parses to this element, costing so many tokens" *)

Definition toksum (ens : list (E * nat)) : nat := fold_right Nat.add 0%nat (map snd ens).

(* [Q]: what the splitter needs to know about one element's text *)
Lemma segsG_A (Q : sstr -> Prop) :
  (forall ts b, SG ts b -> exists e, P (spell ts) (e, length ts) /\ AbsE ts e /\ Q (spell ts) /\
      starstar_last (pl e) = true /\ ends_ss (pl e) = b /\ pl e <> []) ->
  forall ss b, SegsG SG ss b ->
  exists parts ens, spell ss = join 47 parts /\ Forall2 P parts ens /\ Forall Q parts /\ ens <> [] /\
    AbsL AbsE ss (map fst ens) /\
    starstar_last (flat_map pl (map fst ens)) = true /\ ends_ss (flat_map pl (map fst ens)) = b /\
    (length ss + 1 = length ens + toksum ens)%nat /\ flat_map pl (map fst ens) <> [].
Proof.
  intros HA ss b HS. induction HS as [ts b G|ts rest b G HS IH].
  - destruct (HA ts b G) as (e & A1 & A2 & A3 & A4 & A5 & A6).
    exists [spell ts], [(e, length ts)]. rewrite join_one. cbn [map fst flat_map]. rewrite app_nil_r.
    repeat split; auto; try discriminate.
    + constructor. exact A2.
    + unfold toksum. cbn. lia.
  - destruct (HA ts false G) as (e & A1 & A2 & A3 & A4 & A5 & A6).
    destruct IH as (parts & ens & B1 & B2 & B3 & B4 & B5 & B6 & B7 & B8 & B9).
    assert (Hpn : parts <> []) by (intros ->; inversion B2; subst; contradiction).
    exists (spell ts :: parts), ((e, length ts) :: ens).
    rewrite join_cons by exact Hpn. rewrite spell_app. change (spell (tSlash :: rest)) with (47 :: spell rest).
    rewrite B1. cbn [map fst flat_map].
    assert (Hno : noss (pl e) = true) by (rewrite noss_spec, A4, A5; reflexivity).
    repeat split; auto; try discriminate.
    + constructor; assumption.
    + rewrite ssl_app by exact B9. now rewrite Hno, B6.
    + rewrite ends_ss_app by exact B9. exact B7.
    + rewrite app_length. unfold toksum in *. cbn [length map snd fold_right]. lia.
    + intros E0. apply app_eq_nil in E0. destruct E0 as [E0 _]. contradiction.
Qed.

Lemma segsG_B :
  (forall s e n, P s (e, n) -> pl e <> [] /\
     (starstar_last (pl e) = true ->
      exists ts, SG ts (ends_ss (pl e)) /\ spell ts = s /\ length ts = n /\ AbsE ts e)) ->
  forall parts ens, Forall2 P parts ens -> ens <> [] -> starstar_last (flat_map pl (map fst ens)) = true ->
  exists ss, SegsG SG ss (ends_ss (flat_map pl (map fst ens))) /\ spell ss = join 47 parts /\
    (length ss + 1 = length ens + toksum ens)%nat /\ AbsL AbsE ss (map fst ens).
Proof.
  intros HB parts ens HF. induction HF as [|s [e n] parts ens HP HF IH]; intros Hn Hss; [contradiction|].
  destruct (HB s e n HP) as [He1 He2]. cbn [map fst flat_map] in *.
  destruct ens as [|en' ens'].
  - inversion HF; subst. cbn [map flat_map] in *. rewrite app_nil_r in *.
    destruct (He2 Hss) as (ts & C1 & C2 & C3 & C4).
    exists ts. rewrite join_one. split; [now apply Ss_one|]. split; [exact C2|]. split; [unfold toksum; cbn; lia|].
    constructor. exact C4.
  - assert (Hfn : flat_map pl (map fst (en' :: ens')) <> []).
    { inversion HF as [|s' ? ps' ? HP' HF']; subst. destruct en' as [e' n'].
      destruct (HB s' e' n' HP') as [He' _]. cbn [map fst flat_map].
      intros E0. apply app_eq_nil in E0. destruct E0 as [E0 _]. contradiction. }
    rewrite ssl_app in Hss by exact Hfn. apply andb_true_iff in Hss. destruct Hss as [Hno Hss].
    rewrite noss_spec in Hno. apply andb_true_iff in Hno. destruct Hno as [Hs1 Hs2]. apply negb_true_iff in Hs2.
    destruct (He2 Hs1) as (ts & C1 & C2 & C3 & C4). rewrite Hs2 in C1.
    destruct (IH ltac:(discriminate) Hss) as (ss & D1 & D2 & D3 & D4).
    assert (Hpn : parts <> []) by (intros ->; inversion HF).
    exists (ts ++ tSlash :: ss). rewrite ends_ss_app by exact Hfn.
    split; [now apply Ss_cons|]. split.
    + rewrite join_cons by exact Hpn. rewrite spell_app. change (spell (tSlash :: ss)) with (47 :: spell ss).
      now rewrite C2, D2.
    + split; [|now constructor].
      rewrite app_length. unfold toksum in *. cbn [length map snd fold_right] in *. lia.
Qed.
End Gen.

(* ================= the two specifications, production by production ================= *)
Section TemplateProofs.
Variables isLetter isNumber : N -> bool.
Notation is_ident := (is_ident isLetter isNumber).
Notation is_literal := (is_literal isLetter isNumber).
Notation s_ident := (s_ident isLetter isNumber).
Notation s_literal := (s_literal isLetter isNumber).
Notation PSeg := (PSeg isLetter isNumber).
Notation PSegs := (PSegs isLetter isNumber).
Notation Seg := (Seg isLetter isNumber).
Notation Segs := (Segs isLetter isNumber).
Notation FieldPath := (FieldPath isLetter isNumber).
Notation Tmpl := (Tmpl isLetter isNumber).
Notation parse_pseg := (parse_pseg isLetter isNumber).
Notation parse_tseg := (parse_tseg isLetter isNumber).
Notation parse_tmpl := (parse_tmpl isLetter isNumber).
Notation lit_ok := (lit_ok isLetter isNumber).
Notation ident_ok := (ident_ok isLetter isNumber).
Notation verb_ok := (verb_ok isLetter isNumber).

(* the character classes of the two specifications are the same functions *)
Lemma s_ident_eq r : s_ident r = is_ident r.
Proof. reflexivity. Qed.
Lemma s_literal_eq r : s_literal r = is_literal r.
Proof. reflexivity. Qed.
Lemma s_path_eq r : s_path isLetter isNumber r = is_path isLetter isNumber r.
Proof.
  unfold s_path, is_path. cbn [existsb]. rewrite orb_false_r. rewrite !orb_assoc. reflexivity.
Qed.
Lemma literal_ok_eq v : literal_ok isLetter isNumber v = lit_ok v.
Proof. reflexivity. Qed.
Lemma nonempty_ident_eq v : nonempty_all s_ident v = ident_ok v.
Proof. reflexivity. Qed.
Lemma nonempty_literal_eq v : nonempty_all s_literal v = verb_ok v.
Proof. reflexivity. Qed.

Definition pl (s : tseg) : list pseg := match s with TPlain p => [p] | TVar _ ps => ps end.
Lemma flat_pl t : flat t = flat_map pl (t_segs t).
Proof. reflexivity. Qed.

(* ---- parse_tseg without the literal patterns 123 / 125 ---- *)
Definition parse_plain (s : sstr) : option (tseg * nat) :=
  match parse_pseg s with Some p => Some (TPlain p, 1%nat) | None => None end.
Definition parse_inner (inner : sstr) : option (tseg * nat) :=
  let '(fp, pat) := cut 61 inner in
  let keys := split_on 46 fp in
  if forallb (nonempty_all s_ident) keys then
    match pat with
    | None => Some (TVar keys [PStar], 2 * length keys + 1)%nat
    | Some p => match map_opt parse_pseg (split_on 47 p) with
                | Some ps => Some (TVar keys ps, 2 * length keys + 1 + 2 * length ps)%nat
                | None => None end
    end
  else None.
Definition parse_var (r : sstr) : option (tseg * nat) :=
  match rev r with
  | [] => None
  | y :: ri => if y =? 125 then parse_inner (rev ri) else None
  end.

Lemma parse_tseg_eq s :
  parse_tseg s = match s with [] => parse_plain s | x :: r => if x =? 123 then parse_var r else parse_plain s end.
Proof.
  unfold Template.parse_tseg, parse_var, parse_inner, parse_plain.
  destruct s as [|x r]; [reflexivity|]. destruct x as [|p]; [reflexivity|].
  do 7 (destruct p as [p|p|]; try reflexivity).
  destruct (rev r) as [|y ri]; [reflexivity|]. destruct y as [|q]; [reflexivity|].
  do 7 (destruct q as [q|q|]; try reflexivity).
Qed.
Lemma parse_var_snoc inner : parse_var (inner ++ [125]) = parse_inner inner.
Proof. unfold parse_var. rewrite rev_app_distr. cbn [rev app]. change (125 =? 125) with true. cbv iota. now rewrite rev_involutive. Qed.
Lemma parse_var_inv r en : parse_var r = Some en -> exists inner, r = inner ++ [125] /\ parse_inner inner = Some en.
Proof.
  unfold parse_var. destruct (rev r) as [|y ri] eqn:E; [discriminate|].
  destruct (N.eqb_spec y 125) as [->|]; [|discriminate]. intros H. exists (rev ri). split; [|exact H].
  rewrite <- (rev_involutive r), E. reflexivity.
Qed.

Lemma parse_tmpl_hd s :
  parse_tmpl s = match s with [] => None | x :: rest => if x =? 47 then parse_tmpl (47 :: rest) else None end.
Proof.
  destruct s as [|x r]; [reflexivity|]. destruct x as [|p]; [reflexivity|].
  do 6 (destruct p as [p|p|]; try reflexivity).
Qed.

Definition finish (verb : option sstr) (segs : list (tseg * nat)) : option tmpl :=
  let t := {| t_segs := map fst segs; t_verb := verb |} in
  let ntok := (length segs + fold_right Nat.add 0 (map snd segs) + (match verb with Some _ => 2 | None => 0 end) + 1)%nat in
  if starstar_last (flat t) && Nat.leb ntok 64 then Some t else None.
Lemma parse_tmpl_47 rest segpart verb : cut 58 rest = (segpart, verb) ->
  parse_tmpl (47 :: rest) =
  if (match verb with None => true | Some v => nonempty_all s_literal v end) then
    match split_top false segpart with
    | Some parts => match map_opt parse_tseg parts with Some segs => finish verb segs | None => None end
    | None => None
    end
  else None.
Proof. intros H. unfold Template.parse_tmpl, finish. cbv iota beta. rewrite H. reflexivity. Qed.

(* ================= (B) what the text parser accepts is a derivation of the grammar ================= *)

Lemma spell_one k v : spell [Tok k v] = v.
Proof. unfold spell. cbn [map concat tval]. apply app_nil_r. Qed.

Lemma pseg_B s p : parse_pseg s = Some p ->
  exists ts, PSeg ts (is_ss p) /\ spell ts = s /\ length ts = 1%nat /\ AbsP ts p.
Proof.
  unfold Template.parse_pseg.
  destruct (sstr_eqb s [42]) eqn:E1.
  { apply sstr_eqb_eq in E1. subst s. intros H. inversion H; subst p. exists [tStar]. repeat split; constructor. }
  destruct (sstr_eqb s [42; 42]) eqn:E2.
  { apply sstr_eqb_eq in E2. subst s. intros H. inversion H; subst p. exists [tStarStar]. repeat split; constructor. }
  destruct (literal_ok isLetter isNumber s) eqn:E3; [|discriminate].
  intros H. inversion H; subst p. exists [Tok TLiteral s]. split; [constructor; exact E3|].
  split; [apply spell_one|]. split; [reflexivity|constructor].
Qed.

Definition Pp (s : sstr) (en : pseg * nat) : Prop := parse_pseg s = Some (fst en) /\ snd en = 1%nat.
Definition one (p : pseg) : list pseg := [p].

Lemma flat_map_one l : flat_map one l = l.
Proof. induction l as [|x l IH]; [reflexivity|]. cbn. now rewrite IH. Qed.
Lemma Pp_list parts ens : Forall2 Pp parts ens ->
  map_opt parse_pseg parts = Some (map fst ens) /\ toksum ens = length ens.
Proof.
  induction 1 as [|s [p n] parts ens [H1 H2] HF [IH1 IH2]]; [split; reflexivity|].
  cbn [fst snd] in H1, H2. subst n. cbn [map_opt map fst]. rewrite H1, IH1. split; [reflexivity|].
  unfold toksum in *. cbn [map snd fold_right length]. now rewrite IH2.
Qed.
Lemma Pp_of_list parts ps : map_opt parse_pseg parts = Some ps ->
  exists ens, Forall2 Pp parts ens /\ map fst ens = ps.
Proof.
  intros H. apply map_opt_Forall2 in H. induction H as [|s p parts ps Hs HF (ens & IH1 & IH2)].
  - exists []. split; [constructor|reflexivity].
  - exists ((p, 1%nat) :: ens). split; [constructor; [split; [exact Hs|reflexivity]|exact IH1]|]. cbn. now rewrite IH2.
Qed.

Lemma psegs_B parts ps : map_opt parse_pseg parts = Some ps -> ps <> [] -> starstar_last ps = true ->
  exists ts, PSegs ts (ends_ss ps) /\ spell ts = join 47 parts /\ (length ts + 1 = 2 * length ps)%nat /\ AbsPs ts ps.
Proof.
  intros H Hn Hss. destruct (Pp_of_list _ _ H) as (ens & HF & <-).
  destruct (Pp_list _ _ HF) as [_ Hsum].
  assert (HB : forall s e n, Pp s (e, n) -> one e <> [] /\
     (starstar_last (one e) = true ->
      exists ts, PSeg ts (ends_ss (one e)) /\ spell ts = s /\ length ts = n /\ AbsP ts e)).
  { intros s e n [H1 H2]. cbn [fst snd] in H1, H2. split; [discriminate|]. intros _.
    destruct (pseg_B _ _ H1) as (ts & T1 & T2 & T3 & T4). exists ts. unfold one. cbn [ends_ss is_nil].
    repeat split; auto. congruence. }
  assert (Hen : ens <> []) by (intros ->; now apply Hn).
  rewrite <- (flat_map_one (map fst ens)) in Hss.
  destruct (segsG_B one PSeg AbsP Pp HB parts ens HF Hen Hss) as (ss & A & B & C & D).
  rewrite flat_map_one in A. exists ss. split; [exact A|]. split; [exact B|]. split; [|exact D].
  rewrite map_length. lia.
Qed.

Lemma fp_B keys : keys <> [] -> forallb (nonempty_all s_ident) keys = true ->
  exists fp, FieldPath fp /\ spell fp = join 46 keys /\ AbsFP fp keys /\ (length fp + 1 = 2 * length keys)%nat.
Proof.
  induction keys as [|k keys IH]; intros Hn H; [contradiction|].
  cbn [forallb] in H. apply andb_true_iff in H. destruct H as [Hk H].
  destruct keys as [|k' keys'].
  - exists [Tok TIdent k]. split; [constructor; exact Hk|]. rewrite join_one, spell_one.
    repeat split. constructor.
  - destruct (IH ltac:(discriminate) H) as (fp & A & B & C & D).
    exists (Tok TIdent k :: tDot :: fp). split; [constructor; [exact Hk|exact A]|].
    rewrite join_cons by discriminate. change (spell (Tok TIdent k :: tDot :: fp)) with (k ++ 46 :: spell fp).
    rewrite B. split; [reflexivity|]. split; [now constructor|]. cbn [length] in *. lia.
Qed.

Lemma seg_B s sg n : parse_tseg s = Some (sg, n) ->
  pl sg <> [] /\
  (starstar_last (pl sg) = true ->
   exists ts, Seg ts (ends_ss (pl sg)) /\ spell ts = s /\ length ts = n /\ AbsSeg ts sg).
Proof.
  rewrite parse_tseg_eq. intros H.
  assert (Hplain : parse_plain s = Some (sg, n) -> pl sg <> [] /\
    (starstar_last (pl sg) = true -> exists ts, Seg ts (ends_ss (pl sg)) /\ spell ts = s /\ length ts = n /\ AbsSeg ts sg)).
  { unfold parse_plain. destruct (parse_pseg s) as [p|] eqn:Ep; [|discriminate]. intros H'. inversion H'; subst sg n.
    split; [discriminate|]. intros _. destruct (pseg_B _ _ Ep) as (ts & T1 & T2 & T3 & T4).
    exists ts. cbn [pl ends_ss is_nil]. repeat split; auto; now constructor. }
  destruct s as [|x r]; [now apply Hplain|].
  destruct (N.eqb_spec x 123) as [->|Hx]; [|now apply Hplain]. clear Hplain.
  destruct (parse_var_inv _ _ H) as (inner & -> & Hi). clear H. unfold parse_inner in Hi.
  destruct (cut 61 inner) as [fp pat] eqn:Ec. apply cut_spec in Ec.
  destruct (forallb (nonempty_all s_ident) (split_on 46 fp)) eqn:Ek; [|discriminate].
  destruct (fp_B _ (split_on_nonnil 46 fp) Ek) as (fpt & F1 & F2 & F3 & F4). rewrite split_on_join in F2.
  destruct pat as [p|].
  - destruct (map_opt parse_pseg (split_on 47 p)) as [ps|] eqn:Ep; [|discriminate]. inversion Hi; subst sg n. clear Hi.
    assert (Hps : ps <> []).
    { intros ->. apply map_opt_Forall2 in Ep. inversion Ep as [E0|]. symmetry in E0. now apply split_on_nonnil in E0. }
    cbn [pl]. split; [exact Hps|]. intros Hss.
    destruct (psegs_B _ _ Ep Hps Hss) as (pt & P1 & P2 & P3 & P4). rewrite split_on_join in P2.
    exists (tOpen :: fpt ++ tEq :: pt ++ [tClose]). split; [now apply S_varpat|]. split.
    + change (spell (tOpen :: fpt ++ tEq :: pt ++ [tClose])) with (123 :: spell (fpt ++ tEq :: pt ++ [tClose])).
      rewrite spell_app. change (spell (tEq :: pt ++ [tClose])) with (61 :: spell (pt ++ [tClose])).
      rewrite spell_app, F2, P2, Ec. cbn. rewrite <- app_assoc. reflexivity.
    + split; [|now apply AS_varpat]. cbn [length]. rewrite app_length. cbn [length]. rewrite app_length. cbn [length]. lia.
  - inversion Hi; subst sg n. clear Hi. cbn [pl]. split; [discriminate|]. intros _. subst inner.
    exists (tOpen :: fpt ++ [tClose]). split; [now apply S_var|]. split.
    + change (spell (tOpen :: fpt ++ [tClose])) with (123 :: spell (fpt ++ [tClose])).
      rewrite spell_app, F2. reflexivity.
    + split; [|now apply AS_var]. cbn [length]. rewrite app_length. cbn [length]. lia.
Qed.

Definition Pt (s : sstr) (en : tseg * nat) : Prop := parse_tseg s = Some en.

(* (B): every text the parser accepts is spelled by a derivation of the grammar of at most 64 tokens
   which has the structure the parser reports -- for all classifiers *)
Theorem parser_to_grammar s t : parse_tmpl s = Some t ->
  exists toks, Tmpl toks /\ spell toks = s /\ (length toks <= 64)%nat /\ AbsT toks t.
Proof.
  rewrite parse_tmpl_hd. destruct s as [|x rest]; [discriminate|].
  destruct (N.eqb_spec x 47) as [->|]; [|discriminate].
  destruct (cut 58 rest) as [segpart verb] eqn:Ec. rewrite (parse_tmpl_47 _ _ _ Ec). apply cut_spec in Ec.
  destruct (match verb with None => true | Some v => nonempty_all s_literal v end) eqn:Ev; [|discriminate].
  destruct (split_top false segpart) as [parts|] eqn:Es; [|discriminate].
  destruct (map_opt parse_tseg parts) as [segs|] eqn:Em; [|discriminate].
  unfold finish. rewrite flat_pl. cbn [t_segs].
  destruct (starstar_last (flat_map pl (map fst segs))) eqn:Ess; [|discriminate]. cbn [andb].
  destruct (Nat.leb _ 64) eqn:En; [|discriminate]. apply Nat.leb_le in En.
  intros H. inversion H; subst t. clear H.
  apply split_top_join in Es. destruct Es as [Es Hpn].
  apply map_opt_Forall2 in Em.
  assert (Hsn : segs <> []) by (intros ->; inversion Em; subst; contradiction).
  assert (HF : Forall2 Pt parts segs).
  { clear -Em. induction Em as [|s [e n] ? ? H ? IH]; constructor; auto. }
  destruct (segsG_B pl Seg AbsSeg Pt (fun s0 e n H0 => seg_B s0 e n H0) parts segs HF Hsn Ess) as (ss & A & B & C & D).
  unfold toksum in C. rewrite Es in B.
  destruct verb as [v|].
  - exists (tSlash :: ss ++ [tColon; Tok TLiteral v; tEOF]). split; [apply (T_verb _ _ ss _ v A); exact Ev|].
    split; [|split; [|now constructor]].
    + change (spell (tSlash :: ss ++ [tColon; Tok TLiteral v; tEOF])) with (47 :: spell (ss ++ [tColon; Tok TLiteral v; tEOF])).
      rewrite spell_app, B, Ec. change (spell [tColon; Tok TLiteral v; tEOF]) with (58 :: v ++ [] ++ []).
      now rewrite !app_nil_r.
    + cbn [length]. rewrite app_length. cbn [length]. lia.
  - exists (tSlash :: ss ++ [tEOF]). split; [apply (T_plain _ _ ss _ A)|].
    split; [|split; [|now constructor]].
    + change (spell (tSlash :: ss ++ [tEOF])) with (47 :: spell (ss ++ [tEOF])).
      rewrite spell_app, B, Ec. change (spell [tEOF]) with (@nil N). now rewrite app_nil_r.
    + cbn [length]. rewrite app_length. cbn [length]. lia.
Qed.

(* ================= (A) every derivation of the grammar is accepted by the text parser ================= *)
Section Sane.
Hypothesis sane : Sane isLetter isNumber.

Lemma lit_free v : forallb is_literal v = true -> free [42; 47; 58; 61; 123; 125] v.
Proof.
  intros H x Hx Hb. rewrite forallb_forall in H. specialize (H x Hx).
  rewrite (sane_literal isLetter isNumber sane x Hb) in H. discriminate.
Qed.
Lemma ident_free v : forallb is_ident v = true -> free [42; 46; 47; 58; 61; 123; 125] v.
Proof.
  intros H x Hx Hb. rewrite forallb_forall in H. specialize (H x Hx).
  rewrite (sane_ident isLetter isNumber sane x Hb) in H. discriminate.
Qed.

Lemma pseg_A ts b : PSeg ts b ->
  exists p, parse_pseg (spell ts) = Some p /\ AbsP ts p /\ is_ss p = b /\ length ts = 1%nat /\
            free [47; 58; 61; 123; 125] (spell ts).
Proof.
  intros [v Hv| |].
  - exists (PLit v). rewrite spell_one.
    destruct (lit_ok_inv isLetter isNumber _ Hv) as (x & v' & Ev & Hx & Hp).
    assert (Hx42 : x <> 42) by (intros ->; rewrite (sane_letter isLetter isNumber sane 42) in Hx; [discriminate|cbn; auto]).
    split.
    + unfold Template.parse_pseg.
      destruct (sstr_eqb v [42]) eqn:E1; [apply sstr_eqb_eq in E1; congruence|].
      destruct (sstr_eqb v [42; 42]) eqn:E2; [apply sstr_eqb_eq in E2; congruence|].
      rewrite literal_ok_eq, Hv. reflexivity.
    + split; [constructor|]. split; [reflexivity|]. split; [reflexivity|].
      eapply free_mono; [|exact (lit_free _ Hp)]. intros y Hy. cbn in *. intuition.
  - exists PStar. repeat split; try constructor. intros x Hx Hb. cbn in Hx, Hb. intuition; subst; discriminate.
  - exists PStarStar. repeat split; try constructor. intros x Hx Hb. cbn in Hx, Hb. intuition; subst; discriminate.
Qed.

Lemma psegs_A ps b : PSegs ps b ->
  exists parts pp, spell ps = join 47 parts /\ parts <> [] /\ Forall (free [47; 58; 61; 123; 125]) parts /\
    map_opt parse_pseg parts = Some pp /\ AbsPs ps pp /\ starstar_last pp = true /\ ends_ss pp = b /\
    (length ps + 1 = 2 * length pp)%nat.
Proof.
  intros HS.
  assert (HA : forall ts b, PSeg ts b -> exists e, Pp (spell ts) (e, length ts) /\ AbsP ts e /\
      free [47; 58; 61; 123; 125] (spell ts) /\ starstar_last (one e) = true /\ ends_ss (one e) = b /\ one e <> []).
  { intros ts b0 G. destruct (pseg_A _ _ G) as (p & P1 & P2 & P3 & P4 & P5).
    exists p. unfold one. cbn [starstar_last ends_ss is_nil]. rewrite P4.
    split; [split; [exact P1|reflexivity]|]. split; [exact P2|]. split; [exact P5|].
    split; [destruct p; reflexivity|]. split; [exact P3|discriminate]. }
  destruct (segsG_A one PSeg AbsP Pp _ HA ps b HS) as (parts & ens & A1 & A2 & A3 & A4 & A5 & A6 & A7 & A8 & A9).
  rewrite flat_map_one in A6, A7. destruct (Pp_list _ _ A2) as [B1 B2].
  exists parts, (map fst ens). repeat split; auto.
  - intros ->. inversion A2; subst. contradiction.
  - rewrite map_length. lia.
Qed.

Lemma fp_A fp : FieldPath fp ->
  exists keys, AbsFP fp keys /\ spell fp = join 46 keys /\ keys <> [] /\
    forallb (nonempty_all s_ident) keys = true /\ Forall (fun k => ~ In 46 k) keys /\
    (length fp + 1 = 2 * length keys)%nat /\ free [47; 58; 61; 123; 125] (spell fp).
Proof.
  assert (Hk : forall v, ident_ok v = true -> ~ In 46 v /\ free [47; 58; 61; 123; 125] v).
  { intros v Hv. destruct (ident_ok_inv isLetter isNumber _ Hv) as [_ Hp]. pose proof (ident_free _ Hp) as Hf.
    split; [apply (free_notin _ _ _ Hf); cbn; auto|]. eapply free_mono; [|exact Hf]. intros y Hy. cbn in *. intuition. }
  induction 1 as [v Hv|v rest Hv Hf (keys & A1 & A2 & A3 & A4 & A5 & A6 & A7)].
  - exists [v]. rewrite spell_one, join_one. destruct (Hk v Hv) as [K1 K2]. cbn [forallb]. rewrite nonempty_ident_eq, Hv.
    repeat split; auto; try discriminate. constructor.
  - exists (v :: keys). destruct (Hk v Hv) as [K1 K2].
    change (spell (Tok TIdent v :: tDot :: rest)) with (v ++ 46 :: spell rest).
    rewrite join_cons by exact A3. rewrite A2. cbn [forallb]. rewrite nonempty_ident_eq, Hv, A4.
    repeat split; auto; try discriminate.
    + now constructor.
    + cbn [length] in *. lia.
    + apply free_app. split; [exact K2|]. apply free_cons. split; [|now rewrite <- A2].
      cbn. intuition; discriminate.
Qed.

Lemma seg_A ts b : Seg ts b ->
  exists sg, Pt (spell ts) (sg, length ts) /\ AbsSeg ts sg /\ (Top (spell ts) /\ free [58] (spell ts)) /\
    starstar_last (pl sg) = true /\ ends_ss (pl sg) = b /\ pl sg <> [].
Proof.
  unfold Pt. intros [ts' b' G|fp Hfp|fp ps b' Hfp Hps].
  - destruct (pseg_A _ _ G) as (p & P1 & P2 & P3 & P4 & P5). exists (TPlain p).
    split.
    + rewrite parse_tseg_eq. unfold parse_plain. rewrite P1, P4.
      destruct (spell ts') as [|x r]; [reflexivity|].
      destruct (N.eqb_spec x 123) as [->|]; [|reflexivity]. exfalso. apply (P5 123); cbn; auto 10.
    + split; [now constructor|]. cbn [pl starstar_last ends_ss is_nil].
      repeat split; auto; try discriminate.
      * left. eapply free_mono; [|exact P5]. intros y Hy. cbn in *. intuition.
      * eapply free_mono; [|exact P5]. intros y Hy. cbn in *. intuition.
      * destruct p; reflexivity.
  - destruct (fp_A _ Hfp) as (keys & A1 & A2 & A3 & A4 & A5 & A6 & A7).
    exists (TVar keys [PStar]).
    change (spell (tOpen :: fp ++ [tClose])) with (123 :: spell (fp ++ [tClose])).
    rewrite spell_app. change (spell [tClose]) with [125].
    split.
    + rewrite parse_tseg_eq. change (123 =? 123) with true. cbv iota. rewrite parse_var_snoc. unfold parse_inner.
      rewrite cut_none by (apply (free_notin _ _ _ A7); cbn; auto).
      rewrite A2, split_on_of_join by assumption. rewrite A4. f_equal. f_equal.
      cbn [length]. rewrite app_length. cbn [length]. lia.
    + split; [now constructor|]. cbn [pl starstar_last ends_ss is_nil is_ss].
      repeat split; auto; try discriminate.
      * right. exists (spell fp). split; [reflexivity|]. eapply free_mono; [|exact A7]. intros y Hy. cbn in *. intuition.
      * apply free_cons. split; [cbn; intuition; discriminate|]. apply free_app. split.
        -- eapply free_mono; [|exact A7]. intros y Hy. cbn in *. intuition.
        -- apply free_cons. split; [cbn; intuition; discriminate|apply free_nil].
  - destruct (fp_A _ Hfp) as (keys & A1 & A2 & A3 & A4 & A5 & A6 & A7).
    destruct (psegs_A _ _ Hps) as (parts & pp & B1 & B2 & B3 & B4 & B5 & B6 & B7 & B8).
    exists (TVar keys pp).
    assert (Hfj : free [58; 123; 125] (spell ps)).
    { rewrite B1. apply free_join; [cbn; intuition; discriminate|].
      eapply Forall_impl; [|exact B3]. intros a Ha. eapply free_mono; [|exact Ha]. intros y Hy. cbn in *. intuition. }
    assert (Hpn : pp <> []).
    { intros ->. apply map_opt_Forall2 in B4. inversion B4; subst. contradiction. }
    change (spell (tOpen :: fp ++ tEq :: ps ++ [tClose])) with (123 :: spell (fp ++ tEq :: ps ++ [tClose])).
    rewrite spell_app. change (spell (tEq :: ps ++ [tClose])) with (61 :: spell (ps ++ [tClose])).
    rewrite spell_app. change (spell [tClose]) with [125].
    assert (Ea : 123 :: spell fp ++ 61 :: spell ps ++ [125] = 123 :: (spell fp ++ 61 :: spell ps) ++ [125])
      by (rewrite <- app_assoc; reflexivity).
    rewrite Ea. split.
    + rewrite parse_tseg_eq. change (123 =? 123) with true. cbv iota. rewrite parse_var_snoc. unfold parse_inner.
      rewrite cut_some by (apply (free_notin _ _ _ A7); cbn; auto).
      rewrite A2, split_on_of_join by assumption. rewrite A4.
      rewrite B1, split_on_of_join; [|exact B2|].
      * rewrite B4. f_equal. f_equal.
        cbn [length]. rewrite !app_length. cbn [length]. rewrite app_length. cbn [length]. lia.
      * eapply Forall_impl; [|exact B3]. intros a Ha. apply (free_notin _ _ _ Ha). cbn; auto.
    + split; [now constructor|]. cbn [pl].
      repeat split; auto.
      * right. exists (spell fp ++ 61 :: spell ps). split; [reflexivity|].
        apply free_app. split; [eapply free_mono; [|exact A7]; intros y Hy; cbn in *; intuition|].
        apply free_cons. split; [cbn; intuition; discriminate|].
        eapply free_mono; [|exact Hfj]. intros y Hy. cbn in *. intuition.
      * rewrite <- Ea. apply free_cons. split; [cbn; intuition; discriminate|]. apply free_app. split.
        -- eapply free_mono; [|exact A7]. intros y Hy. cbn in *. intuition.
        -- apply free_cons. split; [cbn; intuition; discriminate|]. apply free_app. split.
           ++ eapply free_mono; [|exact Hfj]. intros y Hy. cbn in *. intuition.
           ++ apply free_cons. split; [cbn; intuition; discriminate|apply free_nil].
Qed.

(* (A): every derivation of at most 64 tokens spells a text the parser accepts, with that structure *)
Theorem grammar_to_parser toks : Tmpl toks -> (length toks <= 64)%nat ->
  exists t, parse_tmpl (spell toks) = Some t /\ AbsT toks t.
Proof.
  intros HT Hl.
  assert (Hsegs : forall ss b, Segs ss b -> exists parts segs,
    spell ss = join 47 parts /\ free [58] (spell ss) /\ split_top false (spell ss) = Some parts /\
    map_opt parse_tseg parts = Some segs /\ AbsSegs ss (map fst segs) /\
    starstar_last (flat_map pl (map fst segs)) = true /\
    (length ss + 1 = length segs + fold_right Nat.add 0 (map snd segs))%nat).
  { intros ss b HS.
    destruct (segsG_A pl Seg AbsSeg Pt (fun a => Top a /\ free [58] a) seg_A ss b HS) as (parts & segs & A1 & A2 & A3 & A4 & A5 & A6 & A7 & A8 & A9).
    assert (Hpn : parts <> []) by (intros ->; inversion A2; subst; contradiction).
    exists parts, segs. split; [exact A1|]. split; [|split; [|split; [|auto]]].
    - rewrite A1. apply free_join; [cbn; intuition; discriminate|].
      eapply Forall_impl; [|exact A3]. intros a [_ Ha]. exact Ha.
    - rewrite A1. apply split_top_of_join; [exact Hpn|]. eapply Forall_impl; [|exact A3]. intros a [Ha _]. exact Ha.
    - apply map_opt_Forall2. clear -A2. induction A2 as [|s [e n] ? ? H ? IH]; constructor; auto. }
  destruct HT as [ss b HS|ss b v HS Hv]; destruct (Hsegs ss b HS) as (parts & segs & A1 & A2 & A3 & A4 & A5 & A6 & A7).
  - exists {| t_segs := map fst segs; t_verb := None |}. split; [|now constructor].
    change (spell (tSlash :: ss ++ [tEOF])) with (47 :: spell (ss ++ [tEOF])).
    rewrite spell_app. change (spell [tEOF]) with (@nil N). rewrite app_nil_r.
    rewrite (parse_tmpl_47 (spell ss) (spell ss) None) by (apply cut_none; apply (free_notin _ _ _ A2); cbn; auto).
    rewrite A3, A4. unfold finish. rewrite flat_pl. cbn [t_segs]. rewrite A6. cbn [andb].
    cbn [length] in Hl. rewrite app_length in Hl. cbn [length] in Hl.
    destruct (Nat.leb _ 64) eqn:En; [reflexivity|apply Nat.leb_gt in En; lia].
  - exists {| t_segs := map fst segs; t_verb := Some v |}. split; [|now constructor].
    change (spell (tSlash :: ss ++ [tColon; Tok TLiteral v; tEOF])) with (47 :: spell (ss ++ [tColon; Tok TLiteral v; tEOF])).
    rewrite spell_app. change (spell [tColon; Tok TLiteral v; tEOF]) with (58 :: v ++ [] ++ []). rewrite !app_nil_r.
    rewrite (parse_tmpl_47 _ (spell ss) (Some v)) by (apply cut_some; apply (free_notin _ _ _ A2); cbn; auto).
    rewrite nonempty_literal_eq, Hv.
    rewrite A3, A4. unfold finish. rewrite flat_pl. cbn [t_segs]. rewrite A6. cbn [andb].
    cbn [length] in Hl. rewrite app_length in Hl. cbn [length] in Hl.
    destruct (Nat.leb _ 64) eqn:En; [reflexivity|apply Nat.leb_gt in En; lia].
Qed.

(* the oracle accepts exactly the templates the lexer model accepts, and reads them the same way *)
Theorem parser_agrees_with_lexer s :
  (forall t, parse_tmpl s = Some t -> exists toks, lex_template isLetter isNumber s = Ok toks /\ AbsT toks t) /\
  (forall toks, lex_template isLetter isNumber s = Ok toks -> exists t, parse_tmpl s = Some t /\ AbsT toks t).
Proof.
  split.
  - intros t H. destruct (parser_to_grammar s t H) as (toks & A & B & C & D).
    exists toks. split; [|exact D]. rewrite <- B. now apply lex_template_complete.
  - intros toks H. destruct (lex_template_sound isLetter isNumber s toks H) as (A & B & C).
    rewrite <- B. now apply grammar_to_parser.
Qed.

Corollary parser_accepts_iff_lexer s :
  (exists t, parse_tmpl s = Some t) <-> (exists toks, lex_template isLetter isNumber s = Ok toks).
Proof.
  destruct (parser_agrees_with_lexer s) as [A B]. split.
  - intros [t H]. destruct (A t H) as (toks & H1 & _). now exists toks.
  - intros [toks H]. destruct (B toks H) as (t & H1 & _). now exists t.
Qed.

End Sane.

End TemplateProofs.

(* ================= the statements, closed ================= *)

(* (A) grammar => parser *)
Theorem template_grammar_to_parser : forall isLetter isNumber, Sane isLetter isNumber ->
  forall toks, Tmpl isLetter isNumber toks -> (length toks <= 64)%nat ->
  exists t, parse_tmpl isLetter isNumber (spell toks) = Some t /\ AbsT toks t.
Proof. exact grammar_to_parser. Qed.
Print Assumptions template_grammar_to_parser.

(* (B) parser => grammar; holds for every classifier (Sane is not needed in this direction) *)
Theorem template_parser_to_grammar : forall isLetter isNumber s t,
  parse_tmpl isLetter isNumber s = Some t ->
  exists toks, Tmpl isLetter isNumber toks /\ spell toks = s /\ (length toks <= 64)%nat /\ AbsT toks t.
Proof. exact parser_to_grammar. Qed.
Print Assumptions template_parser_to_grammar.

(* the oracle and the lexer model accept the same texts; the lexer's tokens (unique: lex_template is
   a function) render the oracle's template (unique: parse_tmpl is a function) *)
Theorem template_oracle_agrees_with_lexer : forall isLetter isNumber, Sane isLetter isNumber -> forall s,
  (forall t, parse_tmpl isLetter isNumber s = Some t ->
     exists toks, lex_template isLetter isNumber s = Ok toks /\ AbsT toks t) /\
  (forall toks, lex_template isLetter isNumber s = Ok toks ->
     exists t, parse_tmpl isLetter isNumber s = Some t /\ AbsT toks t).
Proof. exact parser_agrees_with_lexer. Qed.
Print Assumptions template_oracle_agrees_with_lexer.

Corollary template_oracle_accepts_iff_lexer : forall isLetter isNumber, Sane isLetter isNumber -> forall s,
  (exists t, parse_tmpl isLetter isNumber s = Some t) <-> (exists toks, lex_template isLetter isNumber s = Ok toks).
Proof. exact parser_accepts_iff_lexer. Qed.
Print Assumptions template_oracle_accepts_iff_lexer.

(* both at once, for a given text: whenever either side accepts, both do and the results are related *)
Corollary template_oracle_lexer_related : forall isLetter isNumber, Sane isLetter isNumber -> forall s t toks,
  parse_tmpl isLetter isNumber s = Some t -> lex_template isLetter isNumber s = Ok toks -> AbsT toks t.
Proof.
  intros isLetter isNumber sane s t toks Hp Hl.
  destruct (parser_agrees_with_lexer isLetter isNumber sane s) as [A _].
  destruct (A t Hp) as (toks' & Hl' & Habs). rewrite Hl in Hl'. inversion Hl'; subst. exact Habs.
Qed.
Print Assumptions template_oracle_lexer_related.
