From Larking Require Import Base.GoSem Base.B64 Model.Metadata.

(* ---- -bin values in both spellings ---- *)
Lemma b64_len_pad url : forall n m, (length m <= n)%nat -> length (b64_encode url true m) mod 4 = 0.
Proof.
  induction n as [|n IH]; intros m Hn.
  - destruct m; [reflexivity|cbn in Hn; lia].
  - destruct m as [|a [|b [|c r]]]; cbn [b64_encode length app] in *; try reflexivity.
    specialize (IH r ltac:(lia)).
    change (S (S (S (S (length (b64_encode url true r)))))) with (4 + length (b64_encode url true r)).
    rewrite <- Nat.add_mod_idemp_l by lia. exact IH.
Qed.

(* when no padding is needed the two spellings coincide *)
Lemma b64_raw_eq_pad url : forall n m, (length m <= n)%nat ->
  length (b64_encode url false m) mod 4 = 0 -> b64_encode url false m = b64_encode url true m.
Proof.
  induction n as [|n IH]; intros m Hn Hl.
  - destruct m; [reflexivity|cbn in Hn; lia].
  - destruct m as [|a [|b [|c r]]]; cbn [b64_encode length app] in *; try reflexivity; try discriminate.
    f_equal. f_equal. f_equal. f_equal. apply IH; [lia|].
    change (S (S (S (S (length (b64_encode url false r)))))) with (4 + length (b64_encode url false r)) in Hl.
    rewrite <- Nat.add_mod_idemp_l in Hl by lia. exact Hl.
Qed.

Theorem decode_bin_padded m : Forall (fun b => (b < 256)%N) m -> decode_bin (b64_encode false true m) = Some m.
Proof.
  intros H. unfold decode_bin. rewrite (b64_len_pad false (length m) m) by lia. cbn [Nat.eqb].
  now apply b64_roundtrip.
Qed.

Theorem decode_bin_raw m : Forall (fun b => (b < 256)%N) m -> decode_bin (b64_encode false false m) = Some m.
Proof.
  intros H. unfold decode_bin. destruct (Nat.eqb (length (b64_encode false false m) mod 4) 0) eqn:E.
  - apply Nat.eqb_eq in E. rewrite (b64_raw_eq_pad false (length m) m) by (auto; lia). now apply b64_roundtrip.
  - now apply b64_roundtrip.
Qed.

Theorem decode_any_encode_bin m : Forall (fun b => (b < 256)%N) m -> decode_any (encode_bin m) = Some m.
Proof.
  intros H. unfold decode_any, encode_bin.
  destruct (b64_decode false true (b64_encode false false m)) as [b|] eqn:E; [|now apply b64_roundtrip].
  (* the padded decoder accepts a raw string only when no padding was needed, and then agrees *)
  pose proof (decode_bin_raw m H) as D. unfold decode_bin in D.
  destruct (Nat.eqb (length (b64_encode false false m) mod 4) 0) eqn:L; [congruence|].
  (* length not a multiple of 4: the padded decoder cannot succeed *)
  exfalso. clear D. apply Nat.eqb_neq in L.
  assert (P : forall fuel s b, b64_decode_f fuel false true s = Some b -> length s mod 4 = 0).
  { induction fuel as [|f IH]; intros s b0 Hd; [discriminate|]. cbn [b64_decode_f] in Hd.
    destruct s as [|w [|x [|y [|z r]]]]; try discriminate; try reflexivity.
    destruct (b64_val false w), (b64_val false x); try discriminate.
    destruct ((y =? 61)%N && (z =? 61)%N && is_nil r && true) eqn:C1.
    { destruct r; [reflexivity|]. cbn [is_nil] in C1. destruct ((y =? 61)%N && (z =? 61)%N); discriminate. }
    destruct (b64_val false y); try discriminate.
    destruct ((z =? 61)%N && is_nil r && true) eqn:C2.
    { destruct r; [reflexivity|]. cbn [is_nil] in C2. destruct (z =? 61)%N; discriminate. }
    destruct (b64_val false z); try discriminate.
    destruct (b64_decode_f f false true r) eqn:R; try discriminate.
    apply IH in R. cbn [length]. change (S (S (S (S (length r))))) with (4 + length r).
    rewrite <- Nat.add_mod_idemp_l by lia. exact R. }
  apply L. eapply P. exact E.
Qed.

(* ---- incoming ---- *)
Lemma filter_map_in {A B} (f : A -> option B) l y : In y (filter_map f l) <-> exists x, In x l /\ f x = Some y.
Proof.
  induction l as [|a l IH]; cbn [filter_map].
  - split; [contradiction|intros (x & [] & _)].
  - destruct (f a) as [b|] eqn:E.
    + cbn [In]. rewrite IH. split.
      * intros [->|(x & Hx & Hf)]; [exists a; auto|exists x; auto].
      * intros (x & [->|Hx] & Hf); [left; congruence|right; exists x; auto].
    + rewrite IH. split.
      * intros (x & Hx & Hf). exists x. cbn; auto.
      * intros (x & [->|Hx] & Hf); [congruence|exists x; auto].
Qed.

Theorem incoming_exact h k vs :
  In (k, vs) (incoming h) <->
  exists k0 vs0, In (k0, vs0) h /\ k = lower k0 /\
    (is_reserved k && negb (is_whitelisted k) = false) /\
    vs = (if is_bin k then map (fun v => match decode_bin v with Some b => b | None => [] end) vs0 else vs0).
Proof.
  unfold incoming. rewrite filter_map_in. split.
  - intros ([k0 vs0] & Hin & Hf). unfold incoming_entry in Hf. cbn [fst snd] in Hf.
    destruct (is_reserved (lower k0) && negb (is_whitelisted (lower k0))) eqn:R; [discriminate|].
    exists k0, vs0. destruct (is_bin (lower k0)) eqn:B; inversion Hf; subst; rewrite ?R, ?B; auto.
  - intros (k0 & vs0 & Hin & -> & R & ->). exists (k0, vs0). split; [exact Hin|].
    unfold incoming_entry. cbn [fst snd]. rewrite R. destruct (is_bin (lower k0)); reflexivity.
Qed.

(* ---- outgoing: no forgery, completeness ---- *)
Lemma bytes_eqb_refl' a : bytes_eqb a a = true. Proof. now apply bytes_eqb_eq. Qed.

Lemma hget_hset_same k vs h : hget k (hset k vs h) = Some vs.
Proof.
  induction h as [|[k' vs'] r IH]; cbn [hset hget].
  - now rewrite bytes_eqb_refl'.
  - destruct (bytes_eqb (lower k') (lower k)) eqn:E; cbn [hget]; rewrite E; auto.
Qed.
Lemma hget_hset_other k k2 vs h : bytes_eqb (lower k) (lower k2) = false -> hget k2 (hset k vs h) = hget k2 h.
Proof.
  intros Hne. induction h as [|[k' vs'] r IH]; cbn [hset hget].
  - rewrite Hne. reflexivity.
  - destruct (bytes_eqb (lower k') (lower k)) eqn:E; cbn [hget].
    + apply bytes_eqb_eq in E. rewrite E, Hne. reflexivity.
    + destruct (bytes_eqb (lower k') (lower k2)); auto.
Qed.

Lemma lower_idem k : lower (lower k) = lower k.
Proof.
  unfold lower. rewrite map_map. apply map_ext. intros c. unfold lower_byte.
  destruct ((65 <=? c)%N && (c <=? 90)%N) eqn:E; [|now rewrite E].
  replace ((65 <=? c + 32)%N && (c + 32 <=? 90)%N) with false by lia. reflexivity.
Qed.

(* a protected key of the response (reserved or framing) keeps the server's value whatever the handler sets *)
Theorem outgoing_no_forgery : forall md h k,
  is_reserved (lower k) || is_framing (lower k) = true -> hget k (set_outgoing h md) = hget k h.
Proof.
  unfold set_outgoing. induction md as [|[k0 vs0] md IH]; intros h k Hk; cbn [fold_left]; [reflexivity|].
  rewrite IH by exact Hk. unfold outgoing_entry. cbn [fst snd].
  destruct (is_reserved (lower k0) || is_framing (lower k0)) eqn:R0; [reflexivity|].
  assert (Hne : bytes_eqb (lower k0) (lower k) = false).
  { destruct (bytes_eqb (lower k0) (lower k)) eqn:E; [|reflexivity]. apply bytes_eqb_eq in E. rewrite E in R0. congruence. }
  destruct (is_bin (lower k0)); apply hget_hset_other; exact Hne.
Qed.

(* every other key set by the handler is on the response with all its values, -bin values encoded;
   stated for metadata with distinct keys (metadata.MD is a map) *)

Theorem outgoing_complete : forall md h k vs,
  NoDup (map (fun e => lower (fst e)) md) -> In (k, vs) md ->
  is_reserved (lower k) || is_framing (lower k) = false ->
  hget k (set_outgoing h md) = Some (out_vals k vs).
Proof.
  unfold set_outgoing. induction md as [|[k0 vs0] md IH]; intros h k vs Hnd Hin Hk; [contradiction|].
  cbn [map fst] in Hnd. inversion Hnd as [|? ? Hnotin Hnd']; subst. cbn [fold_left].
  destruct Hin as [E|Hin].
  - inversion E; subst k0 vs0. unfold outgoing_entry at 2. cbn [fst snd]. rewrite Hk.
    assert (Keep : forall md' h', ~ In (lower k) (map (fun e => lower (fst e)) md') ->
              hget k (fold_left (fun acc e => match outgoing_entry e with Some (k1, vs1) => hset k1 vs1 acc | None => acc end) md' h') = hget k h').
    { induction md' as [|[k1 vs1] md' IH']; intros h' Hn; cbn [fold_left]; [reflexivity|].
      cbn [map fst In] in Hn. rewrite IH' by tauto. unfold outgoing_entry. cbn [fst snd].
      destruct (is_reserved (lower k1) || is_framing (lower k1)); [reflexivity|].
      assert (bytes_eqb (lower k1) (lower k) = false).
      { destruct (bytes_eqb (lower k1) (lower k)) eqn:E1; [|reflexivity]. apply bytes_eqb_eq in E1. exfalso. apply Hn. left. exact E1. }
      destruct (is_bin (lower k1)); now apply hget_hset_other. }
    rewrite Keep by exact Hnotin. unfold out_vals. destruct (is_bin (lower k)); apply hget_hset_same.
  - apply IH; auto.
Qed.

(* trailers written under the TrailerPrefix are delivered whatever was announced *)
Lemma has_prefix_app p k : has_prefix p (p ++ k) = true.
Proof. unfold has_prefix. pose proof (firstn_app_len p k 0) as F. rewrite Nat.add_0_r in F. rewrite F. cbn. rewrite app_nil_r. apply bytes_eqb_refl'. Qed.

Theorem prefixed_trailer_delivered declared h k vs :
  In (trailer_prefix ++ k, vs) h -> In (k, vs) (delivered_trailers declared h).
Proof.
  intros Hin. unfold delivered_trailers. apply filter_map_in. exists (trailer_prefix ++ k, vs). split; [exact Hin|].
  cbn [fst snd]. rewrite has_prefix_app.
  pose proof (skipn_app_len trailer_prefix k 0) as S. rewrite Nat.add_0_r in S. rewrite S. reflexivity.
Qed.
