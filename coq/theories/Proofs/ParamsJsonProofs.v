(* The conversion algorithm of Model/Params.v for bool / integer / enum-name text accepts exactly
   the texts of the grammar of Spec/Json3.v, with the same value. *)
From Larking Require Import Base.GoSem Model.Schema Model.Params Spec.Json3.
Local Open Scope N_scope.

(* ---- white space ---- *)
Definition notws (c : N) : Prop := is_json_ws c = false.

Lemma is_json_ws_iff c : is_json_ws c = true <-> j3_ws c.
Proof.
  unfold is_json_ws, j3_ws. rewrite !orb_true_iff, !N.eqb_eq. tauto.
Qed.

Lemma drop_ws_app_ws w s : Forall j3_ws w -> drop_ws (w ++ s) = drop_ws s.
Proof.
  induction 1 as [|c w Hc _ IH]; cbn [app drop_ws]; auto.
  apply is_json_ws_iff in Hc. rewrite Hc. exact IH.
Qed.

Definition hd_ok (b : bytes) : Prop := match b with c :: _ => notws c | [] => False end.

Lemma hd_ok_drop b x : hd_ok b -> drop_ws (b ++ x) = b ++ x.
Proof.
  destruct b as [|c r]; cbn [hd_ok app drop_ws]; [tauto|].
  unfold notws. intros E. rewrite E. reflexivity.
Qed.

Lemma Forall_hd_ok b : Forall notws b -> b <> [] -> hd_ok b.
Proof.
  intros H Hne. destruct H as [|c r Hc Hr]; [congruence|]. exact Hc.
Qed.

(* w1 b w2 with b non-empty and free of white space at both ends (here: everywhere) trims to b *)
Lemma trim_ws_padded w1 b w2 :
  Forall j3_ws w1 -> Forall j3_ws w2 -> Forall notws b -> b <> [] -> trim_ws (w1 ++ b ++ w2) = b.
Proof.
  intros H1 H2 Hb Hne. unfold trim_ws.
  rewrite drop_ws_app_ws by assumption.
  rewrite hd_ok_drop by (apply Forall_hd_ok; assumption).
  rewrite rev_app_distr.
  rewrite drop_ws_app_ws by (apply Forall_rev; assumption).
  assert (Hh : hd_ok (rev b)).
  { apply Forall_hd_ok; [apply Forall_rev; assumption|].
    intros E. apply Hne. rewrite <- (rev_involutive b), E. reflexivity. }
  pose proof (hd_ok_drop (rev b) [] Hh) as E. rewrite app_nil_r in E. rewrite E.
  apply rev_involutive.
Qed.

Lemma drop_ws_split s : exists w, Forall j3_ws w /\ s = w ++ drop_ws s.
Proof.
  induction s as [|c r IH]; cbn [drop_ws].
  - exists []. split; [constructor|reflexivity].
  - destruct (is_json_ws c) eqn:E.
    + destruct IH as (w & Hw & Hs). exists (c :: w). split.
      * constructor; [apply is_json_ws_iff; exact E|exact Hw].
      * cbn [app]. f_equal. exact Hs.
    + exists []. split; [constructor|reflexivity].
Qed.

Lemma trim_ws_split raw :
  exists w1 w2, Forall j3_ws w1 /\ Forall j3_ws w2 /\ raw = w1 ++ trim_ws raw ++ w2.
Proof.
  destruct (drop_ws_split raw) as (w1 & H1 & E1).
  destruct (drop_ws_split (rev (drop_ws raw))) as (w & Hw & E2).
  exists w1, (rev w). split; [exact H1|]. split; [apply Forall_rev; exact Hw|].
  unfold trim_ws. rewrite <- rev_app_distr, <- E2, rev_involutive. exact E1.
Qed.

(* ---- digit strings ---- *)
Lemma digits_val_pos : forall s acc,
  digits_val acc s = (acc * 10 ^ Z.of_nat (length s) + pos_value s)%Z.
Proof.
  induction s as [|c r IH]; intros acc; cbn [digits_val pos_value length].
  - change (Z.of_nat 0) with 0%Z. rewrite Z.pow_0_r. ring.
  - rewrite IH, Nat2Z.inj_succ, Z.pow_succ_r by apply Nat2Z.is_nonneg. ring.
Qed.

Lemma digits_val_0 s : digits_val 0 s = pos_value s.
Proof. rewrite digits_val_pos. ring. Qed.

Lemma is_digit_iff c : is_digit c = true <-> j3_digit c.
Proof. unfold is_digit, j3_digit. rewrite andb_true_iff, !N.leb_le. tauto. Qed.

Lemma forallb_digit s : forallb is_digit s = true <-> Forall j3_digit s.
Proof.
  induction s as [|c r IH]; cbn [forallb].
  - split; auto.
  - rewrite andb_true_iff, is_digit_iff, IH. split.
    + intros [? ?]; constructor; assumption.
    + intros H; inversion H; auto.
Qed.

Lemma is_nat_lit_iff s : is_nat_lit s = true <-> nat_text (pos_value s) s.
Proof.
  unfold nat_text. destruct s as [|c r].
  - cbn [is_nat_lit]. split; [discriminate|]. intros (H & _). congruence.
  - unfold is_nat_lit. rewrite andb_true_iff, orb_true_iff, forallb_digit, negb_true_iff, N.eqb_neq.
    cbn [hd length]. split.
    + intros (HF & Hz). split; [discriminate|]. split; [exact HF|]. split; [|reflexivity].
      destruct Hz as [Hz|Hz]; [right; exact Hz|left].
      destruct r; [reflexivity|cbn [is_nil] in Hz; discriminate].
    + intros (_ & HF & Hz & _). split; [exact HF|].
      destruct Hz as [Hz|Hz]; [right|left; exact Hz].
      destruct r; [reflexivity|cbn [length] in Hz; lia].
Qed.

Lemma digit_notws c : j3_digit c -> notws c.
Proof.
  unfold j3_digit, notws, is_json_ws. intros [H1 H2].
  destruct (N.eqb_spec c 32), (N.eqb_spec c 9), (N.eqb_spec c 10), (N.eqb_spec c 13);
    try reflexivity; exfalso; lia.
Qed.

Lemma digit_not_minus c : j3_digit c -> (c =? 45) = false.
Proof. unfold j3_digit. intros [H1 H2]. apply N.eqb_neq. lia. Qed.

Lemma digits_not_null ds : Forall j3_digit ds -> bytes_eqb ds lit_null = false.
Proof.
  intros H. destruct (bytes_eqb ds lit_null) eqn:E; [|reflexivity].
  apply bytes_eqb_eq in E. subst ds. unfold lit_null in H.
  inversion H as [|? ? Hd _]. unfold j3_digit in Hd. exfalso. lia.
Qed.

Ltac closed_notws := repeat (apply Forall_cons; [vm_compute; reflexivity|]); apply Forall_nil.

Lemma null_notws : Forall notws t_null.
Proof. unfold t_null. closed_notws. Qed.

Lemma int_body_notws u z b : int_body u z b -> Forall notws b /\ b <> [].
Proof.
  intros Hb. destruct Hb as [|n ds Hn|n ds Hu Hn].
  - split; [apply null_notws|discriminate].
  - destruct Hn as (Hne & HF & _). split; [|exact Hne].
    apply (Forall_impl _ digit_notws). exact HF.
  - destruct Hn as (Hne & HF & _). split; [|discriminate].
    apply Forall_cons; [vm_compute; reflexivity|].
    apply (Forall_impl _ digit_notws). exact HF.
Qed.

(* ---- integers ---- *)
Definition int_core (unsigned : bool) (lo hi : Z) (t : bytes) : option Z :=
  if bytes_eqb t lit_null then Some 0%Z
  else match int_lit t with
       | Some z => if unsigned && has_minus t then None
                   else if (lo <=? z)%Z && (z <=? hi)%Z then Some z else None
       | None => None
       end.

Lemma json_int_core u lo hi raw : json_int u lo hi raw = int_core u lo hi (trim_ws raw).
Proof. reflexivity. Qed.

Lemma int_core_sound u lo hi t z :
  (lo <= 0 <= hi)%Z -> int_core u lo hi t = Some z -> int_body u z t /\ (lo <= z <= hi)%Z.
Proof.
  unfold int_core. intros H0 H.
  destruct (bytes_eqb t lit_null) eqn:En.
  - apply bytes_eqb_eq in En. inversion H; subst. split; [apply ib_null|exact H0].
  - destruct (int_lit t) as [z0|] eqn:El; [|discriminate].
    destruct t as [|c r]; [discriminate El|]. cbn [int_lit has_minus] in *.
    destruct (c =? 45) eqn:Ec.
    + apply N.eqb_eq in Ec. subst c.
      destruct (is_nat_lit r) eqn:Hn; [|discriminate].
      assert (Ez : z0 = (- digits_val 0 r)%Z) by congruence. subst z0. clear El.
      destruct u; cbn [andb] in H; [discriminate|].
      destruct ((lo <=? - digits_val 0 r)%Z && (- digits_val 0 r <=? hi)%Z) eqn:Er; [|discriminate].
      assert (Ez : z = (- digits_val 0 r)%Z) by congruence. subst z. clear H.
      apply andb_true_iff in Er. rewrite !Z.leb_le in Er. split; [|exact Er].
      rewrite digits_val_0. apply ib_neg; [reflexivity|].
      apply is_nat_lit_iff. exact Hn.
    + destruct (is_nat_lit (c :: r)) eqn:Hn; [|discriminate].
      assert (Ez : z0 = digits_val 0 (c :: r)) by congruence. subst z0. clear El.
      rewrite andb_false_r in H.
      destruct ((lo <=? digits_val 0 (c :: r))%Z && (digits_val 0 (c :: r) <=? hi)%Z) eqn:Er;
        [|discriminate].
      assert (Ez : z = digits_val 0 (c :: r)) by congruence. subst z. clear H.
      apply andb_true_iff in Er. rewrite !Z.leb_le in Er. split; [|exact Er].
      rewrite digits_val_0. apply ib_pos.
      apply is_nat_lit_iff. exact Hn.
Qed.

Lemma int_core_complete u lo hi t z :
  int_body u z t -> (lo <= z <= hi)%Z -> int_core u lo hi t = Some z.
Proof.
  intros Hb. destruct Hb as [|n ds Hn|n ds Hu Hn]; intros Hr; unfold int_core.
  - reflexivity.
  - pose proof Hn as (Hne & HF & _ & Hv). subst n.
    rewrite (digits_not_null ds HF).
    apply is_nat_lit_iff in Hn.
    destruct ds as [|c r]; [congruence|]. cbn [int_lit has_minus].
    assert (Ec : (c =? 45) = false) by (apply digit_not_minus; inversion HF; assumption).
    rewrite Ec, Hn, andb_false_r, digits_val_0.
    replace ((lo <=? pos_value (c :: r))%Z && (pos_value (c :: r) <=? hi)%Z) with true; [reflexivity|].
    symmetry. apply andb_true_iff. rewrite !Z.leb_le. exact Hr.
  - pose proof Hn as (Hne & HF & _ & Hv). subst n u.
    apply is_nat_lit_iff in Hn.
    replace (bytes_eqb (45 :: ds) lit_null) with false by reflexivity.
    cbn [int_lit has_minus andb]. rewrite N.eqb_refl, Hn, digits_val_0.
    replace ((lo <=? - pos_value ds)%Z && (- pos_value ds <=? hi)%Z) with true; [reflexivity|].
    symmetry. apply andb_true_iff. rewrite !Z.leb_le. exact Hr.
Qed.

Theorem json_int_exact : forall unsigned lo hi raw z, (lo <= 0 <= hi)%Z ->
  (json_int unsigned lo hi raw = Some z <-> json3_int unsigned lo hi z raw).
Proof.
  intros u lo hi raw z H0. rewrite json_int_core. split.
  - intros H. apply int_core_sound in H; [|exact H0]. destruct H as [Hb Hr].
    destruct (trim_ws_split raw) as (w1 & w2 & H1 & H2 & E).
    split; [|exact Hr]. exists w1, (trim_ws raw), w2. auto.
  - intros [(w1 & b & w2 & E & H1 & H2 & Hb) Hr]. subst raw.
    destruct (int_body_notws _ _ _ Hb) as [Hn Hne].
    rewrite trim_ws_padded by assumption. apply int_core_complete; assumption.
Qed.

(* ---- bool ---- *)
Definition bool_core (t : bytes) : option bool :=
  if bytes_eqb t lit_true then Some true
  else if bytes_eqb t lit_false then Some false
  else if bytes_eqb t lit_null then Some false
  else None.

Lemma json_bool_core raw : json_bool raw = bool_core (trim_ws raw).
Proof. reflexivity. Qed.

Lemma bool_body_notws v b : bool_body v b -> Forall notws b /\ b <> [].
Proof.
  intros Hb. destruct Hb; (split; [|discriminate]).
  - unfold t_true. closed_notws.
  - unfold t_false. closed_notws.
  - apply null_notws.
Qed.

Theorem json_bool_exact : forall raw b, json_bool raw = Some b <-> json3_bool b raw.
Proof.
  intros raw b. rewrite json_bool_core. unfold json3_bool. split.
  - intros H. destruct (trim_ws_split raw) as (w1 & w2 & H1 & H2 & E).
    exists w1, (trim_ws raw), w2. split; [exact E|]. split; [exact H1|]. split; [exact H2|].
    unfold bool_core in H.
    destruct (bytes_eqb (trim_ws raw) lit_true) eqn:E1.
    { apply bytes_eqb_eq in E1. rewrite E1. inversion H; subst b. apply bb_true. }
    destruct (bytes_eqb (trim_ws raw) lit_false) eqn:E2.
    { apply bytes_eqb_eq in E2. rewrite E2. inversion H; subst b. apply bb_false. }
    destruct (bytes_eqb (trim_ws raw) lit_null) eqn:E3; [|discriminate].
    apply bytes_eqb_eq in E3. rewrite E3. inversion H; subst b. apply bb_null.
  - intros (w1 & t & w2 & E & H1 & H2 & Hb). subst raw.
    destruct (bool_body_notws _ _ Hb) as [Hn Hne].
    rewrite trim_ws_padded by assumption.
    destruct Hb; reflexivity.
Qed.

(* ---- enum value names ---- *)
Theorem enum_by_name_exact : forall vals s z, enum_by_name vals s = Some z <-> name_text vals z s.
Proof.
  intros vals s z. unfold name_text. induction vals as [|[n z0] r IH]; cbn [enum_by_name].
  - split; [discriminate|]. intros (l1 & l2 & E & _). destruct l1; discriminate E.
  - destruct (bytes_eqb n s) eqn:En.
    + apply bytes_eqb_eq in En. subst n. split.
      * intros H. inversion H; subst z0. exists [], r. split; [reflexivity|].
        intros nz [].
      * intros (l1 & l2 & E & Hl). destruct l1 as [|p l1].
        -- cbn [app] in E. inversion E. reflexivity.
        -- cbn [app] in E. inversion E; subst p. exfalso.
           apply (Hl (s, z0)); [left; reflexivity|reflexivity].
    + assert (Hne : n <> s).
      { intros E. apply bytes_eqb_eq in E. congruence. }
      rewrite IH. split.
      * intros (l1 & l2 & E & Hl). exists ((n, z0) :: l1), l2. split.
        -- cbn [app]. f_equal. exact E.
        -- intros nz [Hin|Hin]; [subst nz; exact Hne|apply Hl; exact Hin].
      * intros (l1 & l2 & E & Hl). destruct l1 as [|p l1].
        -- cbn [app] in E. inversion E. congruence.
        -- cbn [app] in E. inversion E; subst p. exists l1, l2. split; [reflexivity|].
           intros nz Hin. apply Hl. right. exact Hin.
Qed.

(* ---- the four integer classes ---- *)
Lemma iclass_range c : (iclass_lo c <= 0 <= iclass_hi c)%Z.
Proof. destruct c; split; apply Z.leb_le; vm_compute; reflexivity. Qed.

Corollary json_iclass_exact : forall c raw z,
  json_iclass c raw = Some z <->
  json3_int (iclass_unsigned c) (iclass_lo c) (iclass_hi c) z raw.
Proof.
  intros c raw z. unfold json_iclass. apply json_int_exact. apply iclass_range.
Qed.

Print Assumptions json_int_exact.
Print Assumptions json_bool_exact.
Print Assumptions enum_by_name_exact.
Print Assumptions json_iclass_exact.
