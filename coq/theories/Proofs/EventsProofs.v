(* Proofs about Model/Events.v (C18). *)
From Larking Require Import Base.GoSem Spec.EventsSpec Model.Events.
Local Open Scope nat_scope.

(* ---------- small facts ---------- *)

Lemma arun_app q l1 l2 : arun q (l1 ++ l2) = match arun q l1 with Some q' => arun q' l2 | None => None end.
Proof.
  revert q. induction l1 as [|e l1 IH]; intros q; cbn [arun app]; [reflexivity|].
  destruct (astep q e); [apply IH|reflexivity].
Qed.

Lemma in_payloads_app l1 l2 : in_payloads (l1 ++ l2) = in_payloads l1 ++ in_payloads l2.
Proof. induction l1 as [|e l1 IH]; cbn; [reflexivity|]. destruct e; cbn; rewrite ?IH; reflexivity. Qed.
Lemma out_payloads_app l1 l2 : out_payloads (l1 ++ l2) = out_payloads l1 ++ out_payloads l2.
Proof. induction l1 as [|e l1 IH]; cbn; [reflexivity|]. destruct e; cbn; rewrite ?IH; reflexivity. Qed.
Lemma end_codes_app l1 l2 : end_codes (l1 ++ l2) = end_codes l1 ++ end_codes l2.
Proof. induction l1 as [|e l1 IH]; cbn; [reflexivity|]. destruct e; cbn; rewrite ?IH; reflexivity. Qed.

Lemma pair_eqb_refl a : pair_eqb a a = true.
Proof. unfold pair_eqb. now rewrite !Nat.eqb_refl. Qed.
Lemma list_eqb_refl {A} (eqb : A -> A -> bool) : (forall x, eqb x x = true) -> forall l, list_eqb eqb l l = true.
Proof. intros H. induction l as [|x l IH]; cbn; [reflexivity|]. now rewrite H, IH. Qed.
Lemma name_eqb_refl m : name_eqb m m = true.
Proof. apply bytes_eqb_eq. reflexivity. Qed.

Lemma be32_length n : length (be32 n) = 4.
Proof. reflexivity. Qed.

Lemma slice5_frame (p : bytes) : slice_from 5 (frame p) = Ok p.
Proof.
  unfold frame, be32, slice_from.
  cbn [app length Nat.leb skipn]. reflexivity.
Qed.

(* ---------- the stats flag only adds events ---------- *)

Definition with_stats (b : bool) (c : cfg) : cfg := mkCfg (c_http c) (c_cs c) (c_ss c) b (c_legacy c) (c_body c).
Definition sel {A} (b : bool) (l : list A) : list A := if b then l else [].

Lemma with_stats_id c : with_stats (c_stats c) c = c.
Proof. destruct c; reflexivity. Qed.

Lemma grpc_out_stats_ok c p : grpc_out_stats c p = Ok (emit c [out_payload p]).
Proof. unfold grpc_out_stats, emit. rewrite slice5_frame. destruct (c_stats c); reflexivity. Qed.

Lemma grpc_in_stats_ok c p : c_legacy c = false -> grpc_in_stats c p = Ok (emit c [in_payload p]).
Proof. intros L. unfold grpc_in_stats, emit. rewrite L. destruct (c_stats c); reflexivity. Qed.

(* an operation of the fixed code never fails below the level of Go errors, and the state and result
   it produces do not depend on whether a stats handler is installed *)
Definition uniform {R} (f : cfg -> outcome (list ev * st * R)) (c : cfg) : Prop :=
  exists e0 s' r, forall b, f (with_stats b c) = Ok (sel b e0, s', r).

Ltac split_ifs :=
  repeat match goal with
         | |- context [if ?b then _ else _] => destruct b
         | |- context [match ?l with [] => _ | _ :: _ => _ end] => destruct l
         | |- context [match ?x with (_, _) => _ end] => destruct x
         end.

Lemma step_uniform c a s : c_legacy c = false -> uniform (fun c => step c a s) c.
Proof.
  intros L. destruct c as [h cs ss stt lg bd]; cbn in L; subst lg. destruct s as [q re dn hsn sc om dl hl].
  unfold uniform, with_stats; cbn [c_http c_cs c_ss c_stats c_legacy c_body].
  destruct a as [|p| |]; cbn [step].
  - unfold do_recv; cbn [c_http]. destruct h.
    + unfold http_recv, http_deliver, emit; cbn [c_body c_cs c_stats reof inq].
      destruct bd; [destruct re; [|destruct cs; (destruct q as [|[p v] rest]; [|destruct v])]|destruct re];
        eexists; eexists; eexists; intros b; destruct b; cbn; reflexivity.
    + unfold grpc_recv; cbn [done inq].
      destruct dn; [|destruct q as [|[p v] rest]; [|destruct v]];
        try (eexists; eexists; eexists; intros b; destruct b; cbn; reflexivity).
  - unfold do_send; cbn [c_http]. destruct h.
    + unfold http_send, emit; cbn [c_stats scount hsent].
      destruct (Nat.eqb sc 0 && negb hsn); eexists; eexists; eexists; intros b; destruct b; cbn; reflexivity.
    + unfold grpc_send; cbn [done hsent]. destruct dn.
      * eexists; eexists; eexists; intros b; destruct b; cbn; reflexivity.
      * exists ((if hsn then [] else [EOutHeader]) ++ [out_payload p]). eexists. eexists. intros b.
        rewrite grpc_out_stats_ok. unfold emit; cbn [c_stats]. destruct b, hsn; reflexivity.
  - unfold do_header; cbn [c_http]. destruct h.
    + unfold http_header, emit; cbn [c_stats hsent]. destruct hsn; eexists; eexists; eexists; intros b; destruct b; cbn; reflexivity.
    + unfold grpc_header, emit; cbn [c_stats hsent done]. destruct dn; [|destruct hsn]; eexists; eexists; eexists; intros b; destruct b; cbn; reflexivity.
  - eexists; eexists; eexists; intros b; destruct b; reflexivity.
Qed.

Lemma lstep_uniform c a s : c_legacy c = false -> uniform (fun c => lstep c a s) c.
Proof.
  intros L. destruct (step_uniform c a s L) as (e0 & s' & r & H).
  exists e0, (add_log r s'), r. intros b. unfold lstep. now rewrite H.
Qed.

Lemma sel_app {A} b (l1 l2 : list A) : sel b l1 ++ sel b l2 = sel b (l1 ++ l2).
Proof. destruct b; reflexivity. Qed.

Lemma run_acts_uniform c acts final s : c_legacy c = false -> uniform (fun c => run_acts c acts final s) c.
Proof.
  intros L. revert s. induction acts as [|a rest IH]; intros s.
  - exists [], s, final. intros b; destruct b; reflexivity.
  - destruct (lstep_uniform c a s L) as (e1 & s1 & r & H1).
    destruct (IH s1) as (e2 & s2 & code & H2).
    destruct r as [| |k].
    + exists (e1 ++ e2), s2, code. intros b. cbn [run_acts]. rewrite H1, H2, sel_app. reflexivity.
    + exists (e1 ++ e2), s2, code. intros b. cbn [run_acts]. rewrite H1, H2, sel_app. reflexivity.
    + exists e1, s1, k. intros b. cbn [run_acts]. rewrite H1. reflexivity.
Qed.

Lemma do_send_uniform c p s : c_legacy c = false -> uniform (fun c => do_send c p s) c.
Proof. intros L. exact (step_uniform c (ASend p) s L). Qed.

Lemma handler_uniform c md h s :
  c_legacy c = false -> imode_ok (is_unary h) md ->
  exists e0 s' code ir, forall b, handler (with_stats b c) md h s = Ok (sel b e0, s', code, ir).
Proof.
  intros L OK. destruct h as [pre reply final|acts final]; cbn [handler].
  - unfold unary_handler.
    destruct (lstep_uniform c ARecv s L) as (e1 & s1 & r & H1).
    destruct r as [| |k].
    2:{ exists e1, s1, 2, None. intros b. rewrite H1. reflexivity. }
    2:{ exists e1, s1, k, None. intros b. rewrite H1. reflexivity. }
    destruct (run_acts_uniform c (filter unary_act pre) final s1 L) as (e2 & s2 & code & H2).
    specialize (OK eq_refl).
    destruct md as [|k|k|m|m].
    + destruct (Nat.eqb code 0) eqn:EC.
      * destruct (do_send_uniform c reply s2 L) as (e3 & s3 & r3 & H3).
        exists (e1 ++ e2 ++ e3), s3, (code_of r3), (Some code). intros b.
        rewrite H1, H2. cbn iota beta. rewrite EC, H3, !sel_app. reflexivity.
      * exists (e1 ++ e2), s2, code, (Some code). intros b.
        rewrite H1, H2. cbn iota beta. rewrite EC, sel_app. reflexivity.
    + destruct k as [|k]; [congruence|].
      exists (e1 ++ []), s1, (S k), (Some (S k)). intros b. rewrite H1. cbn iota beta.
      cbn [Nat.eqb]. rewrite <- sel_app. destruct b; reflexivity.
    + destruct k as [|k]; [congruence|].
      exists (e1 ++ e2), s2, (S k), (Some (S k)). intros b. rewrite H1, H2. cbn iota beta.
      cbn [Nat.eqb]. rewrite sel_app. reflexivity.
    + destruct (Nat.eqb code 0) eqn:EC.
      * destruct (do_send_uniform c m s2 L) as (e3 & s3 & r3 & H3).
        exists (e1 ++ e2 ++ e3), s3, (code_of r3), (Some code). intros b.
        rewrite H1, H2. cbn iota beta. rewrite EC, H3, !sel_app. reflexivity.
      * exists (e1 ++ e2), s2, code, (Some code). intros b.
        rewrite H1, H2. cbn iota beta. rewrite EC, sel_app. reflexivity.
    + destruct (do_send_uniform c m s1 L) as (e3 & s3 & r3 & H3).
      exists (e1 ++ [] ++ e3), s3, (code_of r3), (Some 0). intros b.
      rewrite H1. cbn iota beta. cbn [Nat.eqb]. rewrite H3. cbn [app]. rewrite sel_app. reflexivity.
  - unfold stream_handler.
    destruct (run_acts_uniform c acts final s L) as (e & s1 & code & H).
    destruct md as [|k|k|m|m].
    + exists e, s1, code, (Some code). intros b. rewrite H. reflexivity.
    + exists [], s, k, (Some k). intros b. destruct b; reflexivity.
    + exists e, s1, k, (Some k). intros b. rewrite H. reflexivity.
    + exists e, s1, code, (Some code). intros b. rewrite H. reflexivity.
    + exists e, s1, code, (Some code). intros b. rewrite H. reflexivity.
Qed.

(* ---------- the events of the handler phase ---------- *)

Definition mid (s : st) : astate := if hsent s then AH else AN.
Definition inv (s : st) : Prop := scount s = 0 \/ hsent s = true.
Definition lens (l : list bytes) : list (nat * nat) := map payload_stat (map (@length N) l).

(* stats handler installed: from state s the events e lead to s' -- the automaton follows sentHeader,
   every delivered message has its InPayload, every written message its OutPayload, no End *)
Definition good_on (s : st) (e : list ev) (s' : st) : Prop :=
  inv s ->
  inv s' /\ arun (mid s) e = Some (mid s') /\
  lens (dlv s') = lens (dlv s) ++ in_payloads e /\
  lens (outm s') = lens (outm s) ++ out_payloads e /\
  end_codes e = [].

Definition good (c : cfg) (s : st) (e : list ev) (s' : st) : Prop :=
  (c_stats c = false -> e = []) /\ (c_stats c = true -> good_on s e s').

Lemma lens_app a b : lens (a ++ b) = lens a ++ lens b.
Proof. unfold lens. now rewrite !map_app. Qed.

Lemma good_refl c s : good c s [] s.
Proof. split; [reflexivity|]. intros _ I. repeat split; auto; cbn; now rewrite app_nil_r. Qed.

Lemma good_trans c s e1 s1 e2 s2 : good c s e1 s1 -> good c s1 e2 s2 -> good c s (e1 ++ e2) s2.
Proof.
  intros [F1 G1] [F2 G2]. split.
  - intros ST. now rewrite (F1 ST), (F2 ST).
  - intros ST I. destruct (G1 ST I) as (I1 & A1 & D1 & O1 & E1). destruct (G2 ST I1) as (I2 & A2 & D2 & O2 & E2).
    repeat split; auto.
    + rewrite arun_app, A1. exact A2.
    + rewrite D2, D1, in_payloads_app, app_assoc. reflexivity.
    + rewrite O2, O1, out_payloads_app, app_assoc. reflexivity.
    + rewrite end_codes_app, E1, E2. reflexivity.
Qed.

Lemma good_log c s e s' r : good c s e s' -> good c s e (add_log r s').
Proof.
  intros [F G]. split; [exact F|]. intros ST I. destruct (G ST I) as (I1 & A1 & D1 & O1 & E1). repeat split; auto.
Qed.

Ltac dh := repeat match goal with |- context [if ?b then AH else AN] => is_var b; destruct b end.

Lemma step_on c a s e s' r :
  c_legacy c = false -> c_stats c = true -> step c a s = Ok (e, s', r) -> good_on s e s'.
Proof.
  intros L ST. destruct c as [h cs ss stt lg bd]; cbn in L, ST; subst lg stt. destruct s as [q re dn hsn sc om dl hl].
  destruct a as [|p| |]; cbn [step].
  - unfold do_recv; cbn [c_http]. destruct h.
    + unfold http_recv, http_deliver, emit; cbn [c_body c_cs c_stats reof inq].
      destruct bd; [destruct re; [|destruct cs; (destruct q as [|[p v] rest]; [|destruct v])]|destruct re];
        intros H; inversion H; subst; clear H; intros I; unfold inv, mid, lens in *; cbn in *;
          rewrite ?map_app, ?app_nil_r; cbn; dh; cbn; repeat split; auto.
    + unfold grpc_recv; cbn [done inq].
      destruct dn; [|destruct q as [|[p v] rest]; [|destruct v]]; cbn;
        intros H; inversion H; subst; clear H; intros I; unfold inv, mid, lens in *; cbn in *;
          rewrite ?map_app, ?app_nil_r; cbn; dh; cbn; repeat split; auto.
  - unfold do_send; cbn [c_http]. destruct h.
    + unfold http_send, emit; cbn [c_stats scount hsent].
      destruct hsn.
      * rewrite andb_false_r. intros H; inversion H; subst; clear H; intros I; unfold inv, mid, lens in *; cbn in *;
          rewrite ?map_app, ?app_nil_r; cbn; repeat split; auto.
      * intros H I. unfold inv in I; cbn in I. destruct I as [I|I]; [subst sc|discriminate]. cbn in H.
        inversion H; subst; clear H. unfold inv, mid, lens; cbn. rewrite ?map_app, ?app_nil_r; cbn; repeat split; auto.
    + unfold grpc_send; cbn [done hsent]. rewrite grpc_out_stats_ok. unfold emit; cbn [c_stats].
      destruct dn; intros H; inversion H; subst; clear H; intros I; unfold inv, mid, lens in *; cbn in *;
        destruct hsn; cbn; rewrite ?map_app, ?app_nil_r; cbn; dh; cbn; repeat split; auto.
  - unfold do_header; cbn [c_http]. destruct h.
    + unfold http_header, emit; cbn [c_stats hsent]. destruct hsn;
        intros H; inversion H; subst; clear H; intros I; unfold inv, mid, lens in *; cbn in *;
          rewrite ?app_nil_r; dh; cbn; repeat split; auto.
    + unfold grpc_header, emit; cbn [c_stats hsent done]. destruct dn; [|destruct hsn];
        intros H; inversion H; subst; clear H; intros I; unfold inv, mid, lens in *; cbn in *;
          rewrite ?app_nil_r; dh; cbn; repeat split; auto.
  - intros H; inversion H; subst; clear H; intros I; unfold inv, mid, lens in *; cbn in *;
      rewrite ?app_nil_r; dh; cbn; repeat split; auto.
Qed.


Lemma step_off c a s e s' r :
  c_legacy c = false -> c_stats c = false -> step c a s = Ok (e, s', r) -> e = [].
Proof.
  intros L ST H. destruct (step_uniform c a s L) as (e0 & s1 & r1 & U). specialize (U false).
  rewrite <- ST, with_stats_id in U. rewrite U in H. inversion H. rewrite ST. reflexivity.
Qed.

Lemma step_good c a s e s' r : c_legacy c = false -> step c a s = Ok (e, s', r) -> good c s e s'.
Proof. intros L H. split; intros ST; [eapply step_off|eapply step_on]; eauto. Qed.

Lemma lstep_good c a s e s' r : c_legacy c = false -> lstep c a s = Ok (e, s', r) -> good c s e s'.
Proof.
  intros L. unfold lstep. destruct (step c a s) as [[[e0 s0] r0]| | |] eqn:H; intros E; try discriminate.
  inversion E; subst. apply good_log. eapply step_good; eauto.
Qed.

Lemma run_acts_good c acts final : c_legacy c = false ->
  forall s e s' code, run_acts c acts final s = Ok (e, s', code) -> good c s e s'.
Proof.
  intros L. induction acts as [|a rest IH]; intros s e s' code; cbn [run_acts].
  - intros E; inversion E; subst. apply good_refl.
  - destruct (lstep c a s) as [[[e1 s1] r]| | |] eqn:H1; try discriminate.
    pose proof (lstep_good _ _ _ _ _ _ L H1) as G1.
    destruct r as [| |k].
    + destruct (run_acts c rest final s1) as [[[e2 s2] code2]| | |] eqn:H2; intros E; try discriminate.
      inversion E; subst. eapply good_trans; eauto.
    + destruct (run_acts c rest final s1) as [[[e2 s2] code2]| | |] eqn:H2; intros E; try discriminate.
      inversion E; subst. eapply good_trans; eauto.
    + intros E; inversion E; subst. exact G1.
Qed.

Lemma do_send_nil_good c s e s' r : do_send_nil c s = Ok (e, s', r) -> good c s e s'.
Proof.
  unfold do_send_nil, http_send_nil, grpc_send_nil. destruct (c_http c); [discriminate|].
  destruct (done s); [|discriminate]. intros E; inversion E; subst. apply good_refl.
Qed.

Lemma good_nil_r c s e s' : good c s e s' -> good c s (e ++ []) s'.
Proof. now rewrite app_nil_r. Qed.

Lemma handler_good c md h s e s' herr ir :
  c_legacy c = false -> handler c md h s = Ok (e, s', herr, ir) -> good c s e s'.
Proof.
  intros L. destruct h as [pre reply final|acts final]; cbn [handler].
  - unfold unary_handler.
    destruct (lstep c ARecv s) as [[[e1 s1] r]| | |] eqn:H1; try discriminate.
    pose proof (lstep_good _ _ _ _ _ _ L H1) as G1.
    destruct r as [| |k]; try (intros E; inversion E; subst; exact G1).
    destruct md as [|k|k|m|m]; cbn iota beta.
    + destruct (run_acts c (filter unary_act pre) final s1) as [[[e2 s2] code2]| | |] eqn:H2; try discriminate.
      pose proof (run_acts_good _ _ _ L _ _ _ _ H2) as G2.
      destruct (Nat.eqb code2 0).
      * destruct (do_send c reply s2) as [[[e3 s3] r3]| | |] eqn:H3; try discriminate.
        intros E; inversion E; subst.
        eapply good_trans; [exact G1|]. eapply good_trans; [exact G2|]. exact (step_good c (ASend reply) _ _ _ _ L H3).
      * intros E; inversion E; subst. eapply good_trans; eauto.
    + destruct (Nat.eqb k 0).
      * destruct (do_send_nil c s1) as [[[e3 s3] r3]| | |] eqn:H3; try discriminate.
        intros E; inversion E; subst. cbn [app]. eapply good_trans; [exact G1|]. eapply do_send_nil_good; eauto.
      * intros E; inversion E; subst. apply good_nil_r. exact G1.
    + destruct (run_acts c (filter unary_act pre) final s1) as [[[e2 s2] code2]| | |] eqn:H2; try discriminate.
      pose proof (run_acts_good _ _ _ L _ _ _ _ H2) as G2.
      destruct (Nat.eqb k 0).
      * destruct (do_send_nil c s2) as [[[e3 s3] r3]| | |] eqn:H3; try discriminate.
        intros E; inversion E; subst.
        eapply good_trans; [exact G1|]. eapply good_trans; [exact G2|]. eapply do_send_nil_good; eauto.
      * intros E; inversion E; subst. eapply good_trans; eauto.
    + destruct (run_acts c (filter unary_act pre) final s1) as [[[e2 s2] code2]| | |] eqn:H2; try discriminate.
      pose proof (run_acts_good _ _ _ L _ _ _ _ H2) as G2.
      destruct (Nat.eqb code2 0).
      * destruct (do_send c m s2) as [[[e3 s3] r3]| | |] eqn:H3; try discriminate.
        intros E; inversion E; subst.
        eapply good_trans; [exact G1|]. eapply good_trans; [exact G2|]. exact (step_good c (ASend m) _ _ _ _ L H3).
      * intros E; inversion E; subst. eapply good_trans; eauto.
    + cbn [Nat.eqb]. destruct (do_send c m s1) as [[[e3 s3] r3]| | |] eqn:H3; try discriminate.
      intros E; inversion E; subst. cbn [app].
      eapply good_trans; [exact G1|]. exact (step_good c (ASend m) _ _ _ _ L H3).
  - unfold stream_handler. destruct md as [|k|k|m|m].
    + destruct (run_acts c acts final s) as [[[e2 s2] code2]| | |] eqn:H2; try discriminate.
      intros E; inversion E; subst. eapply run_acts_good; eauto.
    + intros E; inversion E; subst. apply good_refl.
    + destruct (run_acts c acts final s) as [[[e2 s2] code2]| | |] eqn:H2; try discriminate.
      intros E; inversion E; subst. eapply run_acts_good; eauto.
    + destruct (run_acts c acts final s) as [[[e2 s2] code2]| | |] eqn:H2; try discriminate.
      intros E; inversion E; subst. eapply run_acts_good; eauto.
    + destruct (run_acts c acts final s) as [[[e2 s2] code2]| | |] eqn:H2; try discriminate.
      intros E; inversion E; subst. eapply run_acts_good; eauto.
Qed.

(* ---------- C18_trace_wf ---------- *)

Lemma serve_routed legacy sc r :
  serve legacy sc = Ok r -> s_routed sc = true ->
  exists e s herr ir,
    handler (cfg_of legacy sc) (eff_mode sc) (s_hs sc) (st0 sc) = Ok (e, s, herr, ir) /\
    r = mkResult (match ir with Some _ => if s_icpt sc then [the_call sc] else [] | None => [] end)
          (emit (cfg_of legacy sc) [ETag (s_name sc); EInHeader (s_name sc); EBegin (s_cs sc) (s_ss sc)] ++ e ++
             (if c_http (cfg_of legacy sc) then emit (cfg_of legacy sc) [EOutTrailer; EEnd herr]
              else (if hsent s then [] else emit (cfg_of legacy sc) [EOutHeader]) ++ emit (cfg_of legacy sc) [EOutTrailer; EEnd herr]))
          (outm s) (Some herr) (hlog s) (dlv s) ir herr.
Proof.
  unfold serve. intros E R. rewrite R in E. cbn [negb] in E.
  destruct (handler (cfg_of legacy sc) (eff_mode sc) (s_hs sc) (st0 sc)) as [[[[e s] herr] ir]| | |]; try discriminate.
  inversion E; subst. exists e, s, herr, ir. split; reflexivity.
Qed.

Theorem trace_wf sc r :
  serve false sc = Ok r -> s_routed sc = true -> s_stats sc = true ->
  trace_ok (s_name sc) (s_cs sc) (s_ss sc) (map (@length N) (r_dlv r)) (map (@length N) (r_replies r)) (r_herr r) (r_events r) = true
  /\ r_status r = Some (r_herr r).
Proof.
  intros E R ST. destruct (serve_routed _ _ _ E R) as (e & s & herr & ir & H & ->).
  cbn [r_dlv r_replies r_herr r_events r_status]. split; [|reflexivity].
  assert (L : c_legacy (cfg_of false sc) = false) by reflexivity.
  assert (ST' : c_stats (cfg_of false sc) = true) by exact ST.
  destruct (handler_good _ _ _ _ _ _ _ _ L H) as [_ G].
  destruct (G ST') as (I1 & A1 & D1 & O1 & E1); [left; reflexivity|].
  unfold emit. rewrite ST'.
  set (post := if c_http (cfg_of false sc) then [EOutTrailer; EEnd herr]
               else (if hsent s then [] else [EOutHeader]) ++ [EOutTrailer; EEnd herr]).
  assert (P1 : arun (mid s) post = Some AE)
    by (unfold post, mid; destruct (c_http (cfg_of false sc)), (hsent s); reflexivity).
  assert (P2 : in_payloads post = [] /\ out_payloads post = [] /\ end_codes post = [herr])
    by (unfold post; destruct (c_http (cfg_of false sc)), (hsent s); repeat split; reflexivity).
  destruct P2 as (P2 & P3 & P4).
  unfold trace_ok. cbn [app]. rewrite !andb_true_iff. repeat split.
  - unfold accepts. cbn [arun astep]. rewrite arun_app. cbn [mid st0 hsent] in A1. rewrite A1, P1. reflexivity.
  - cbn [head_ok]. rewrite !name_eqb_refl, !Bool.eqb_reflx. reflexivity.
  - cbn [in_payloads]. rewrite in_payloads_app, P2, app_nil_r.
    cbn [st0 dlv lens map app] in D1. unfold lens in D1. rewrite <- D1. apply list_eqb_refl, pair_eqb_refl.
  - cbn [out_payloads]. rewrite out_payloads_app, P3, app_nil_r.
    cbn [st0 outm lens map app] in O1. unfold lens in O1. rewrite <- O1. apply list_eqb_refl, pair_eqb_refl.
  - cbn [end_codes]. rewrite end_codes_app, E1, P4. cbn. now rewrite Nat.eqb_refl.
Qed.

Lemma unrouted_silent legacy sc r :
  serve legacy sc = Ok r -> s_routed sc = false -> r_calls r = [] /\ r_events r = [] /\ r_replies r = [].
Proof. unfold serve. intros E R. rewrite R in E. cbn in E. inversion E; subst. repeat split. Qed.

Lemma no_stats_no_events sc r :
  serve false sc = Ok r -> s_stats sc = false -> r_events r = [].
Proof.
  intros E ST. destruct (s_routed sc) eqn:R; [|eapply unrouted_silent; eauto].
  destruct (serve_routed _ _ _ E R) as (e & s & herr & ir & H & ->). cbn [r_events].
  assert (L : c_legacy (cfg_of false sc) = false) by reflexivity.
  assert (ST' : c_stats (cfg_of false sc) = false) by exact ST.
  destruct (handler_good _ _ _ _ _ _ _ _ L H) as [F _]. rewrite (F ST').
  unfold emit. rewrite ST'. destruct (c_http (cfg_of false sc)), (hsent s); reflexivity.
Qed.

(* ---------- totality and transparency ---------- *)

Lemma cfg_of_stats sc : cfg_of false sc = with_stats (s_stats sc) (cfg_of false sc).
Proof. destruct sc; reflexivity. Qed.

Theorem serve_total sc :
  imode_ok (is_unary (s_hs sc)) (eff_mode sc) -> exists r, serve false sc = Ok r.
Proof.
  intros OK. unfold serve. destruct (s_routed sc); cbn [negb]; [|eexists; reflexivity].
  destruct (handler_uniform (cfg_of false sc) (eff_mode sc) (s_hs sc) (st0 sc) eq_refl OK) as (e0 & s' & code & ir & U).
  pose proof (U (s_stats sc)) as Us. rewrite <- cfg_of_stats in Us. cbv zeta. rewrite Us. eexists; reflexivity.
Qed.

Theorem transparent sc :
  eff_mode sc = IPass ->
  exists r r0, serve false sc = Ok r /\ serve false (plain sc) = Ok r0 /\
    client_view r = client_view r0 /\ r_hlog r = r_hlog r0 /\ r_dlv r = r_dlv r0 /\ r_herr r = r_herr r0.
Proof.
  intros M. unfold serve.
  assert (R : s_routed (plain sc) = s_routed sc) by reflexivity. rewrite R.
  destruct (s_routed sc) eqn:RT; cbn [negb].
  2:{ eexists; eexists. split; [reflexivity|]. split; [reflexivity|]. repeat split. }
  assert (OK : imode_ok (is_unary (s_hs sc)) IPass) by (intros _; exact I).
  destruct (handler_uniform (cfg_of false sc) IPass (s_hs sc) (st0 sc) eq_refl OK) as (e0 & s' & code & ir & U).
  assert (C0 : cfg_of false (plain sc) = with_stats false (cfg_of false sc)) by (destruct sc; reflexivity).
  assert (M0 : eff_mode (plain sc) = IPass) by reflexivity.
  assert (H0 : s_hs (plain sc) = s_hs sc) by reflexivity.
  assert (S0 : st0 (plain sc) = st0 sc) by reflexivity.
  pose proof (U (s_stats sc)) as Us. rewrite <- cfg_of_stats in Us. cbv zeta.
  rewrite M, M0, H0, S0, C0, Us, U.
  eexists; eexists. split; [reflexivity|]. split; [reflexivity|]. repeat split.
Qed.

(* ---------- exactly one interceptor call ---------- *)

Lemma calls_ok_the_call sc : calls_ok (is_unary (s_hs sc)) (s_name sc) (s_cs sc) (s_ss sc) [the_call sc] = true.
Proof.
  unfold calls_ok, the_call, expected_call. destruct (is_unary (s_hs sc)); cbn;
    rewrite name_eqb_refl, ?Bool.eqb_reflx; reflexivity.
Qed.

Lemma calls_shape sc r :
  serve false sc = Ok r -> s_routed sc = true ->
  r_calls r = match r_iret r with Some _ => if s_icpt sc then [the_call sc] else [] | None => [] end
  /\ r_status r = Some (r_herr r).
Proof. intros E R. destruct (serve_routed _ _ _ E R) as (e & s & herr & ir & H & ->). split; reflexivity. Qed.

Lemma stream_iret sc r :
  serve false sc = Ok r -> s_routed sc = true -> is_unary (s_hs sc) = false -> r_iret r = Some (r_herr r).
Proof.
  intros E R U. destruct (serve_routed _ _ _ E R) as (e & s & herr & ir & H & ->). cbn [r_iret r_herr].
  destruct (s_hs sc) as [pre reply final|acts final]; [discriminate|]. cbn [handler] in H. unfold stream_handler in H.
  destruct (eff_mode sc) as [|k|k|m|m].
  - destruct (run_acts _ acts final (st0 sc)) as [[[e2 s2] c2]| | |]; try discriminate. now inversion H.
  - now inversion H.
  - destruct (run_acts _ acts final (st0 sc)) as [[[e2 s2] c2]| | |]; try discriminate. now inversion H.
  - destruct (run_acts _ acts final (st0 sc)) as [[[e2 s2] c2]| | |]; try discriminate. now inversion H.
  - destruct (run_acts _ acts final (st0 sc)) as [[[e2 s2] c2]| | |]; try discriminate. now inversion H.
Qed.

Lemma no_cancel_tail a l : no_cancel (a :: l) = true -> no_cancel l = true.
Proof. cbn. intros H. apply andb_true_iff in H. tauto. Qed.

(* a unary handler has no stream: whatever it does, nothing is written, and the context stays alive
   unless it is cancelled *)
Lemma meta_keeps c final pre : forall s e s' code,
  run_acts c (filter unary_act pre) final s = Ok (e, s', code) ->
  outm s' = outm s /\ (no_cancel pre = true -> done s' = done s).
Proof.
  induction pre as [|a pre IH]; intros s e s' code; cbn [filter].
  - cbn. intros E; inversion E; subst. split; auto.
  - destruct a as [|p| |]; cbn [unary_act].
    + intros H. destruct (IH _ _ _ _ H) as [O D]. split; [exact O|]. intros NC. apply D. eapply no_cancel_tail; eauto.
    + intros H. destruct (IH _ _ _ _ H) as [O D]. split; [exact O|]. intros NC. apply D. eapply no_cancel_tail; eauto.
    + cbn [run_acts].
      assert (HL : exists e1 s1 r1, lstep c AHeader s = Ok (e1, s1, r1) /\ outm s1 = outm s /\ done s1 = done s).
      { unfold lstep; cbn [step]. unfold do_header, http_header, grpc_header.
        destruct (c_http c), (done s) eqn:DN, (hsent s); cbn; eexists; eexists; eexists; repeat split; auto. }
      destruct HL as (e1 & s1 & r1 & HL & O1 & D1). rewrite HL.
      destruct r1.
      * destruct (run_acts c (filter unary_act pre) final s1) as [[[e2 s2] c2]| | |] eqn:H2; try discriminate.
        intros E; inversion E; subst. destruct (IH _ _ _ _ H2) as [O D]. split; [congruence|].
        intros NC. rewrite D by (eapply no_cancel_tail; eauto). exact D1.
      * destruct (run_acts c (filter unary_act pre) final s1) as [[[e2 s2] c2]| | |] eqn:H2; try discriminate.
        intros E; inversion E; subst. destruct (IH _ _ _ _ H2) as [O D]. split; [congruence|].
        intros NC. rewrite D by (eapply no_cancel_tail; eauto). exact D1.
      * intros E; inversion E; subst. split; auto.
    + cbn [run_acts]. unfold lstep; cbn [step].
      destruct (run_acts c (filter unary_act pre) final _) as [[[e2 s2] c2]| | |] eqn:H2; try discriminate.
      intros E; inversion E; subst. destruct (IH _ _ _ _ H2) as [O D]. cbn in O. split; auto. cbn. discriminate.
Qed.

Lemma send_ok c p s :
  c_http c = true \/ done s = false ->
  exists e s', do_send c p s = Ok (e, s', ROk) /\ outm s' = outm s ++ [p] /\ hlog s' = hlog s /\ dlv s' = dlv s.
Proof.
  intros H. unfold do_send. destruct (c_http c) eqn:HT.
  - unfold http_send. eexists; eexists; split; [reflexivity|]. destruct (Nat.eqb (scount s) 0 && negb (hsent s)); repeat split.
  - destruct H as [H|H]; [discriminate|]. unfold grpc_send. rewrite H, grpc_out_stats_ok.
    eexists; eexists; split; [reflexivity|]. repeat split.
Qed.

Lemma send_nil_ok c s e s' r :
  c_http c = true \/ done s = false -> do_send_nil c s = Ok (e, s', r) -> False.
Proof.
  unfold do_send_nil, http_send_nil, grpc_send_nil. intros H. destruct (c_http c); [discriminate|].
  destruct H as [H|H]; [discriminate|]. rewrite H. discriminate.
Qed.

(* the decode of a unary method / the first RecvMsg: one entry in the handler's log *)
Lemma recv_first sc :
  exists e s1 x, lstep (cfg_of false sc) ARecv (st0 sc) = Ok (e, s1, x) /\
    (x = ROk <-> first_ok sc = true) /\ outm s1 = [] /\ done s1 = false /\ hlog s1 = [x].
Proof.
  destruct sc as [pr cs ss nm rt rb rq hs md ic stt].
  unfold lstep, first_ok, cfg_of, st0, req_has_body; cbn [step s_proto s_cs s_ss s_stats s_rule_body s_reqs is_http].
  unfold do_recv; cbn [c_http].
  destruct pr; cbn [is_http].
  - unfold http_recv, http_deliver; cbn [c_body c_cs reof inq].
    destruct rb; cbn [andb];
      [destruct cs; (destruct rq as [|[p v] rest]; cbn [is_nil negb];
                     [|try destruct p; cbn [is_nil negb]; try destruct v])|];
      eexists; eexists; eexists; (split; [reflexivity|]); cbn; repeat split; auto; try discriminate; try congruence.
  - unfold grpc_recv; cbn [done inq]. destruct rq as [|[p v] rest]; [|destruct v];
      [| rewrite grpc_in_stats_ok by reflexivity |];
      eexists; eexists; eexists; (split; [reflexivity|]); cbn; repeat split; auto; try discriminate; try congruence.
  - unfold grpc_recv; cbn [done inq]. destruct rq as [|[p v] rest]; [|destruct v];
      [| rewrite grpc_in_stats_ok by reflexivity |];
      eexists; eexists; eexists; (split; [reflexivity|]); cbn; repeat split; auto; try discriminate; try congruence.
Qed.

(* A unary method: the interceptor is reached iff the request message could be decoded; a non-OK
   code it returns is the client's status and nothing is sent; OK means the client gets exactly the
   message the interceptor layer returned (reply_of: its own in the modes IReplace / IAnswer, the
   handler's otherwise). On gRPC SendMsg fails once the call is cancelled, hence the side condition;
   an interceptor that answers without calling the handler (IAnswer) cannot be cancelled by it. *)
Theorem once_unary sc r pre reply final :
  serve false sc = Ok r -> s_routed sc = true -> s_hs sc = HUnary pre reply final ->
  (first_ok sc = false -> r_iret r = None /\ r_calls r = [] /\ r_replies r = []) /\
  (first_ok sc = true -> exists k, r_iret r = Some k /\
     (k <> 0 -> r_status r = Some k /\ r_replies r = []) /\
     (k = 0 -> s_proto sc = PHttp \/ no_cancel pre = true \/ (exists m, eff_mode sc = IAnswer m) ->
      r_status r = Some 0 /\ r_replies r = [reply_of (eff_mode sc) reply])).
Proof.
  intros E R HS. destruct (serve_routed _ _ _ E R) as (e & s & herr & ir & H & ->).
  cbn [r_iret r_calls r_replies r_status].
  rewrite HS in H. cbn [handler] in H. unfold unary_handler in H.
  destruct (recv_first sc) as (e1 & s1 & x & H1 & FX & O1 & D1 & _). rewrite H1 in H.
  assert (HT : s_proto sc = PHttp -> c_http (cfg_of false sc) = true) by (intros P; unfold cfg_of; cbn; now rewrite P).
  destruct x as [| |kx].
  2:{ inversion H; subst. split; [intros _; repeat split; auto|]. intros F. apply FX in F. discriminate. }
  2:{ inversion H; subst. split; [intros _; repeat split; auto|]. intros F. apply FX in F. discriminate. }
  split; [intros F; destruct FX as [FX _]; rewrite (FX eq_refl) in F; discriminate|]. intros _.
  destruct (eff_mode sc) as [|k|k|m|m]; cbn iota beta in H; cbn [reply_of].
  - destruct (run_acts _ (filter unary_act pre) final s1) as [[[e2 s2] code2]| | |] eqn:H2; try discriminate.
    destruct (meta_keeps _ _ _ _ _ _ _ H2) as [O2 D2]. rewrite O1 in O2. rewrite D1 in D2.
    destruct (Nat.eqb code2 0) eqn:EC.
    + apply Nat.eqb_eq in EC; subst code2. cbn iota in H.
      exists 0. split.
      { destruct (do_send _ reply s2) as [[[e3 s3] r3]| | |]; try discriminate. now inversion H. }
      split; [congruence|]. intros _ HC.
      destruct (send_ok (cfg_of false sc) reply s2) as (e3 & s3 & H3 & O3 & _).
      { destruct HC as [HC|[HC|(m & HC)]]; [left; auto|right; auto|discriminate]. }
      rewrite H3 in H. inversion H; subst. rewrite O3, O2. split; reflexivity.
    + cbn iota in H. inversion H; subst. exists herr. split; [reflexivity|]. split.
      * intros _. split; auto.
      * intros Z; subst. discriminate.
  - exists k. destruct (Nat.eqb k 0) eqn:EK.
    + apply Nat.eqb_eq in EK; subst k. cbn iota in H. cbn [app] in H.
      destruct (do_send_nil _ s1) as [[[e3 s3] r3]| | |] eqn:H3; try discriminate.
      exfalso. eapply send_nil_ok; [|exact H3]. right; exact D1.
    + cbn iota in H. inversion H; subst. split; [reflexivity|]. split.
      * intros _. split; auto.
      * intros Z; subst. discriminate.
  - destruct (run_acts _ (filter unary_act pre) final s1) as [[[e2 s2] code2]| | |] eqn:H2; try discriminate.
    destruct (meta_keeps _ _ _ _ _ _ _ H2) as [O2 D2]. rewrite O1 in O2. rewrite D1 in D2.
    exists k. destruct (Nat.eqb k 0) eqn:EK.
    + apply Nat.eqb_eq in EK; subst k. cbn iota in H.
      destruct (do_send_nil _ s2) as [[[e3 s3] r3]| | |] eqn:H3; try discriminate.
      split; [now inversion H|]. split; [congruence|]. intros _ HC. exfalso.
      eapply send_nil_ok; [|exact H3]. destruct HC as [HC|[HC|(m & HC)]]; [left; auto|right; auto|discriminate].
    + cbn iota in H. inversion H; subst. split; [reflexivity|]. split.
      * intros _. split; auto.
      * intros Z; subst. discriminate.
  - destruct (run_acts _ (filter unary_act pre) final s1) as [[[e2 s2] code2]| | |] eqn:H2; try discriminate.
    destruct (meta_keeps _ _ _ _ _ _ _ H2) as [O2 D2]. rewrite O1 in O2. rewrite D1 in D2.
    destruct (Nat.eqb code2 0) eqn:EC.
    + apply Nat.eqb_eq in EC; subst code2. cbn iota in H.
      exists 0. split.
      { destruct (do_send _ m s2) as [[[e3 s3] r3]| | |]; try discriminate. now inversion H. }
      split; [congruence|]. intros _ HC.
      destruct (send_ok (cfg_of false sc) m s2) as (e3 & s3 & H3 & O3 & _).
      { destruct HC as [HC|[HC|(m' & HC)]]; [left; auto|right; auto|discriminate]. }
      rewrite H3 in H. inversion H; subst. rewrite O3, O2. split; reflexivity.
    + cbn iota in H. inversion H; subst. exists herr. split; [reflexivity|]. split.
      * intros _. split; auto.
      * intros Z; subst. discriminate.
  - cbn [Nat.eqb] in H. exists 0.
    destruct (send_ok (cfg_of false sc) m s1) as (e3 & s3 & H3 & O3 & _); [right; exact D1|].
    rewrite H3 in H. inversion H; subst. split; [reflexivity|]. split; [congruence|].
    intros _ _. rewrite O3, O1. split; reflexivity.
Qed.

Lemma no_icpt_no_calls sc r : serve false sc = Ok r -> s_icpt sc = false -> r_calls r = [].
Proof.
  intros E IC. destruct (s_routed sc) eqn:R; [|eapply unrouted_silent; eauto].
  destruct (calls_shape _ _ E R) as [-> _]. rewrite IC. destruct (r_iret r); reflexivity.
Qed.

Theorem once sc r :
  serve false sc = Ok r -> s_routed sc = true -> s_icpt sc = true ->
  (r_iret r <> None -> calls_ok (is_unary (s_hs sc)) (s_name sc) (s_cs sc) (s_ss sc) (r_calls r) = true) /\
  (r_iret r = None -> r_calls r = []) /\
  (is_unary (s_hs sc) = false -> exists k, r_iret r = Some k /\ r_status r = Some k) /\
  (forall pre reply final, s_hs sc = HUnary pre reply final ->
     (first_ok sc = false -> r_iret r = None /\ r_replies r = []) /\
     (first_ok sc = true -> exists k, r_iret r = Some k /\
        (k <> 0 -> r_status r = Some k /\ r_replies r = []) /\
        (k = 0 -> s_proto sc = PHttp \/ no_cancel pre = true \/ (exists m, s_imode sc = IAnswer m) ->
         r_status r = Some 0 /\ r_replies r = [reply_of (s_imode sc) reply]))).
Proof.
  intros E R IC. assert (EM : eff_mode sc = s_imode sc) by (unfold eff_mode; now rewrite IC).
  destruct (calls_shape _ _ E R) as [CS ST]. split; [|split; [|split; [|intros pre reply final H; split]]].
  - intros NN. rewrite CS. destruct (r_iret r); [|congruence]. rewrite IC. apply calls_ok_the_call.
  - intros N. rewrite CS, N. reflexivity.
  - intros U. exists (r_herr r). split; [eapply stream_iret; eauto|exact ST].
  - intros F. destruct (once_unary _ _ _ _ _ E R H) as [A _]. destruct (A F) as (X & _ & Y). split; assumption.
  - intros F. destruct (once_unary _ _ _ _ _ E R H) as [_ B]. rewrite EM in B. exact (B F).
Qed.

Theorem silent sc r :
  serve false sc = Ok r ->
  (s_routed sc = false -> r_calls r = [] /\ r_events r = [] /\ r_replies r = []) /\
  (s_stats sc = false -> r_events r = []) /\
  (s_icpt sc = false -> r_calls r = []).
Proof.
  intros E. split; [|split].
  - exact (unrouted_silent false sc r E).
  - exact (no_stats_no_events sc r E).
  - exact (no_icpt_no_calls sc r E).
Qed.
