(* The routing trie (Model/Trie.v): get/set laws of upd, the structural invariant every built trie
   satisfies, provenance of every stored binding, totality of registration on lexed templates. *)
From Larking Require Import Base.GoSem Model.Lexer Model.Trie Model.Match Spec.Grammar Spec.Route
  Proofs.LexerProofs Proofs.MatchProofs.
From Coq Require Import Sorting.Sorted.
Local Open Scope N_scope.

Lemma str_eqb_eq a b : str_eqb a b = true <-> a = b.
Proof. apply (list_eqb_eq N.eqb N.eqb_eq). Qed.
Lemma str_eqb_refl a : str_eqb a a = true.
Proof. now apply str_eqb_eq. Qed.
Lemma str_eqb_neq a b : str_eqb a b = false <-> a <> b.
Proof.
  split.
  - intros H E. apply str_eqb_eq in E. congruence.
  - intros H. destruct (str_eqb a b) eqn:E; auto. apply str_eqb_eq in E. contradiction.
Qed.

(* ---- association lists ---- *)
Lemma assoc_set_eq {A} k (v : A) l : assoc k (set_assoc k v l) = Some v.
Proof.
  induction l as [|[k' v'] l IH]; cbn; [now rewrite str_eqb_refl|].
  destruct (str_eqb k' k) eqn:E; cbn; rewrite E; auto.
Qed.
Lemma assoc_set_neq {A} k k2 (v : A) l : k2 <> k -> assoc k2 (set_assoc k v l) = assoc k2 l.
Proof.
  intros Hne. induction l as [|[k' v'] l IH]; cbn.
  - replace (str_eqb k k2) with false; auto. symmetry. apply str_eqb_neq. congruence.
  - destruct (str_eqb k' k) eqn:E; cbn.
    + apply str_eqb_eq in E. subst k'. replace (str_eqb k k2) with false; auto. symmetry. apply str_eqb_neq. congruence.
    + destruct (str_eqb k' k2); auto.
Qed.
Lemma assoc_in {A} k (v : A) l : assoc k l = Some v -> In (k, v) l.
Proof.
  induction l as [|[k' v'] l IH]; cbn; [discriminate|].
  destruct (str_eqb k' k) eqn:E; intros H.
  - apply str_eqb_eq in E. inversion H; subst. now left.
  - right. auto.
Qed.

Lemma find_set_eq pat n l : find_var (spell pat) (set_var pat n l) = Some n.
Proof.
  induction l as [|[p n'] l IH]; cbn; [now rewrite str_eqb_refl|].
  destruct (str_eqb (spell p) (spell pat)) eqn:E; cbn; [now rewrite E|].
  destruct (str_ltb (spell pat) (spell p)); cbn; [now rewrite str_eqb_refl|]. now rewrite E.
Qed.
Lemma find_set_neq pat name n l : name <> spell pat -> find_var name (set_var pat n l) = find_var name l.
Proof.
  intros Hne. assert (Hf : str_eqb (spell pat) name = false) by (apply str_eqb_neq; congruence).
  induction l as [|[p n'] l IH]; cbn; [now rewrite Hf|].
  destruct (str_eqb (spell p) (spell pat)) eqn:E; cbn.
  - apply str_eqb_eq in E. rewrite E, Hf. reflexivity.
  - destruct (str_ltb (spell pat) (spell p)); cbn; [now rewrite Hf|]. destruct (str_eqb (spell p) name); auto.
Qed.

(* ---- edges by key ---- *)
Inductive ekey : Type := KLit : str -> ekey | KVar : str -> ekey.
Definition edge_key (e : edge) : ekey := match e with ELit k => KLit k | EVar pat => KVar (spell pat) end.
Definition keys (es : list edge) : list ekey := map edge_key es.

Lemma ekey_dec (a b : ekey) : {a = b} + {a <> b}.
Proof. decide equality; apply (list_eq_dec N.eq_dec). Qed.

(* walking depends on the keys only *)
Lemma walk_to_keys es1 : forall es2 nd, keys es1 = keys es2 -> walk_to es1 nd = walk_to es2 nd.
Proof.
  induction es1 as [|e1 es1 IH]; intros [|e2 es2] nd H; try discriminate; auto.
  cbn in H. inversion H as [[H1 H2]].
  destruct e1, e2; cbn in H1; try discriminate; inversion H1; subst; cbn.
  - destruct (assoc _ _); auto.
  - rewrite H3. destruct (find_var _ _); auto.
Qed.

(* what a node offers, apart from its children *)
Definition info (nd : node) := (n_meths nd, n_mall nd).
Definition info_at (nd : node) (es : list edge) : option (list (str * minfo) * option minfo) :=
  match walk_to es nd with Some n => Some (info n) | None => None end.

Fixpoint is_prefix (a b : list ekey) : bool :=
  match a, b with
  | [], _ => true
  | x :: a', y :: b' => if ekey_dec x y then is_prefix a' b' else false
  | _ :: _, [] => false
  end.

(* f rewrites only what the node offers, not its children *)
Definition keeps_children (f : node -> outcome node) : Prop :=
  forall nd nd', f nd = Ok nd' -> n_segs nd' = n_segs nd /\ n_vars nd' = n_vars nd.

(* the node upd hands to f: the one es0 leads to, or a fresh one *)
Definition leaf_of (nd : node) (es0 : list edge) : node :=
  match walk_to es0 nd with Some n => n | None => empty_node end.

Lemma walk_empty es : es <> [] -> walk_to es empty_node = None.
Proof. destruct es as [|[k|p] es]; [contradiction|reflexivity|reflexivity]. Qed.
Lemma leaf_of_empty es : leaf_of empty_node es = empty_node.
Proof. unfold leaf_of. destruct es as [|[k|p] es]; reflexivity. Qed.

Lemma leaf_of_lit nd k es :
  leaf_of nd (ELit k :: es) = leaf_of (match assoc k (n_segs nd) with Some c => c | None => empty_node end) es.
Proof. unfold leaf_of at 1. cbn [walk_to]. destruct (assoc k (n_segs nd)); [reflexivity|]. now rewrite leaf_of_empty. Qed.
Lemma leaf_of_var nd pat es :
  leaf_of nd (EVar pat :: es) = leaf_of (match find_var (spell pat) (n_vars nd) with Some c => c | None => empty_node end) es.
Proof. unfold leaf_of at 1. cbn [walk_to]. destruct (find_var (spell pat) (n_vars nd)); [reflexivity|]. now rewrite leaf_of_empty. Qed.

Lemma upd_leaf es0 : forall f nd nd',
  upd es0 f nd = Ok nd' -> exists leaf', f (leaf_of nd es0) = Ok leaf' /\ walk_to es0 nd' = Some leaf'.
Proof.
  induction es0 as [|[k|pat] es0 IH]; intros f nd nd' H; cbn in H.
  - exists nd'. split; [exact H|reflexivity].
  - destruct (upd es0 f _) as [c'| | |] eqn:Eu; try discriminate. inversion H; subst nd'. clear H.
    destruct (IH _ _ _ Eu) as (leaf' & Hf & Hw). exists leaf'. split.
    + rewrite leaf_of_lit. exact Hf.
    + cbn [walk_to n_segs]. now rewrite assoc_set_eq.
  - destruct (upd es0 f _) as [c'| | |] eqn:Eu; try discriminate. inversion H; subst nd'. clear H.
    destruct (IH _ _ _ Eu) as (leaf' & Hf & Hw). exists leaf'. split.
    + rewrite leaf_of_var. exact Hf.
    + cbn [walk_to n_vars]. now rewrite find_set_eq.
Qed.

Lemma info_at_empty es i : info_at empty_node es = Some i -> i = ([], None).
Proof. unfold info_at. destruct es as [|[k|p] es]; cbn; intros H; inversion H; reflexivity. Qed.

(* what is stored where after an update: only the node the edges lead to is rewritten; nodes created
   on the way are empty *)
Lemma upd_info_inv es0 : forall f nd nd' leaf' es i,
  keeps_children f -> upd es0 f nd = Ok nd' -> f (leaf_of nd es0) = Ok leaf' ->
  info_at nd' es = Some i ->
  (keys es = keys es0 /\ i = info leaf') \/ info_at nd es = Some i \/ i = ([], None).
Proof.
  induction es0 as [|[k|pat] es0 IH]; intros f nd nd' leaf' es i Hk H Hf Hi; cbn in H.
  - unfold leaf_of in Hf. cbn in Hf. rewrite Hf in H. inversion H; subst nd'.
    destruct (Hk _ _ Hf) as [Hs Hv].
    destruct es as [|[k2|p2] es].
    + left. unfold info_at in Hi. cbn in Hi. inversion Hi. auto.
    + right. left. unfold info_at in *. cbn [walk_to] in *. now rewrite Hs in Hi.
    + right. left. unfold info_at in *. cbn [walk_to] in *. now rewrite Hv in Hi.
  - destruct (upd es0 f _) as [c'| | |] eqn:Eu; try discriminate. inversion H; subst nd'. clear H.
    rewrite leaf_of_lit in Hf.
    destruct es as [|[k2|p2] es].
    + right. left. unfold info_at in *. cbn in *. exact Hi.
    + destruct (list_eq_dec N.eq_dec k2 k) as [->|Hne].
      * unfold info_at in Hi. cbn [walk_to n_segs] in Hi. rewrite assoc_set_eq in Hi.
        destruct (IH f _ c' leaf' es i Hk Eu Hf Hi) as [[E1 E2]|[E|E]].
        -- left. split; [unfold keys in *; cbn [map]; now f_equal|exact E2].
        -- destruct (assoc k (n_segs nd)) as [c|] eqn:Ea.
           ++ right. left. unfold info_at. cbn [walk_to]. now rewrite Ea.
           ++ right. right. now apply (info_at_empty es).
        -- right. right. exact E.
      * right. left. unfold info_at in *. cbn [walk_to n_segs] in *. now rewrite assoc_set_neq in Hi.
    + right. left. unfold info_at in *. cbn [walk_to n_vars] in *. exact Hi.
  - destruct (upd es0 f _) as [c'| | |] eqn:Eu; try discriminate. inversion H; subst nd'. clear H.
    rewrite leaf_of_var in Hf.
    destruct es as [|[k2|p2] es].
    + right. left. unfold info_at in *. cbn in *. exact Hi.
    + right. left. unfold info_at in *. cbn [walk_to n_segs] in *. exact Hi.
    + destruct (list_eq_dec N.eq_dec (spell p2) (spell pat)) as [E0|Hne].
      * unfold info_at in Hi. cbn [walk_to n_vars] in Hi. rewrite E0, find_set_eq in Hi.
        destruct (IH f _ c' leaf' es i Hk Eu Hf Hi) as [[E1 E2]|[E|E]].
        -- left. split; [unfold keys in *; cbn [map edge_key]; rewrite E0; now f_equal|exact E2].
        -- destruct (find_var (spell pat) (n_vars nd)) as [c|] eqn:Ea.
           ++ right. left. unfold info_at. cbn [walk_to]. now rewrite E0, Ea.
           ++ right. right. now apply (info_at_empty es).
        -- right. right. exact E.
      * right. left. unfold info_at in *. cbn [walk_to n_vars] in *. now rewrite find_set_neq in Hi.
Qed.

(* ... and everything stored elsewhere stays *)
Lemma upd_info_keep es0 : forall f nd nd' es i,
  keeps_children f -> upd es0 f nd = Ok nd' -> keys es <> keys es0 ->
  info_at nd es = Some i -> info_at nd' es = Some i.
Proof.
  induction es0 as [|[k|pat] es0 IH]; intros f nd nd' es i Hk H Hne Hi; cbn in H.
  - destruct (Hk _ _ H) as [Hs Hv].
    destruct es as [|[k2|p2] es]; [contradiction| |]; unfold info_at in *; cbn [walk_to] in *.
    + now rewrite Hs.
    + now rewrite Hv.
  - destruct (upd es0 f _) as [c'| | |] eqn:Eu; try discriminate. inversion H; subst nd'. clear H.
    destruct es as [|[k2|p2] es]; unfold info_at in *; cbn [walk_to n_segs n_vars] in *; auto.
    destruct (list_eq_dec N.eq_dec k2 k) as [->|Hnk].
    + rewrite assoc_set_eq. destruct (assoc k (n_segs nd)) as [c|] eqn:Ea; [|discriminate].
      apply (IH f c c' es i Hk Eu); auto. intros E. apply Hne. unfold keys in *. cbn [map]. now f_equal.
    + now rewrite assoc_set_neq.
  - destruct (upd es0 f _) as [c'| | |] eqn:Eu; try discriminate. inversion H; subst nd'. clear H.
    destruct es as [|[k2|p2] es]; unfold info_at in *; cbn [walk_to n_segs n_vars] in *; auto.
    destruct (list_eq_dec N.eq_dec (spell p2) (spell pat)) as [E0|Hnk].
    + rewrite E0, find_set_eq. rewrite E0 in Hi. destruct (find_var (spell pat) (n_vars nd)) as [c|] eqn:Ea; [|discriminate].
      apply (IH f c c' es i Hk Eu); auto. intros E. apply Hne. unfold keys in *. cbn [map edge_key]. rewrite E0. now f_equal.
    + now rewrite find_set_neq.
Qed.

(* ---- Go's string order on rune lists ---- *)
Lemma str_ltb_irrefl a : str_ltb a a = false.
Proof. induction a as [|x a IH]; cbn; auto. rewrite N.ltb_irrefl. exact IH. Qed.
Lemma str_ltb_trans a : forall b c, str_ltb a b = true -> str_ltb b c = true -> str_ltb a c = true.
Proof.
  induction a as [|x a IH]; intros [|y b] [|z c]; cbn; try discriminate; auto.
  destruct (N.ltb_spec x y), (N.ltb_spec y x), (N.ltb_spec y z), (N.ltb_spec z y), (N.ltb_spec x z), (N.ltb_spec z x);
    try lia; try discriminate; auto.
  intros G1 G2. eapply IH; eauto.
Qed.
Lemma str_ltb_total a : forall b, a <> b -> str_ltb a b = false -> str_ltb b a = true.
Proof.
  induction a as [|x a IH]; intros [|y b]; cbn; try discriminate; auto; try contradiction.
  destruct (N.ltb_spec x y), (N.ltb_spec y x); try lia; try discriminate; auto.
  intros Hne Hf. assert (x = y) by lia. subst y. apply IH; auto. congruence.
Qed.
Lemma str_ltb_neq a b : str_ltb a b = true -> a <> b.
Proof. intros H E. subst. now rewrite str_ltb_irrefl in H. Qed.

(* ---- the structural invariant of built tries ---- *)
Definition vname (pn : list token * node) : str := spell (fst pn).
Definition names_sorted (l : list (list token * node)) : Prop :=
  StronglySorted (fun a b => str_ltb a b = true) (map vname l).

Lemma in_set_assoc {A} key (c : A) k v l : In (key, c) (set_assoc k v l) -> (key = k /\ c = v) \/ In (key, c) l.
Proof.
  induction l as [|[k' v'] l IH]; cbn.
  - intros [E|[]]. inversion E. auto.
  - destruct (str_eqb k' k) eqn:E; cbn.
    + apply str_eqb_eq in E. subst k'. intros [H|H]; [inversion H; auto|auto].
    + intros [H|H]; [auto|]. destruct (IH H) as [X|X]; auto.
Qed.

Lemma in_set_var p c pat n l :
  In (p, c) (set_var pat n l) -> (c = n /\ (p = pat \/ exists c0, In (p, c0) l)) \/ In (p, c) l.
Proof.
  induction l as [|[p0 n0] l IH]; cbn.
  - intros [E|[]]. inversion E. auto.
  - destruct (str_eqb (spell p0) (spell pat)) eqn:E; cbn.
    + intros [H|H]; [inversion H; subst; left; split; auto; right; exists n0; now left|auto].
    + destruct (str_ltb (spell pat) (spell p0)); cbn.
      * intros [H|[H|H]]; [inversion H; auto|auto|auto].
      * intros [H|H]; [auto|]. destruct (IH H) as [[X [Y|[c0 Y]]]|X]; auto. left. split; auto. right. exists c0. now right.
Qed.

Lemma set_var_names pat n l :
  names_sorted l ->
  names_sorted (set_var pat n l) /\
  (forall x, In x (map vname (set_var pat n l)) -> x = spell pat \/ In x (map vname l)).
Proof.
  unfold names_sorted. induction l as [|[p0 n0] l IH]; intros Hs; cbn.
  - split; [repeat constructor|]. intros x [<-|[]]. now left.
  - inversion Hs as [|a l' Hs' Hall]; subst.
    destruct (str_eqb (spell p0) (spell pat)) eqn:E; cbn.
    + split; [constructor; auto|]. intros x H. right. exact H.
    + destruct (str_ltb (spell pat) (spell p0)) eqn:El; cbn.
      * split.
        -- constructor; [constructor; auto|]. constructor; [exact El|].
           eapply Forall_impl; [|exact Hall]. intros y Hy. eapply str_ltb_trans; eauto.
        -- intros x [<-|H]; [now left|right; exact H].
      * destruct (IH Hs') as [IH1 IH2]. split.
        -- constructor; [exact IH1|]. apply Forall_forall. intros x Hx.
           destruct (IH2 x Hx) as [->|Hx'].
           ++ change (str_ltb (spell p0) (spell pat) = true). apply str_ltb_total; auto. apply str_eqb_neq in E. congruence.
           ++ rewrite Forall_forall in Hall. now apply Hall.
        -- intros x [<-|H]; [right; now left|]. destruct (IH2 x H); auto; right; now right.
Qed.

Lemma sorted_find pat c l : names_sorted l -> In (pat, c) l -> find_var (spell pat) l = Some c.
Proof.
  unfold names_sorted. induction l as [|[p0 n0] l IH]; intros Hs Hin; [contradiction|].
  inversion Hs as [|a l' Hs' Hall]; subst. cbn.
  destruct Hin as [E|Hin].
  - inversion E; subst. now rewrite str_eqb_refl.
  - destruct (str_eqb (spell p0) (spell pat)) eqn:E.
    + exfalso. apply str_eqb_eq in E. rewrite Forall_forall in Hall.
      assert (H : str_ltb (vname (p0, n0)) (vname (pat, c)) = true) by (apply Hall; now apply in_map).
      change (str_ltb (spell p0) (spell pat) = true) in H. rewrite E, str_ltb_irrefl in H. discriminate.
    + now apply IH.
Qed.

Section WF.
(* P: what the patterns of variable edges are known to be *)
Variable P : list token -> Prop.

Inductive WFn : nat -> node -> Prop :=
| WFn_intro k segs vars meths mall :
    (forall key c, In (key, c) segs -> WFn k c) ->
    (forall pat c, In (pat, c) vars -> P pat /\ WFn (S k) c) ->
    names_sorted vars ->
    (forall v m, In (v, m) meths -> length (m_vars m) = k) ->
    (forall m, mall = Some m -> length (m_vars m) = k) ->
    WFn k (Node segs vars meths mall).

Lemma WFn_empty k : WFn k empty_node.
Proof. constructor; cbn; try contradiction; try constructor; try discriminate. Qed.

Definition edge_ok (e : edge) : Prop := match e with ELit _ => True | EVar pat => P pat end.

Lemma upd_WFn es0 : forall f nd nd' k,
  WFn k nd -> Forall edge_ok es0 ->
  (forall leaf leaf', WFn (k + nvars es0) leaf -> f leaf = Ok leaf' -> WFn (k + nvars es0) leaf') ->
  upd es0 f nd = Ok nd' -> WFn k nd'.
Proof.
  induction es0 as [|[key|pat] es0 IH]; intros f nd nd' k Hw Hok Hf H; cbn in H.
  - cbn [nvars] in Hf. rewrite Nat.add_0_r in Hf. apply (Hf nd nd'); auto.
  - destruct (upd es0 f _) as [c'| | |] eqn:Eu; try discriminate. inversion H; subst nd'. clear H.
    inversion Hok; subst. inversion Hw as [k0 segs vars meths mall W1 W2 W3 W4 W5]; subst. cbn [n_segs n_vars n_meths n_mall] in *.
    assert (Hc : WFn k c').
    { eapply IH; [| eassumption | exact Hf | exact Eu].
      destruct (assoc key segs) as [c|] eqn:Ea; [|apply WFn_empty]. apply (W1 key c). now apply assoc_in. }
    constructor; auto. intros key2 c2 Hin. destruct (in_set_assoc _ _ _ _ _ Hin) as [[-> ->]|Hin']; [exact Hc|eauto].
  - destruct (upd es0 f _) as [c'| | |] eqn:Eu; try discriminate. inversion H; subst nd'. clear H.
    inversion Hok as [|e l Hpat Hok']; subst. cbn in Hpat.
    inversion Hw as [k0 segs vars meths mall W1 W2 W3 W4 W5]; subst. cbn [n_segs n_vars n_meths n_mall] in *.
    assert (Hc : WFn (S k) c').
    { eapply IH; [| exact Hok' | | exact Eu].
      - destruct (find_var (spell pat) vars) as [c|] eqn:Ea; [|apply WFn_empty].
        clear -Ea W2. induction vars as [|[p0 n0] vars IHv]; cbn in Ea; [discriminate|].
        destruct (str_eqb (spell p0) (spell pat)); [inversion Ea; subst; apply (W2 p0 c); now left|].
        apply IHv; auto. intros p1 c1 Hin. apply W2. now right.
      - intros leaf leaf' HL HF. cbn [nvars] in Hf. replace (S k + nvars es0)%nat with (k + S (nvars es0))%nat in * by lia. eauto. }
    constructor; auto.
    + intros p c Hin. destruct (in_set_var _ _ _ _ _ Hin) as [[-> [->|[c0 Hin0]]]|Hin'].
      * split; auto.
      * split; auto. now destruct (W2 p c0 Hin0).
      * eauto.
    + now apply set_var_names.
Qed.

(* on a structurally well-formed trie the In-based reachability of search is the name-based walk of
   upd, and the patterns met on the way are known patterns *)
Lemma Reach_walk nd es nd' : Reach nd es nd' -> forall k, WFn k nd ->
  walk_to es nd = Some nd' /\ WFn (k + nvars es) nd' /\ Forall edge_ok es.
Proof.
  induction 1 as [nd|nd key c es nd' Ha HR IH|nd pat c es nd' Hin HR IH]; intros k Hw.
  - cbn. split; auto. split; [now rewrite Nat.add_0_r|constructor].
  - inversion Hw as [k0 segs vars meths mall W1 W2 W3 W4 W5]; subst. cbn [n_segs] in Ha. cbn [walk_to n_segs nvars]. rewrite Ha.
    destruct (IH k (W1 key c (assoc_in _ _ _ Ha))) as (A & B & C). split; auto. split; auto. constructor; [exact I|exact C].
  - inversion Hw as [k0 segs vars meths mall W1 W2 W3 W4 W5]; subst. cbn [n_vars] in Hin. cbn [walk_to n_vars nvars].
    rewrite (sorted_find _ _ _ W3 Hin). destruct (W2 pat c Hin) as [Pp Wc].
    destruct (IH (S k) Wc) as (A & B & C). split; auto. split.
    + replace (k + S (nvars es))%nat with (S k + nvars es)%nat by lia. exact B.
    + constructor; [exact Pp|exact C].
Qed.

Hypothesis P_ok : forall pat, P pat -> forallb pat_tok_ok pat = true.

Lemma WFn_TrieInv k nd : WFn k nd -> TrieInv nd k.
Proof.
  intros Hw. split.
  - intros es nd' verb m HR HB. destruct (Reach_walk _ _ _ HR k Hw) as (_ & W & _).
    inversion W as [k0 segs vars meths mall W1 W2 W3 W4 W5]; subst. unfold bound_at in HB. cbn [n_meths n_mall] in HB.
    destruct (assoc verb meths) as [m0|] eqn:Ea.
    + inversion HB; subst. apply (W4 verb m). now apply assoc_in.
    + now apply W5.
  - intros es nd' pat c HR Hin. destruct (Reach_walk _ _ _ HR k Hw) as (_ & W & _).
    inversion W as [k0 segs vars meths mall W1 W2 W3 W4 W5]; subst. cbn [n_vars] in Hin. apply P_ok. now destruct (W2 pat c Hin).
Qed.
End WF.

(* ---- the token walk of addRule on lexed templates ---- *)
Section Compile.
Variables isLetter isNumber : N -> bool.
Variable resolves : str -> list str -> bool.
Notation compile := (compile resolves).
Notation PSeg := (PSeg isLetter isNumber).
Notation PSegs := (PSegs isLetter isNumber).
Notation Seg := (Seg isLetter isNumber).
Notation Segs := (Segs isLetter isNumber).
Notation FieldPath := (FieldPath isLetter isNumber).
Notation Tmpl := (Tmpl isLetter isNumber).

Lemma PSeg_toks_ok ts b : PSeg ts b -> forallb pat_tok_ok ts = true /\ Forall (fun t => is TVarEnd t = false) ts.
Proof. intros [v Hv| |]; split; repeat constructor. Qed.
Lemma PSegs_toks_ok ts b : PSegs ts b -> forallb pat_tok_ok ts = true /\ Forall (fun t => is TVarEnd t = false) ts.
Proof.
  induction 1 as [ts b G|ts rest b G HS IH].
  - now apply (PSeg_toks_ok ts b).
  - destruct (PSeg_toks_ok _ _ G) as [A1 A2]. destruct IH as [B1 B2]. split.
    + rewrite forallb_app, A1. cbn. exact B1.
    + apply Forall_app. split; auto.
Qed.

Lemma until_varend_app ps rest :
  Forall (fun t => is TVarEnd t = false) ps -> until_varend (ps ++ tClose :: rest) = Some (ps, rest).
Proof. induction 1 as [|t ps Ht Hps IH]; cbn; [reflexivity|]. now rewrite Ht, IH. Qed.

Lemma field_keys_tail tail : DotTail isLetter isNumber tail -> forall acc rest,
  match rest with t :: _ :: _ => is TDot t = false | _ => True end ->
  exists names, field_keys acc (tail ++ rest) = (acc ++ names, rest).
Proof.
  induction 1 as [|v tail Hv Ht IH]; intros acc rest Hr.
  - exists []. rewrite app_nil_r. cbn [app].
    destruct rest as [|t [|t2 r]]; cbn; auto. now rewrite Hr.
  - destruct (IH (acc ++ [v]) rest Hr) as [names E]. exists (v :: names).
    cbn [app field_keys]. change (is TDot tDot) with true. cbn [tval]. rewrite E. now rewrite <- app_assoc.
Qed.

(* the pattern of a variable edge is a derivation of the segment grammar *)
Definition PatG (pat : list token) : Prop := exists b, PSegs pat b.
Definition edge_gram : edge -> Prop := edge_ok PatG.
Lemma PatG_ok pat : PatG pat -> forallb pat_tok_ok pat = true.
Proof. intros [b H]. now destruct (PSegs_toks_ok _ _ H). Qed.

Definition seg_step (f : nat) (mid : str) (ts cont : list token) (e : edge) (vf : list (list str)) : Prop :=
  compile (S f) mid (tSlash :: ts ++ cont) = Err EInvalid \/
  compile (S f) mid (tSlash :: ts ++ cont) = (do r <- compile f mid cont; Ok (e :: fst r, vf ++ snd r)).

Lemma compile_seg ts b : Seg ts b -> forall f mid cont,
  match cont with t :: _ :: _ => is TDot t = false | _ => True end ->
  exists e vf, edge_gram e /\ length vf = nvars [e] /\ seg_step f mid ts cont e vf.
Proof.
  intros [ts' b' G|fp Hfp|fp ps b' Hfp Hps] f mid cont Hc.
  - destruct G as [v Hv| |].
    + exists (ELit ([47] ++ v)), []. repeat split. right. reflexivity.
    + exists (EVar [tStar]), [[]]. split; [exists false; apply Ss_one; constructor|]. split; [reflexivity|]. right. reflexivity.
    + exists (EVar [tStarStar]), [[]]. split; [exists true; apply Ss_one; constructor|]. split; [reflexivity|]. right. reflexivity.
  - destruct (tail_of_FieldPath _ _ _ Hfp) as (v & tail & -> & Hv & Ht).
    assert (Hr : match [tClose] ++ cont with t :: _ :: _ => is TDot t = false | _ => True end) by (destruct cont; cbn; auto).
    destruct (field_keys_tail tail Ht [v] ([tClose] ++ cont) Hr) as [names E].
    exists (EVar [Tok TStar [42]]), [[v] ++ names]. split; [exists false; apply Ss_one; constructor|]. split; [reflexivity|].
    unfold seg_step. cbn [compile app ttyp tSlash tOpen tval]. rewrite <- app_assoc. rewrite E.
    cbn [app ttyp tClose]. destruct (resolves mid (v :: names)); [right; reflexivity|left; reflexivity].
  - destruct (tail_of_FieldPath _ _ _ Hfp) as (v & tail & -> & Hv & Ht).
    destruct (PSegs_toks_ok _ _ Hps) as [P1 P2].
    assert (Hr : match (tEq :: ps ++ [tClose]) ++ cont with t :: _ :: _ => is TDot t = false | _ => True end).
    { cbn. destruct (ps ++ [tClose]) eqn:E; cbn; auto. destruct cont; auto. }
    destruct (field_keys_tail tail Ht [v] ((tEq :: ps ++ [tClose]) ++ cont) Hr) as [names E].
    exists (EVar ps), [[v] ++ names]. split; [exists b'; exact Hps|]. split; [reflexivity|].
    unfold seg_step. cbn [compile app ttyp tSlash tOpen tval].
    replace ((tail ++ tEq :: ps ++ [tClose]) ++ cont) with (tail ++ (tEq :: ps ++ [tClose]) ++ cont) by (now rewrite <- app_assoc).
    rewrite E. cbn [app ttyp tEq]. rewrite <- app_assoc. cbn [app]. rewrite (until_varend_app ps cont P2).
    destruct (resolves mid (v :: names)); [right; reflexivity|left; reflexivity].
Qed.

Definition good_result (r : outcome (list edge * list (list str))) : Prop :=
  match r with
  | Ok (es, vfs) => length vfs = nvars es /\ Forall edge_gram es
  | Err _ => True
  | _ => False
  end.

Definition tail_ok (tail : list token) : Prop := tail = [tEOF] \/ exists v, tail = [tColon; Tok TLiteral v; tEOF].

Lemma compile_tail f mid tail : tail_ok tail -> good_result (compile (S f) mid tail).
Proof. intros [->|[v ->]]; cbn; repeat split; repeat constructor. Qed.

Lemma compile_segs_good ss b : Segs ss b -> forall fuel mid tail,
  tail_ok tail -> (length ss + length tail < fuel)%nat -> good_result (compile fuel mid (tSlash :: ss ++ tail)).
Proof.
  induction 1 as [ts b G|ts rest b G HS IH]; intros fuel mid tail Ht Hf; (destruct fuel as [|f]; [lia|]).
  - assert (Hc : match tail with t :: _ :: _ => is TDot t = false | _ => True end) by (destruct Ht as [->|[v ->]]; cbn; auto).
    destruct (compile_seg ts b G f mid tail Hc) as (e & vf & He & Hv & [E|E]); rewrite E; [exact I|].
    destruct f as [|f']; [destruct Ht as [->|[v ->]]; cbn in Hf; lia|].
    pose proof (compile_tail f' mid tail Ht) as Hg.
    destruct (compile (S f') mid tail) as [[es vfs]| | |]; cbn in *; auto.
    destruct Hg as [A B]. split; [rewrite app_length, A; cbn in Hv; destruct e; cbn in *; lia|constructor; auto].
  - rewrite <- app_assoc. cbn [app].
    assert (Hc : match tSlash :: rest ++ tail with t :: _ :: _ => is TDot t = false | _ => True end)
      by (cbn; destruct (rest ++ tail); auto).
    destruct (compile_seg ts false G f mid (tSlash :: rest ++ tail) Hc) as (e & vf & He & Hv & [E|E]); rewrite E; [exact I|].
    rewrite app_length in Hf. cbn [length] in Hf.
    assert (Hg : good_result (compile f mid (tSlash :: rest ++ tail))) by (apply IH; auto; lia).
    destruct (compile f mid (tSlash :: rest ++ tail)) as [[es vfs]| | |]; cbn in *; auto.
    destruct Hg as [A B]. split; [rewrite app_length, A; cbn in Hv; destruct e; cbn in *; lia|constructor; auto].
Qed.

Theorem compile_tmpl toks mid : Tmpl toks -> good_result (compile (S (length toks)) mid toks).
Proof.
  intros [ss b HS|ss b v HS Hv].
  - apply (compile_segs_good ss b HS); [now left|]. cbn [length]. rewrite app_length. cbn. lia.
  - apply (compile_segs_good ss b HS); [right; eauto|]. cbn [length]. rewrite app_length. cbn. lia.
Qed.
End Compile.

(* ---- registration: what the leaf update does ---- *)
Definition stored (i : list (str * minfo) * option minfo) (key : str) (m : minfo) : Prop :=
  (key = star_verb /\ snd i = Some m) \/ assoc key (fst i) = Some m.

Section Register.
Variables isLetter isNumber : N -> bool.
Variable resolves body_ok resp_ok : str -> list str -> bool.
Notation leaf := (leaf resolves body_ok resp_ok).
Notation add_binding := (add_binding resolves body_ok resp_ok isLetter isNumber).
Notation compile := (compile resolves).
Notation lex_template := (lex_template isLetter isNumber).

Lemma assoc_app_none {A} k (l : list (str * A)) k2 v : assoc k l = None -> assoc k (l ++ [(k2, v)]) = if str_eqb k2 k then Some v else None.
Proof. induction l as [|[k' v'] l IH]; cbn; auto. destruct (str_eqb k' k); [discriminate|auto]. Qed.
Lemma assoc_app_some {A} k (l : list (str * A)) l2 v : assoc k l = Some v -> assoc k (l ++ l2) = Some v.
Proof. induction l as [|[k' v'] l IH]; cbn; [discriminate|]. destruct (str_eqb k' k); auto. Qed.

Lemma leaf_keeps mid b vfs : keeps_children (leaf mid b vfs).
Proof.
  intros nd nd' H. unfold Trie.leaf in H.
  destruct (_ && _); [cbn [bind] in H|discriminate].
  destruct (match n_mall nd with Some y => conflict mid y | None => false end); [discriminate|].
  destruct (str_eqb (b_verb b) star_verb).
  - destruct (existsb _ _); [discriminate|]. destruct (n_mall nd); inversion H; auto.
  - destruct (assoc (b_verb b) (n_meths nd)).
    + destruct (conflict mid m); [discriminate|]. inversion H; auto.
    + inversion H; auto.
Qed.

Lemma leaf_benign mid b vfs nd : benign (leaf mid b vfs nd).
Proof.
  unfold Trie.leaf.
  destruct (_ && _); cbn [bind]; [|exact I].
  destruct (match n_mall nd with Some y => conflict mid y | None => false end); cbn; auto.
  destruct (str_eqb (b_verb b) star_verb).
  - destruct (existsb _ _); cbn; auto. destruct (n_mall nd); cbn; auto.
  - destruct (assoc (b_verb b) (n_meths nd)).
    + destruct (conflict mid m); cbn; auto.
    + cbn; auto.
Qed.

(* what is stored at the leaf afterwards: what was there, plus possibly this binding; nothing is lost;
   and all of it belongs to this method *)
Lemma conflict_id mid y : conflict mid y = false -> m_id y = mid.
Proof. unfold conflict. intros Hy. apply negb_false_iff in Hy. now apply str_eqb_eq in Hy. Qed.

Lemma meths_owned mid meths :
  existsb (fun kv : str * minfo => conflict mid (snd kv)) meths = false ->
  forall key m, assoc key meths = Some m -> m_id m = mid.
Proof.
  intros He key m Ha. apply assoc_in in Ha. apply conflict_id.
  destruct (conflict mid m) eqn:Ec; auto.
  assert (existsb (fun kv : str * minfo => conflict mid (snd kv)) meths = true)
    by (apply existsb_exists; exists (key, m); auto). congruence.
Qed.

Definition Owned (mid : str) (nd : node) : Prop := forall key m, stored (info nd) key m -> m_id m = mid.

Lemma assoc_snoc {A} key (l : list (str * A)) k2 v :
  assoc key (l ++ [(k2, v)]) = match assoc key l with Some x => Some x | None => if str_eqb k2 key then Some v else None end.
Proof. induction l as [|[k' v'] l IH]; cbn; auto. destruct (str_eqb k' key); auto. Qed.

Lemma leaf_spec mid b vfs nd nd' :
  leaf mid b vfs nd = Ok nd' ->
  (forall key m, stored (info nd') key m ->
     stored (info nd) key m \/ (key = b_verb b /\ m = Build_minfo mid vfs (b_body b) (b_resp b))) /\
  (forall key m, stored (info nd) key m -> stored (info nd') key m) /\
  (exists m, stored (info nd') (b_verb b) m /\ m_id m = mid).
Proof.
  intros H. unfold Trie.leaf in H. unfold stored, info.
  destruct (_ && _); [cbn [bind] in H|discriminate].
  destruct (n_mall nd) as [y|] eqn:Emall;
  [destruct (conflict mid y) eqn:Ec; [discriminate|]|];
  (destruct (str_eqb (b_verb b) star_verb) eqn:Ev;
   [apply str_eqb_eq in Ev; destruct (existsb _ (n_meths nd)) eqn:Ee; [discriminate|] |
    destruct (assoc (b_verb b) (n_meths nd)) as [y0|] eqn:Ea; [destruct (conflict mid y0) eqn:Ec0; [discriminate|]|]]);
  inversion H; subst nd'; clear H; cbn [n_meths n_mall fst snd].
  all: (split; [|split]).
  all: try (intros key m; rewrite ?assoc_snoc; rewrite ?Emall; destruct (assoc key (n_meths nd)) eqn:Eak;
            try (destruct (str_eqb (b_verb b) key) eqn:Ek; try apply str_eqb_eq in Ek); intuition (try congruence); fail).
  - exists y. split; [left; auto|now apply conflict_id].
  - exists y0. split; [right; auto|now apply conflict_id].
  - eexists. split; [right; rewrite assoc_snoc, Ea, str_eqb_refl; reflexivity|reflexivity].
  - eexists. split; [left; split; [exact Ev|reflexivity]|reflexivity].
  - exists y0. split; [right; auto|now apply conflict_id].
  - eexists. split; [right; rewrite assoc_snoc, Ea, str_eqb_refl; reflexivity|reflexivity].
Qed.

(* a binding of another method under an overlapping verb makes the leaf refuse *)
Definition overlap (k v : str) : Prop := k = v \/ k = star_verb \/ v = star_verb.
Lemma leaf_rejects_conflict mid b vfs nd key m :
  assoc star_verb (n_meths nd) = None ->
  stored (info nd) key m -> m_id m <> mid -> overlap key (b_verb b) -> exists e, leaf mid b vfs nd = Err e.
Proof.
  intros Hns Hst Hne Hov. unfold Trie.leaf.
  destruct (_ && _); cbn [bind]; [|eauto].
  assert (Hc : conflict mid m = true).
  { unfold conflict. apply negb_true_iff. apply str_eqb_neq. exact Hne. }
  unfold stored, info in Hst. cbn [fst snd] in Hst.
  destruct Hst as [[Hk Hs]|Ha].
  - rewrite Hs, Hc. eauto.
  - destruct (n_mall nd) as [y|]; [destruct (conflict mid y); [eauto|]|].
    all: destruct (str_eqb (b_verb b) star_verb) eqn:Ev.
    all: try (assert (He : existsb (fun kv : str * minfo => conflict mid (snd kv)) (n_meths nd) = true)
               by (apply existsb_exists; exists (key, m); split; [now apply assoc_in|exact Hc]); rewrite He; eauto; fail).
    all: destruct Hov as [Hov|[Hov|Hov]]; try (subst key).
    all: try (rewrite Ha, Hc; eauto; fail).
    all: try (apply str_eqb_neq in Ev; contradiction).
    all: congruence.
Qed.


Lemma leaf_WFn (P : list token -> Prop) mid b vfs k nd nd' :
  length vfs = k -> WFn P k nd -> leaf mid b vfs nd = Ok nd' -> WFn P k nd'.
Proof.
  intros Hl Hw H. destruct (leaf_keeps mid b vfs nd nd' H) as [Hs Hv].
  destruct (leaf_spec mid b vfs nd nd' H) as (S1 & _ & _).
  inversion Hw as [k0 segs vars meths mall W1 W2 W3 W4 W5]; subst.
  destruct nd' as [segs' vars' meths' mall']. cbn in Hs, Hv. subst segs' vars'.
  constructor; auto.
  - intros v m Hin.
    assert (Hnd : exists m', assoc v meths' = Some m' /\ length (m_vars m') = length vfs -> True) by (exists m; auto).
    clear Hnd.
    (* every entry of meths' is either an old entry or the new binding *)
    unfold Trie.leaf in H. cbn [n_mall n_meths n_segs n_vars] in H.
    destruct (_ && _); [cbn [bind] in H|discriminate].
    destruct (match mall with Some y => conflict mid y | None => false end); [discriminate|].
    destruct (str_eqb (b_verb b) star_verb).
    + destruct (existsb _ meths); [discriminate|]. destruct mall.
      * inversion H; subst. eauto.
      * inversion H; subst. eauto.
    + destruct (assoc (b_verb b) meths).
      * destruct (conflict mid m0); [discriminate|]. inversion H; subst. eauto.
      * inversion H; subst.
        apply in_app_or in Hin. destruct Hin as [Hin|[E|[]]]; [eauto|]. inversion E; subst. reflexivity.
  - intros m Hm. destruct (S1 star_verb m) as [[[_ Hs]|Ha]|[_ ->]].
    + left. split; [reflexivity|exact Hm].
    + cbn in Hs. eauto.
    + (* stored under "*" in meths: impossible to say here, but then it is an old entry *)
      cbn in Ha. apply assoc_in in Ha. eauto.
    + reflexivity.
Qed.

(* ---- one binding ---- *)
Definition compiled (mid : str) (b : brule) (es : list edge) (vfs : list (list str)) : Prop :=
  exists toks, lex_template (b_tmpl b) = Ok toks /\ compile (S (length toks)) mid toks = Ok (es, vfs).

Lemma add_binding_inv mid root b root' :
  add_binding mid root b = Ok root' ->
  exists es vfs leaf', compiled mid b es vfs /\ upd es (leaf mid b vfs) root = Ok root' /\
    leaf mid b vfs (leaf_of root es) = Ok leaf' /\ walk_to es root' = Some leaf' /\
    length vfs = nvars es /\ Forall (edge_gram isLetter isNumber) es.
Proof.
  unfold Trie.add_binding. intros H.
  destruct (lex_template (b_tmpl b)) as [toks| | |] eqn:El; try discriminate. cbn [bind] in H.
  destruct (compile (S (length toks)) mid toks) as [[es vfs]| | |] eqn:Ec; try discriminate. cbn [bind fst snd] in H.
  destruct (upd_leaf _ _ _ _ H) as (leaf' & Hf & Hw).
  pose proof (compile_tmpl isLetter isNumber resolves toks mid (proj1 (lex_template_sound _ _ _ _ El))) as Hg.
  rewrite Ec in Hg. destruct Hg as [A B].
  exists es, vfs, leaf'. repeat split; auto. exists toks. auto.
Qed.

(* registration of one binding never panics and never runs out of fuel, whatever the template text *)
Lemma upd_benign es : forall f nd, (forall x, benign (f x)) -> benign (upd es f nd).
Proof.
  induction es as [|[k|pat] es IH]; intros f nd Hf; cbn; auto.
  - specialize (IH f (match assoc k (n_segs nd) with Some c => c | None => empty_node end) Hf).
    destruct (upd es f _); cbn in *; auto.
  - specialize (IH f (match find_var (spell pat) (n_vars nd) with Some c => c | None => empty_node end) Hf).
    destruct (upd es f _); cbn in *; auto.
Qed.

Theorem add_binding_benign mid root b : benign (add_binding mid root b).
Proof.
  unfold Trie.add_binding.
  pose proof (lex_template_benign isLetter isNumber (b_tmpl b)) as Hl.
  destruct (lex_template (b_tmpl b)) as [toks| | |] eqn:El; cbn in Hl; try contradiction; cbn [bind benign]; auto.
  pose proof (compile_tmpl isLetter isNumber resolves toks mid (proj1 (lex_template_sound _ _ _ _ El))) as Hg.
  destruct (compile (S (length toks)) mid toks) as [[es vfs]| | |]; cbn in Hg |- *; auto.
  apply upd_benign. intros x. apply leaf_benign.
Qed.


(* ---- the history of registrations: what every reachable trie satisfies ---- *)
Notation PatG := (PatG isLetter isNumber).
Notation edge_gram := (edge_gram isLetter isNumber).

Definition regs := list (str * brule).

Record Inv (L : regs) (root : node) : Prop := {
  inv_wf : WFn PatG 0 root;
  inv_nostar : forall es i, info_at root es = Some i -> assoc star_verb (fst i) = None;
  (* provenance: every stored binding was registered, for the method that owns it, under the verb it
     is stored under, and sits where its template leads (same edges up to the spelling of patterns) *)
  inv_prov : forall es i key m, info_at root es = Some i -> stored i key m ->
      exists mid b es', In (mid, b) L /\ m_id m = mid /\ key = b_verb b /\ m_body m = b_body b /\
                        compiled mid b es' (m_vars m) /\ keys es = keys es';
  (* presence: every registered binding is still served, by its own method *)
  inv_present : forall mid b, In (mid, b) L ->
      exists es vfs i m, compiled mid b es vfs /\ info_at root es = Some i /\ stored i (b_verb b) m /\ m_id m = mid
}.

Lemma stored_empty key m : ~ stored ([], None) key m.
Proof. intros [[_ H]|H]; cbn in H; discriminate. Qed.

Lemma Inv_empty : Inv [] empty_node.
Proof.
  constructor.
  - apply WFn_empty.
  - intros es i H. apply info_at_empty in H. subst. reflexivity.
  - intros es i key m H Hs. apply info_at_empty in H. subst. now apply stored_empty in Hs.
  - intros mid b [].
Qed.

Lemma leaf_nostar mid b vfs nd nd' :
  leaf mid b vfs nd = Ok nd' -> assoc star_verb (n_meths nd) = None -> assoc star_verb (n_meths nd') = None.
Proof.
  intros H Hn. unfold Trie.leaf in H.
  destruct (_ && _); [cbn [bind] in H|discriminate].
  destruct (match n_mall nd with Some y => conflict mid y | None => false end); [discriminate|].
  destruct (str_eqb (b_verb b) star_verb) eqn:Ev.
  - destruct (existsb _ _); [discriminate|]. destruct (n_mall nd); inversion H; subst; auto.
  - destruct (assoc (b_verb b) (n_meths nd)).
    + destruct (conflict mid m); [discriminate|]. inversion H; subst; auto.
    + inversion H; subst. cbn [n_meths].
      rewrite assoc_snoc, Hn, Ev. reflexivity.
Qed.

Lemma info_leaf_of root es i : info_at root es = Some i -> i = info (leaf_of root es).
Proof. unfold info_at, leaf_of. destruct (walk_to es root); intros H; inversion H; reflexivity. Qed.
Lemma info_leaf_none root es : info_at root es = None -> leaf_of root es = empty_node.
Proof. unfold info_at, leaf_of. destruct (walk_to es root); [discriminate|reflexivity]. Qed.
Lemma info_at_keys root es1 es2 : keys es1 = keys es2 -> info_at root es1 = info_at root es2.
Proof. intros H. unfold info_at. now rewrite (walk_to_keys es1 es2 root H). Qed.

Theorem Inv_step L root mid b root' :
  Inv L root -> add_binding mid root b = Ok root' -> Inv ((mid, b) :: L) root'.
Proof.
  intros [Iw In_ Ip Ipr] H.
  destruct (add_binding_inv _ _ _ _ H) as (es0 & vfs & leaf' & Hc & Hu & Hl & Hw & Hlen & Hg).
  pose proof (leaf_keeps mid b vfs) as Hk.
  destruct (leaf_spec _ _ _ _ _ Hl) as (S1 & S2 & S3).
  assert (Hold : forall key m, stored (info (leaf_of root es0)) key m ->
                  exists i0, info_at root es0 = Some i0 /\ stored i0 key m).
  { intros key m Hs. destruct (info_at root es0) as [i0|] eqn:Ei.
    - exists i0. split; auto. now rewrite (info_leaf_of _ _ _ Ei).
    - rewrite (info_leaf_none _ _ Ei) in Hs. now apply stored_empty in Hs. }
  constructor.
  - eapply upd_WFn; [exact Iw|exact Hg| |exact Hu].
    intros leaf leaf2 HW HF. eapply leaf_WFn; [|exact HW|exact HF]. cbn. exact Hlen.
  - intros es i Hi. destruct (upd_info_inv es0 _ _ _ leaf' es i Hk Hu Hl Hi) as [[E1 E2]|[E|E]].
    + subst i. cbn [info fst]. eapply leaf_nostar; [exact Hl|].
      destruct (info_at root es0) as [i0|] eqn:Ei.
      * pose proof (In_ es0 _ Ei) as X. rewrite (info_leaf_of _ _ _ Ei) in X. exact X.
      * rewrite (info_leaf_none _ _ Ei). reflexivity.
    + eauto.
    + subst i. reflexivity.
  - intros es i key m Hi Hs. destruct (upd_info_inv es0 _ _ _ leaf' es i Hk Hu Hl Hi) as [[E1 E2]|[E|E]].
    + subst i. destruct (S1 key m Hs) as [Hs0|[-> ->]].
      * destruct (Hold key m Hs0) as (i0 & Ei0 & Hs1).
        destruct (Ip es0 i0 key m Ei0 Hs1) as (mid' & b' & es' & A & B & C & D & E & F).
        exists mid', b', es'. split; [now right|]. split; [exact B|]. split; [exact C|]. split; [exact D|]. split; [exact E|congruence].
      * exists mid, b, es0. split; [now left|]. split; [reflexivity|]. split; [reflexivity|]. split; [reflexivity|]. split; [exact Hc|exact E1].
    + destruct (Ip es i key m E Hs) as (mid' & b' & es' & A & B & C & D & E' & F).
      exists mid', b', es'. split; [now right|]. split; [exact B|]. split; [exact C|]. split; [exact D|]. split; [exact E'|exact F].
    + subst i. now apply stored_empty in Hs.
  - intros mid' b' [E|Hin].
    + inversion E; subst mid' b'. destruct S3 as (m & Hs & Hm).
      exists es0, vfs, (info leaf'), m. split; [exact Hc|]. split; [unfold info_at; now rewrite Hw|]. split; [exact Hs|exact Hm].
    + destruct (Ipr mid' b' Hin) as (es1 & vfs1 & i1 & m1 & C1 & Ei1 & Hs1 & Hm1).
      destruct (list_eq_dec ekey_dec (keys es1) (keys es0)) as [Ek|Ek].
      * exists es1, vfs1, (info leaf'), m1. split; [exact C1|]. split; [|split; [|exact Hm1]].
        -- rewrite (info_at_keys root' es1 es0 Ek). unfold info_at. now rewrite Hw.
        -- apply S2. rewrite (info_at_keys root es1 es0 Ek) in Ei1. now rewrite <- (info_leaf_of _ _ _ Ei1).
      * exists es1, vfs1, i1, m1. split; [exact C1|]. split; [eapply upd_info_keep; eauto|]. split; [exact Hs1|exact Hm1].
Qed.


(* ---- whole rules, methods, services ---- *)
Notation add_additional := (add_additional resolves body_ok resp_ok isLetter isNumber).
Notation add_rule := (add_rule resolves body_ok resp_ok isLetter isNumber).
Notation add_rules := (add_rules resolves body_ok resp_ok isLetter isNumber).
Notation append_handler := (append_handler resolves body_ok resp_ok isLetter isNumber).
Notation register_methods := (register_methods resolves body_ok resp_ok isLetter isNumber).
Notation register_service := (register_service resolves body_ok resp_ok isLetter isNumber).

Definition rule_bindings (r : hrule) : list brule := h_main r :: h_adds r.
Definition decl_bindings (d : mdecl) : list brule :=
  rule_bindings (implicit_rule (d_id d)) ++ flat_map rule_bindings (d_config d) ++
  match d_annot d with Some r => rule_bindings r | None => [] end.

(* L' was added on top of L, all of it for method mid, drawn from bs *)
Definition Added (L L2 : regs) (mid : str) (bs : list brule) : Prop :=
  exists L', L2 = L' ++ L /\ forall x, In x L' -> fst x = mid /\ In (snd x) bs.

Lemma Added_refl L mid bs : Added L L mid bs.
Proof. exists []. split; [reflexivity|]. intros x []. Qed.
Lemma Added_trans L L2 L3 mid bs1 bs2 bs :
  Added L L2 mid bs1 -> Added L2 L3 mid bs2 -> (forall b, In b bs1 \/ In b bs2 -> In b bs) -> Added L L3 mid bs.
Proof.
  intros (A & -> & HA) (B & -> & HB) Hsub. exists (B ++ A). split; [now rewrite app_assoc|].
  intros x Hx. apply in_app_or in Hx. destruct Hx as [Hx|Hx].
  - destruct (HB x Hx). split; auto.
  - destruct (HA x Hx). split; auto.
Qed.

Lemma add_additional_Inv mid : forall adds L root root',
  Inv L root -> add_additional mid root adds = Ok root' -> exists L2, Inv L2 root' /\ Added L L2 mid adds.
Proof.
  induction adds as [|a adds IH]; intros L root root' HI H; cbn in H.
  - inversion H; subst. exists L. split; auto. apply Added_refl.
  - destruct (b_nested a); [discriminate|].
    destruct (add_binding mid root a) as [r1| | |] eqn:E1; try discriminate. cbn [bind] in H.
    destruct (IH _ _ _ (Inv_step _ _ _ _ _ HI E1) H) as (L2 & HI2 & HA).
    exists L2. split; auto.
    eapply Added_trans with (bs1 := [a]) (bs2 := adds); [| exact HA |].
    + exists [(mid, a)]. split; [reflexivity|]. intros x [<-|[]]. cbn. auto.
    + intros b [[<-|[]]|Hb]; [now left|now right].
Qed.

Lemma add_rule_Inv mid r L root root' :
  Inv L root -> add_rule mid root r = Ok root' -> exists L2, Inv L2 root' /\ Added L L2 mid (rule_bindings r).
Proof.
  unfold Trie.add_rule. intros HI H.
  destruct (add_binding mid root (h_main r)) as [r1| | |] eqn:E1; try discriminate. cbn [bind] in H.
  destruct (add_additional_Inv mid _ _ _ _ (Inv_step _ _ _ _ _ HI E1) H) as (L2 & HI2 & HA).
  exists L2. split; auto.
  eapply Added_trans with (bs1 := [h_main r]) (bs2 := h_adds r); [| exact HA |].
  - exists [(mid, h_main r)]. split; [reflexivity|]. intros x [<-|[]]. cbn. auto.
  - unfold rule_bindings. intros b [[<-|[]]|Hb]; [now left|now right].
Qed.

Lemma add_rules_Inv mid : forall rs L root root',
  Inv L root -> add_rules mid root rs = Ok root' -> exists L2, Inv L2 root' /\ Added L L2 mid (flat_map rule_bindings rs).
Proof.
  induction rs as [|r rs IH]; intros L root root' HI H; cbn in H.
  - inversion H; subst. exists L. split; auto. apply Added_refl.
  - destruct (add_rule mid root r) as [r1| | |] eqn:E1; try discriminate. cbn [bind] in H.
    destruct (add_rule_Inv _ _ _ _ _ HI E1) as (L1 & HI1 & HA1).
    destruct (IH _ _ _ HI1 H) as (L2 & HI2 & HA2). exists L2. split; auto.
    eapply Added_trans; [exact HA1|exact HA2|]. cbn [flat_map]. intros b Hb. apply in_or_app. exact Hb.
Qed.

Lemma append_handler_Inv d L root root' :
  Inv L root -> append_handler root d = Ok root' -> exists L2, Inv L2 root' /\ Added L L2 (d_id d) (decl_bindings d).
Proof.
  unfold Trie.append_handler. intros HI H.
  destruct (add_rule (d_id d) root (implicit_rule (d_id d))) as [r1|e| |] eqn:E1; try discriminate.
  destruct (add_rule_Inv _ _ _ _ _ HI E1) as (L1 & HI1 & HA1).
  destruct (add_rules (d_id d) r1 (d_config d)) as [r2| | |] eqn:E2; try discriminate. cbn [bind] in H.
  destruct (add_rules_Inv _ _ _ _ _ HI1 E2) as (L2 & HI2 & HA2).
  unfold decl_bindings.
  assert (HA12 : Added L L2 (d_id d) (rule_bindings (implicit_rule (d_id d)) ++ flat_map rule_bindings (d_config d))).
  { eapply Added_trans; [exact HA1|exact HA2|]. intros b Hb. apply in_or_app. exact Hb. }
  destruct (d_annot d) as [r|].
  - destruct (add_rule_Inv _ _ _ _ _ HI2 H) as (L3 & HI3 & HA3). exists L3. split; auto.
    eapply Added_trans; [exact HA12|exact HA3|].
    intros b [Hb|Hb].
    + apply in_app_or in Hb. destruct Hb as [Hb|Hb]; apply in_or_app; [now left|right; apply in_or_app; now left].
    + apply in_or_app. right. apply in_or_app. now right.
  - inversion H; subst. exists L2. split; auto.
    destruct HA12 as (A & -> & HA). exists A. split; [reflexivity|]. intros x Hx. destruct (HA x Hx) as [E Hb]. split; auto.
    apply in_app_or in Hb. destruct Hb as [Hb|Hb]; apply in_or_app; [now left|right; apply in_or_app; now left].
Qed.

(* the registered bindings of a list of method declarations *)
Definition decls_regs (ds : list mdecl) (x : str * brule) : Prop :=
  exists d, In d ds /\ fst x = d_id d /\ In (snd x) (decl_bindings d).

Lemma register_methods_Inv : forall ds L root root',
  Inv L root -> register_methods root ds = Ok root' ->
  exists L', Inv (L' ++ L) root' /\ forall x, In x L' -> decls_regs ds x.
Proof.
  induction ds as [|d ds IH]; intros L root root' HI H; cbn in H.
  - inversion H; subst. exists []. split; auto. intros x [].
  - destruct (append_handler root d) as [r1| | |] eqn:E1; try discriminate. cbn [bind] in H.
    destruct (append_handler_Inv _ _ _ _ HI E1) as (L1 & HI1 & (A & -> & HA)).
    destruct (IH _ _ _ HI1 H) as (B & HI2 & HB).
    exists (B ++ A). split; [now rewrite <- app_assoc|].
    intros x Hx. apply in_app_or in Hx. destruct Hx as [Hx|Hx].
    + destruct (HB x Hx) as (d' & Hd & E & Hb). exists d'. split; [now right|auto].
    + destruct (HA x Hx) as [E Hb]. exists d. split; [now left|auto].
Qed.

(* registration is all-or-nothing: a failed registerService leaves the trie it was given *)
Lemma register_service_failed root ds root' : register_service root ds = (root', false) -> root' = root.
Proof. unfold Trie.register_service. destruct (register_methods root ds); intros H; inversion H; reflexivity. Qed.

(* no rule text can make registration panic or run dry: only a method whose own implicit
   /Service/Method rule is refused does (appendHandler's panic("bug")) *)
Lemma add_additional_benign mid : forall adds root, benign (add_additional mid root adds).
Proof.
  induction adds as [|a adds IH]; intros root; cbn; auto.
  destruct (b_nested a); cbn; auto.
  pose proof (add_binding_benign mid root a) as B. destruct (add_binding mid root a); cbn in *; auto.
Qed.
Lemma add_rule_benign mid root r : benign (add_rule mid root r).
Proof.
  unfold Trie.add_rule. pose proof (add_binding_benign mid root (h_main r)) as B.
  destruct (add_binding mid root (h_main r)); cbn in *; auto. apply add_additional_benign.
Qed.
Lemma add_rules_benign mid : forall rs root, benign (add_rules mid root rs).
Proof.
  induction rs as [|r rs IH]; intros root; cbn; auto.
  pose proof (add_rule_benign mid root r) as B. destruct (add_rule mid root r); cbn in *; auto.
Qed.
Theorem append_handler_total root d : benign (append_handler root d).
Proof.
  unfold Trie.append_handler. pose proof (add_rule_benign (d_id d) root (implicit_rule (d_id d))) as B.
  destruct (add_rule (d_id d) root (implicit_rule (d_id d))) as [r1|e| |]; cbn in B; try contradiction.
  - pose proof (add_rules_benign (d_id d) (d_config d) r1) as B2.
    destruct (add_rules (d_id d) r1 (d_config d)); cbn in *; auto.
    destruct (d_annot d); [apply add_rule_benign|exact I].
  - exact I.
Qed.

End Register.
