(* The routing trie (Model/Trie.v): get/set laws of upd, the structural invariant every built trie
   satisfies, provenance of every stored binding, totality of registration on lexed templates. *)
From Larking Require Import Base.GoSem Model.Lexer Model.Trie Model.Match Spec.Grammar Spec.Route
  Proofs.LexerProofs Proofs.MatchProofs.
Local Open Scope N_scope.

Lemma str_eqb_eq a b : str_eqb a b = true <-> a = b.
Proof. apply (list_eqb_eq N.eqb N.eqb_eq). Qed.
Lemma str_eqb_refl a : str_eqb a a = true.
Proof. now apply str_eqb_eq. Qed.
Lemma str_eqb_neq a b : str_eqb a b = false <-> a <> b.
Proof.
  split.
  - intros H E. apply str_eqb_eq in E. congruence.
  - intros H. destruct (str_eqb a b) eqn:E; auto. apply str_eqb_eq in E. contradiction.
Qed.

(* ---- association lists ---- *)
Lemma assoc_set_eq {A} k (v : A) l : assoc k (set_assoc k v l) = Some v.
Proof.
  induction l as [|[k' v'] l IH]; cbn; [now rewrite str_eqb_refl|].
  destruct (str_eqb k' k) eqn:E; cbn; rewrite E; auto.
Qed.
Lemma assoc_set_neq {A} k k2 (v : A) l : k2 <> k -> assoc k2 (set_assoc k v l) = assoc k2 l.
Proof.
  intros Hne. induction l as [|[k' v'] l IH]; cbn.
  - replace (str_eqb k k2) with false; auto. symmetry. apply str_eqb_neq. congruence.
  - destruct (str_eqb k' k) eqn:E; cbn.
    + apply str_eqb_eq in E. subst k'. replace (str_eqb k k2) with false; auto. symmetry. apply str_eqb_neq. congruence.
    + destruct (str_eqb k' k2); auto.
Qed.
Lemma assoc_in {A} k (v : A) l : assoc k l = Some v -> In (k, v) l.
Proof.
  induction l as [|[k' v'] l IH]; cbn; [discriminate|].
  destruct (str_eqb k' k) eqn:E; intros H.
  - apply str_eqb_eq in E. inversion H; subst. now left.
  - right. auto.
Qed.

Lemma find_set_eq pat n l : find_var (spell pat) (set_var pat n l) = Some n.
Proof.
  induction l as [|[p n'] l IH]; cbn; [now rewrite str_eqb_refl|].
  destruct (str_eqb (spell p) (spell pat)) eqn:E; cbn; [now rewrite E|].
  destruct (str_ltb (spell pat) (spell p)); cbn; [now rewrite str_eqb_refl|]. now rewrite E.
Qed.
Lemma find_set_neq pat name n l : name <> spell pat -> find_var name (set_var pat n l) = find_var name l.
Proof.
  intros Hne. assert (Hf : str_eqb (spell pat) name = false) by (apply str_eqb_neq; congruence).
  induction l as [|[p n'] l IH]; cbn; [now rewrite Hf|].
  destruct (str_eqb (spell p) (spell pat)) eqn:E; cbn.
  - apply str_eqb_eq in E. rewrite E, Hf. reflexivity.
  - destruct (str_ltb (spell pat) (spell p)); cbn; [now rewrite Hf|]. destruct (str_eqb (spell p) name); auto.
Qed.

(* ---- edges by key ---- *)
Inductive ekey : Type := KLit : str -> ekey | KVar : str -> ekey.
Definition edge_key (e : edge) : ekey := match e with ELit k => KLit k | EVar pat => KVar (spell pat) end.
Definition keys (es : list edge) : list ekey := map edge_key es.

Lemma ekey_dec (a b : ekey) : {a = b} + {a <> b}.
Proof. decide equality; apply (list_eq_dec N.eq_dec). Qed.

(* walking depends on the keys only *)
Lemma walk_to_keys es1 : forall es2 nd, keys es1 = keys es2 -> walk_to es1 nd = walk_to es2 nd.
Proof.
  induction es1 as [|e1 es1 IH]; intros [|e2 es2] nd H; try discriminate; auto.
  cbn in H. inversion H as [[H1 H2]].
  destruct e1, e2; cbn in H1; try discriminate; inversion H1; subst; cbn.
  - destruct (assoc _ _); auto.
  - rewrite H3. destruct (find_var _ _); auto.
Qed.

(* what a node offers, apart from its children *)
Definition info (nd : node) := (n_meths nd, n_mall nd).
Definition info_at (nd : node) (es : list edge) : option (list (str * minfo) * option minfo) :=
  match walk_to es nd with Some n => Some (info n) | None => None end.

Fixpoint is_prefix (a b : list ekey) : bool :=
  match a, b with
  | [], _ => true
  | x :: a', y :: b' => if ekey_dec x y then is_prefix a' b' else false
  | _ :: _, [] => false
  end.

(* f rewrites only what the node offers, not its children *)
Definition keeps_children (f : node -> outcome node) : Prop :=
  forall nd nd', f nd = Ok nd' -> n_segs nd' = n_segs nd /\ n_vars nd' = n_vars nd.

(* the node upd hands to f: the one es0 leads to, or a fresh one *)
Definition leaf_of (nd : node) (es0 : list edge) : node :=
  match walk_to es0 nd with Some n => n | None => empty_node end.

Lemma walk_empty es : es <> [] -> walk_to es empty_node = None.
Proof. destruct es as [|[k|p] es]; [contradiction|reflexivity|reflexivity]. Qed.
Lemma leaf_of_empty es : leaf_of empty_node es = empty_node.
Proof. unfold leaf_of. destruct es as [|[k|p] es]; reflexivity. Qed.

Lemma leaf_of_lit nd k es :
  leaf_of nd (ELit k :: es) = leaf_of (match assoc k (n_segs nd) with Some c => c | None => empty_node end) es.
Proof. unfold leaf_of at 1. cbn [walk_to]. destruct (assoc k (n_segs nd)); [reflexivity|]. now rewrite leaf_of_empty. Qed.
Lemma leaf_of_var nd pat es :
  leaf_of nd (EVar pat :: es) = leaf_of (match find_var (spell pat) (n_vars nd) with Some c => c | None => empty_node end) es.
Proof. unfold leaf_of at 1. cbn [walk_to]. destruct (find_var (spell pat) (n_vars nd)); [reflexivity|]. now rewrite leaf_of_empty. Qed.

Lemma upd_leaf es0 : forall f nd nd',
  upd es0 f nd = Ok nd' -> exists leaf', f (leaf_of nd es0) = Ok leaf' /\ walk_to es0 nd' = Some leaf'.
Proof.
  induction es0 as [|[k|pat] es0 IH]; intros f nd nd' H; cbn in H.
  - exists nd'. split; [exact H|reflexivity].
  - destruct (upd es0 f _) as [c'| | |] eqn:Eu; try discriminate. inversion H; subst nd'. clear H.
    destruct (IH _ _ _ Eu) as (leaf' & Hf & Hw). exists leaf'. split.
    + rewrite leaf_of_lit. exact Hf.
    + cbn [walk_to n_segs]. now rewrite assoc_set_eq.
  - destruct (upd es0 f _) as [c'| | |] eqn:Eu; try discriminate. inversion H; subst nd'. clear H.
    destruct (IH _ _ _ Eu) as (leaf' & Hf & Hw). exists leaf'. split.
    + rewrite leaf_of_var. exact Hf.
    + cbn [walk_to n_vars]. now rewrite find_set_eq.
Qed.

Lemma info_at_empty es i : info_at empty_node es = Some i -> i = ([], None).
Proof. unfold info_at. destruct es as [|[k|p] es]; cbn; intros H; inversion H; reflexivity. Qed.

(* what is stored where after an update: only the node the edges lead to is rewritten; nodes created
   on the way are empty *)
Lemma upd_info_inv es0 : forall f nd nd' leaf' es i,
  keeps_children f -> upd es0 f nd = Ok nd' -> f (leaf_of nd es0) = Ok leaf' ->
  info_at nd' es = Some i ->
  (keys es = keys es0 /\ i = info leaf') \/ info_at nd es = Some i \/ i = ([], None).
Proof.
  induction es0 as [|[k|pat] es0 IH]; intros f nd nd' leaf' es i Hk H Hf Hi; cbn in H.
  - unfold leaf_of in Hf. cbn in Hf. rewrite Hf in H. inversion H; subst nd'.
    destruct (Hk _ _ Hf) as [Hs Hv].
    destruct es as [|[k2|p2] es].
    + left. unfold info_at in Hi. cbn in Hi. inversion Hi. auto.
    + right. left. unfold info_at in *. cbn [walk_to] in *. now rewrite Hs in Hi.
    + right. left. unfold info_at in *. cbn [walk_to] in *. now rewrite Hv in Hi.
  - destruct (upd es0 f _) as [c'| | |] eqn:Eu; try discriminate. inversion H; subst nd'. clear H.
    rewrite leaf_of_lit in Hf.
    destruct es as [|[k2|p2] es].
    + right. left. unfold info_at in *. cbn in *. exact Hi.
    + destruct (list_eq_dec N.eq_dec k2 k) as [->|Hne].
      * unfold info_at in Hi. cbn [walk_to n_segs] in Hi. rewrite assoc_set_eq in Hi.
        destruct (IH f _ c' leaf' es i Hk Eu Hf Hi) as [[E1 E2]|[E|E]].
        -- left. split; [unfold keys in *; cbn [map]; now f_equal|exact E2].
        -- destruct (assoc k (n_segs nd)) as [c|] eqn:Ea.
           ++ right. left. unfold info_at. cbn [walk_to]. now rewrite Ea.
           ++ right. right. now apply (info_at_empty es).
        -- right. right. exact E.
      * right. left. unfold info_at in *. cbn [walk_to n_segs] in *. now rewrite assoc_set_neq in Hi.
    + right. left. unfold info_at in *. cbn [walk_to n_vars] in *. exact Hi.
  - destruct (upd es0 f _) as [c'| | |] eqn:Eu; try discriminate. inversion H; subst nd'. clear H.
    rewrite leaf_of_var in Hf.
    destruct es as [|[k2|p2] es].
    + right. left. unfold info_at in *. cbn in *. exact Hi.
    + right. left. unfold info_at in *. cbn [walk_to n_segs] in *. exact Hi.
    + destruct (list_eq_dec N.eq_dec (spell p2) (spell pat)) as [E0|Hne].
      * unfold info_at in Hi. cbn [walk_to n_vars] in Hi. rewrite E0, find_set_eq in Hi.
        destruct (IH f _ c' leaf' es i Hk Eu Hf Hi) as [[E1 E2]|[E|E]].
        -- left. split; [unfold keys in *; cbn [map edge_key]; rewrite E0; now f_equal|exact E2].
        -- destruct (find_var (spell pat) (n_vars nd)) as [c|] eqn:Ea.
           ++ right. left. unfold info_at. cbn [walk_to]. now rewrite E0, Ea.
           ++ right. right. now apply (info_at_empty es).
        -- right. right. exact E.
      * right. left. unfold info_at in *. cbn [walk_to n_vars] in *. now rewrite find_set_neq in Hi.
Qed.

(* ... and everything stored elsewhere stays *)
Lemma upd_info_keep es0 : forall f nd nd' es i,
  keeps_children f -> upd es0 f nd = Ok nd' -> keys es <> keys es0 ->
  info_at nd es = Some i -> info_at nd' es = Some i.
Proof.
  induction es0 as [|[k|pat] es0 IH]; intros f nd nd' es i Hk H Hne Hi; cbn in H.
  - destruct (Hk _ _ H) as [Hs Hv].
    destruct es as [|[k2|p2] es]; [contradiction| |]; unfold info_at in *; cbn [walk_to] in *.
    + now rewrite Hs.
    + now rewrite Hv.
  - destruct (upd es0 f _) as [c'| | |] eqn:Eu; try discriminate. inversion H; subst nd'. clear H.
    destruct es as [|[k2|p2] es]; unfold info_at in *; cbn [walk_to n_segs n_vars] in *; auto.
    destruct (list_eq_dec N.eq_dec k2 k) as [->|Hnk].
    + rewrite assoc_set_eq. destruct (assoc k (n_segs nd)) as [c|] eqn:Ea; [|discriminate].
      apply (IH f c c' es i Hk Eu); auto. intros E. apply Hne. unfold keys in *. cbn [map]. now f_equal.
    + now rewrite assoc_set_neq.
  - destruct (upd es0 f _) as [c'| | |] eqn:Eu; try discriminate. inversion H; subst nd'. clear H.
    destruct es as [|[k2|p2] es]; unfold info_at in *; cbn [walk_to n_segs n_vars] in *; auto.
    destruct (list_eq_dec N.eq_dec (spell p2) (spell pat)) as [E0|Hnk].
    + rewrite E0, find_set_eq. rewrite E0 in Hi. destruct (find_var (spell pat) (n_vars nd)) as [c|] eqn:Ea; [|discriminate].
      apply (IH f c c' es i Hk Eu); auto. intros E. apply Hne. unfold keys in *. cbn [map edge_key]. rewrite E0. now f_equal.
    + now rewrite find_set_neq.
Qed.
