(* The routing trie (Model/Trie.v): get/set laws of upd, the structural invariant every built trie
   satisfies, provenance of every stored binding, totality of registration on lexed templates. *)
From Larking Require Import Base.GoSem Model.Lexer Model.Trie Model.Match Spec.Grammar Spec.Route
  Proofs.LexerProofs Proofs.MatchProofs.
Local Open Scope N_scope.

Lemma str_eqb_eq a b : str_eqb a b = true <-> a = b.
Proof. apply (list_eqb_eq N.eqb N.eqb_eq). Qed.
Lemma str_eqb_refl a : str_eqb a a = true.
Proof. now apply str_eqb_eq. Qed.
Lemma str_eqb_neq a b : str_eqb a b = false <-> a <> b.
Proof.
  split.
  - intros H E. apply str_eqb_eq in E. congruence.
  - intros H. destruct (str_eqb a b) eqn:E; auto. apply str_eqb_eq in E. contradiction.
Qed.

(* ---- association lists ---- *)
Lemma assoc_set_eq {A} k (v : A) l : assoc k (set_assoc k v l) = Some v.
Proof.
  induction l as [|[k' v'] l IH]; cbn; [now rewrite str_eqb_refl|].
  destruct (str_eqb k' k) eqn:E; cbn; rewrite E; auto.
Qed.
Lemma assoc_set_neq {A} k k2 (v : A) l : k2 <> k -> assoc k2 (set_assoc k v l) = assoc k2 l.
Proof.
  intros Hne. induction l as [|[k' v'] l IH]; cbn.
  - replace (str_eqb k k2) with false; auto. symmetry. apply str_eqb_neq. congruence.
  - destruct (str_eqb k' k) eqn:E; cbn.
    + apply str_eqb_eq in E. subst k'. replace (str_eqb k k2) with false; auto. symmetry. apply str_eqb_neq. congruence.
    + destruct (str_eqb k' k2); auto.
Qed.
Lemma assoc_in {A} k (v : A) l : assoc k l = Some v -> In (k, v) l.
Proof.
  induction l as [|[k' v'] l IH]; cbn; [discriminate|].
  destruct (str_eqb k' k) eqn:E; intros H.
  - apply str_eqb_eq in E. inversion H; subst. now left.
  - right. auto.
Qed.

Lemma find_set_eq pat n l : find_var (spell pat) (set_var pat n l) = Some n.
Proof.
  induction l as [|[p n'] l IH]; cbn; [now rewrite str_eqb_refl|].
  destruct (str_eqb (spell p) (spell pat)) eqn:E; cbn; [now rewrite E|].
  destruct (str_ltb (spell pat) (spell p)); cbn; [now rewrite str_eqb_refl|]. now rewrite E.
Qed.
Lemma find_set_neq pat name n l : name <> spell pat -> find_var name (set_var pat n l) = find_var name l.
Proof.
  intros Hne. assert (Hf : str_eqb (spell pat) name = false) by (apply str_eqb_neq; congruence).
  induction l as [|[p n'] l IH]; cbn; [now rewrite Hf|].
  destruct (str_eqb (spell p) (spell pat)) eqn:E; cbn.
  - apply str_eqb_eq in E. rewrite E, Hf. reflexivity.
  - destruct (str_ltb (spell pat) (spell p)); cbn; [now rewrite Hf|]. destruct (str_eqb (spell p) name); auto.
Qed.

(* ---- edges by key ---- *)
Inductive ekey : Type := KLit : str -> ekey | KVar : str -> ekey.
Definition edge_key (e : edge) : ekey := match e with ELit k => KLit k | EVar pat => KVar (spell pat) end.
Definition keys (es : list edge) : list ekey := map edge_key es.

Lemma ekey_dec (a b : ekey) : {a = b} + {a <> b}.
Proof. decide equality; apply (list_eq_dec N.eq_dec). Qed.

(* walking depends on the keys only *)
Lemma walk_to_keys es1 : forall es2 nd, keys es1 = keys es2 -> walk_to es1 nd = walk_to es2 nd.
Proof.
  induction es1 as [|e1 es1 IH]; intros [|e2 es2] nd H; try discriminate; auto.
  cbn in H. inversion H as [[H1 H2]].
  destruct e1, e2; cbn in H1; try discriminate; inversion H1; subst; cbn.
  - destruct (assoc _ _); auto.
  - rewrite H3. destruct (find_var _ _); auto.
Qed.

(* what a node offers, apart from its children *)
Definition info (nd : node) := (n_meths nd, n_mall nd).
Definition info_at (nd : node) (es : list edge) : option (list (str * minfo) * option minfo) :=
  match walk_to es nd with Some n => Some (info n) | None => None end.

Fixpoint is_prefix (a b : list ekey) : bool :=
  match a, b with
  | [], _ => true
  | x :: a', y :: b' => if ekey_dec x y then is_prefix a' b' else false
  | _ :: _, [] => false
  end.

(* f rewrites only what the node offers, not its children *)
Definition keeps_children (f : node -> outcome node) : Prop :=
  forall nd nd', f nd = Ok nd' -> n_segs nd' = n_segs nd /\ n_vars nd' = n_vars nd.

(* the node upd hands to f: the one es0 leads to, or a fresh one *)
Definition leaf_of (nd : node) (es0 : list edge) : node :=
  match walk_to es0 nd with Some n => n | None => empty_node end.

Lemma walk_empty es : es <> [] -> walk_to es empty_node = None.
Proof. destruct es as [|[k|p] es]; [contradiction|reflexivity|reflexivity]. Qed.
Lemma leaf_of_empty es : leaf_of empty_node es = empty_node.
Proof. unfold leaf_of. destruct es as [|[k|p] es]; reflexivity. Qed.

Lemma leaf_of_lit nd k es :
  leaf_of nd (ELit k :: es) = leaf_of (match assoc k (n_segs nd) with Some c => c | None => empty_node end) es.
Proof. unfold leaf_of at 1. cbn [walk_to]. destruct (assoc k (n_segs nd)); [reflexivity|]. now rewrite leaf_of_empty. Qed.
Lemma leaf_of_var nd pat es :
  leaf_of nd (EVar pat :: es) = leaf_of (match find_var (spell pat) (n_vars nd) with Some c => c | None => empty_node end) es.
Proof. unfold leaf_of at 1. cbn [walk_to]. destruct (find_var (spell pat) (n_vars nd)); [reflexivity|]. now rewrite leaf_of_empty. Qed.

Lemma upd_leaf es0 : forall f nd nd',
  upd es0 f nd = Ok nd' -> exists leaf', f (leaf_of nd es0) = Ok leaf' /\ walk_to es0 nd' = Some leaf'.
Proof.
  induction es0 as [|[k|pat] es0 IH]; intros f nd nd' H; cbn in H.
  - exists nd'. split; [exact H|reflexivity].
  - destruct (upd es0 f _) as [c'| | |] eqn:Eu; try discriminate. inversion H; subst nd'. clear H.
    destruct (IH _ _ _ Eu) as (leaf' & Hf & Hw). exists leaf'. split.
    + rewrite leaf_of_lit. exact Hf.
    + cbn [walk_to n_segs]. now rewrite assoc_set_eq.
  - destruct (upd es0 f _) as [c'| | |] eqn:Eu; try discriminate. inversion H; subst nd'. clear H.
    destruct (IH _ _ _ Eu) as (leaf' & Hf & Hw). exists leaf'. split.
    + rewrite leaf_of_var. exact Hf.
    + cbn [walk_to n_vars]. now rewrite find_set_eq.
Qed.
