(* parseParam against the independent grammar of Spec/Json3.v (C03). *)
From Larking Require Import Base.GoSem Base.B64 Model.Schema Model.Params Spec.Json3
  Proofs.ParamsJsonProofs Proofs.ParamsBytesProofs.
Local Open Scope N_scope.

Definition kind_iclass (k : skind) : option iclass :=
  match k with
  | KInt32 | KSint32 | KSfixed32 => Some I32
  | KInt64 | KSint64 | KSfixed64 => Some I64
  | KUint32 | KFixed32 => Some U32
  | KUint64 | KFixed64 => Some U64
  | _ => None
  end.
(* kinds whose text form is a grammar here (the others go to a library oracle) *)
Definition exact_kind (k : skind) : bool :=
  match k with KFloat | KDouble | KBytes | KMessage _ | KGroup _ => false | _ => true end.

(* base64 text as Go's decoder reads it: CR / LF skipped, one alphabet, padded or not *)
Definition b64_text (b : bytes) (txt : bytes) : Prop :=
  exists url pad, b64_decode url pad (strip_crlf txt) = Some b.

Definition json3_text (sch : schema) (k : skind) (v : pval) (txt : bytes) : Prop :=
  match k with
  | KBool => exists b, v = PScalar (SBool b) /\ json3_bool b txt
  | KString => v = PScalar (SStr txt)
  | KBytes => exists b, v = PScalar (SByt b) /\ b64_text b txt
  | KEnum e => exists z, v = PScalar (SEnum z) /\
      (int32_text z txt \/
       ((forall z', ~ int32_text z' txt) /\ exists ed, nth_error (s_enums sch) e = Some ed /\ name_text (e_vals ed) z txt))
  | KFloat | KDouble | KMessage _ | KGroup _ => False
  | _ => match kind_iclass k with
         | Some c => exists z, v = PScalar (SInt z) /\ json3_int (iclass_unsigned c) (iclass_lo c) (iclass_hi c) z txt
         | None => False
         end
  end.

Section Oracles.
Variable ofloat : bool -> bytes -> option N.
Variable owkt : wkt -> bool -> bytes -> option subtree.

Lemma int_param_exact c txt v :
  int_param c txt = Ok v <-> exists z, v = PScalar (SInt z) /\ json3_int (iclass_unsigned c) (iclass_lo c) (iclass_hi c) z txt.
Proof.
  unfold int_param, lift. split.
  - destruct (json_iclass c txt) as [z|] eqn:E; cbn [option_map]; [|discriminate].
    intros H. inversion H; subst. exists z. split; [reflexivity|]. apply json_iclass_exact. exact E.
  - intros [z [-> H]]. apply json_iclass_exact in H. rewrite H. reflexivity.
Qed.

Lemma null_is_int32 : json_iclass I32 lit_null = Some 0%Z.
Proof. vm_compute. reflexivity. Qed.

Lemma parse_enum_exact sch e txt v :
  parse_enum sch e txt = Ok v <-> json3_text sch (KEnum e) v txt.
Proof.
  unfold parse_enum, json3_text, int32_text. split.
  - destruct (json_iclass I32 txt) as [z|] eqn:E.
    + intros H. inversion H; subst. exists z. split; [reflexivity|]. left.
      apply (json_iclass_exact I32). exact E.
    + destruct (nth_error (s_enums sch) e) as [ed|] eqn:En; [|discriminate].
      destruct (e_null ed && bytes_eqb txt lit_null) eqn:Nl.
      * apply andb_true_iff in Nl. destruct Nl as [_ Nl]. apply bytes_eqb_eq in Nl. subst.
        rewrite null_is_int32 in E. discriminate.
      * unfold lift. destruct (enum_by_name (e_vals ed) txt) as [z|] eqn:Eb; cbn [option_map]; [|discriminate].
        intros H. inversion H; subst. exists z. split; [reflexivity|]. right. split.
        -- intros z' Hz. apply (json_iclass_exact I32) in Hz. congruence.
        -- exists ed. split; [reflexivity|]. apply enum_by_name_exact. exact Eb.
  - intros [z [-> [H|[Hn [ed [En Hname]]]]]].
    + apply (json_iclass_exact I32) in H. rewrite H. reflexivity.
    + destruct (json_iclass I32 txt) as [z'|] eqn:E.
      * exfalso. apply (Hn z'). apply (json_iclass_exact I32). exact E.
      * rewrite En.
        destruct (e_null ed && bytes_eqb txt lit_null) eqn:Nl.
        -- apply andb_true_iff in Nl. destruct Nl as [_ Nl]. apply bytes_eqb_eq in Nl. subst.
           rewrite null_is_int32 in E. discriminate.
        -- apply enum_by_name_exact in Hname. rewrite Hname. reflexivity.
Qed.

(* the kinds with a grammar: accepted exactly the texts of the grammar, with exactly that value *)
Theorem conv_exact : forall sch k txt v, exact_kind k = true ->
  (parse_kind ofloat owkt sch k txt = Ok v <-> json3_text sch k v txt).
Proof.
  intros sch k txt v Hk. destruct k; try discriminate; cbn [parse_kind json3_text kind_iclass];
    try apply int_param_exact.
  - unfold lift. split.
    + destruct (json_bool txt) as [b|] eqn:E; cbn [option_map]; [|discriminate].
      intros H. inversion H; subst. exists b. split; [reflexivity|]. apply json_bool_exact. exact E.
    + intros [b [-> H]]. apply json_bool_exact in H. rewrite H. reflexivity.
  - split; intros H; [inversion H; reflexivity|subst; reflexivity].
  - apply parse_enum_exact.
Qed.

(* bytes: every spelling of every byte string is accepted, with that value *)
Theorem bytes_spellings : forall sch url pad m, Forall (fun b => b < 256) m ->
  parse_kind ofloat owkt sch KBytes (b64_encode url pad m) = Ok (PScalar (SByt m)).
Proof.
  intros. cbn [parse_kind]. rewrite parse_bytes_all_spellings by assumption. reflexivity.
Qed.

(* no text outside the grammar is accepted as some value (bool, the ten integer kinds, string,
   bytes, enum) *)
Theorem reject_not_coerce : forall sch k txt v, (exact_kind k = true \/ k = KBytes) ->
  parse_kind ofloat owkt sch k txt = Ok v -> json3_text sch k v txt.
Proof.
  intros sch k txt v [Hk| ->] H.
  - apply conv_exact; assumption.
  - cbn [parse_kind] in H. unfold lift in H. cbn [json3_text].
    destruct (parse_bytes txt) as [b|] eqn:E; cbn [option_map] in H; [|discriminate].
    inversion H; subst. exists b. split; [reflexivity|]. apply parse_bytes_sound in E. exact E.
Qed.

(* float / double and the message-typed well-known types: what is larking's own *)
Theorem oracle_kinds : forall sch txt,
  parse_kind ofloat owkt sch KFloat txt = match ofloat true txt with Some b => Ok (PScalar (SFlt b)) | None => Err EOther end /\
  parse_kind ofloat owkt sch KDouble txt = match ofloat false txt with Some b => Ok (PScalar (SFlt b)) | None => Err EOther end /\
  forall m, parse_kind ofloat owkt sch (KMessage m) txt =
    match msg_wkt sch m with
    | WNone => Err EOther                     (* any other message type cannot be a parameter *)
    | w => match owkt w (wkt_quoted w && needs_quote txt) txt with Some t => Ok (PMsg t) | None => Err EOther end
    end.
Proof.
  intros sch txt. repeat split.
  - cbn [parse_kind]. destruct (ofloat true txt); reflexivity.
  - cbn [parse_kind]. destruct (ofloat false txt); reflexivity.
  - intros m. cbn [parse_kind]. destruct (msg_wkt sch m); try reflexivity;
      match goal with |- context [owkt ?w ?q txt] => destruct (owkt w q txt); reflexivity end.
Qed.

(* which well-known types are quoted, and when a text is *)
Lemma quoted_types : forall w, wkt_quoted w = true <->
  (w = WTimestamp \/ w = WDuration \/ w = WBytesValue \/ w = WStringValue \/ w = WFieldMask).
Proof.
  intros w. split.
  - destruct w; cbn; intros H; try discriminate; auto 6.
  - intros [H|[H|[H|[H|H]]]]; subst; reflexivity.
Qed.
Lemma needs_quote_spec : forall txt, needs_quote txt = false <->
  (2 <= length txt)%nat /\ hd 0 txt = 34 /\ last txt 0 = 34.
Proof.
  intros txt. destruct txt as [|a [|b r]]; cbn [needs_quote length hd].
  - split; [discriminate|intros [H _]; lia].
  - split; [discriminate|intros [H _]; lia].
  - rewrite orb_false_iff, !negb_false_iff, !N.eqb_eq. split.
    + intros [H1 H2]. repeat split; auto; lia.
    + intros [_ [H1 H2]]. split; auto.
Qed.
End Oracles.
