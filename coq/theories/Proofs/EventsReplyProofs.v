(* Proofs about Model/Events.v (C18): interceptors that answer with a message of their own
   (modes IReplace, IAnswer). *)
From Larking Require Import Base.GoSem Spec.EventsSpec Model.Events Proofs.EventsProofs.
Local Open Scope nat_scope.

(* SendMsg either writes the message and returns nil, or (gRPC, call cancelled) changes nothing and
   returns Canceled -- whatever the message is *)
Lemma send_cases c s :
  (forall p, exists e s', do_send c p s = Ok (e, s', ROk) /\ outm s' = outm s ++ [p] /\ hlog s' = hlog s /\ dlv s' = dlv s)
  \/ (forall p, do_send c p s = Ok ([], s, RErr 1)).
Proof.
  destruct (c_http c) eqn:HT.
  - left. intros p. apply send_ok. left; exact HT.
  - destruct (done s) eqn:DN.
    + right. intros p. unfold do_send, grpc_send. rewrite HT, DN. reflexivity.
    + left. intros p. apply send_ok. right; exact DN.
Qed.

Lemma unary_call sc pre reply final : s_hs sc = HUnary pre reply final -> the_call sc = IUnary (s_name sc).
Proof. intros HS. unfold the_call. rewrite HS. reflexivity. Qed.

(* ---------- IAnswer: (m, nil) without calling the handler ---------- *)

(* the result of the whole RPC once the request message is decoded: one log entry (the decode), one
   delivered message, m sent, OK *)
Lemma answer_result sc r pre reply final m :
  serve false sc = Ok r -> s_routed sc = true -> s_hs sc = HUnary pre reply final ->
  eff_mode sc = IAnswer m -> first_ok sc = true ->
  r_replies r = [m] /\ r_status r = Some 0 /\ r_iret r = Some 0 /\ r_herr r = 0 /\ r_hlog r = [ROk].
Proof.
  intros E R HS M F. destruct (serve_routed _ _ _ E R) as (e & s & herr & ir & H & ->).
  cbn [r_iret r_replies r_status r_herr r_hlog].
  rewrite HS, M in H. cbn [handler] in H. unfold unary_handler in H.
  destruct (recv_first sc) as (e1 & s1 & x & H1 & FX & O1 & D1 & L1). rewrite H1 in H.
  apply FX in F. subst x. cbn iota beta in H. cbn [Nat.eqb] in H.
  destruct (send_ok (cfg_of false sc) m s1) as (e3 & s3 & H3 & O3 & L3 & _); [right; exact D1|].
  rewrite H3 in H. inversion H; subst. rewrite O3, O1, L3, L1. repeat split.
Qed.

(* the handler's script plays no part: replacing it by any other unary script gives the same result
   (calls, events, replies, status, the handler-side log) *)
Theorem answer_ignores_script sc m pre reply final pre' reply' final' :
  eff_mode sc = IAnswer m -> s_hs sc = HUnary pre reply final ->
  serve false (set_hs (HUnary pre' reply' final') sc) = serve false sc.
Proof.
  intros M HS. unfold serve.
  assert (M' : eff_mode (set_hs (HUnary pre' reply' final') sc) = IAnswer m) by exact M.
  assert (C' : cfg_of false (set_hs (HUnary pre' reply' final') sc) = cfg_of false sc) by reflexivity.
  assert (T' : the_call (set_hs (HUnary pre' reply' final') sc) = the_call sc)
    by (unfold the_call; rewrite HS; reflexivity).
  rewrite M', M, C', T', HS.
  cbn [s_routed s_proto s_name s_cs s_ss s_icpt s_hs set_hs st0 s_reqs handler].
  reflexivity.
Qed.

Theorem answer_skips_handler sc m pre reply final :
  s_icpt sc = true -> s_imode sc = IAnswer m -> s_hs sc = HUnary pre reply final ->
  (forall pre' reply' final', serve false (set_hs (HUnary pre' reply' final') sc) = serve false sc) /\
  (forall r, serve false sc = Ok r -> s_routed sc = true -> first_ok sc = true ->
     r_hlog r = [ROk] /\ r_iret r = Some 0 /\ r_status r = Some 0 /\ r_replies r = [m]).
Proof.
  intros IC IM HS. assert (M : eff_mode sc = IAnswer m) by (unfold eff_mode; now rewrite IC).
  split.
  - intros pre' reply' final'. eapply answer_ignores_script; eauto.
  - intros r E R F. destruct (answer_result _ _ _ _ _ _ E R HS M F) as (A & B & C & _ & D). repeat split; assumption.
Qed.

(* ---------- IReplace: the handler runs, (m, nil) replaces its reply ---------- *)

(* IReplace against the same RPC with a pass-through interceptor: the interceptor returns the same
   error (the handler's), the client gets the same status, the handler sees the same, and wherever
   the pass-through run delivers the handler's reply this one delivers m *)
Theorem replace_follows_handler sc m pre reply final :
  eff_mode sc = IReplace m -> s_hs sc = HUnary pre reply final ->
  exists r r0, serve false sc = Ok r /\ serve false (set_imode IPass sc) = Ok r0 /\
    r_iret r = r_iret r0 /\ r_status r = r_status r0 /\ r_herr r = r_herr r0 /\
    r_hlog r = r_hlog r0 /\ r_dlv r = r_dlv r0 /\ r_calls r = r_calls r0 /\
    r_replies r = map (fun _ => m) (r_replies r0) /\
    (r_replies r0 = [] \/ r_replies r0 = [reply]).
Proof.
  intros M HS.
  assert (IC : s_icpt sc = true) by (unfold eff_mode in M; destruct (s_icpt sc); [reflexivity|discriminate]).
  unfold serve.
  assert (R' : s_routed (set_imode IPass sc) = s_routed sc) by reflexivity. rewrite R'.
  destruct (s_routed sc) eqn:RT; cbn [negb].
  2:{ eexists; eexists. split; [reflexivity|]. split; [reflexivity|]. cbn. repeat split; auto. }
  assert (M' : eff_mode (set_imode IPass sc) = IPass) by (unfold eff_mode; cbn; rewrite IC; reflexivity).
  assert (C' : cfg_of false (set_imode IPass sc) = cfg_of false sc) by reflexivity.
  assert (T' : the_call (set_imode IPass sc) = the_call sc) by reflexivity.
  assert (H' : s_hs (set_imode IPass sc) = s_hs sc) by reflexivity.
  assert (S' : st0 (set_imode IPass sc) = st0 sc) by reflexivity.
  assert (I' : s_icpt (set_imode IPass sc) = s_icpt sc) by reflexivity.
  cbv zeta. rewrite M', M, C', T', H', S', I', HS. cbn [handler]. unfold unary_handler.
  destruct (recv_first sc) as (e1 & s1 & x & H1 & FX & O1 & D1 & L1). rewrite H1.
  destruct x as [| |kx].
  2:{ eexists; eexists. split; [reflexivity|]. split; [reflexivity|]. cbn. rewrite O1. repeat split; auto. }
  2:{ eexists; eexists. split; [reflexivity|]. split; [reflexivity|]. cbn. rewrite O1. repeat split; auto. }
  destruct (run_acts_uniform (cfg_of false sc) (filter unary_act pre) final s1 eq_refl) as (e2 & s2 & code & U).
  pose proof (U (s_stats sc)) as H2. rewrite <- cfg_of_stats in H2. rewrite H2.
  destruct (meta_keeps _ _ _ _ _ _ _ H2) as [O2 _]. rewrite O1 in O2.
  destruct (Nat.eqb code 0) eqn:EC.
  - destruct (send_cases (cfg_of false sc) s2) as [SC|SC].
    + destruct (SC m) as (e3 & s3 & H3 & O3 & L3 & V3). destruct (SC reply) as (e4 & s4 & H4 & O4 & L4 & V4).
      rewrite H3, H4. eexists; eexists. split; [reflexivity|]. split; [reflexivity|]. cbn.
      rewrite O3, O4, O2, L3, L4, V3, V4. cbn. repeat split; auto.
    + rewrite (SC m), (SC reply). eexists; eexists. split; [reflexivity|]. split; [reflexivity|]. cbn.
      rewrite O2. repeat split; auto.
  - eexists; eexists. split; [reflexivity|]. split; [reflexivity|]. cbn. rewrite O2. repeat split; auto.
Qed.

(* ---------- what the interceptor returns is what the client gets ---------- *)

(* "the handler succeeds" is said through the same RPC with a pass-through interceptor: there the
   interceptor layer returns a nil error. On gRPC SendMsg refuses once the call is cancelled, so a
   handler that is called must not have cancelled the call (as in once_unary for IPass). *)
Theorem interceptor_reply_is_delivered sc r pre reply final m :
  serve false sc = Ok r -> s_routed sc = true -> s_icpt sc = true ->
  s_hs sc = HUnary pre reply final -> first_ok sc = true ->
  (s_imode sc = IAnswer m \/
   (s_imode sc = IReplace m /\
    (exists r0, serve false (set_imode IPass sc) = Ok r0 /\ r_iret r0 = Some 0) /\
    (s_proto sc = PHttp \/ no_cancel pre = true))) ->
  r_replies r = [m] /\ r_status r = Some 0 /\ r_iret r = Some 0 /\
  r_calls r = [IUnary (s_name sc)] /\
  calls_ok true (s_name sc) (s_cs sc) (s_ss sc) (r_calls r) = true.
Proof.
  intros E R IC HS F MD.
  assert (EM : eff_mode sc = s_imode sc) by (unfold eff_mode; now rewrite IC).
  assert (K : r_replies r = [m] /\ r_status r = Some 0 /\ r_iret r = Some 0).
  { destruct MD as [IM|(IM & (r0 & E0 & I0) & HC)].
    - rewrite <- EM in IM. destruct (answer_result _ _ _ _ _ _ E R HS IM F) as (A & B & C & _). repeat split; assumption.
    - rewrite <- EM in IM.
      destruct (replace_follows_handler sc m pre reply final IM HS) as (r1 & r2 & E1 & E2 & A & _).
      rewrite E in E1. inversion E1; subst r1. rewrite E0 in E2. inversion E2; subst r2. rewrite I0 in A.
      destruct (once_unary _ _ _ _ _ E R HS) as [_ B]. destruct (B F) as (k & IK & _ & Z).
      rewrite A in IK. inversion IK; subst k.
      destruct (Z eq_refl) as [ST RP]; [destruct HC as [HC|HC]; [left; exact HC|right; left; exact HC]|].
      rewrite IM in RP. cbn [reply_of] in RP. repeat split; assumption. }
  destruct K as (A & B & C). repeat split; try assumption.
  - destruct (calls_shape _ _ E R) as [CS _]. rewrite CS, C, IC, (unary_call _ _ _ _ HS). reflexivity.
  - destruct (once _ _ E R IC) as [CO _]. rewrite HS in CO. apply CO. rewrite C. discriminate.
Qed.

(* the handler of the brief's short form: one that neither cancels nor touches the header and ends
   with OK succeeds, on every protocol *)
Corollary replace_delivered_plain sc r pre reply final m :
  serve false sc = Ok r -> s_routed sc = true -> s_icpt sc = true -> s_imode sc = IReplace m ->
  s_hs sc = HUnary pre reply final -> first_ok sc = true ->
  filter unary_act pre = [] -> final = 0 ->
  r_replies r = [m] /\ r_status r = Some 0 /\ r_iret r = Some 0 /\ r_calls r = [IUnary (s_name sc)].
Proof.
  intros E R IC IM HS F NP FZ.
  assert (NC : no_cancel pre = true).
  { clear - NP. induction pre as [|a pre IH]; [reflexivity|]. destruct a; cbn in *; try discriminate; auto. }
  assert (EM : eff_mode sc = IReplace m) by (unfold eff_mode; now rewrite IC).
  destruct (replace_follows_handler sc m pre reply final EM HS) as (r1 & r0 & E1 & E0 & A & _).
  rewrite E in E1. inversion E1; subst r1.
  assert (I0 : r_iret r0 = Some 0).
  { assert (R0 : s_routed (set_imode IPass sc) = true) by exact R.
    assert (HS0 : s_hs (set_imode IPass sc) = HUnary pre reply final) by exact HS.
    destruct (serve_routed _ _ _ E0 R0) as (e & s & herr & ir & H & ->). cbn [r_iret].
    rewrite HS0 in H. cbn [handler] in H. unfold unary_handler in H.
    destruct (recv_first (set_imode IPass sc)) as (e1 & s1 & x & H1 & FX & _). rewrite H1 in H.
    assert (F0 : first_ok (set_imode IPass sc) = true) by exact F. apply FX in F0. subst x.
    assert (M0 : eff_mode (set_imode IPass sc) = IPass) by (unfold eff_mode; cbn; rewrite IC; reflexivity).
    rewrite M0, NP, FZ in H. cbn [run_acts] in H. cbn iota beta in H. cbn [Nat.eqb] in H.
    destruct (do_send _ reply s1) as [[[e3 s3] r3]| | |]; try discriminate. now inversion H. }
  destruct (interceptor_reply_is_delivered sc r pre reply final m E R IC HS F) as (X1 & X2 & X3 & X4 & _).
  { right. split; [exact IM|]. split; [exists r0; split; assumption|right; exact NC]. }
  repeat split; assumption.
Qed.
