(* The heap model of the copy-on-write routing state (Model/Snapshot.v, C12) refines the abstract
   routing map (Spec/AbsTrie.v, C11), instantiated at keys (label path from the root, verb).
     snap_find h s labels verb   the binding a snapshot stores under (labels, verb)
     SAbs h s t                  the snapshot denotes the map t (extensionally: a_find = snap_find)
     SExact h s t                the stronger, intensional relation: the binding LIST of the node at
                                 labels is the sublist of t at that node (shadowed entries included)
   Results: route_snap is a_lookup; clone preserves the denotation and leaves the original alone; MAdd
   is a store; MDel is a_del -- under SExact, or under SAbs when nothing is shadowed; under SAbs alone
   it is refuted (MAdd conses onto the binding list, so an MAdd over a bound key shadows the old
   binding and MDel of the newer method brings the old one back); exec over any schedule: the
   published snapshot denotes the fold of the stored writers' mutations; a request sees a_lookup of
   the map published at its load. *)
From Larking Require Import Base.GoSem Model.Registry Model.Snapshot Proofs.RegistryProofs Proofs.SnapshotProofs.
From Larking Require Import Spec.AbsTrie.
Local Open Scope nat_scope.

(* ---------- the instance of AbsTrie ---------- *)
Definition lkey := list nat.
Definition lkey_eqb : lkey -> lkey -> bool := list_eqb Nat.eqb.
Lemma lkey_eqb_eq a b : lkey_eqb a b = true <-> a = b.
Proof. apply list_eqb_eq. intros x y. apply Nat.eqb_eq. Qed.
Lemma lkey_eqb_refl a : lkey_eqb a a = true.
Proof. apply lkey_eqb_eq. reflexivity. Qed.
Lemma lkey_eqb_neq a b : lkey_eqb a b = false <-> a <> b.
Proof.
  split.
  - intros H E. apply lkey_eqb_eq in E. congruence.
  - intros H. destruct (lkey_eqb a b) eqn:E; [apply lkey_eqb_eq in E; contradiction|reflexivity].
Qed.

Notation amap := (atrie lkey nat nat).
Notation s_find := (a_find lkey nat nat lkey_eqb Nat.eqb).
Notation s_lookup := (a_lookup lkey nat nat lkey_eqb Nat.eqb 0).
Notation s_add := (a_add lkey nat nat lkey_eqb Nat.eqb Nat.eqb 0).
Notation s_del := (a_del lkey nat nat Nat.eqb).
Definition sf_cons := a_find_cons lkey nat nat lkey_eqb Nat.eqb.
Definition sf_del := a_find_del lkey nat nat lkey_eqb Nat.eqb Nat.eqb lkey_eqb_eq Nat.eqb_eq.
Definition sa_inv := a_add_inv lkey nat nat lkey_eqb Nat.eqb Nat.eqb 0 Nat.eqb_eq Nat.eqb_eq.

(* ---------- the abstraction function ---------- *)
Fixpoint walk (h : heap) (l : loc) (labels : list nat) : option loc :=
  match labels with
  | [] => Some l
  | lab :: rest => match aget lab (nkids (node_at h l)) with Some p => walk h p rest | None => None end
  end.
(* the binding list of the node at labels *)
Definition binds_at (h : heap) (s : snap) (labels : list nat) : list (nat * method) :=
  match walk h (sroot s) labels with Some l => nbinds (node_at h l) | None => [] end.
Definition snap_find (h : heap) (s : snap) (labels : list nat) (verb : nat) : option method :=
  match walk h (sroot s) labels with Some l => aget verb (nbinds (node_at h l)) | None => None end.
Definition SAbs (h : heap) (s : snap) (t : amap) : Prop :=
  forall labels verb, s_find t labels verb = snap_find h s labels verb.

(* the entries of t at one node, in order, as a binding list *)
Definition a_at (t : amap) (labels : lkey) : list (nat * method) :=
  map (fun e => (snd (fst e), snd e)) (filter (fun e => lkey_eqb (fst (fst e)) labels) t).
Definition SExact (h : heap) (s : snap) (t : amap) : Prop :=
  forall labels, a_at t labels = binds_at h s labels.

(* the region is a tree: a node is reached from the root by at most one label path *)
Definition tree (h : heap) (s : snap) : Prop :=
  forall q1 q2 l, walk h (sroot s) q1 = Some l -> walk h (sroot s) q2 = Some l -> q1 = q2.
(* no binding list along the tree binds a verb twice *)
Definition NoShadow (h : heap) (s : snap) : Prop := forall q, NoDup (map fst (binds_at h s q)).
(* the writer's working copy *)
Definition Wf (b : loc) (h : heap) (s : snap) : Prop :=
  Own b h s /\ tree h s /\ ~ In (shm s) (sregion s) /\ ~ In (scm s) (sregion s).

Lemma snap_find_binds h s labels verb : snap_find h s labels verb = aget verb (binds_at h s labels).
Proof. unfold snap_find, binds_at. destruct (walk h (sroot s) labels); reflexivity. Qed.

Lemma a_at_cons k v m t q : a_at ((k, v, m) :: t) q = if lkey_eqb k q then (v, m) :: a_at t q else a_at t q.
Proof. unfold a_at. cbn [filter fst snd]. destruct (lkey_eqb k q); reflexivity. Qed.
Lemma s_find_a_at t labels verb : s_find t labels verb = aget verb (a_at t labels).
Proof.
  induction t as [|[[k v] m] t IH]; [reflexivity|].
  rewrite sf_cons, a_at_cons. destruct (lkey_eqb k labels); cbn [andb aget]; [|exact IH].
  destruct (v =? verb); [reflexivity|exact IH].
Qed.
Lemma SExact_SAbs h s t : SExact h s t -> SAbs h s t.
Proof. intros E labels verb. rewrite s_find_a_at, snap_find_binds, E. reflexivity. Qed.
Lemma a_at_del t m q : a_at (s_del t m) q = filter (fun e => negb (snd e =? m)) (a_at t q).
Proof.
  induction t as [|[[k v] m0] t IH]; [reflexivity|].
  unfold a_del. cbn [filter snd]. fold (s_del t m). rewrite a_at_cons.
  destruct (m0 =? m) eqn:E; cbn [negb].
  - rewrite IH. destruct (lkey_eqb k q); [|reflexivity]. cbn [filter snd]. rewrite E. reflexivity.
  - rewrite a_at_cons. destruct (lkey_eqb k q); [|exact IH]. cbn [filter snd]. rewrite E. cbn [negb]. rewrite IH. reflexivity.
Qed.
Lemma a_at_nodup t : (forall q, NoDup (map fst (a_at t q))) -> NoDup (map fst t).
Proof.
  induction t as [|[[k1 v1] m1] t IH]; intro G; [constructor|]. cbn [map fst]. constructor.
  - intro Hin. pose proof (G k1) as Gk. rewrite a_at_cons, lkey_eqb_refl in Gk. cbn [map fst] in Gk.
    inversion Gk as [|x l Hnotin _]; subst. apply Hnotin.
    apply in_map_iff in Hin. destruct Hin as ([[k0 v0] m0] & Hk & Hin). cbn [fst] in Hk. injection Hk as -> ->.
    apply in_map_iff. exists (v1, m0). split; [reflexivity|]. unfold a_at.
    apply in_map_iff. exists (k1, v1, m0). split; [reflexivity|]. apply filter_In. split; [exact Hin|apply lkey_eqb_refl].
  - apply IH. intro q. pose proof (G q) as Gq. rewrite a_at_cons in Gq. destruct (lkey_eqb k1 q); [|exact Gq].
    cbn [map fst] in Gq. inversion Gq; assumption.
Qed.
Lemma SExact_nodup h s t : SExact h s t -> NoShadow h s -> NoDup (map fst t).
Proof. intros E N. apply a_at_nodup. intro q. rewrite (E q). apply N. Qed.

(* ---------- readers: route_snap is a_lookup ---------- *)
Lemma finish_walk h rest : forall l verb,
  finish h l rest verb = match walk h l rest with Some p => lookup_verb (node_at h p) verb | None => None end.
Proof.
  induction rest as [|lab rest IH]; intros l verb; cbn [finish walk]; [reflexivity|].
  destruct (aget lab (nkids (node_at h l))) as [p|]; [apply IH|reflexivity].
Qed.

Theorem snap_route_is_lookup h s t labels verb : SAbs h s t ->
  route_snap h (Some s) labels verb = s_lookup t labels verb.
Proof.
  intro A. unfold route_snap, a_lookup. rewrite (A labels verb), (A labels 0), finish_walk.
  unfold snap_find, lookup_verb. destruct (walk h (sroot s) labels) as [p|]; reflexivity.
Qed.

(* ---------- walking ---------- *)
Definition kids_closed (h : heap) (reg : list loc) : Prop :=
  forall l, In l reg -> forall e, In e (nkids (node_at h l)) -> In (snd e) reg.

Lemma walk_app h q1 : forall x q2,
  walk h x (q1 ++ q2) = match walk h x q1 with Some y => walk h y q2 | None => None end.
Proof.
  induction q1 as [|a q1 IH]; intros x q2; cbn [app walk]; [reflexivity|].
  destruct (aget a (nkids (node_at h x))) as [p|]; [apply IH|reflexivity].
Qed.
Lemma walk_in_region h reg : kids_closed h reg -> forall q x y, In x reg -> walk h x q = Some y -> In y reg.
Proof.
  intros C. induction q as [|a q IH]; intros x y Hx W; cbn [walk] in W.
  - injection W as <-. exact Hx.
  - destruct (aget a (nkids (node_at h x))) as [p|] eqn:K; [|discriminate].
    apply (IH p y); [|exact W]. apply (C x Hx (a, p)). apply aget_in. exact K.
Qed.
(* walks from the region depend only on the child lists of the region *)
Lemma walk_ext h h' reg : kids_closed h reg ->
  (forall x, In x reg -> nkids (node_at h' x) = nkids (node_at h x)) ->
  forall q x, In x reg -> walk h' x q = walk h x q.
Proof.
  intros C F. induction q as [|a q IH]; intros x Hx; cbn [walk]; [reflexivity|].
  rewrite (F x Hx). destruct (aget a (nkids (node_at h x))) as [p|] eqn:K; [|reflexivity].
  apply IH. apply (C x Hx (a, p)). apply aget_in. exact K.
Qed.

Lemma root_in_region h s : closed h s -> In (sroot s) (sregion s).
Proof. intros [R _]. exact R. Qed.
Lemma closed_kids h s : closed h s -> kids_closed h (sregion s).
Proof. intros [_ C]. exact C. Qed.

(* a snapshot's denotation depends only on the nodes of its region *)
Lemma region_ext h h' s : closed h s -> (forall x, In x (sregion s) -> node_at h' x = node_at h x) ->
  (forall q, walk h' (sroot s) q = walk h (sroot s) q) /\
  (forall q, binds_at h' s q = binds_at h s q) /\ (tree h s -> tree h' s).
Proof.
  intros Cl F.
  assert (W : forall q, walk h' (sroot s) q = walk h (sroot s) q).
  { intro q. apply (walk_ext h h' (sregion s)); [apply closed_kids; exact Cl| |apply root_in_region with h; exact Cl].
    intros x Hx. rewrite (F x Hx). reflexivity. }
  split; [exact W|]. split.
  - intro q. unfold binds_at. rewrite W. destruct (walk h (sroot s) q) as [y|] eqn:E; [|reflexivity].
    rewrite F; [reflexivity|]. apply (walk_in_region h (sregion s) (closed_kids h s Cl) q (sroot s) y); [apply root_in_region with h; exact Cl|exact E].
  - intros T q1 q2 l W1 W2. rewrite W in W1, W2. apply (T q1 q2 l W1 W2).
Qed.
Lemma cells_nodes h h' (reg : list loc) : (forall x, In x reg -> cell_at h' x = cell_at h x) ->
  forall x, In x reg -> node_at h' x = node_at h x.
Proof. intros F x Hx. unfold node_at. rewrite (F x Hx). reflexivity. Qed.

Lemma SExact_ext h h' s t : (forall q, binds_at h' s q = binds_at h s q) -> SExact h s t -> SExact h' s t.
Proof. intros B E q. rewrite B. apply E. Qed.
Lemma SAbs_ext h h' s t : (forall q, binds_at h' s q = binds_at h s q) -> SAbs h s t -> SAbs h' s t.
Proof. intros B A q v. rewrite snap_find_binds, B, <- snap_find_binds. apply A. Qed.
Lemma NoShadow_ext h h' s : (forall q, binds_at h' s q = binds_at h s q) -> NoShadow h s -> NoShadow h' s.
Proof. intros B N q. rewrite B. apply N. Qed.

(* ---------- clone ---------- *)
Lemma index_of_nth p reg : forall i, index_of p reg = Some i -> nth i reg 0 = p /\ i < length reg.
Proof.
  induction reg as [|q reg IH]; intros i H; cbn [index_of] in H; [discriminate|].
  destruct (q =? p) eqn:E.
  - injection H as <-. apply Nat.eqb_eq in E. cbn [nth length]. split; [exact E|lia].
  - destruct (index_of p reg) as [j|] eqn:J; [|discriminate]. injection H as <-.
    destruct (IH j eq_refl) as [A B]. cbn [nth length]. split; [exact A|lia].
Qed.
Lemma remap_inj reg b x y : In x reg -> In y reg -> remap reg b x = remap reg b y -> x = y.
Proof.
  intros Hx Hy. unfold remap.
  destruct (index_of_some x reg Hx) as (i & Ei & _). destruct (index_of_some y reg Hy) as (j & Ej & _).
  rewrite Ei, Ej. intro E. assert (i = j) by lia. subst j.
  destruct (index_of_nth x reg i Ei) as [<- _]. destruct (index_of_nth y reg i Ej) as [<- _]. reflexivity.
Qed.
Lemma aget_combine_seq_map {A} (f : loc -> A) reg : forall b i rest, i < length reg ->
  aget (b + i) (combine (seq b (length reg)) (map f reg) ++ rest) = Some (f (nth i reg 0)).
Proof.
  induction reg as [|x reg IH]; intros b i rest Hi; cbn [length] in Hi; [lia|].
  cbn [length seq map combine app aget nth]. destruct i as [|i].
  - rewrite Nat.add_0_r, Nat.eqb_refl. reflexivity.
  - destruct (b =? b + S i) eqn:E; [apply Nat.eqb_eq in E; lia|].
    replace (b + S i) with (S b + i) by lia. apply IH. lia.
Qed.
Lemma aget_map_snd {A B} (f : A -> B) k (l : list (nat * A)) :
  aget k (map (fun e => (fst e, f (snd e))) l) = match aget k l with Some v => Some (f v) | None => None end.
Proof.
  induction l as [|[a v] l IH]; [reflexivity|]. cbn [map aget fst snd].
  destruct (a =? k); [reflexivity|exact IH].
Qed.

Lemma clone_node_at h s x : In x (sregion s) ->
  node_at (fst (clone_snap h (Some s))) (remap (sregion s) (next h) x) = clone_node (sregion s) (next h) (node_at h x).
Proof.
  intro Hx. unfold remap. destruct (index_of_some x (sregion s) Hx) as (i & Ei & Li). rewrite Ei.
  destruct (index_of_nth x (sregion s) i Ei) as [Nx _].
  unfold node_at at 1. unfold cell_at. cbn [clone_snap fst cells].
  rewrite (aget_combine_seq_map (fun l => CNode (clone_node (sregion s) (next h) (node_at h l)))) by exact Li.
  rewrite Nx. reflexivity.
Qed.

Lemma clone_walk h s : closed h s -> forall q x, In x (sregion s) ->
  walk (fst (clone_snap h (Some s))) (remap (sregion s) (next h) x) q =
  match walk h x q with Some y => Some (remap (sregion s) (next h) y) | None => None end.
Proof.
  intros Cl. induction q as [|a q IH]; intros x Hx; [reflexivity|].
  cbn [walk]. rewrite (clone_node_at h s x Hx). cbn [clone_node nkids]. rewrite aget_map_snd.
  destruct (aget a (nkids (node_at h x))) as [p|] eqn:K; [|reflexivity].
  apply IH. apply (closed_kids h s Cl x Hx (a, p)). apply aget_in. exact K.
Qed.

Lemma clone_some_abs h s : closed h s ->
  let h' := fst (clone_snap h (Some s)) in let s' := snd (clone_snap h (Some s)) in
  (forall q, binds_at h' s' q = binds_at h s q) /\ (tree h s -> tree h' s').
Proof.
  intros Cl h' s'.
  assert (R : sroot s' = remap (sregion s) (next h) (sroot s)) by reflexivity.
  pose proof (root_in_region h s Cl) as Hr. pose proof (closed_kids h s Cl) as Ck.
  split.
  - intro q. unfold binds_at. rewrite R. unfold h'. rewrite (clone_walk h s Cl q (sroot s) Hr).
    destruct (walk h (sroot s) q) as [y|] eqn:W; [|reflexivity].
    rewrite (clone_node_at h s y); [reflexivity|]. apply (walk_in_region h _ Ck q (sroot s) y Hr W).
  - intros T q1 q2 l W1 W2. rewrite R in W1, W2. unfold h' in W1, W2.
    rewrite (clone_walk h s Cl q1 (sroot s) Hr) in W1. rewrite (clone_walk h s Cl q2 (sroot s) Hr) in W2.
    destruct (walk h (sroot s) q1) as [y1|] eqn:E1; [|discriminate].
    destruct (walk h (sroot s) q2) as [y2|] eqn:E2; [|discriminate].
    injection W1 as W1. injection W2 as W2. apply (T q1 q2 y1 E1). rewrite E2. f_equal.
    apply (remap_inj (sregion s) (next h)); [apply (walk_in_region h _ Ck q2 (sroot s) y2 Hr E2)|apply (walk_in_region h _ Ck q1 (sroot s) y1 Hr E1)|congruence].
Qed.

(* the clone of the nil state: one empty node *)
Lemma clone_none_abs h :
  let h' := fst (clone_snap h None) in let s' := snd (clone_snap h None) in
  (forall q, binds_at h' s' q = []) /\ tree h' s'.
Proof.
  intros h' s'.
  assert (N : node_at h' (sroot s') = Node [] []).
  { unfold h', s', node_at, cell_at. cbn [clone_snap fst snd cells sroot aget]. rewrite Nat.eqb_refl. reflexivity. }
  assert (W : forall q, walk h' (sroot s') q = match q with [] => Some (sroot s') | _ => None end).
  { intros [|a q]; [reflexivity|]. cbn [walk]. rewrite N. reflexivity. }
  split.
  - intro q. unfold binds_at. rewrite W. destruct q; [rewrite N|]; reflexivity.
  - intros q1 q2 l W1 W2. rewrite W in W1, W2. destruct q1; [|discriminate]. destruct q2; [reflexivity|discriminate].
Qed.

Lemma clone_disjoint h p : let s' := snd (clone_snap h p) in ~ In (shm s') (sregion s') /\ ~ In (scm s') (sregion s').
Proof.
  destruct p as [s|]; cbn [clone_snap snd shm scm sregion].
  - split; intro Q; apply in_seq in Q; lia.
  - split; intros [Q|[]]; lia.
Qed.

(* the original is untouched by its clone *)
Lemma clone_frame_region h p s0 : (forall s, p = Some s -> closed h s) -> (forall l, In l (sregion s0) -> l < next h) ->
  forall x, In x (sregion s0) -> cell_at (fst (clone_snap h p)) x = cell_at h x.
Proof.
  intros Hc B x Hx. pose proof (clone_spec h p Hc) as S. destruct (clone_snap h p) as [h' s']. cbn [fst].
  destruct S as ([F _] & Fr & _). apply Fr. intro Q. pose proof (F x Q). pose proof (B x Hx). lia.
Qed.

Theorem clone_preserves_abs h s t h' s' :
  closed h s -> (forall l, In l (sregion s) -> l < next h) -> clone_snap h (Some s) = (h', s') ->
  SAbs h s t -> SAbs h' s' t /\ SAbs h' s t.
Proof.
  intros Cl B E A. pose proof (clone_some_abs h s Cl) as [Bq _]. rewrite E in Bq. cbn [fst snd] in Bq.
  split.
  - intros q v. rewrite snap_find_binds, Bq, <- snap_find_binds. apply A.
  - assert (F : forall x, In x (sregion s) -> cell_at h' x = cell_at h x).
    { intros x Hx. pose proof (clone_frame_region h (Some s) s) as Q. rewrite E in Q. cbn [fst] in Q.
      apply Q; [intros s1 Es; injection Es as <-; exact Cl|exact B|exact Hx]. }
    destruct (region_ext h h' s Cl (cells_nodes h h' _ F)) as (_ & Bo & _).
    apply (SAbs_ext h h' s t Bo A).
Qed.

(* ---------- one new edge l --lab--> p to a fresh empty node p ---------- *)
Record AddEdge (h h2 : heap) (reg : list loc) (l : loc) (lab : nat) (p : loc) : Prop := {
  aeC : kids_closed h reg;
  aeL : In l reg;
  aeP : ~ In p reg;
  aeN : aget lab (nkids (node_at h l)) = None;
  ae2l : node_at h2 l = Node (aset lab p (nkids (node_at h l))) (nbinds (node_at h l));
  ae2p : node_at h2 p = Node [] [];
  ae2o : forall x, x <> l -> x <> p -> node_at h2 x = node_at h x }.

Lemma ae_fwd h h2 reg l lab p : AddEdge h h2 reg l lab p ->
  forall q x y, In x reg -> walk h x q = Some y -> walk h2 x q = Some y.
Proof.
  intros AE. induction q as [|a q IH]; intros x y Hx W; cbn [walk] in *; [exact W|].
  destruct (aget a (nkids (node_at h x))) as [c|] eqn:K; [|discriminate].
  assert (Hc : In c reg) by (apply (aeC _ _ _ _ _ _ AE x Hx (a, c)); apply aget_in; exact K).
  assert (K2 : aget a (nkids (node_at h2 x)) = Some c).
  { destruct (Nat.eq_dec x l) as [->|Nl].
    - rewrite (ae2l _ _ _ _ _ _ AE). cbn [nkids]. rewrite aget_aset.
      destruct (lab =? a) eqn:E; [apply Nat.eqb_eq in E; subst a; rewrite (aeN _ _ _ _ _ _ AE) in K; discriminate|exact K].
    - rewrite (ae2o _ _ _ _ _ _ AE x Nl); [exact K|]. intro Q; subst x. apply (aeP _ _ _ _ _ _ AE Hx). }
  rewrite K2. apply (IH c y Hc W).
Qed.
Lemma ae_bwd h h2 reg l lab p : AddEdge h h2 reg l lab p ->
  forall q x y, In x reg -> walk h2 x q = Some y ->
  walk h x q = Some y \/ (y = p /\ exists q1, q = q1 ++ [lab] /\ walk h x q1 = Some l).
Proof.
  intros AE. induction q as [|a q IH]; intros x y Hx W; cbn [walk] in *; [left; exact W|].
  assert (Np : x <> p) by (intro Q; subst x; apply (aeP _ _ _ _ _ _ AE Hx)).
  assert (STEP : forall c, aget a (nkids (node_at h x)) = Some c -> walk h2 c q = Some y ->
            match aget a (nkids (node_at h x)) with Some p0 => walk h p0 q | None => None end = Some y \/
            (y = p /\ exists q1, a :: q = q1 ++ [lab] /\ walk h x q1 = Some l)).
  { intros c K Wc. rewrite K.
    assert (Hc : In c reg) by (apply (aeC _ _ _ _ _ _ AE x Hx (a, c)); apply aget_in; exact K).
    destruct (IH c y Hc Wc) as [L|(Ey & q1 & Eq & W1)]; [left; exact L|]. right. split; [exact Ey|].
    exists (a :: q1). split; [rewrite Eq; reflexivity|]. cbn [walk]. rewrite K. exact W1. }
  destruct (Nat.eq_dec x l) as [->|Nl].
  - rewrite (ae2l _ _ _ _ _ _ AE) in W. cbn [nkids] in W. rewrite aget_aset in W.
    destruct (lab =? a) eqn:E.
    + apply Nat.eqb_eq in E. subst a. right.
      destruct q as [|a' q']; cbn [walk] in W.
      * injection W as <-. split; [reflexivity|]. exists []. split; reflexivity.
      * rewrite (ae2p _ _ _ _ _ _ AE) in W. cbn [nkids aget] in W. discriminate.
    + destruct (aget a (nkids (node_at h l))) as [c|] eqn:K; [|discriminate]. apply (STEP c eq_refl W).
  - rewrite (ae2o _ _ _ _ _ _ AE x Nl Np) in W.
    destruct (aget a (nkids (node_at h x))) as [c|] eqn:K; [|discriminate]. apply (STEP c eq_refl W).
Qed.
Lemma ae_edge h h2 reg l lab p : AddEdge h h2 reg l lab p ->
  forall q1 x, In x reg -> walk h x q1 = Some l -> walk h2 x (q1 ++ [lab]) = Some p.
Proof.
  intros AE q1 x Hx W. rewrite walk_app, (ae_fwd _ _ _ _ _ _ AE q1 x l Hx W). cbn [walk].
  rewrite (ae2l _ _ _ _ _ _ AE). cbn [nkids]. rewrite aget_aset, Nat.eqb_refl. reflexivity.
Qed.

(* what the new edge does to a snapshot rooted in the region: the same bindings everywhere, still a tree *)
Lemma ae_snapshot h h2 s s2 l lab p pre : AddEdge h h2 (sregion s) l lab p ->
  In (sroot s) (sregion s) -> sroot s2 = sroot s -> tree h s -> walk h (sroot s) pre = Some l ->
  (forall q, binds_at h2 s2 q = binds_at h s q) /\ tree h2 s2 /\ walk h2 (sroot s2) (pre ++ [lab]) = Some p.
Proof.
  intros AE Hr R T Wl.
  assert (UNR : forall q, walk h (sroot s) q <> Some p).
  { intros q Q. apply (aeP _ _ _ _ _ _ AE). apply (walk_in_region h _ (aeC _ _ _ _ _ _ AE) q (sroot s) p Hr Q). }
  split; [|split].
  - intro q. unfold binds_at. rewrite R.
    destruct (walk h2 (sroot s) q) as [y|] eqn:W2.
    + destruct (ae_bwd _ _ _ _ _ _ AE q (sroot s) y Hr W2) as [W|(-> & q1 & Eq & W1)].
      * rewrite W. assert (Hy : In y (sregion s)) by (apply (walk_in_region h _ (aeC _ _ _ _ _ _ AE) q (sroot s) y Hr W)).
        destruct (Nat.eq_dec y l) as [->|Nl]; [rewrite (ae2l _ _ _ _ _ _ AE); reflexivity|].
        rewrite (ae2o _ _ _ _ _ _ AE y Nl); [reflexivity|]. intro Q; subst y. apply (aeP _ _ _ _ _ _ AE Hy).
      * rewrite (ae2p _ _ _ _ _ _ AE). cbn [nbinds].
        destruct (walk h (sroot s) q) as [z|] eqn:W; [|reflexivity].
        pose proof (ae_fwd _ _ _ _ _ _ AE q (sroot s) z Hr W) as W'. rewrite W2 in W'. injection W' as <-.
        exfalso. apply (UNR q W).
    + destruct (walk h (sroot s) q) as [z|] eqn:W; [|reflexivity].
      pose proof (ae_fwd _ _ _ _ _ _ AE q (sroot s) z Hr W) as W'. rewrite W2 in W'. discriminate.
  - intros q1 q2 y W1 W2. rewrite R in W1, W2.
    destruct (ae_bwd _ _ _ _ _ _ AE q1 (sroot s) y Hr W1) as [A1|(E1 & r1 & Eq1 & A1)];
      destruct (ae_bwd _ _ _ _ _ _ AE q2 (sroot s) y Hr W2) as [A2|(E2 & r2 & Eq2 & A2)].
    + apply (T q1 q2 y A1 A2).
    + subst y. exfalso. apply (UNR q1 A1).
    + subst y. exfalso. apply (UNR q2 A2).
    + rewrite Eq1, Eq2. f_equal. apply (T r1 r2 l A1 A2).
  - rewrite R. apply (ae_edge _ _ _ _ _ _ AE pre (sroot s) Hr Wl).
Qed.

(* ---------- nav_create: only empty nodes appear ---------- *)
Lemma nav_create_abs b labels : forall h s l pre, Own b h s -> tree h s -> walk h (sroot s) pre = Some l ->
  let '(h', s', l', ws) := nav_create h s l labels in
  sroot s' = sroot s /\ tree h' s' /\ walk h' (sroot s') (pre ++ labels) = Some l' /\
  (forall q, binds_at h' s' q = binds_at h s q) /\
  (forall x, In x (sregion s') -> In x (sregion s) \/ next h <= x).
Proof.
  induction labels as [|lab rest IH]; intros h s l pre O T Wl; cbn [nav_create].
  - rewrite app_nil_r. split; [reflexivity|]. split; [exact T|]. split; [exact Wl|]. split; [reflexivity|]. intros x Hx; left; exact Hx.
  - assert (Hr : In (sroot s) (sregion s)) by (apply (root_in_region h), O).
    assert (Ck : kids_closed h (sregion s)) by (apply closed_kids, O).
    assert (Hl : In l (sregion s)) by (apply (walk_in_region h _ Ck pre (sroot s) l Hr Wl)).
    destruct (aget lab (nkids (node_at h l))) as [c|] eqn:K.
    + replace (pre ++ lab :: rest) with ((pre ++ [lab]) ++ rest) by (rewrite <- app_assoc; reflexivity).
      apply IH; [exact O|exact T|]. rewrite walk_app, Wl. cbn [walk]. rewrite K. reflexivity.
    + pose proof (nav_create_spec b [lab] h s l O Hl) as N. cbn [nav_create] in N. rewrite K in N.
      cbn [al] in *. set (p := next h) in *.
      set (h1 := Heap (aset p (CNode (Node [] [])) (cells h)) (S p)) in *.
      set (h2 := wr h1 l (CNode (Node (aset lab p (nkids (node_at h l))) (nbinds (node_at h l))))) in *.
      set (s2 := Snap (sroot s) (p :: sregion s) (shm s) (scm s)) in *.
      destruct N as (O2 & _).
      assert (Lp : l < p) by (apply (proj1 O l); right; right; exact Hl).
      assert (AE : AddEdge h h2 (sregion s) l lab p).
      { constructor; try assumption.
        - intro Q. pose proof (proj1 O p (or_intror (or_intror Q))) as B. unfold p in B. lia.
        - unfold h2. apply node_wr_same.
        - unfold h2. rewrite node_wr_other by lia. unfold node_at, cell_at, h1. cbn [cells]. rewrite aget_aset, Nat.eqb_refl. reflexivity.
        - intros x X1 X2. unfold h2. rewrite node_wr_other by congruence. unfold node_at, cell_at, h1. cbn [cells]. rewrite aget_aset.
          destruct (p =? x) eqn:E; [apply Nat.eqb_eq in E; congruence|reflexivity]. }
      destruct (ae_snapshot h h2 s s2 l lab p pre AE Hr eq_refl T Wl) as (B2 & T2 & W2).
      specialize (IH h2 s2 p (pre ++ [lab]) O2 T2 W2).
      destruct (nav_create h2 s2 p rest) as [[[h3 s3] l3] ws].
      destruct IH as (A1 & A2 & A3 & A4 & A5).
      split; [rewrite A1; reflexivity|]. split; [exact A2|]. split; [rewrite <- app_assoc in A3; exact A3|].
      split; [intro q; rewrite A4; apply B2|].
      intros x Hx. destruct (A5 x Hx) as [[<-|Q]|Q]; [right; unfold p; lia|left; exact Q|].
      right. unfold h2, h1 in Q. cbn [wr next] in Q. unfold p in Q. lia.
Qed.

(* ---------- MAdd is a store ---------- *)
Lemma madd_abs b h s labels verb m : Wf b h s ->
  let '(h', s', ws) := apply_mut h s (MAdd labels verb m) in
  Wf b h' s' /\
  forall q, binds_at h' s' q = if lkey_eqb labels q then (verb, m) :: binds_at h s q else binds_at h s q.
Proof.
  intros (O & T & D1 & D2).
  pose proof (apply_mut_spec b h s (MAdd labels verb m) O) as SP. cbn [apply_mut] in *.
  pose proof (nav_create_spec b labels h s (sroot s) O (proj1 (proj2 O))) as NS.
  pose proof (nav_create_maps labels h s (sroot s)) as NM.
  pose proof (nav_create_abs b labels h s (sroot s) [] O T eq_refl) as NA. cbn [app] in NA.
  destruct (nav_create h s (sroot s) labels) as [[[h1 s1] l] ws].
  destruct SP as (O' & _). destruct NS as (O1 & Hl & _). destruct NM as [M1 M2].
  destruct NA as (R1 & T1 & W1 & B1 & G1).
  set (h' := wr h1 l (CNode (Node (nkids (node_at h1 l)) (aset verb m (nbinds (node_at h1 l)))))) in *.
  assert (KS : forall x, nkids (node_at h' x) = nkids (node_at h1 x)).
  { intro x. unfold h'. destruct (Nat.eq_dec l x) as [<-|N]; [rewrite node_wr_same; reflexivity|rewrite node_wr_other by exact N; reflexivity]. }
  assert (WS : forall q, walk h' (sroot s1) q = walk h1 (sroot s1) q).
  { intro q. apply (walk_ext h1 h' (sregion s1)); [apply closed_kids, O1|intros x _; apply KS|apply (root_in_region h1), O1]. }
  split.
  - split; [exact O'|]. split; [|split].
    + intros q1 q2 y A1 A2. rewrite WS in A1, A2. apply (T1 q1 q2 y A1 A2).
    + rewrite M1. intro Q. destruct (G1 _ Q) as [Q'|Q']; [apply D1; exact Q'|].
      pose proof (proj1 O (shm s) (or_introl eq_refl)). lia.
    + rewrite M2. intro Q. destruct (G1 _ Q) as [Q'|Q']; [apply D2; exact Q'|].
      pose proof (proj1 O (scm s) (or_intror (or_introl eq_refl))). lia.
  - intro q. rewrite <- B1. unfold binds_at. rewrite WS.
    destruct (lkey_eqb labels q) eqn:E.
    + apply lkey_eqb_eq in E. subst q. rewrite W1. unfold h'. rewrite node_wr_same. reflexivity.
    + apply lkey_eqb_neq in E. destruct (walk h1 (sroot s1) q) as [y|] eqn:W; [|reflexivity].
      unfold h'. rewrite node_wr_other; [reflexivity|]. intro Q; subst y. apply E. apply (T1 labels q l W1 W).
Qed.

(* a map t' is t with (k, v) -> m stored: replace or insert that key, everything else unchanged *)
Definition is_store (t : amap) (k : lkey) (v : nat) (m : nat) (t' : amap) : Prop :=
  forall k' v', s_find t' k' v' = if lkey_eqb k k' && (v =? v') then Some m else s_find t k' v'.
Definition a_store (t : amap) (k : lkey) (v m : nat) : amap := (k, v, m) :: t.
Definition a_put (t : amap) (k : lkey) (v m : nat) : amap :=
  (k, v, m) :: filter (fun e => negb (lkey_eqb (fst (fst e)) k && (snd (fst e) =? v))) t.
Lemma a_store_is_store t k v m : is_store t k v m (a_store t k v m).
Proof. intros k' v'. unfold a_store. rewrite sf_cons. reflexivity. Qed.
Lemma s_find_filter_other t k v k' v' : lkey_eqb k k' && (v =? v') = false ->
  s_find (filter (fun e => negb (lkey_eqb (fst (fst e)) k && (snd (fst e) =? v))) t) k' v' = s_find t k' v'.
Proof.
  intro N. induction t as [|[[k0 v0] m0] t IH]; [reflexivity|]. cbn [filter fst snd].
  destruct (lkey_eqb k0 k && (v0 =? v)) eqn:E; cbn [negb].
  - rewrite IH, sf_cons. apply andb_true_iff in E. destruct E as [E1 E2]. apply lkey_eqb_eq in E1. apply Nat.eqb_eq in E2.
    subst k0 v0. rewrite N. reflexivity.
  - rewrite !sf_cons, IH. reflexivity.
Qed.
Lemma a_put_is_store t k v m : is_store t k v m (a_put t k v m).
Proof.
  intros k' v'. unfold a_put. rewrite sf_cons. destruct (lkey_eqb k k' && (v =? v')) eqn:E; [reflexivity|].
  apply s_find_filter_other. exact E.
Qed.
Lemma a_put_unbound t k v m : s_find t k v = None -> a_put t k v m = a_store t k v m.
Proof.
  intro N. unfold a_put, a_store. f_equal.
  induction t as [|[[k0 v0] m0] t IH]; [reflexivity|]. rewrite sf_cons in N. cbn [filter fst snd].
  destruct (lkey_eqb k0 k && (v0 =? v)); [discriminate|]. cbn [negb]. rewrite (IH N). reflexivity.
Qed.

Theorem madd_refines b h s t labels verb m h' s' ws : Wf b h s -> SAbs h s t ->
  apply_mut h s (MAdd labels verb m) = (h', s', ws) ->
  Wf b h' s' /\ forall t', is_store t labels verb m t' -> SAbs h' s' t'.
Proof.
  intros W A E. pose proof (madd_abs b h s labels verb m W) as M. rewrite E in M. destruct M as [W' B].
  split; [exact W'|]. intros t' St q v. rewrite (St q v), snap_find_binds, B.
  destruct (lkey_eqb labels q); cbn [andb aget].
  - destruct (verb =? v); [reflexivity|]. rewrite <- snap_find_binds. apply A.
  - rewrite <- snap_find_binds. apply A.
Qed.
(* against a_add: when the duplicate check lets the rule through and reports a new binding *)
Corollary madd_refines_add b h s t labels verb m h' s' ws t' : Wf b h s -> SAbs h s t ->
  apply_mut h s (MAdd labels verb m) = (h', s', ws) ->
  s_add t (AKey labels verb true) m = Ok (t', true) -> SAbs h' s' t'.
Proof.
  intros W A E Ad. destruct (madd_refines b h s t labels verb m h' s' ws W A E) as [_ S]. apply S.
  destruct (sa_inv _ _ _ _ _ Ad) as (_ & _ & _ & [(Q & _)|(_ & -> & _)]); [discriminate|].
  cbn [ak_node ak_verb]. apply a_store_is_store.
Qed.
(* the intensional relation: the new entry goes in front *)
Lemma madd_exact b h s t labels verb m h' s' ws : Wf b h s -> SExact h s t ->
  apply_mut h s (MAdd labels verb m) = (h', s', ws) -> Wf b h' s' /\ SExact h' s' (a_store t labels verb m).
Proof.
  intros W A E. pose proof (madd_abs b h s labels verb m W) as M. rewrite E in M. destruct M as [W' B].
  split; [exact W'|]. intro q. unfold a_store. rewrite a_at_cons, B, (A q). reflexivity.
Qed.
Lemma madd_noshadow b h s labels verb m h' s' ws : Wf b h s -> NoShadow h s -> snap_find h s labels verb = None ->
  apply_mut h s (MAdd labels verb m) = (h', s', ws) -> NoShadow h' s'.
Proof.
  intros W N U E. pose proof (madd_abs b h s labels verb m W) as M. rewrite E in M. destruct M as [_ B].
  intro q. rewrite B. destruct (lkey_eqb labels q) eqn:Q; [|apply N]. apply lkey_eqb_eq in Q. subst q.
  cbn [map fst]. constructor; [|apply N]. rewrite snap_find_binds in U. intro Hin.
  apply in_map_iff in Hin. destruct Hin as ([v0 m0] & Ev & Hin). cbn [fst] in Ev. subst v0.
  clear - U Hin. induction (binds_at h s labels) as [|[a x] l IH]; [destruct Hin|]. cbn [aget] in U.
  destruct (a =? verb) eqn:E; [discriminate|]. destruct Hin as [Q|Hin]; [injection Q as -> ->; rewrite Nat.eqb_refl in E; discriminate|].
  apply (IH U Hin).
Qed.

(* ---------- MDel ---------- *)
Lemma filter_idem {A} (f : A -> bool) l : filter f (filter f l) = filter f l.
Proof.
  induction l as [|e l IH]; [reflexivity|]. cbn [filter].
  destruct (f e) eqn:E; [|exact IH]. cbn [filter]. rewrite E, IH. reflexivity.
Qed.
Lemma del_binds_idem m n : del_binds m (del_binds m n) = del_binds m n.
Proof. unfold del_binds. cbn [nkids nbinds]. f_equal. apply filter_idem. Qed.
Lemma del_binds_empty m : del_binds m (Node [] []) = Node [] [].
Proof. reflexivity. Qed.
Lemma fold_del_nodes m reg : forall h x,
  node_at (fold_left (fun hh l => wr hh l (CNode (del_binds m (node_at hh l)))) reg h) x =
  if in_dec Nat.eq_dec x reg then del_binds m (node_at h x) else node_at h x.
Proof.
  induction reg as [|l reg IH]; intros h x; cbn [fold_left]; [reflexivity|].
  rewrite IH. destruct (Nat.eq_dec l x) as [->|N].
  - rewrite node_wr_same. destruct (in_dec Nat.eq_dec x (x :: reg)) as [_|Q]; [|exfalso; apply Q; left; reflexivity].
    destruct (in_dec Nat.eq_dec x reg); [apply del_binds_idem|reflexivity].
  - rewrite node_wr_other by exact N.
    destruct (in_dec Nat.eq_dec x reg) as [I|I]; destruct (in_dec Nat.eq_dec x (l :: reg)) as [J|J]; try reflexivity.
    + exfalso. apply J. right; exact I.
    + destruct J as [J|J]; [congruence|contradiction].
Qed.

Lemma mdel_abs b h s m : Wf b h s ->
  let '(h', s', ws) := apply_mut h s (MDel m) in
  Wf b h' s' /\ forall q, binds_at h' s' q = filter (fun e => negb (snd e =? m)) (binds_at h s q).
Proof.
  intros (O & T & D1 & D2).
  pose proof (apply_mut_spec b h s (MDel m) O) as SP. cbn [apply_mut] in *. destruct SP as (O' & _).
  set (h' := fold_left (fun hh l => wr hh l (CNode (del_binds m (node_at hh l)))) (sregion s) h) in *.
  assert (ND : forall x, node_at h' x = if in_dec Nat.eq_dec x (sregion s) then del_binds m (node_at h x) else node_at h x)
    by (intro x; apply fold_del_nodes).
  assert (WS : forall q, walk h' (sroot s) q = walk h (sroot s) q).
  { intro q. apply (walk_ext h h' (sregion s)); [apply closed_kids, O| |apply (root_in_region h), O].
    intros x _. rewrite ND. destruct (in_dec Nat.eq_dec x (sregion s)); reflexivity. }
  split.
  - split; [exact O'|]. split; [|split; assumption].
    intros q1 q2 y A1 A2. rewrite WS in A1, A2. apply (T q1 q2 y A1 A2).
  - intro q. unfold binds_at. rewrite WS. destruct (walk h (sroot s) q) as [y|] eqn:W; [|reflexivity].
    rewrite ND. destruct (in_dec Nat.eq_dec y (sregion s)) as [_|Q]; [reflexivity|].
    exfalso. apply Q. apply (walk_in_region h _ (closed_kids h s (proj2 O)) q (sroot s) y); [apply (root_in_region h), O|exact W].
Qed.

(* under the intensional relation MDel is a_del, with no side condition *)
Lemma mdel_exact b h s t m h' s' ws : Wf b h s -> SExact h s t ->
  apply_mut h s (MDel m) = (h', s', ws) -> Wf b h' s' /\ SExact h' s' (s_del t m).
Proof.
  intros W A E. pose proof (mdel_abs b h s m W) as M. rewrite E in M. destruct M as [W' B].
  split; [exact W'|]. intro q. rewrite a_at_del, B, (A q). reflexivity.
Qed.

Lemma aget_filter_nodup (m : method) v (l : list (nat * method)) : NoDup (map fst l) ->
  aget v (filter (fun e => negb (snd e =? m)) l) = odel Nat.eqb m (aget v l).
Proof.
  induction l as [|[a x] l IH]; intro N; [reflexivity|]. cbn [map fst] in N. inversion N as [|y l' Hnotin N']; subst.
  cbn [filter snd aget]. destruct (a =? v) eqn:E.
  - apply Nat.eqb_eq in E. subst a. cbn [odel]. destruct (x =? m); cbn [negb aget]; [|rewrite Nat.eqb_refl; reflexivity].
    rewrite (IH N'). destruct (aget v l) as [x1|] eqn:G; [|reflexivity]. exfalso. apply Hnotin.
    apply in_map_iff. exists (v, x1). split; [reflexivity|apply aget_in; exact G].
  - destruct (x =? m); cbn [negb aget]; [|rewrite E]; apply (IH N').
Qed.
Lemma mdel_noshadow b h s m h' s' ws : Wf b h s -> NoShadow h s ->
  apply_mut h s (MDel m) = (h', s', ws) -> NoShadow h' s'.
Proof.
  intros W N E. pose proof (mdel_abs b h s m W) as M. rewrite E in M. destruct M as [_ B].
  intro q. rewrite B. apply NoDup_map_filter'. apply N.
Qed.
(* the extensional relation needs "nothing shadowed" on both sides *)
Theorem mdel_refines b h s t m h' s' ws : Wf b h s -> SAbs h s t -> NoShadow h s -> NoDup (map fst t) ->
  apply_mut h s (MDel m) = (h', s', ws) ->
  Wf b h' s' /\ SAbs h' s' (s_del t m) /\ NoShadow h' s' /\ NoDup (map fst (s_del t m)).
Proof.
  intros W A N Nt E. pose proof (mdel_abs b h s m W) as M. rewrite E in M. destruct M as [W' B].
  split; [exact W'|]. split; [|split].
  - intros q v. rewrite (sf_del t m q v Nt), snap_find_binds, B.
    pose proof (aget_filter_nodup m v _ (N q)) as G. etransitivity; [|symmetry; exact G].
    rewrite <- snap_find_binds, (A q v). reflexivity.
  - apply (mdel_noshadow b h s m h' s' ws W N E).
  - apply a_del_nodup. exact Nt.
Qed.

(* ---------- the two map cells ---------- *)
Lemma mother_abs b h s mu : Wf b h s -> match mu with MHandlers _ | MConns _ => True | _ => False end ->
  let '(h', s', ws) := apply_mut h s mu in Wf b h' s' /\ forall q, binds_at h' s' q = binds_at h s q.
Proof.
  intros (O & T & D1 & D2) K. pose proof (apply_mut_spec b h s mu O) as SP.
  destruct mu as [? ? ?|?|v|v]; try contradiction; cbn [apply_mut] in *; destruct SP as (O' & _).
  - assert (F : forall x, In x (sregion s) -> node_at (wr h (shm s) (CHmap v)) x = node_at h x).
    { intros x Hx. apply node_wr_other. intro Q. subst x. apply D1. exact Hx. }
    destruct (region_ext h _ s (proj2 O) F) as (_ & Bq & Tq). split; [|exact Bq].
    split; [exact O'|]. split; [apply Tq; exact T|split; assumption].
  - assert (F : forall x, In x (sregion s) -> node_at (wr h (scm s) (CCmap v)) x = node_at h x).
    { intros x Hx. apply node_wr_other. intro Q. subst x. apply D2. exact Hx. }
    destruct (region_ext h _ s (proj2 O) F) as (_ & Bq & Tq). split; [|exact Bq].
    split; [exact O'|]. split; [apply Tq; exact T|split; assumption].
Qed.

(* ---------- every mutation, against its abstract counterpart ---------- *)
Definition amut (t : amap) (mu : mut) : amap :=
  match mu with
  | MAdd labels verb m => a_store t labels verb m
  | MDel m => s_del t m
  | MHandlers _ | MConns _ => t
  end.
Lemma apply_mut_exact b h s t mu h' s' ws : Wf b h s -> SExact h s t ->
  apply_mut h s mu = (h', s', ws) -> Wf b h' s' /\ SExact h' s' (amut t mu).
Proof.
  intros W A E. destruct mu as [labels verb m|m|v|v]; cbn [amut].
  - apply (madd_exact b h s t labels verb m h' s' ws W A E).
  - apply (mdel_exact b h s t m h' s' ws W A E).
  - pose proof (mother_abs b h s (MHandlers v) W I) as M. rewrite E in M. destruct M as [W' B].
    split; [exact W'|intro q; rewrite B; apply A].
  - pose proof (mother_abs b h s (MConns v) W I) as M. rewrite E in M. destruct M as [W' B].
    split; [exact W'|intro q; rewrite B; apply A].
Qed.

(* well-formedness of the working copy is preserved by every mutation ... *)
Theorem apply_mut_wf b h s mu h' s' ws : Wf b h s -> apply_mut h s mu = (h', s', ws) -> Wf b h' s'.
Proof.
  intros W E. destruct mu as [labels verb m|m|v|v].
  - pose proof (madd_abs b h s labels verb m W) as M. rewrite E in M. apply M.
  - pose proof (mdel_abs b h s m W) as M. rewrite E in M. apply M.
  - pose proof (mother_abs b h s (MHandlers v) W I) as M. rewrite E in M. apply M.
  - pose proof (mother_abs b h s (MConns v) W I) as M. rewrite E in M. apply M.
Qed.
(* ... and established by clone (of a closed tree, or of the nil state), which also carries the
   intensional relation over *)
Theorem clone_is_working_copy h p h' s' : (forall s, p = Some s -> closed h s /\ tree h s) ->
  clone_snap h p = (h', s') ->
  Wf (next h) h' s' /\
  forall t, match p with Some s => SExact h s t | None => t = [] end -> SExact h' s' t.
Proof.
  intros Hp E. pose proof (clone_spec h p) as S. pose proof (clone_disjoint h p) as D. rewrite E in S, D. cbn [snd] in D.
  destruct S as (O & _); [intros s Q; apply (Hp s Q)|]. destruct D as [D1 D2].
  destruct p as [s|].
  - destruct (Hp s eq_refl) as [Cl T]. pose proof (clone_some_abs h s Cl) as [Bq Tq]. rewrite E in Bq, Tq. cbn [fst snd] in Bq, Tq.
    split; [split; [exact O|split; [apply Tq; exact T|split; assumption]]|]. intros t A q. rewrite Bq. apply A.
  - pose proof (clone_none_abs h) as [Bq Tq]. rewrite E in Bq, Tq. cbn [fst snd] in Bq, Tq.
    split; [split; [exact O|split; [exact Tq|split; assumption]]|]. intros t -> q. rewrite Bq. reflexivity.
Qed.

(* ---------- the abstract run of a schedule ---------- *)
(* the abstract world: the published map and the working map of the writer holding the lock *)
Definition astep (a : amap * option amap) (e : ev) : amap * option amap :=
  match e with
  | EBegin => match snd a with None => (fst a, Some (fst a)) | Some _ => a end
  | EMut mu => match snd a with Some t => (fst a, Some (amut t mu)) | None => a end
  | EStore => match snd a with Some t => (t, None) | None => a end
  | EAbort => (fst a, None)
  | ELoad _ _ | ERead _ => a
  end.
Fixpoint aexec (a : amap * option amap) (es : list ev) : amap * option amap :=
  match es with [] => a | e :: es' => aexec (astep a e) es' end.

(* the mutations of the writers that stored, in store order (cur: those of the writer in progress) *)
Fixpoint committed (cur : option (list mut)) (es : list ev) : list mut :=
  match es with
  | [] => []
  | EBegin :: es' => match cur with None => committed (Some []) es' | Some _ => committed cur es' end
  | EMut mu :: es' => match cur with Some ms => committed (Some (ms ++ [mu])) es' | None => committed None es' end
  | EStore :: es' => match cur with Some ms => ms ++ committed None es' | None => committed None es' end
  | EAbort :: es' => committed None es'
  | _ :: es' => committed cur es'
  end.

Lemma aexec_committed es : forall pt ct cm,
  ct = match cm with Some ms => Some (fold_left amut ms pt) | None => None end ->
  fst (aexec (pt, ct) es) = fold_left amut (committed cm es) pt.
Proof.
  induction es as [|e es IH]; intros pt ct cm E; cbn [aexec committed]; [reflexivity|].
  destruct e as [|mu| | |labels verb|i]; cbn [astep fst snd].
  - destruct cm as [ms|]; subst ct; [apply IH; reflexivity|]. apply IH. reflexivity.
  - destruct cm as [ms|]; subst ct; [|apply IH; reflexivity]. apply IH. rewrite fold_left_app. reflexivity.
  - destruct cm as [ms|]; subst ct; [|apply IH; reflexivity]. rewrite fold_left_app. apply IH. reflexivity.
  - apply IH. reflexivity.
  - apply IH. exact E.
  - apply IH. exact E.
Qed.

(* ---------- the refinement invariant along exec ---------- *)
Definition pub_abs (w : world) (pt : amap) : Prop :=
  match pub w with Some s => tree (hp w) s /\ SExact (hp w) s pt | None => pt = [] end.
Definition cur_abs (w : world) (ct : option amap) : Prop :=
  match cur w, ct with
  | Some ws, Some t =>
      tree (hp w) (wsnap ws) /\ ~ In (shm (wsnap ws)) (sregion (wsnap ws)) /\ ~ In (scm (wsnap ws)) (sregion (wsnap ws)) /\
      SExact (hp w) (wsnap ws) t
  | None, None => True
  | _, _ => False
  end.

Lemma stored_stable w e s t : WI w -> In s (stored w) -> tree (hp w) s /\ SExact (hp w) s t ->
  tree (hp (wstep w e)) s /\ SExact (hp (wstep w e)) s t.
Proof.
  intros I Hs [T A].
  assert (F : forall x, In x (sregion s) -> cell_at (hp (wstep w e)) x = cell_at (hp w) x).
  { intros x Hx. apply (stored_cells_stable w e s x I Hs). right; right; exact Hx. }
  destruct (region_ext (hp w) (hp (wstep w e)) s (wB _ I s Hs) (cells_nodes _ _ _ F)) as (_ & Bq & Tq).
  split; [apply Tq; exact T|apply (SExact_ext _ _ s t Bq A)].
Qed.

Lemma pub_abs_same w w' pt : hp w' = hp w -> pub w' = pub w -> pub_abs w pt -> pub_abs w' pt.
Proof. unfold pub_abs. intros -> ->. exact (fun x => x). Qed.
Lemma cur_abs_same w w' ct : hp w' = hp w -> cur w' = cur w -> cur_abs w ct -> cur_abs w' ct.
Proof. unfold cur_abs. intros -> ->. exact (fun x => x). Qed.

Lemma wstep_abs w e pt ct : WI w -> pub_abs w pt -> cur_abs w ct ->
  pub_abs (wstep w e) (fst (astep (pt, ct) e)) /\ cur_abs (wstep w e) (snd (astep (pt, ct) e)).
Proof.
  intros I P C.
  assert (PS : pub (wstep w e) = pub w -> pub_abs (wstep w e) pt).
  { intro E. unfold pub_abs in *. rewrite E. destruct (pub w) as [s0|] eqn:Pw; [|exact P].
    apply (stored_stable w e s0 pt I (pub_stored w s0 I Pw) P). }
  destruct e as [|mu| | |labels verb|i]; cbn [astep fst snd].
  - (* EBegin *)
    unfold cur_abs in C. destruct (cur w) as [ws|] eqn:Cw; destruct ct as [t|]; try contradiction.
    + assert (E : wstep w EBegin = w) by (cbn [wstep]; rewrite Cw; reflexivity). rewrite E.
      split; [exact P|]. unfold cur_abs. rewrite Cw. exact C.
    + split; [apply PS; cbn [wstep]; rewrite Cw; destruct (clone_snap (hp w) (pub w)); reflexivity|].
      cbn [wstep]. rewrite Cw. pose proof (clone_disjoint (hp w) (pub w)) as [D1 D2].
      unfold pub_abs in P. destruct (pub w) as [s0|] eqn:Pw.
      * pose proof (clone_some_abs (hp w) s0 (wB _ I s0 (pub_stored w s0 I Pw))) as [Bq Tq].
        destruct (clone_snap (hp w) (Some s0)) as [h s]. cbn [fst snd] in *.
        unfold cur_abs. cbn [cur hp wsnap fst snd]. destruct P as [T A].
        split; [apply Tq; exact T|]. split; [exact D1|]. split; [exact D2|]. intro q. rewrite Bq. apply A.
      * pose proof (clone_none_abs (hp w)) as [Bq Tq].
        destruct (clone_snap (hp w) None) as [h s]. cbn [fst snd] in *.
        unfold cur_abs. cbn [cur hp wsnap fst snd]. split; [exact Tq|]. split; [exact D1|]. split; [exact D2|].
        intro q. rewrite Bq, P. reflexivity.
  - (* EMut *)
    unfold cur_abs in C. destruct (cur w) as [ws|] eqn:Cw; destruct ct as [t|]; try contradiction.
    + split; [apply PS; cbn [wstep]; rewrite Cw; destruct (apply_mut (hp w) (wsnap ws) mu) as [[? ?] ?]; reflexivity|].
      cbn [wstep]. rewrite Cw. pose proof (wC _ I) as O. rewrite Cw in O. destruct C as (T & D1 & D2 & A).
      pose proof (apply_mut_exact (wbase ws) (hp w) (wsnap ws) t mu) as M.
      destruct (apply_mut (hp w) (wsnap ws) mu) as [[h s] wl].
      destruct (M h s wl (conj O (conj T (conj D1 D2))) A eq_refl) as [(_ & T' & D1' & D2') A'].
      unfold cur_abs. cbn [cur hp wsnap fst snd]. auto.
    + assert (E : wstep w (EMut mu) = w) by (cbn [wstep]; rewrite Cw; reflexivity). rewrite E.
      split; [exact P|]. unfold cur_abs. rewrite Cw. exact Logic.I.
  - (* EStore *)
    unfold cur_abs in C. destruct (cur w) as [ws|] eqn:Cw; destruct ct as [t|]; try contradiction.
    + cbn [wstep]. rewrite Cw. destruct C as (T & _ & _ & A). split; [|exact Logic.I].
      unfold pub_abs. cbn [pub hp]. split; assumption.
    + assert (E : wstep w EStore = w) by (cbn [wstep]; rewrite Cw; reflexivity). rewrite E.
      split; [exact P|]. unfold cur_abs. rewrite Cw. exact Logic.I.
  - (* EAbort *)
    split; [apply PS; reflexivity|]. exact Logic.I.
  - split; [apply PS; reflexivity|]. apply (cur_abs_same w); [reflexivity|reflexivity|exact C].
  - split; [apply PS; reflexivity|]. apply (cur_abs_same w); [reflexivity|reflexivity|exact C].
Qed.

Lemma exec_abs es : forall w pt ct, WI w -> pub_abs w pt -> cur_abs w ct ->
  pub_abs (exec w es) (fst (aexec (pt, ct) es)) /\ cur_abs (exec w es) (snd (aexec (pt, ct) es)).
Proof.
  induction es as [|e es IH]; intros w pt ct I P C; cbn [exec aexec]; [split; assumption|].
  destruct (wstep_abs w e pt ct I P C) as [P' C'].
  destruct (astep (pt, ct) e) as [pt' ct'] eqn:E. cbn [fst snd] in *.
  apply IH; [apply wstep_WI; exact I|exact P'|exact C'].
Qed.

(* the composition with C12: under ANY schedule, the published snapshot denotes the map obtained by
   folding the mutations of the writers that stored, in store order, over the empty map; aborted
   writers and the writer in progress contribute nothing.  MAdd contributes a_store (the store step of
   a_add), MDel contributes a_del. *)
Theorem exec_refines es :
  let w := exec world0 es in
  let t := fold_left amut (committed None es) [] in
  match pub w with
  | Some s => SAbs (hp w) s t /\ SExact (hp w) s t /\ tree (hp w) s
  | None => t = []
  end.
Proof.
  intros w t. destruct (exec_abs es world0 [] None WI0 eq_refl Logic.I) as [P _].
  rewrite (aexec_committed es [] None None eq_refl) in P. fold w t in P. unfold pub_abs in P.
  destruct (pub w) as [s|]; [|exact P]. destruct P as [T A]. split; [apply SExact_SAbs; exact A|]. split; assumption.
Qed.

Lemma s_lookup_nil labels verb : s_lookup [] labels verb = None.
Proof. reflexivity. Qed.

(* every route of the published state is the abstract lookup *)
Corollary exec_routes es labels verb :
  let w := exec world0 es in
  route_snap (hp w) (pub w) labels verb = s_lookup (fold_left amut (committed None es) []) labels verb.
Proof.
  intros w. pose proof (exec_refines es) as R. cbv zeta in R. fold w in R.
  destruct (pub w) as [s|]; [apply snap_route_is_lookup; apply R|]. rewrite R. reflexivity.
Qed.

(* a request that loads after es1 is answered by a_lookup of the map published after es1, whatever
   is interleaved afterwards *)
Theorem request_sees_map es1 labels verb es2 :
  let w1 := exec world0 es1 in
  let w2 := exec (wstep w1 (ELoad labels verb)) es2 in
  answer (hp w2) (nth (length (readers w1)) (readers w2) (RDone None)) =
  s_lookup (fold_left amut (committed None es1) []) labels verb.
Proof.
  intros w1 w2. destruct (linearizable es1 labels verb es2) as [L _]. fold w1 w2 in L. rewrite L.
  apply exec_routes.
Qed.

(* ---------- replace-or-insert instead of cons ---------- *)
Definition amut_put (t : amap) (mu : mut) : amap :=
  match mu with
  | MAdd labels verb m => a_put t labels verb m
  | MDel m => s_del t m
  | MHandlers _ | MConns _ => t
  end.
(* every MAdd meets an unbound key: what addRule's duplicate check guarantees before it stores *)
Fixpoint guarded (t : amap) (mus : list mut) : Prop :=
  match mus with
  | [] => True
  | mu :: r => match mu with MAdd l v _ => s_find t l v = None | _ => True end /\ guarded (amut t mu) r
  end.
Lemma guarded_put mus : forall t, guarded t mus -> fold_left amut_put mus t = fold_left amut mus t.
Proof.
  induction mus as [|mu r IH]; intros t G; [reflexivity|]. cbn [fold_left]. destruct G as [G1 G2].
  assert (E : amut_put t mu = amut t mu) by (destruct mu; cbn [amut_put amut]; [apply a_put_unbound; exact G1|reflexivity|reflexivity|reflexivity]).
  rewrite E. apply IH. exact G2.
Qed.
Lemma guarded_nodup mus : forall t, NoDup (map fst t) -> guarded t mus -> NoDup (map fst (fold_left amut mus t)).
Proof.
  induction mus as [|mu r IH]; intros t N G; [exact N|]. cbn [fold_left]. destruct G as [G1 G2].
  apply IH; [|exact G2]. destruct mu as [l v m|m|x|x]; cbn [amut]; [|apply a_del_nodup; exact N|exact N|exact N].
  unfold a_store. cbn [map fst]. constructor; [|exact N].
  apply (a_find_none lkey nat nat lkey_eqb Nat.eqb lkey_eqb_eq Nat.eqb_eq t l v G1).
Qed.
Corollary exec_refines_guarded es :
  let w := exec world0 es in
  let ms := committed None es in
  guarded [] ms ->
  let t := fold_left amut_put ms [] in
  NoDup (map fst t) /\ match pub w with Some s => SAbs (hp w) s t | None => t = [] end.
Proof.
  intros w ms G t. unfold t. rewrite (guarded_put ms [] G). split; [apply guarded_nodup; [constructor|exact G]|].
  pose proof (exec_refines es) as R. cbv zeta in R. fold w ms in R. destruct (pub w) as [s|]; [apply R|exact R].
Qed.

(* ---------- what is false ---------- *)
(* The extensional relation alone does not make MDel refine a_del: MAdd conses onto the binding list
   of its node, so a second MAdd at a bound key shadows the first binding instead of replacing it, and
   MDel of the newer method uncovers the older one.  (rules.go never gets there: addRule stores only
   when the key is unbound, and methods[verb] = m on a Go map replaces.) *)
Definition rf0 := clone_snap (Heap [] 0) None.
Definition rf1 := apply_mut (fst rf0) (snd rf0) (MAdd [1] 1 7).
Definition rf2 := apply_mut (fst (fst rf1)) (snd (fst rf1)) (MAdd [1] 1 8).
Definition rft : amap := a_put (a_put [] [1] 1 7) [1] 1 8.

Lemma triple_eta {A B C} (x : A * B * C) : x = (fst (fst x), snd (fst x), snd x).
Proof. destruct x as [[a b] c]. reflexivity. Qed.

Lemma rf0_wf : Wf 0 (fst rf0) (snd rf0) /\ SExact (fst rf0) (snd rf0) [].
Proof.
  unfold rf0. pose proof (clone_spec (Heap [] 0) None) as S. pose proof (clone_none_abs (Heap [] 0)) as [B T].
  pose proof (clone_disjoint (Heap [] 0) None) as [D1 D2].
  destruct (clone_snap (Heap [] 0) None) as [h s]. cbn [fst snd] in *.
  destruct S as (O & _); [intros s0 Q; discriminate|]. cbn [next] in O.
  split; [split; [exact O|split; [exact T|split; assumption]]|]. intro q. rewrite B. reflexivity.
Qed.

Theorem mdel_refines_refuted : exists b h s t m,
  Wf b h s /\ SAbs h s t /\ NoDup (map fst t) /\
  ~ SAbs (fst (fst (apply_mut h s (MDel m)))) (snd (fst (apply_mut h s (MDel m)))) (s_del t m).
Proof.
  exists 0, (fst (fst rf2)), (snd (fst rf2)), rft, 8.
  destruct rf0_wf as [W0 E0].
  destruct (madd_refines 0 _ _ [] [1] 1 7 _ _ _ W0 (SExact_SAbs _ _ _ E0) (triple_eta rf1)) as [W1 A1].
  specialize (A1 _ (a_put_is_store [] [1] 1 7)).
  destruct (madd_refines 0 _ _ _ [1] 1 8 _ _ _ W1 A1 (triple_eta rf2)) as [W2 A2].
  specialize (A2 _ (a_put_is_store _ [1] 1 8)).
  split; [exact W2|]. split; [exact A2|]. split.
  - vm_compute. constructor; [intros []|constructor].
  - intro H. specialize (H [1] 1). vm_compute in H. discriminate.
Qed.

(* hence the run of a schedule does NOT denote the fold with replace-or-insert (a_put) for MAdd when a
   stored writer adds over a bound key and then deletes the newer method: the heap answers 7, the
   replace-or-insert map has nothing at the key.  With a_store (cons) it does: exec_refines; and the
   two folds coincide when every MAdd meets an unbound key: exec_refines_guarded. *)
Definition rf_sched : list ev := [EBegin; EMut (MAdd [1] 1 7); EMut (MAdd [1] 1 8); EMut (MDel 8); EStore].
Theorem exec_refines_put_refuted : exists es,
  let w := exec world0 es in
  exists s, pub w = Some s /\ ~ SAbs (hp w) s (fold_left amut_put (committed None es) []) /\
  route_snap (hp w) (pub w) [1] 1 = Some 7 /\ s_lookup (fold_left amut_put (committed None es) []) [1] 1 = None.
Proof.
  exists rf_sched. cbv zeta. eexists. split; [vm_compute; reflexivity|]. split.
  - intro H. specialize (H [1] 1). vm_compute in H. discriminate.
  - vm_compute. split; reflexivity.
Qed.

(* ---------- non-vacuity: two writers and a request in flight ---------- *)
Definition ex_es1 : list ev := [EBegin; EMut (MAdd [1; 2] 1 7); EMut (MHandlers [(7, [Handler 0 (OConn 0) 7])]); EStore].
(* the request reads while a second writer deletes method 7, adds a route, and gives up *)
Definition ex_es2 : list ev :=
  [ERead 0; EBegin; EMut (MDel 7); ERead 0; EMut (MAdd [1; 3] 0 8); EAbort; ERead 0; ERead 0].
(* the same, but the second writer stores *)
Definition ex_es2' : list ev :=
  [ERead 0; EBegin; EMut (MDel 7); ERead 0; EMut (MAdd [1; 3] 0 8); EStore; ERead 0; ERead 0].
Example two_writers :
  let w1 := exec world0 ex_es1 in
  let t1 := fold_left amut (committed None ex_es1) [] in
  let w2 := exec (wstep w1 (ELoad [1; 2] 1)) ex_es2 in
  let t2 := fold_left amut (committed None (ex_es1 ++ ELoad [1; 2] 1 :: ex_es2)) [] in
  let w2' := exec (wstep w1 (ELoad [1; 2] 1)) ex_es2' in
  let t2' := fold_left amut (committed None (ex_es1 ++ ELoad [1; 2] 1 :: ex_es2')) [] in
  t1 = [([1; 2], 1, 7)] /\
  t2 = [([1; 2], 1, 7)] /\                                  (* the aborted writer contributes nothing *)
  t2' = [([1; 3], 0, 8)] /\                                 (* the stored one: a_del 7, then the '*' binding *)
  readers w2 = [RDone (Some 7)] /\ readers w2' = [RDone (Some 7)] /\   (* the request in flight: the map at its load *)
  s_lookup t1 [1; 2] 1 = Some 7 /\
  route_snap (hp w2) (pub w2) [1; 3] 5 = None /\ s_lookup t2 [1; 3] 5 = None /\
  route_snap (hp w2') (pub w2') [1; 3] 5 = Some 8 /\ s_lookup t2' [1; 3] 5 = Some 8 /\
  route_snap (hp w2') (pub w2') [1; 2] 1 = None /\ s_lookup t2' [1; 2] 1 = None.
Proof. vm_compute. repeat split; reflexivity. Qed.

Print Assumptions snap_route_is_lookup.
Print Assumptions clone_preserves_abs.
Print Assumptions clone_is_working_copy.
Print Assumptions apply_mut_wf.
Print Assumptions madd_refines.
Print Assumptions madd_refines_add.
Print Assumptions mdel_refines.
Print Assumptions mdel_exact.
Print Assumptions mdel_refines_refuted.
Print Assumptions exec_refines.
Print Assumptions exec_refines_guarded.
Print Assumptions exec_refines_put_refuted.
Print Assumptions request_sees_map.
Print Assumptions two_writers.
