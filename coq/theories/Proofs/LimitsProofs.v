(* Proofs about the size gates of Model/Limits.v against Spec/SizeLimit.v, and about the stream
   codecs of Model/Codec.v (byte level, every read schedule) through the refinement of C17. *)
From Larking Require Import Base.GoSem Base.Reader Base.Varint Spec.Frames Spec.SizeLimit
  Model.Codec Model.Limits Proofs.CodecProofs.
Local Open Scope Z_scope.

(* ---- integer conversions ---- *)
Lemma u32_range x : 0 <= u32 x < 2 ^ 32.
Proof. unfold u32. apply Z.mod_pos_bound. reflexivity. Qed.
Lemma u32_id x : 0 <= x < 2 ^ 32 -> u32 x = x.
Proof. intros H. unfold u32. now apply Z.mod_small. Qed.
Lemma wrap64_small x : 0 <= x < 2 ^ 63 -> wrap64 x = x.
Proof.
  intros H. unfold wrap64. rewrite Z.mod_small by lia.
  destruct (x <? 2 ^ 63) eqn:E; [reflexivity|]. apply Z.ltb_ge in E. lia.
Qed.
Lemma wrap64_u32 x : wrap64 (u32 x) = u32 x.
Proof. apply wrap64_small. pose proof (u32_range x). lia. Qed.

(* ---- readAll: independent of how the body is cut into reads ---- *)
Lemma sum_nonneg reads : Forall (fun n => 0 <= n) reads -> 0 <= sum reads.
Proof. induction 1 as [|n r Hn _ IH]; cbn [sum fold_right]; [lia|]. unfold sum in IH. lia. Qed.

Lemma read_all_spec : forall reads limit total,
  total <= limit -> Forall (fun n => 0 <= n) reads ->
  read_all limit total reads = if limit <? total + sum reads then Err ETooLarge else Ok (total + sum reads).
Proof.
  induction reads as [|n r IH]; intros limit total Ht Hf; cbn [read_all sum fold_right].
  - rewrite Z.add_0_r. replace (limit <? total) with false by lia. reflexivity.
  - inversion Hf as [|? ? Hn Hr]; subst. pose proof (sum_nonneg r Hr) as Hs. unfold sum in Hs.
    destruct (limit <? total + n) eqn:E.
    + replace (limit <? total + (n + fold_right Z.add 0 r)) with true by lia. reflexivity.
    + rewrite IH by (auto; lia). unfold sum. rewrite Z.add_assoc. reflexivity.
Qed.

Lemma read_all_schedule_free limit r1 r2 :
  0 <= limit -> Forall (fun n => 0 <= n) r1 -> Forall (fun n => 0 <= n) r2 -> sum r1 = sum r2 ->
  read_all limit 0 r1 = read_all limit 0 r2.
Proof. intros Hl H1 H2 E. rewrite !read_all_spec by (auto; lia). now rewrite E. Qed.

(* ---- one message through a receive gate ---- *)
Ltac gate :=
  repeat match goal with
  | |- context [if ?b then _ else _] => let E := fresh "E" in destruct b eqn:E
  | H : context [if ?b then _ else _] |- _ => let E := fresh "E" in destruct b eqn:E
  | H : context [match ?x with Some _ => _ | None => _ end] |- _ => let E := fresh "E" in destruct x eqn:E
  | |- context [match ?x with Some _ => _ | None => _ end] => let E := fresh "E" in destruct x eqn:E
  end.

(* delivered => it is the message on the wire, complete and decodable, and within the limit *)
Lemma recv_ok_sound p c w n : wf_cfg c -> wf_wire p w ->
  recv p c w = Ok n -> n = msg_size p w /\ decodable p w = true /\ n <= maxRecv c.
Proof.
  intros [[Hr1 Hr2] _] (Ha & Hp & Hi & Hw) H.
  destruct p as [reads| | |comp|comp|]; cbn [recv] in H.
  - destruct Hw as [Hf Hs]. unfold recv_http_unary in H. rewrite read_all_spec in H by (auto; lia).
    cbn [Z.add] in H. unfold bind, unmarshal in H. unfold decodable; cbn [msg_size wire_len]. rewrite <- Hs.
    rewrite andb_true_r. gate; inversion H; subst; try discriminate; repeat split; auto; lia.
  - unfold recv_http_json, unmarshal in H. unfold decodable; cbn [msg_size wire_len].
    gate; inversion H; subst; try discriminate; repeat split; auto; lia.
  - unfold recv_http_proto, unmarshal in H. unfold decodable; cbn [msg_size wire_len].
    gate; inversion H; subst; try discriminate; repeat split; auto; lia.
  - destruct Hw as [Hw1 Hw2]. unfold recv_grpc, unmarshal in H. rewrite wrap64_u32 in H.
    rewrite (u32_id (w_prefix w)) in H by lia.
    unfold decodable; cbn [msg_size wire_len]. rewrite (u32_id (w_prefix w)) by lia.
    gate; inversion H; subst; try discriminate; repeat split; auto; lia.
  - destruct Hw as [Hw1 Hw2]. unfold recv_grpc, unmarshal in H. rewrite wrap64_u32 in H.
    rewrite (u32_id (w_prefix w)) in H by lia.
    unfold decodable; cbn [msg_size wire_len]. rewrite (u32_id (w_prefix w)) by lia.
    gate; inversion H; subst; try discriminate; repeat split; auto; lia.
  - unfold recv_ws, unmarshal in H. unfold decodable; cbn [msg_size wire_len].
    gate; inversion H; subst; try discriminate; repeat split; auto; lia.
Qed.

(* complete, decodable, message and frame within the limit => delivered at its size *)
Lemma recv_complete p c w : wf_cfg c -> wf_wire p w ->
  decodable p w = true -> msg_size p w <= maxRecv c -> wire_len p w <= maxRecv c ->
  recv p c w = Ok (msg_size p w).
Proof.
  intros [[Hr1 Hr2] _] (Ha & Hp & Hi & Hw) Hd Hs Hl.
  destruct p as [reads| | |comp|comp|]; unfold decodable in *; cbn [recv msg_size wire_len] in *.
  - destruct Hw as [Hf Hsum]. unfold recv_http_unary. rewrite read_all_spec by (auto; lia).
    cbn [Z.add]. rewrite Hsum. replace (maxRecv c <? w_avail w) with false by lia.
    cbn [bind]. unfold unmarshal. rewrite andb_true_r in Hd. now rewrite Hd.
  - unfold recv_http_json, unmarshal. gate; try reflexivity; try discriminate; lia.
  - unfold recv_http_proto, unmarshal. gate; try reflexivity; try discriminate; lia.
  - destruct Hw as [Hw1 Hw2]. unfold recv_grpc, unmarshal. rewrite wrap64_u32.
    rewrite (u32_id (w_prefix w)) in * by lia.
    gate; try reflexivity; try discriminate; try lia.
  - destruct Hw as [Hw1 Hw2]. unfold recv_grpc, unmarshal. rewrite wrap64_u32.
    rewrite (u32_id (w_prefix w)) in * by lia.
    gate; try reflexivity; try discriminate; try lia.
  - unfold recv_ws, unmarshal. gate; try reflexivity; try discriminate; lia.
Qed.

(* whatever the content: sizes within the limit are never refused on size grounds *)
Lemma recv_not_size_refused p c w : wf_cfg c -> wf_wire p w ->
  msg_size p w <= maxRecv c -> wire_len p w <= maxRecv c -> recv p c w <> Err ETooLarge.
Proof.
  intros [[Hr1 Hr2] _] (Ha & Hp & Hi & Hw) Hs Hl.
  destruct p as [reads| | |comp|comp|]; cbn [recv msg_size wire_len] in *.
  - destruct Hw as [Hf Hsum]. unfold recv_http_unary. rewrite read_all_spec by (auto; lia).
    cbn [Z.add]. rewrite Hsum. replace (maxRecv c <? w_avail w) with false by lia.
    cbn [bind]. unfold unmarshal. destruct (w_valid w); discriminate.
  - unfold recv_http_json, unmarshal. gate; try discriminate; lia.
  - unfold recv_http_proto, unmarshal. gate; try discriminate; lia.
  - destruct Hw as [Hw1 Hw2]. unfold recv_grpc, unmarshal. rewrite wrap64_u32.
    rewrite (u32_id (w_prefix w)) in * by lia. gate; try discriminate; lia.
  - destruct Hw as [Hw1 Hw2]. unfold recv_grpc, unmarshal. rewrite wrap64_u32.
    rewrite (u32_id (w_prefix w)) in * by lia. gate; try discriminate; lia.
  - unfold recv_ws, unmarshal. gate; try discriminate; lia.
Qed.

(* a decodable message over the limit is refused, and on size grounds *)
Lemma recv_over_refused p c w : wf_cfg c -> wf_wire p w ->
  decodable p w = true -> maxRecv c < msg_size p w -> recv p c w = Err ETooLarge.
Proof.
  intros [[Hr1 Hr2] _] (Ha & Hp & Hi & Hw) Hd Hs.
  destruct p as [reads| | |comp|comp|]; unfold decodable in *; cbn [recv msg_size wire_len] in *.
  - destruct Hw as [Hf Hsum]. unfold recv_http_unary. rewrite read_all_spec by (auto; lia).
    cbn [Z.add]. rewrite Hsum. replace (maxRecv c <? w_avail w) with true by lia. reflexivity.
  - unfold recv_http_json, unmarshal. gate; try reflexivity; try discriminate; lia.
  - unfold recv_http_proto, unmarshal. gate; try reflexivity; try discriminate; lia.
  - destruct Hw as [Hw1 Hw2]. unfold recv_grpc, unmarshal. rewrite wrap64_u32.
    rewrite (u32_id (w_prefix w)) in * by lia. gate; try reflexivity; try discriminate; lia.
  - destruct Hw as [Hw1 Hw2]. unfold recv_grpc, unmarshal. rewrite wrap64_u32.
    rewrite (u32_id (w_prefix w)) in * by lia. gate; try reflexivity; try discriminate; lia.
  - unfold recv_ws, unmarshal. gate; try reflexivity; try discriminate; lia.
Qed.

(* a gate answers Ok or Err, never a Go panic, and a decodable message is never mistaken for the end of the stream *)
Lemma recv_total p c w : match recv p c w with Ok _ | Err _ => True | _ => False end.
Proof.
  destruct p as [reads| | |comp|comp|]; cbn [recv];
    unfold recv_http_unary, recv_http_json, recv_http_proto, recv_grpc, recv_ws, unmarshal, bind.
  1: destruct (read_all (maxRecv c) 0 reads) eqn:R.
  all: gate; auto.
  all: exfalso; revert R; clear; generalize 0 at 1; induction reads as [|n r IH]; intros t; cbn [read_all];
       [discriminate|destruct (maxRecv c <? t + n); [discriminate|apply IH]].
Qed.

Lemma recv_decodable_not_eof p c w : wf_cfg c -> wf_wire p w -> decodable p w = true -> recv p c w <> Err EEOF.
Proof.
  intros [[Hr1 Hr2] _] (Ha & Hp & Hi & Hw) Hd.
  destruct p as [reads| | |comp|comp|]; unfold decodable in *; cbn [recv] in *.
  - destruct Hw as [Hf Hsum]. unfold recv_http_unary. rewrite read_all_spec by (auto; lia).
    unfold bind, unmarshal. gate; discriminate.
  - unfold recv_http_json, unmarshal. gate; try discriminate; lia.
  - unfold recv_http_proto, unmarshal. gate; try discriminate; lia.
  - destruct Hw as [Hw1 Hw2]. unfold recv_grpc, unmarshal. rewrite (u32_id (w_prefix w)) in * by lia.
    gate; try discriminate; lia.
  - destruct Hw as [Hw1 Hw2]. unfold recv_grpc, unmarshal. rewrite (u32_id (w_prefix w)) in * by lia.
    gate; try discriminate; lia.
  - unfold recv_ws, unmarshal. gate; discriminate.
Qed.

(* ---- HttpBody uploads ---- *)
Lemma body_chunks_spec : forall fuel limit total, 1 <= limit -> total < Z.of_nat fuel ->
  Forall (fun n => 1 <= n <= limit) (body_chunks fuel limit total) /\
  sum (body_chunks fuel limit total) = Z.max 0 total.
Proof.
  induction fuel as [|f IH]; intros limit total Hl Hf; [cbn; split; [constructor|lia]|].
  cbn [body_chunks]. destruct (total <=? 0) eqn:E0; [split; [constructor|cbn; lia]|].
  destruct (total <=? limit) eqn:E1.
  - split; [repeat constructor; lia|]. cbn. lia.
  - destruct (IH limit (total - limit) Hl ltac:(lia)) as [H1 H2]. split.
    + constructor; [lia|exact H1].
    + cbn [sum fold_right] in *. unfold sum in H2. rewrite H2. lia.
Qed.

(* ---- a whole call against the specification predicate ---- *)
Lemma recv_run_meets_spec p c : wf_cfg c -> forall ws, Forall (wf_wire p) ws ->
  recv_ok (maxRecv c) (map (sent_of p) ws) (fst (recv_run p c ws))
          (match snd (recv_run p c ws) with EndOk => true | _ => false end) = true.
Proof.
  intros Hc. induction ws as [|w r IH]; intros Hf; [reflexivity|].
  inversion Hf as [|? ? Hw Hr]; subst. specialize (IH Hr).
  cbn [map recv_ok recv_run]. unfold within. cbn [sent_of s_ok s_size s_wire].
  pose proof (recv_total p c w) as Ht.
  destruct (recv p c w) as [n|e| |] eqn:R; try contradiction.
  - destruct (recv_ok_sound p c w n Hc Hw R) as (Hn & Hd & Hle). subst n. rewrite Hd.
    destruct (recv_run p c r) as [ds e] eqn:RR. cbn [fst snd] in *.
    replace (msg_size p w <=? maxRecv c) with true by lia. cbn [andb].
    rewrite Z.eqb_refl. cbn [andb]. destruct (wire_len p w <=? maxRecv c); exact IH.
  - destruct (decodable p w) eqn:Hd; cbn [andb].
    + pose proof (recv_decodable_not_eof p c w Hc Hw Hd) as Hne.
      assert (Hend : (let '(ds, e') := match e with EEOF => ([], EndOk) | _ => ([], end_of e) end in
                      ds = @nil Z /\ e' <> EndOk)).
      { destruct e; try (split; [reflexivity|discriminate]). congruence. }
      destruct (msg_size p w <=? maxRecv c) eqn:E1; destruct (wire_len p w <=? maxRecv c) eqn:E2; cbn [andb].
      * rewrite recv_complete in R by (auto; lia). discriminate.
      * destruct e; cbn [fst snd end_of is_nil negb]; try reflexivity. congruence.
      * destruct e; cbn [fst snd end_of is_nil negb andb]; try reflexivity; congruence.
      * destruct e; cbn [fst snd end_of is_nil negb andb]; try reflexivity; congruence.
    + destruct e; reflexivity.
Qed.

(* ---- send gates ---- *)
Lemma send_ok_sound p c size n : wf_cfg c -> 0 <= size -> send p c size = Ok n -> n = size /\ size <= maxSend c.
Proof.
  intros [_ [Hs1 Hs2]] Hz H. destruct p; cbn [send] in H; unfold send_plain, send_grpc in H;
    gate; inversion H; subst; try discriminate; split; try lia; try reflexivity.
  all: apply u32_id; lia.
Qed.
Lemma send_complete p c size : wf_cfg c -> 0 <= size -> size <= maxSend c -> size < 2 ^ 32 -> send p c size = Ok size.
Proof.
  intros [_ [Hs1 Hs2]] Hz H H32. destruct p; cbn [send]; unfold send_plain, send_grpc; gate; try lia; try reflexivity.
  all: f_equal; apply u32_id; lia.
Qed.
Lemma send_not_size_refused p c size : 0 <= size -> size <= maxSend c -> size < 2 ^ 32 -> send p c size <> Err ETooLarge.
Proof. intros Hz H H32. destruct p; cbn [send]; unfold send_plain, send_grpc; gate; try discriminate; lia. Qed.
Lemma send_over_refused p c size : maxSend c < size -> send p c size = Err ETooLarge.
Proof. intros H. destruct p; cbn [send]; unfold send_plain, send_grpc; gate; try reflexivity; lia. Qed.

Lemma send_run_meets_spec p c : wf_cfg c -> forall sizes, Forall (fun s => 0 <= s) sizes ->
  (* a reply that does not fit a gRPC frame is over every limit the gRPC paths accept *)
  (match p with SGrpc | SGrpcWeb => maxSend c < 2 ^ 32 | _ => True end) ->
  let '(res, arr) := send_run p c sizes in
  let att := firstn (length res) sizes in
  send_ok (maxSend c) att res arr = true.
Proof.
  intros Hc sizes Hf Hg. induction sizes as [|s r IH]; [reflexivity|].
  inversion Hf as [|? ? Hs Hr]; subst. specialize (IH Hr). cbn [send_run].
  destruct (send p c s) as [n|e| |] eqn:S.
  - destruct (send_ok_sound p c s n Hc Hs S) as [Hn Hle]. subst n.
    destruct (send_run p c r) as [rs ar]. cbn [length firstn send_ok].
    replace (s <=? maxSend c) with true by lia. rewrite Z.eqb_refl. exact IH.
  - cbn [length firstn send_ok]. destruct (s <=? maxSend c) eqn:E; [|reflexivity].
    exfalso. assert (s < 2 ^ 32) by (destruct Hc as [_ [? ?]]; destruct p; cbn [send] in S; unfold send_plain, send_grpc in S; gate; try discriminate; lia).
    rewrite send_complete in S by (auto; lia). discriminate.
  - destruct p; cbn [send] in S; unfold send_plain, send_grpc in S; gate; discriminate.
  - destruct p; cbn [send] in S; unfold send_plain, send_grpc in S; gate; discriminate.
Qed.

(* ---- the stream codecs at byte level (Model/Codec.v), every carry-over and read schedule ---- *)
Lemma parse_msg_len c limit L m r : parse c limit L = FMsg m r -> (length m <= limit)%nat.
Proof.
  destruct c; cbn [parse].
  - unfold parse_proto. destruct L as [|x L']; [discriminate|].
    destruct (consume_varint (x :: L')) as [v n| |]; try discriminate.
    destruct (N.of_nat limit <? v)%N eqn:E; [discriminate|].
    destruct (Nat.ltb _ _); [discriminate|]. intros H. inversion H; subst.
    rewrite firstn_length. apply N.ltb_ge in E. lia.
  - unfold parse_json. destruct (json_scan limit jst0 L 0) as [n|s| |] eqn:J; try discriminate.
    + intros H. inversion H; subst. rewrite firstn_length.
      assert (Hb : forall k st l i n, json_scan k st l i = JFrame n -> (n <= i + k)%nat).
      { clear. induction k as [|k IH]; intros st l i n H; cbn [json_scan] in H; [discriminate|].
        destruct l as [|c l]; [discriminate|]. destruct (json_step st c).
        - apply IH in H. lia.
        - inversion H. lia.
        - discriminate. }
      apply Hb in J. lia.
    + destruct (Nat.eqb _ _); discriminate.
  - unfold parse_body. destruct L; [discriminate|]. intros H. inversion H; subst.
    rewrite firstn_length. lia.
Qed.

Lemma codec_never_over c b s limit dst n s' : (0 < limit)%nat -> (N.of_nat limit < 2 ^ 63)%N ->
  read_next c b s limit = RRet dst n None s' -> (n <= limit)%nat.
Proof.
  intros H1 H2 H. pose proof (read_next_refines c b s limit H1 H2) as R. rewrite H in R.
  cbn [refines] in R. destruct R as (Hl & Hp & _). apply parse_msg_len in Hp.
  rewrite firstn_length in Hp. lia.
Qed.

Lemma codec_delivers_fitting c b s limit m R : (0 < limit)%nat -> (N.of_nat limit < 2 ^ 63)%N ->
  fits c limit m -> b ++ rem s = write_next c m ++ R ->
  exists dst n s', read_next c b s limit = RRet dst n None s' /\ firstn n dst = m.
Proof.
  intros H1 H2 Hfit HL. pose proof (read_next_refines c b s limit H1 H2) as Rf.
  rewrite HL in Rf. pose proof (parse_write c limit m R Hfit H2) as PW.
  destruct (read_next c b s limit) as [dst n e s'| |]; try contradiction.
  destruct e as [e|].
  - exfalso. destruct e; cbn [refines] in Rf;
      try (destruct Rf as [_ Rf]; rewrite PW in Rf; discriminate).
    destruct Rf as [(_ & Rf & _)|(Hc & _)]; [rewrite PW in Rf; discriminate|]. subst c. destruct Hfit.
  - cbn [refines] in Rf. destruct Rf as (_ & Hp & _). rewrite PW in Hp. inversion Hp. eauto.
Qed.
