(* Instances: a request path is an instance of a template for the string-level specification
   (Spec/Template.v: inst, strict) exactly when the edges that larking compiles from the template's
   tokens (Model/Trie.v: compile) cover the path's tokens (Spec/Route.v: MatchEdges) -- with the same
   captures (inst_iff_cover). The domain is that of C01/C02: paths that lex_path accepts. *)
From Larking Require Import Base.GoSem Model.Lexer Model.Trie Model.Match Spec.Grammar Spec.Route Spec.Template
  Spec.TemplateAbs Proofs.LexerProofs Proofs.TrieProofs Proofs.RoutingProofs Proofs.TemplateProofs.
Local Open Scope N_scope.

(* ================= the edges of a template value ================= *)
Definition pseg_tok (p : pseg) : token :=
  match p with PLit v => Tok TLiteral v | PStar => tStar | PStarStar => tStarStar end.
(* "/" p1 "/" p2 ... ; a pattern is this without the leading "/" *)
Definition sl_toks (ps : list pseg) : list token := flat_map (fun p => [tSlash; pseg_tok p]) ps.
Definition pat_toks (ps : list pseg) : list token := tl (sl_toks ps).

Definition seg_edge (s : tseg) : edge :=
  match s with
  | TPlain (PLit v) => ELit (47 :: v)
  | TPlain p => EVar [pseg_tok p]
  | TVar _ ps => EVar (pat_toks ps)
  end.
Definition seg_vf (s : tseg) : list (list str) :=
  match s with TPlain (PLit _) => [] | TPlain _ => [[]] | TVar ks _ => [ks] end.
Definition verb_edges (v : option sstr) : list edge := match v with Some v => [ELit (58 :: v)] | None => [] end.
Definition edges_of (t : tmpl) : list edge := map seg_edge (t_segs t) ++ verb_edges (t_verb t).
Definition vfs_of (t : tmpl) : list (list str) := flat_map seg_vf (t_segs t).

Lemma sl_toks_cons p ps : sl_toks (p :: ps) = tSlash :: pseg_tok p :: sl_toks ps.
Proof. reflexivity. Qed.
Lemma sl_toks_tl ps : ps <> [] -> sl_toks ps = tSlash :: pat_toks ps.
Proof. destruct ps; [contradiction|reflexivity]. Qed.

Lemma AbsP_toks ts p : AbsP ts p -> ts = [pseg_tok p].
Proof. intros []; reflexivity. Qed.
Lemma AbsPs_toks ts pp : AbsPs ts pp -> ts = pat_toks pp /\ pp <> [].
Proof.
  induction 1 as [ts p H|ts p rest ps H HS [IH1 IH2]].
  - apply AbsP_toks in H. subst. split; [reflexivity|discriminate].
  - apply AbsP_toks in H. subst. split; [|discriminate]. unfold pat_toks. rewrite sl_toks_cons. cbn [tl app].
    now rewrite (sl_toks_tl ps IH2).
Qed.

Section Compile.
Variable resolves : str -> list str -> bool.
Notation compile := (compile resolves).

Lemma field_keys_abs fp ks : AbsFP fp ks -> forall acc t rest, is TDot t = false ->
  match fp with _ :: tail => field_keys acc (tail ++ t :: rest) = (acc ++ tl ks, t :: rest) | [] => False end.
Proof.
  induction 1 as [v|v fp' ks' H IH]; intros acc t rest Ht.
  - cbn [app tl]. rewrite app_nil_r. destruct rest as [|t2 r]; cbn; [reflexivity|]. now rewrite Ht.
  - destruct fp' as [|i tail]; [inversion H|]. specialize (IH (acc ++ [tval i]) t rest Ht). cbn [tl].
    cbn [app field_keys]. change (is TDot tDot) with true. cbv iota. rewrite IH.
    inversion H; subst; cbn [tval tl]; rewrite <- app_assoc; reflexivity.
Qed.
Lemma AbsFP_hd fp ks : AbsFP fp ks -> exists v tail ks', fp = Tok TIdent v :: tail /\ ks = v :: ks'.
Proof. intros [v|v rest ks' H]; eauto. Qed.

Lemma pat_toks_novarend ps : Forall (fun t => is TVarEnd t = false) (pat_toks ps).
Proof.
  assert (H : Forall (fun t => is TVarEnd t = false) (sl_toks ps)).
  { induction ps as [|p ps IH]; [constructor|]. rewrite sl_toks_cons. constructor; [reflexivity|].
    constructor; [destruct p; reflexivity|exact IH]. }
  unfold pat_toks. destruct (sl_toks ps); [constructor|]. now inversion H.
Qed.

Lemma compile_seg_abs ts sg : AbsSeg ts sg -> forall f mid cont,
  compile (S f) mid (tSlash :: ts ++ cont) = Err EInvalid \/
  compile (S f) mid (tSlash :: ts ++ cont) = (do r <- compile f mid cont; Ok (seg_edge sg :: fst r, seg_vf sg ++ snd r)).
Proof.
  intros [ts' p G|fp ks Hfp|fp ks ps pp Hfp Hps] f mid cont.
  - destruct G; right; reflexivity.
  - destruct (AbsFP_hd _ _ Hfp) as (v & tail & ks' & -> & ->).
    pose proof (field_keys_abs _ _ Hfp [v] tClose cont eq_refl) as E. cbn [tl] in E.
    cbn [compile app ttyp tSlash tOpen tval]. rewrite <- app_assoc. cbn [app]. rewrite E.
    cbn [app ttyp tClose]. destruct (resolves mid (v :: ks')); [right; reflexivity|left; reflexivity].
  - destruct (AbsFP_hd _ _ Hfp) as (v & tail & ks' & -> & ->).
    destruct (AbsPs_toks _ _ Hps) as [-> Hpn].
    pose proof (field_keys_abs _ _ Hfp [v] tEq (pat_toks pp ++ [tClose] ++ cont) eq_refl) as E. cbn [tl] in E.
    cbn [compile app ttyp tSlash tOpen tval].
    replace ((tail ++ tEq :: pat_toks pp ++ [tClose]) ++ cont) with (tail ++ tEq :: pat_toks pp ++ [tClose] ++ cont)
      by (rewrite <- !app_assoc; cbn [app]; rewrite <- app_assoc; reflexivity).
    rewrite E. cbn [app ttyp tEq]. rewrite (until_varend_app (pat_toks pp) cont (pat_toks_novarend pp)).
    destruct (resolves mid (v :: ks')); [right; reflexivity|left; reflexivity].
Qed.

Lemma compile_segs_abs ss segs : AbsSegs ss segs -> forall fuel mid tail es vfs,
  compile fuel mid (tSlash :: ss ++ tail) = Ok (es, vfs) ->
  exists f' es' vfs', compile f' mid tail = Ok (es', vfs') /\
    es = map seg_edge segs ++ es' /\ vfs = flat_map seg_vf segs ++ vfs'.
Proof.
  induction 1 as [ts sg G|ts sg rest segs G HS IH]; intros fuel mid tail es vfs H;
    (destruct fuel as [|f]; [discriminate H|]).
  - destruct (compile_seg_abs ts sg G f mid tail) as [E|E]; rewrite E in H; [discriminate|].
    destruct (compile f mid tail) as [[es' vfs']| | |] eqn:Ec; try discriminate. cbn in H. inversion H; subst.
    exists f, es', vfs'. cbn. rewrite app_nil_r. auto.
  - rewrite <- app_assoc in H. cbn [app] in H.
    destruct (compile_seg_abs ts sg G f mid (tSlash :: rest ++ tail)) as [E|E]; rewrite E in H; [discriminate|].
    destruct (compile f mid (tSlash :: rest ++ tail)) as [[es1 vfs1]| | |] eqn:Ec; try discriminate.
    cbn in H. inversion H; subst.
    destruct (IH _ _ _ _ _ Ec) as (f' & es' & vfs' & A & -> & ->).
    exists f', es', vfs'. split; [exact A|]. cbn [map flat_map]. rewrite <- app_assoc. auto.
Qed.

(* what larking compiles from the tokens of a template is a function of the template value *)
Theorem compile_abs toks t fuel mid es vfs : AbsT toks t ->
  compile fuel mid toks = Ok (es, vfs) -> es = edges_of t /\ vfs = vfs_of t.
Proof.
  intros [ss sl HS|ss sl v HS] H; destruct (compile_segs_abs _ _ HS _ _ _ _ _ H) as (f' & es' & vfs' & A & -> & ->);
    unfold edges_of, vfs_of; cbn [t_segs t_verb verb_edges]; (destruct f' as [|f']; [discriminate A|]);
    cbn in A; inversion A; subst; rewrite ?app_nil_r; auto.
Qed.
End Compile.
Print Assumptions compile_abs.

(* ================= the tokens of a request path ================= *)
Fixpoint ptoks (pieces : list sstr) : list token :=
  match pieces with [] => [] | x :: r => tSlash :: Tok TPath x :: ptoks r end.
Definition tail_toks (v : option sstr) : list token :=
  match v with Some v => [tColon; Tok TPath v; tEOF] | None => [tEOF] end.

Lemma spell_ptoks l : spell (ptoks l) = flat_map (fun x => 47 :: x) l.
Proof.
  induction l as [|x l IH]; [reflexivity|].
  change (spell (ptoks (x :: l))) with (47 :: x ++ spell (ptoks l)). now rewrite IH.
Qed.
Lemma join_seps x r : 47 :: join 47 (x :: r) = flat_map (fun y => 47 :: y) (x :: r).
Proof. reflexivity. Qed.

Lemma strip_suffix_spec suf s a : strip_suffix suf s = Some a -> s = a ++ suf.
Proof.
  revert a. induction s as [|x s IH]; intros a H.
  - cbn [strip_suffix] in H. destruct (sstr_eqb [] suf) eqn:E; [|discriminate]. apply sstr_eqb_eq in E. inversion H; subst. reflexivity.
  - cbn [strip_suffix] in H. destruct (sstr_eqb (x :: s) suf) eqn:E.
    + apply sstr_eqb_eq in E. inversion H; subst. reflexivity.
    + destruct (strip_suffix suf s) as [a'|] eqn:Es; [|discriminate]. inversion H; subst. cbn. now rewrite (IH a' eq_refl).
Qed.

Section Inst.
Variables isLetter isNumber : N -> bool.
Notation is_path := (is_path isLetter isNumber).
Notation PathToks := (PathToks isLetter isNumber).
Notation inst := (inst isLetter isNumber).

Lemma inst_eq strict t path :
  inst strict t path =
  match normalise path with
  | [] => None
  | x :: body =>
    if x =? 47 then
      match (match t_verb t with Some v => strip_suffix (58 :: v) body | None => Some body end) with
      | Some sp =>
        let pieces := split_on 47 sp in
        if forallb (fun x => negb (is_nil x)) pieces && (negb strict || forallb (forallb (s_path isLetter isNumber)) pieces)
        then match_segs (t_segs t) pieces else None
      | None => None
      end
    else None
  end.
Proof.
  unfold Template.inst. change (s_normalise path) with (normalise path).
  destruct (normalise path) as [|x body]; [reflexivity|]. destruct x as [|p]; [reflexivity|].
  do 6 (destruct p as [p|p|]; try reflexivity).
Qed.

Section Sane.
Hypothesis sane : Sane isLetter isNumber.

Lemma is_path_47 : is_path 47 = false.
Proof. unfold Lexer.is_path. rewrite (sane_literal isLetter isNumber sane 47) by (cbn; auto). reflexivity. Qed.
Lemma is_path_58 : is_path 58 = false.
Proof. unfold Lexer.is_path. rewrite (sane_literal isLetter isNumber sane 58) by (cbn; auto). reflexivity. Qed.

Lemma PathToks_stops ts : PathToks ts -> stops is_path (spell ts).
Proof. intros [|v r _ _ _|v r _ _ _]; cbn; auto using is_path_47, is_path_58. Qed.

Lemma PathToks_unique a : PathToks a -> forall b, PathToks b -> spell a = spell b -> a = b.
Proof.
  induction 1 as [|v r Hv Hp Hr IH|v r Hv Hp Hr IH]; intros b Hb E.
  - destruct Hb as [|v' r' Hv' _ _|v' r' Hv' _ _]; [reflexivity|discriminate E|discriminate E].
  - destruct Hb as [|v' r' Hv' Hp' Hr'|v' r' Hv' Hp' Hr']; [discriminate E| |discriminate E].
    change (47 :: v ++ spell r = 47 :: v' ++ spell r') in E. injection E as E.
    pose proof (span_app _ _ _ Hp (PathToks_stops _ Hr)) as S1.
    pose proof (span_app _ _ _ Hp' (PathToks_stops _ Hr')) as S2. rewrite E in S1. rewrite S1 in S2.
    inversion S2; subst. f_equal. f_equal. now apply IH.
  - destruct Hb as [|v' r' Hv' Hp' Hr'|v' r' Hv' Hp' Hr']; [discriminate E|discriminate E|].
    change (58 :: v ++ spell r = 58 :: v' ++ spell r') in E. injection E as E.
    pose proof (span_app _ _ _ Hp (PathToks_stops _ Hr)) as S1.
    pose proof (span_app _ _ _ Hp' (PathToks_stops _ Hr')) as S2. rewrite E in S1. rewrite S1 in S2.
    inversion S2; subst. f_equal. f_equal. now apply IH.
Qed.
End Sane.

Definition piece_ok (x : sstr) : Prop := x <> [] /\ forallb is_path x = true.

Lemma PathToks_build pieces verb : Forall piece_ok pieces ->
  match verb with Some v => piece_ok v | None => True end -> PathToks (ptoks pieces ++ tail_toks verb).
Proof.
  intros H Hv. induction H as [|x r [Hx1 Hx2] H IH].
  - destruct verb as [v|]; cbn; [destruct Hv; repeat constructor; auto|constructor].
  - cbn [ptoks app]. now constructor.
Qed.

End Inst.

(* ================= string-level matching gives a token-level covering ================= *)
Lemma MP_star1 p a z : ttyp p = TStar -> Forall nosep a -> at_sep z -> a ++ z <> [] -> MatchPat [p] a z.
Proof.
  intros Hp Ha Hz Hn. rewrite <- (app_nil_r a). apply MP_star; [exact Hp|exact Ha|exact Hz|exact Hn|constructor].
Qed.
Lemma MP_starstar1 p a z : ttyp p = TStarStar -> Forall noverb a -> at_verb z -> a ++ z <> [] -> MatchPat [p] a z.
Proof.
  intros Hp Ha Hz Hn. rewrite <- (app_nil_r a). apply MP_starstar; [exact Hp|exact Ha|exact Hz|exact Hn|constructor].
Qed.
Lemma ptoks_noverb r : Forall noverb (ptoks r).
Proof. induction r as [|x r IH]; [constructor|]. cbn [ptoks]. repeat constructor. exact IH. Qed.

Definition filt (l : list (list sstr * sstr)) : list (list sstr * sstr) :=
  filter (fun fc => negb (is_nil (fst fc))) l.
(* every variable has a field path and a pattern *)
Definition wf_segs (segs : list tseg) : Prop := forall fp ps, In (TVar fp ps) segs -> fp <> [] /\ ps <> [].

Section Cover.
Variable verb : option sstr.
Notation tail := (tail_toks verb).

Lemma match_pat_cover ps : forall pieces c rest, match_pat ps pieces = Some (c, rest) ->
  exists ctoks z, MatchPat (sl_toks ps) ctoks z /\ ptoks pieces ++ tail = ctoks ++ z /\
    spell ctoks = flat_map (fun x => 47 :: x) c /\
    (z = ptoks rest ++ tail \/ (rest = [] /\ verb = None /\ z = [])) /\
    (ps <> [] -> c <> [] /\ exists c1, ctoks = tSlash :: c1 /\ c1 <> [] /\ MatchPat (pat_toks ps) c1 z).
Proof.
  induction ps as [|p ps' IH]; intros pieces c rest H.
  - cbn in H. inversion H; subst. exists [], (ptoks rest ++ tail).
    split; [constructor|]. split; [reflexivity|]. split; [reflexivity|]. split; [now left|]. intros E; now contradiction E.
  - destruct pieces as [|x r]; [discriminate H|]. cbn [match_pat] in H.
    assert (Wrap : forall c1 z c0, MatchPat (pseg_tok p :: sl_toks ps') c1 z -> c1 <> [] ->
              ptoks (x :: r) ++ tail = (tSlash :: c1) ++ z -> spell c1 = x ++ flat_map (fun y => 47 :: y) c0 ->
              (z = ptoks rest ++ tail \/ (rest = [] /\ verb = None /\ z = [])) ->
              exists ctoks z, MatchPat (sl_toks (p :: ps')) ctoks z /\ ptoks (x :: r) ++ tail = ctoks ++ z /\
                spell ctoks = flat_map (fun y => 47 :: y) (x :: c0) /\
                (z = ptoks rest ++ tail \/ (rest = [] /\ verb = None /\ z = [])) /\
                (p :: ps' <> [] -> x :: c0 <> [] /\ exists c1, ctoks = tSlash :: c1 /\ c1 <> [] /\ MatchPat (pat_toks (p :: ps')) c1 z)).
    { intros c1 z c0 M Hc1 Eq Sp Dz. exists (tSlash :: c1), z. rewrite sl_toks_cons.
      split; [apply MP_slash; auto|]. split; [exact Eq|]. split.
      - change (spell (tSlash :: c1)) with (47 :: spell c1). now rewrite Sp.
      - split; [exact Dz|]. intros _. split; [discriminate|]. exists c1. auto. }
    destruct p as [l| |].
    + destruct (sstr_eqb l x) eqn:El; [|discriminate]. apply sstr_eqb_eq in El. subst l.
      destruct (match_pat ps' r) as [[c' z']|] eqn:Em; [|discriminate]. inversion H; subst. clear H.
      destruct (IH _ _ _ Em) as (ctoks' & z & M & Eq & Sp & Dz & _).
      apply (Wrap (Tok TPath x :: ctoks') z c');
        [apply MP_lit; [reflexivity|reflexivity|reflexivity|exact M]|discriminate| | |exact Dz].
      * cbn [ptoks app]. now rewrite Eq.
      * change (spell (Tok TPath x :: ctoks')) with (x ++ spell ctoks'). now rewrite Sp.
    + destruct (match_pat ps' r) as [[c' z']|] eqn:Em; [|discriminate]. inversion H; subst. clear H.
      destruct ps' as [|q ps''].
      * cbn in Em. inversion Em; subst. clear Em.
        destruct rest as [|y rest'].
        -- destruct verb as [v|] eqn:Ev.
           ++ apply (Wrap [Tok TPath x] ([] ++ [tColon; Tok TPath v; tEOF]) []);
                [apply MP_star1; [reflexivity|repeat constructor|right; reflexivity|discriminate]
                |discriminate|reflexivity| |now left].
              cbn [flat_map]. rewrite app_nil_r. apply spell_one.
           ++ apply (Wrap [Tok TPath x; tEOF] [] []);
                [apply MP_star1; [reflexivity|repeat constructor|exact I|discriminate]
                |discriminate|reflexivity| |right; auto].
              cbn. now rewrite !app_nil_r.
        -- apply (Wrap [Tok TPath x] (ptoks (y :: rest') ++ tail) []);
             [apply MP_star1; [reflexivity|repeat constructor|left; reflexivity|discriminate]
             |discriminate|reflexivity| |now left].
           cbn [flat_map]. rewrite app_nil_r. apply spell_one.
      * destruct (IH _ _ _ Em) as (ctoks' & z & M & Eq & Sp & Dz & Hne).
        destruct (Hne ltac:(discriminate)) as (_ & c1' & -> & _ & _).
        apply (Wrap ([Tok TPath x] ++ tSlash :: c1') z c');
          [apply MP_star; [reflexivity|repeat constructor|left; reflexivity|discriminate|exact M]
          |discriminate| | |exact Dz].
        -- cbn [ptoks app]. now rewrite Eq.
        -- change (spell ([Tok TPath x] ++ tSlash :: c1')) with (x ++ spell (tSlash :: c1')). now rewrite Sp.
    + destruct ps' as [|q ps'']; [|discriminate]. inversion H; subst. clear H.
      destruct verb as [v|] eqn:Ev.
      * apply (Wrap (Tok TPath x :: ptoks r) [tColon; Tok TPath v; tEOF] r);
          [apply MP_starstar1; [reflexivity|constructor; [reflexivity|apply ptoks_noverb]|reflexivity|discriminate]
          |discriminate|reflexivity| |now left].
        change (spell (Tok TPath x :: ptoks r)) with (x ++ spell (ptoks r)). now rewrite spell_ptoks.
      * apply (Wrap (Tok TPath x :: ptoks r ++ [tEOF]) [] r);
          [apply MP_starstar1; [reflexivity| |exact I|discriminate]|discriminate| | |right; auto].
        -- constructor; [reflexivity|]. apply Forall_app. split; [apply ptoks_noverb|repeat constructor].
        -- cbn [ptoks app]. now rewrite app_nil_r.
        -- change (spell (Tok TPath x :: ptoks r ++ [tEOF])) with (x ++ spell (ptoks r ++ [tEOF])).
           rewrite spell_app, spell_ptoks. change (spell [tEOF]) with (@nil N). now rewrite app_nil_r.
Qed.

Lemma wf_segs_tl s segs : wf_segs (s :: segs) -> wf_segs segs.
Proof. intros H fp ps Hin. apply H. now right. Qed.

Lemma match_segs_nil segs cs : wf_segs segs -> match_segs segs [] = Some cs -> segs = [].
Proof.
  destruct segs as [|[p|fp ps] segs']; intros Hw H; [reflexivity| |].
  - cbn in H. discriminate.
  - destruct (Hw fp ps (or_introl eq_refl)) as [_ Hps]. destruct ps; [contradiction|]. cbn in H. discriminate.
Qed.

Definition covered (segs : list tseg) (toks : list token) (cs : list (list sstr * sstr)) : Prop :=
  exists caps, MatchEdges (map seg_edge segs ++ verb_edges verb) toks caps /\
    cs = filt (combine (flat_map seg_vf segs) (rev caps)).

(* one variable edge: its pattern against the pieces, then the rest *)
Lemma var_cover ps segs' pieces c rest cs' :
  ps <> [] -> wf_segs segs' -> match_pat ps pieces = Some (c, rest) -> match_segs segs' rest = Some cs' ->
  covered segs' (ptoks rest ++ tail) cs' ->
  exists caps', MatchEdges (EVar (pat_toks ps) :: map seg_edge segs' ++ verb_edges verb) (ptoks pieces ++ tail)
                  (caps' ++ [join 47 c]) /\
    cs' = filt (combine (flat_map seg_vf segs') (rev caps')).
Proof.
  intros Hps Hw Hm Hs Hcov.
  destruct (match_pat_cover ps pieces c rest Hm) as (ctoks & z & _ & Eq & Sp & Dz & Hne).
  destruct (Hne Hps) as (Hc & c1 & -> & Hc1 & M).
  assert (Ecap : spell c1 = join 47 c).
  { destruct c as [|y c']; [contradiction|]. rewrite <- join_seps in Sp.
    change (spell (tSlash :: c1)) with (47 :: spell c1) in Sp. now injection Sp. }
  rewrite Eq, <- Ecap. cbn [app].
  destruct Dz as [->|(-> & Ev & ->)].
  - destruct Hcov as (caps' & HM & Hcs). exists caps'. split; [|exact Hcs].
    apply ME_var; [reflexivity| |exact M|exact HM]. destruct c1; [contradiction|discriminate].
  - pose proof (match_segs_nil _ _ Hw Hs) as ->. cbn in Hs. inversion Hs; subst cs'. rewrite Ev.
    exists []. split; [|reflexivity]. cbn [map app verb_edges].
    apply (ME_var (pat_toks ps) tSlash c1 [] [] []); [reflexivity| |exact M|apply ME_end; cbn; lia].
    destruct c1; [contradiction|discriminate].
Qed.

Lemma match_segs_cover segs : forall pieces cs, wf_segs segs -> match_segs segs pieces = Some cs ->
  covered segs (ptoks pieces ++ tail) cs.
Proof.
  induction segs as [|sg segs' IH]; intros pieces cs Hw H.
  - cbn in H. destruct pieces; [|discriminate]. inversion H; subst cs. exists []. split; [|reflexivity].
    cbn [map app ptoks]. destruct verb as [v|]; cbn [verb_edges tail_toks].
    + apply (ME_lit tColon (Tok TPath v) [tEOF] [] []). apply ME_end. cbn; lia.
    + apply ME_end. cbn; lia.
  - pose proof (wf_segs_tl _ _ Hw) as Hw'. destruct sg as [p|fp ps]; cbn [match_segs] in H.
    + destruct (match_pat [p] pieces) as [[c rest]|] eqn:Em; [|discriminate].
      pose proof (IH _ _ Hw' H) as Hcov.
      destruct p as [l| |].
      * destruct pieces as [|x r]; [discriminate Em|]. cbn in Em.
        destruct (sstr_eqb l x) eqn:El; [|discriminate]. apply sstr_eqb_eq in El. subst l. inversion Em; subst. clear Em.
        destruct Hcov as (caps & HM & Hcs). exists caps. split; [|exact Hcs].
        cbn [map app ptoks seg_edge]. apply (ME_lit tSlash (Tok TPath x)). exact HM.
      * destruct (var_cover [PStar] segs' pieces c rest cs ltac:(discriminate) Hw' Em H Hcov) as (caps' & HM & Hcs).
        exists (caps' ++ [join 47 c]). split; [exact HM|].
        rewrite rev_app_distr. cbn [rev app flat_map seg_vf combine]. unfold filt. cbn [filter fst is_nil negb]. exact Hcs.
      * destruct (var_cover [PStarStar] segs' pieces c rest cs ltac:(discriminate) Hw' Em H Hcov) as (caps' & HM & Hcs).
        exists (caps' ++ [join 47 c]). split; [exact HM|].
        rewrite rev_app_distr. cbn [rev app flat_map seg_vf combine]. unfold filt. cbn [filter fst is_nil negb]. exact Hcs.
    + destruct (match_pat ps pieces) as [[c rest]|] eqn:Em; [|discriminate].
      destruct (match_segs segs' rest) as [cs'|] eqn:Es; [|discriminate]. inversion H; subst cs. clear H.
      destruct (Hw fp ps (or_introl eq_refl)) as [Hfp Hps].
      pose proof (IH _ _ Hw' Es) as Hcov.
      destruct (var_cover ps segs' pieces c rest cs' Hps Hw' Em Es Hcov) as (caps' & HM & Hcs).
      exists (caps' ++ [join 47 c]). split; [exact HM|].
      rewrite rev_app_distr. cbn [rev app flat_map seg_vf combine]. unfold filt. cbn [filter fst].
      destruct fp; [contradiction|]. cbn [is_nil negb]. f_equal. exact Hcs.
Qed.
End Cover.

(* ================= the theorem ================= *)
Lemma AbsFP_nonnil fp ks : AbsFP fp ks -> ks <> [].
Proof. intros []; discriminate. Qed.
Lemma AbsSegs_wf ss segs : AbsSegs ss segs -> wf_segs segs.
Proof.
  assert (H1 : forall ts sg, AbsSeg ts sg -> forall fp ps, sg = TVar fp ps -> fp <> [] /\ ps <> []).
  { intros ts sg [ts' p G|fp' ks Hfp|fp' ks ps' pp Hfp Hps] fp ps E; inversion E; subst.
    - split; [eapply AbsFP_nonnil; eauto|discriminate].
    - split; [eapply AbsFP_nonnil; eauto|]. now destruct (AbsPs_toks _ _ Hps). }
  induction 1 as [ts sg G|ts sg rest segs G HS IH]; intros fp ps [E|Hin]; try contradiction; eauto.
Qed.

Section InstCover.
Variables isLetter isNumber : N -> bool.
Hypothesis sane : Sane isLetter isNumber.
Notation is_path := (is_path isLetter isNumber).
Notation is_literal := (is_literal isLetter isNumber).

Definition wf_t (t : tmpl) : Prop :=
  wf_segs (t_segs t) /\
  match t_verb t with Some v => nonempty_all (s_literal isLetter isNumber) v = true | None => True end.

Lemma literal_is_path v : forallb is_literal v = true -> forallb is_path v = true.
Proof.
  intros H. rewrite forallb_forall in *. intros x Hx. specialize (H x Hx). unfold Lexer.is_path. rewrite H. reflexivity.
Qed.
Lemma nonempty_all_inv (q : N -> bool) v : nonempty_all q v = true -> v <> [] /\ forallb q v = true.
Proof. unfold nonempty_all. destruct v; cbn; [discriminate|]. intros H. split; [discriminate|exact H]. Qed.

(* an instance is a path made of the pieces that are matched, and of the template's verb *)
Lemma inst_pieces t p cs : wf_t t -> inst isLetter isNumber true t p = Some cs ->
  exists pieces, PathToks isLetter isNumber (ptoks pieces ++ tail_toks (t_verb t)) /\
    spell (ptoks pieces ++ tail_toks (t_verb t)) = normalise p /\
    match_segs (t_segs t) pieces = Some cs.
Proof.
  intros [Hw Hv] H. rewrite inst_eq in H.
  destruct (normalise p) as [|x body] eqn:En; [discriminate|].
  destruct (N.eqb_spec x 47) as [->|]; [|discriminate].
  destruct (match t_verb t with Some v => strip_suffix (58 :: v) body | None => Some body end) as [sp|] eqn:Esp; [|discriminate].
  cbv zeta in H.
  destruct (forallb (fun x => negb (is_nil x)) (split_on 47 sp) &&
            (negb true || forallb (forallb (s_path isLetter isNumber)) (split_on 47 sp))) eqn:Ec; [|discriminate].
  apply andb_true_iff in Ec. destruct Ec as [Hne Hpc]. cbn [negb orb] in Hpc.
  set (pieces := split_on 47 sp) in *. exists pieces.
  assert (Hok : Forall (piece_ok isLetter isNumber) pieces).
  { apply Forall_forall. intros y Hy. rewrite forallb_forall in Hne, Hpc. specialize (Hne y Hy). specialize (Hpc y Hy).
    split; [destruct y; [discriminate|discriminate]|].
    rewrite forallb_forall in *. intros r Hr. rewrite <- s_path_eq. now apply Hpc. }
  assert (Hvok : match t_verb t with Some v => piece_ok isLetter isNumber v | None => True end).
  { destruct (t_verb t) as [v|]; [|exact I]. destruct (nonempty_all_inv _ _ Hv) as [A B]. split; [exact A|now apply literal_is_path]. }
  split; [exact (PathToks_build isLetter isNumber pieces (t_verb t) Hok Hvok)|]. split; [|exact H].
  rewrite spell_app, spell_ptoks.
  assert (E1 : flat_map (fun y => 47 :: y) pieces = 47 :: sp).
  { pose proof (split_on_join 47 sp) as Ej. fold pieces in Ej. pose proof (split_on_nonnil 47 sp) as Hn. fold pieces in Hn.
    destruct pieces as [|y r]; [contradiction|]. rewrite <- join_seps. now rewrite Ej. }
  rewrite E1. destruct (t_verb t) as [v|].
  - apply strip_suffix_spec in Esp. subst body. cbn [tail_toks].
    change (spell [tColon; Tok TPath v; tEOF]) with (58 :: v ++ [] ++ []). now rewrite !app_nil_r.
  - inversion Esp; subst. cbn [tail_toks]. change (spell [tEOF]) with (@nil N). now rewrite app_nil_r.
Qed.

Lemma inst_cover t p cs ptoks0 : wf_t t ->
  lex_path isLetter isNumber (normalise p) = Ok ptoks0 -> inst isLetter isNumber true t p = Some cs ->
  exists caps, MatchEdges (edges_of t) ptoks0 caps /\ cs = filt (combine (vfs_of t) (rev caps)).
Proof.
  intros Hwf Hl H. destruct (inst_pieces t p cs Hwf H) as (pieces & HP & Hs & Hm).
  destruct (lex_path_sound _ _ _ _ Hl) as (HP0 & Hs0 & _).
  assert (E : ptoks0 = ptoks pieces ++ tail_toks (t_verb t)).
  { apply (PathToks_unique isLetter isNumber sane); auto. now rewrite Hs0, Hs. }
  subst ptoks0. destruct Hwf as [Hw _]. exact (match_segs_cover (t_verb t) (t_segs t) pieces cs Hw Hm).
Qed.
End InstCover.

Lemma parse_tmpl_wf isLetter isNumber s t : parse_tmpl isLetter isNumber s = Some t -> wf_t isLetter isNumber t.
Proof.
  intros H. split.
  - destruct (parser_to_grammar isLetter isNumber s t H) as (toks & _ & _ & _ & HA).
    destruct HA as [ss sl HS|ss sl v HS]; cbn [t_segs]; eapply AbsSegs_wf; eauto.
  - rewrite parse_tmpl_hd in H. destruct s as [|x rest]; [discriminate|].
    destruct (N.eqb_spec x 47) as [->|]; [|discriminate].
    destruct (cut 58 rest) as [segpart verb] eqn:Ec. rewrite (parse_tmpl_47 _ _ _ _ _ Ec) in H.
    destruct (match verb with None => true | Some v => nonempty_all (s_literal isLetter isNumber) v end) eqn:Ev; [|discriminate].
    destruct (split_top false segpart) as [parts|]; [|discriminate].
    destruct (map_opt (parse_tseg isLetter isNumber) parts) as [segs|]; [|discriminate].
    unfold finish in H. destruct (_ && _); [|discriminate]. inversion H; subst t. cbn [t_verb]. destruct verb; auto.
Qed.

(* the direction that matters for the harness: when the oracle says "the path is an instance of this
   rule's template, with these field values", the edges larking compiled from the rule cover the path's
   tokens -- the hypothesis of C02_complete -- with the same captures. [cs] lists (field path, text)
   for the template's variables in template order; [caps] has one text per variable edge, deepest
   first, bare "*" / "**" segments included (their field path is [], they are filtered out). *)
Theorem inst_implies_cover :
  forall isLetter isNumber resolves, Sane isLetter isNumber ->
  forall mid b es vfs t p ptoks cs,
  compiled isLetter isNumber resolves mid b es vfs ->
  parse_tmpl isLetter isNumber (b_tmpl b) = Some t ->
  lex_path isLetter isNumber (normalise p) = Ok ptoks ->
  inst isLetter isNumber true t p = Some cs ->
  exists caps, MatchEdges es ptoks caps /\
    cs = filter (fun fc => negb (is_nil (fst fc))) (combine vfs (rev caps)).
Proof.
  intros isLetter isNumber resolves sane mid b es vfs t p ptoks cs (toks & Hlex & Hc) Hp Hl Hi.
  pose proof (template_oracle_lexer_related isLetter isNumber sane _ _ _ Hp Hlex) as HA.
  destruct (compile_abs resolves toks t _ mid es vfs HA Hc) as [-> ->].
  exact (inst_cover isLetter isNumber sane t p cs ptoks (parse_tmpl_wf _ _ _ _ Hp) Hl Hi).
Qed.
Print Assumptions inst_implies_cover.

(* the same for any token list related to the template value (the form of the brief) *)
Theorem inst_implies_cover_abs :
  forall isLetter isNumber resolves, Sane isLetter isNumber ->
  forall toks t fuel mid es vfs p ptoks cs,
  AbsT toks t -> wf_t isLetter isNumber t ->
  compile resolves fuel mid toks = Ok (es, vfs) ->
  lex_path isLetter isNumber (normalise p) = Ok ptoks ->
  inst isLetter isNumber true t p = Some cs ->
  exists caps, MatchEdges es ptoks caps /\
    cs = filter (fun fc => negb (is_nil (fst fc))) (combine vfs (rev caps)).
Proof.
  intros isLetter isNumber resolves sane toks t fuel mid es vfs p ptoks cs HA Hw Hc Hl Hi.
  destruct (compile_abs resolves toks t _ mid es vfs HA Hc) as [-> ->].
  exact (inst_cover isLetter isNumber sane t p cs ptoks Hw Hl Hi).
Qed.
Print Assumptions inst_implies_cover_abs.

(* with C02: a registered rule that the oracle says matches the request is served *)
Corollary oracle_match_is_served :
  forall isLetter isNumber resolves okconv, Sane isLetter isNumber -> (forall fp t, okconv fp t = true) ->
  forall L root verb p mid b es vfs t cs,
  Inv isLetter isNumber resolves L root -> In (mid, b) L -> covers_verb (b_verb b) verb ->
  compiled isLetter isNumber resolves mid b es vfs ->
  parse_tmpl isLetter isNumber (b_tmpl b) = Some t ->
  is_ok (lex_path isLetter isNumber (normalise p)) = true ->
  inst isLetter isNumber true t p = Some cs ->
  exists r, route okconv isLetter isNumber root verb p = Ok r.
Proof.
  intros isLetter isNumber resolves okconv sane conv L root verb p mid b es vfs t cs HI Hin Hcov Hc Hp Hl Hi.
  destruct (lex_path isLetter isNumber (normalise p)) as [ptoks| | |] eqn:El; try discriminate.
  destruct (inst_implies_cover isLetter isNumber resolves sane mid b es vfs t p ptoks cs Hc Hp El Hi) as (caps & HM & _).
  exact (dispatch_complete isLetter isNumber resolves okconv sane conv L root verb p mid b es vfs ptoks caps HI Hin Hcov Hc El HM).
Qed.
Print Assumptions oracle_match_is_served.

(* ================= a token-level covering gives string-level matching ================= *)
Lemma ptoks_app a b : ptoks (a ++ b) = ptoks a ++ ptoks b.
Proof. induction a as [|x a IH]; [reflexivity|]. cbn [app ptoks]. now rewrite IH. Qed.

Lemma strip_suffix_app suf a : strip_suffix suf (a ++ suf) = Some a.
Proof.
  induction a as [|x a IH].
  - cbn [app]. destruct suf; cbn [strip_suffix]; now rewrite sstr_eqb_refl.
  - cbn [app strip_suffix]. destruct (sstr_eqb (x :: a ++ suf) suf) eqn:E.
    + apply sstr_eqb_eq in E. apply (f_equal (@length N)) in E. cbn [length] in E. rewrite app_length in E. lia.
    + now rewrite IH.
Qed.

Lemma MatchPat_nil_inv c z : MatchPat [] c z -> c = [].
Proof. intros H. inversion H. reflexivity. Qed.
Lemma MatchPat_slash_inv pat c z : MatchPat (tSlash :: pat) c z ->
  exists t c2, c = t :: c2 /\ is TSlash t = true /\ MatchPat pat c2 z.
Proof.
  intros H. inversion H as [|? t ? c2 ? Hp Ht HM|? t ? c2 ? Hp|? a ? c2 ? Hp|? a ? c2 ? Hp]; subst; try discriminate Hp.
  eauto.
Qed.

Lemma ME_lit_inv k es z caps : MatchEdges (ELit k :: es) z caps ->
  exists t0 t1 rest, z = t0 :: t1 :: rest /\ k = tval t0 ++ tval t1 /\ MatchEdges es rest caps.
Proof. intros H. inversion H; subst. eauto 10. Qed.
Lemma ME_var_inv pat es z caps : MatchEdges (EVar pat :: es) z caps ->
  exists t0 c z' caps', z = t0 :: c ++ z' /\ caps = caps' ++ [spell c] /\ is TSlash t0 = true /\ c ++ z' <> [] /\
    MatchPat pat c z' /\ MatchEdges es z' caps'.
Proof. intros H. inversion H; subst. eauto 12. Qed.
Lemma ME_nil_inv z caps : MatchEdges [] z caps -> (length z <= 1)%nat /\ caps = [].
Proof. intros H. inversion H; subst. auto. Qed.

Section Conv.
Variables isLetter isNumber : N -> bool.
Hypothesis sane : Sane isLetter isNumber.
Notation PathToks := (PathToks isLetter isNumber).
Notation piece_ok := (piece_ok isLetter isNumber).

Lemma PathToks_ptoks_app cp z : PathToks (ptoks cp ++ z) -> PathToks z.
Proof.
  induction cp as [|x cp IH]; [auto|]. cbn [ptoks app]. intros H. inversion H; subst. auto.
Qed.
Lemma PathToks_not_nil : ~ PathToks [].
Proof. intros H. inversion H. Qed.

(* a path token list headed by a "/" token *)
Lemma PathToks_slash t zz : PathToks (t :: zz) -> is TSlash t = true ->
  exists w r, t = tSlash /\ zz = Tok TPath w :: r /\ piece_ok w /\ PathToks r.
Proof.
  intros H Ht. inversion H as [|w r Hw Hp Hr|w r Hw Hp Hr]; subst; try discriminate Ht.
  exists w, r. repeat split; auto.
Qed.

Lemma star_split a y w r : Forall nosep a -> at_sep y -> a ++ y = Tok TPath w :: r -> PathToks r ->
  (a = [Tok TPath w] /\ y = r) \/ (a = [Tok TPath w; tEOF] /\ y = [] /\ r = [tEOF]).
Proof.
  intros Ha Hy E Hr. destruct a as [|x a']; cbn [app] in E.
  - subst y. cbn in Hy. destruct Hy; discriminate.
  - injection E as -> E. apply Forall_inv_tail in Ha.
    destruct a' as [|s a'']; cbn [app] in E; [left; now subst|].
    apply Forall_inv in Ha. destruct Ha as [N1 N2].
    destruct Hr as [|v r' Hv Hp Hr'|v r' Hv Hp Hr'].
    + injection E as -> E. apply app_eq_nil in E. destruct E as [-> ->]. right. auto.
    + injection E as -> E. discriminate N1.
    + injection E as -> E. discriminate N2.
Qed.

(* a run without ":" tokens up to a ":" token is whole pieces *)
Lemma noverb_run zz : PathToks zz -> forall a z', zz = a ++ z' -> Forall noverb a ->
  match z' with t :: _ => is TVerb t = true | [] => False end ->
  exists cp, a = ptoks cp /\ Forall piece_ok cp.
Proof.
  induction 1 as [|w r Hw Hp Hr IH|w r Hw Hp Hr IH]; intros a z' E Ha Hz.
  - destruct a as [|x a]; cbn [app] in E; [subst z'; discriminate Hz|].
    injection E as Ex E. symmetry in E. apply app_eq_nil in E. destruct E as [_ E]. subst z'. contradiction.
  - destruct a as [|x [|y a]]; cbn [app] in E.
    + subst z'. discriminate Hz.
    + injection E as Ex E. subst z'. discriminate Hz.
    + injection E as Ex Ey E. subst x y. apply Forall_inv_tail, Forall_inv_tail in Ha.
      destruct (IH a z' E Ha Hz) as (cp & Ea & Hcp). subst a. exists (w :: cp). split; [reflexivity|].
      constructor; [split; auto|exact Hcp].
  - destruct a as [|x a]; cbn [app] in E.
    + exists []. split; [reflexivity|constructor].
    + injection E as Ex E. subst x. apply Forall_inv in Ha. discriminate Ha.
Qed.
Lemma noverb_all zz : PathToks zz -> Forall noverb zz -> exists cp, zz = ptoks cp ++ [tEOF] /\ Forall piece_ok cp.
Proof.
  induction 1 as [|w r Hw Hp Hr IH|w r Hw Hp Hr IH]; intros Ha.
  - exists []. split; [reflexivity|constructor].
  - apply Forall_inv_tail, Forall_inv_tail in Ha. destruct (IH Ha) as (cp & -> & Hcp).
    exists (w :: cp). split; [reflexivity|]. constructor; [split; auto|exact Hcp].
  - apply Forall_inv in Ha. discriminate Ha.
Qed.

Lemma MatchPat_sl_nil ps z : MatchPat (sl_toks ps) [] z -> ps = [].
Proof.
  destruct ps as [|p ps]; [reflexivity|]. rewrite sl_toks_cons. intros H.
  apply MatchPat_slash_inv in H. destruct H as (t & c2 & E & _). discriminate E.
Qed.

Lemma pat_inv ps : forall c z', MatchPat (sl_toks ps) c z' -> PathToks (c ++ z') ->
  exists cp, Forall piece_ok cp /\ (ps <> [] -> cp <> []) /\
    (c = ptoks cp \/ (c = ptoks cp ++ [tEOF] /\ z' = [])) /\
    (forall rest', noss ps = true \/ rest' = [] -> match_pat ps (cp ++ rest') = Some (cp, rest')) /\
    (noss ps = false -> at_verb z').
Proof.
  induction ps as [|p ps' IH]; intros c z' M HP.
  - apply MatchPat_nil_inv in M. subst c. exists []. split; [constructor|]. split; [intros E; now contradiction E|].
    split; [now left|]. split; [reflexivity|discriminate].
  - rewrite sl_toks_cons in M. apply MatchPat_slash_inv in M. destruct M as (t & c2 & -> & Ht & M).
    cbn [app] in HP. destruct (PathToks_slash _ _ HP Ht) as (w & r & -> & E & Hw & Hr).
    assert (Step : forall c3, MatchPat (sl_toks ps') c3 z' -> c3 ++ z' = r -> is_ss p = false ->
              (forall rest' cp', match_pat ps' (cp' ++ rest') = Some (cp', rest') ->
                                 match_pat (p :: ps') (w :: cp' ++ rest') = Some (w :: cp', rest')) ->
              exists cp, Forall piece_ok cp /\ (p :: ps' <> [] -> cp <> []) /\
                (tSlash :: Tok TPath w :: c3 = ptoks cp \/ (tSlash :: Tok TPath w :: c3 = ptoks cp ++ [tEOF] /\ z' = [])) /\
                (forall rest', noss (p :: ps') = true \/ rest' = [] -> match_pat (p :: ps') (cp ++ rest') = Some (cp, rest')) /\
                (noss (p :: ps') = false -> at_verb z')).
    { intros c3 HM E3 Hss Hmp. rewrite <- E3 in Hr.
      destruct (IH c3 z' HM Hr) as (cp' & A1 & A2 & A3 & A4 & A5).
      assert (En : noss (p :: ps') = noss ps') by (unfold noss; cbn [forallb]; now rewrite Hss).
      exists (w :: cp'). split; [now constructor|]. split; [discriminate|]. split.
      - destruct A3 as [->|[-> ->]]; [now left|right; auto].
      - rewrite En. split; [|exact A5]. intros rest' Hr'. cbn [app]. apply Hmp. now apply A4. }
    destruct p as [l| |].
    + inversion M as [|? ? ? ? ? Hp|? t1 ? c3 ? Hp Ht1 Hv HM|? a ? c3 ? Hp|? a ? c3 ? Hp]; subst; try discriminate Hp.
      cbn [app] in E. injection E as E1 E2. subst t1. cbn [pseg_tok tval] in Hv. subst l.
      apply (Step c3 HM E2 eq_refl). intros rest' cp' Hm. cbn [match_pat]. now rewrite sstr_eqb_refl, Hm.
    + inversion M as [|? ? ? ? ? Hp|? ? ? ? ? Hp|? a ? c3 ? Hp Ha Hs Hne HM|? a ? c3 ? Hp]; subst; try discriminate Hp.
      rewrite <- app_assoc in E.
      destruct (star_split a (c3 ++ z') w r Ha Hs E Hr) as [[-> E2]|(-> & E2 & ->)].
      * apply (Step c3 HM E2 eq_refl). intros rest' cp' Hm. cbn [match_pat]. now rewrite Hm.
      * apply app_eq_nil in E2. destruct E2 as [-> ->]. apply MatchPat_sl_nil in HM. subst ps'.
        exists [w]. split; [repeat constructor; apply Hw|]. split; [discriminate|].
        split; [right; split; reflexivity|]. split; [|discriminate]. intros rest' _. reflexivity.
    + inversion M as [|? ? ? ? ? Hp|? ? ? ? ? Hp|? a ? c3 ? Hp|? a ? c3 ? Hp Ha Hs Hne HM]; subst; try discriminate Hp.
      destruct ps' as [|q ps''].
      2:{ exfalso. rewrite sl_toks_cons in HM. apply MatchPat_slash_inv in HM. destruct HM as (t' & c4 & -> & Ht' & _).
          cbn in Hs. unfold is in *. destruct (ttyp t'); discriminate. }
      apply MatchPat_nil_inv in HM. subst c3. rewrite app_nil_r in *. cbn [app] in Hs.
      assert (HPa : PathToks ((tSlash :: a) ++ z')) by (cbn [app]; rewrite E; now constructor; try apply Hw).
      assert (Hnv : Forall noverb (tSlash :: a)) by (constructor; [reflexivity|exact Ha]).
      assert (Fin : forall cp, Forall piece_ok cp -> (tSlash :: a = ptoks cp \/ (tSlash :: a = ptoks cp ++ [tEOF] /\ z' = [])) ->
                exists cp, Forall piece_ok cp /\ ([PStarStar] <> [] -> cp <> []) /\
                  (tSlash :: a = ptoks cp \/ (tSlash :: a = ptoks cp ++ [tEOF] /\ z' = [])) /\
                  (forall rest', noss [PStarStar] = true \/ rest' = [] -> match_pat [PStarStar] (cp ++ rest') = Some (cp, rest')) /\
                  (noss [PStarStar] = false -> at_verb z')).
      { intros cp Hcp Hsh. exists cp. split; [exact Hcp|].
        assert (Hcn : cp <> []) by (intros ->; destruct Hsh as [Hsh|[Hsh _]]; discriminate Hsh).
        split; [auto|]. split; [exact Hsh|]. split; [|intros _; exact Hs].
        intros rest' [Hn| ->]; [discriminate Hn|]. rewrite app_nil_r. destruct cp; [contradiction|reflexivity]. }
      destruct z' as [|t' z''].
      * rewrite app_nil_r in HPa. destruct (noverb_all _ HPa Hnv) as (cp & Ecp & Hcp). apply (Fin cp Hcp). right. auto.
      * destruct (noverb_run _ HPa (tSlash :: a) (t' :: z'') eq_refl Hnv Hs) as (cp & Ecp & Hcp). apply (Fin cp Hcp). now left.
Qed.

Lemma PathToks_short z : PathToks z -> (length z <= 1)%nat -> z = [tEOF].
Proof. intros [|w r _ _ _|w r _ _ _] H; [reflexivity|cbn in H; lia|cbn in H; lia]. Qed.

Section ConvSegs.
Variable verb : option sstr.
Notation tail := (tail_toks verb).

(* what is left of the path's tokens: the tokens of the remaining pieces and the end -- or nothing at all
   when a final wildcard has taken the end marker with it *)
Definition resid (rest : list sstr) (z : list token) : Prop :=
  z = ptoks rest ++ tail \/ (rest = [] /\ verb = None /\ z = []).

Definition matched (segs : list tseg) (z : list token) (caps : list str) : Prop :=
  exists rest cs, resid rest z /\ Forall piece_ok rest /\ match_segs segs rest = Some cs /\
    cs = filt (combine (flat_map seg_vf segs) (rev caps)).

Lemma tail_not_nil rest : ptoks rest ++ tail <> [].
Proof. destruct rest; [destruct verb; discriminate|discriminate]. Qed.

Lemma var_conv ps segs' z caps : ps <> [] -> (PathToks z \/ z = []) ->
  MatchEdges (EVar (pat_toks ps) :: map seg_edge segs' ++ verb_edges verb) z caps ->
  (forall z caps, (PathToks z \/ z = []) -> MatchEdges (map seg_edge segs' ++ verb_edges verb) z caps -> matched segs' z caps) ->
  exists cp rest' cs' caps', caps = caps' ++ [join 47 cp] /\ resid (cp ++ rest') z /\ Forall piece_ok (cp ++ rest') /\
    match_pat ps (cp ++ rest') = Some (cp, rest') /\ match_segs segs' rest' = Some cs' /\
    cs' = filt (combine (flat_map seg_vf segs') (rev caps')).
Proof.
  intros Hps HG HM IH.
  destruct (ME_var_inv _ _ _ _ HM) as (t0 & c & z' & caps' & -> & -> & Ht0 & Hne & HMP & HM').
  destruct HG as [HP|E0]; [|discriminate E0].
  destruct (PathToks_slash _ _ HP Ht0) as (w & r & -> & Ecz & Hw & Hr).
  assert (M : MatchPat (sl_toks ps) (tSlash :: c) z') by (rewrite sl_toks_tl by exact Hps; now apply MP_slash).
  destruct (pat_inv ps _ _ M HP) as (cp & A1 & A2 & A3 & A4 & A5). specialize (A2 Hps).
  assert (HG' : PathToks z' \/ z' = []).
  { destruct A3 as [E|[_ E]]; [left|now right]. change (tSlash :: c ++ z') with ((tSlash :: c) ++ z') in HP.
    rewrite E in HP. now apply PathToks_ptoks_app in HP. }
  destruct (IH z' caps' HG' HM') as (rest' & cs' & R1 & R2 & R3 & R4).
  assert (Hrest : noss ps = true \/ rest' = []).
  { destruct (noss ps) eqn:En; [now left|right]. specialize (A5 eq_refl).
    destruct R1 as [->|(-> & _)]; [|reflexivity]. destruct rest' as [|x rest'']; [reflexivity|]. cbn in A5. discriminate A5. }
  assert (Ecap : spell c = join 47 cp).
  { destruct cp as [|y cp']; [contradiction|].
    assert (E : 47 :: spell c = 47 :: join 47 (y :: cp')); [|now injection E].
    change (47 :: spell c) with (spell (tSlash :: c)). rewrite join_seps.
    destruct A3 as [->|[-> _]]; [apply spell_ptoks|].
    rewrite spell_app, spell_ptoks. change (spell [tEOF]) with (@nil N). apply app_nil_r. }
  exists cp, rest', cs', caps'. rewrite Ecap. split; [reflexivity|]. split.
  - change (tSlash :: c ++ z') with ((tSlash :: c) ++ z'). change (tSlash :: c ++ z') with ((tSlash :: c) ++ z') in HP.
    destruct A3 as [E|[E Ez]]; rewrite E in *.
    + destruct R1 as [->|(-> & _ & ->)].
      * left. now rewrite ptoks_app, app_assoc.
      * exfalso. rewrite app_nil_r in HP. rewrite <- (app_nil_r (ptoks cp)) in HP. apply PathToks_ptoks_app in HP.
        exact (PathToks_not_nil HP).
    + subst z'. destruct R1 as [E1|(-> & Ev & _)]; [exfalso; symmetry in E1; exact (tail_not_nil _ E1)|].
      left. rewrite Ev, !app_nil_r. reflexivity.
  - split; [apply Forall_app; auto|]. split; [now apply A4|]. auto.
Qed.

Lemma cover_match_segs segs : forall z caps, wf_segs segs -> (PathToks z \/ z = []) ->
  MatchEdges (map seg_edge segs ++ verb_edges verb) z caps -> matched segs z caps.
Proof.
  induction segs as [|sg segs' IH]; intros z caps Hw HG HM.
  - cbn [map app] in HM. exists [], []. cbn [match_segs is_nil flat_map combine]. unfold filt. cbn [filter ptoks app].
    destruct verb as [v|] eqn:Ev; cbn [verb_edges] in HM.
    + destruct (ME_lit_inv _ _ _ _ HM) as (t0 & t1 & rest0 & -> & Ek & HM').
      destruct (ME_nil_inv _ _ HM') as [Hl ->].
      destruct HG as [HP|E0]; [|discriminate E0].
      inversion HP as [|w r Hw1 Hp Hr|w r Hw1 Hp Hr]; subst; [discriminate Ek|].
      injection Ek as Ek. subst w. rewrite (PathToks_short _ Hr Hl).
      split; [left; rewrite Ev; reflexivity|]. split; [constructor|]. split; reflexivity.
    + destruct (ME_nil_inv _ _ HM) as [Hl ->].
      destruct HG as [HP| ->].
      * rewrite (PathToks_short _ HP Hl). split; [left; rewrite Ev; reflexivity|]. split; [constructor|]. split; reflexivity.
      * split; [right; auto|]. split; [constructor|]. split; reflexivity.
  - pose proof (wf_segs_tl _ _ Hw) as Hw'. pose proof (fun z caps => IH z caps Hw') as IH'.
    cbn [map app] in HM. destruct sg as [[l| |]|fp ps]; cbn [seg_edge] in HM.
    + destruct (ME_lit_inv _ _ _ _ HM) as (t0 & t1 & rest0 & -> & Ek & HM').
      destruct HG as [HP|E0]; [|discriminate E0].
      inversion HP as [|w r Hw1 Hp Hr|w r Hw1 Hp Hr]; subst; [|discriminate Ek].
      injection Ek as Ek. subst w.
      destruct (IH' _ _ (or_introl Hr) HM') as (rest' & cs & R1 & R2 & R3 & R4).
      exists (l :: rest'), cs. split; [|split; [constructor; [split; auto|exact R2]|split]].
      * destruct R1 as [->|(_ & _ & ->)]; [now left|]. exfalso. exact (PathToks_not_nil Hr).
      * cbn [match_segs match_pat]. now rewrite sstr_eqb_refl.
      * exact R4.
    + change (EVar [pseg_tok PStar]) with (EVar (pat_toks [PStar])) in HM.
      destruct (var_conv [PStar] segs' z caps ltac:(discriminate) HG HM IH') as (cp & rest' & cs' & caps' & -> & B1 & B2 & B3 & B4 & B5).
      exists (cp ++ rest'), cs'. split; [exact B1|]. split; [exact B2|]. split.
      * cbn [match_segs]. now rewrite B3.
      * rewrite rev_app_distr. cbn [rev app flat_map seg_vf combine]. unfold filt. cbn [filter fst is_nil negb]. exact B5.
    + change (EVar [pseg_tok PStarStar]) with (EVar (pat_toks [PStarStar])) in HM.
      destruct (var_conv [PStarStar] segs' z caps ltac:(discriminate) HG HM IH') as (cp & rest' & cs' & caps' & -> & B1 & B2 & B3 & B4 & B5).
      exists (cp ++ rest'), cs'. split; [exact B1|]. split; [exact B2|]. split.
      * cbn [match_segs]. now rewrite B3.
      * rewrite rev_app_distr. cbn [rev app flat_map seg_vf combine]. unfold filt. cbn [filter fst is_nil negb]. exact B5.
    + destruct (Hw fp ps (or_introl eq_refl)) as [Hfp Hps].
      destruct (var_conv ps segs' z caps Hps HG HM IH') as (cp & rest' & cs' & caps' & -> & B1 & B2 & B3 & B4 & B5).
      exists (cp ++ rest'), ((fp, join 47 cp) :: cs'). split; [exact B1|]. split; [exact B2|]. split.
      * cbn [match_segs]. now rewrite B3, B4.
      * rewrite rev_app_distr. cbn [rev app flat_map seg_vf combine]. unfold filt. cbn [filter fst].
        destruct fp; [contradiction|]. cbn [is_nil negb]. f_equal. exact B5.
Qed.
End ConvSegs.

Lemma piece_no_slash x : piece_ok x -> ~ In 47 x.
Proof.
  intros [_ H] Hin. rewrite forallb_forall in H. specialize (H 47 Hin).
  rewrite (is_path_47 isLetter isNumber sane) in H. discriminate.
Qed.
Lemma pieces_checks rest : Forall piece_ok rest ->
  forallb (fun x => negb (is_nil x)) rest = true /\ forallb (forallb (s_path isLetter isNumber)) rest = true.
Proof.
  induction 1 as [|x r [Hx1 Hx2] H [IH1 IH2]]; [split; reflexivity|]. cbn [forallb]. rewrite IH1, IH2. split.
  - destruct x; [contradiction|reflexivity].
  - rewrite andb_true_r. rewrite forallb_forall in *. intros y Hy. rewrite s_path_eq. now apply Hx2.
Qed.

Lemma cover_inst t p caps ptoks0 : wf_t isLetter isNumber t -> t_segs t <> [] ->
  lex_path isLetter isNumber (normalise p) = Ok ptoks0 -> MatchEdges (edges_of t) ptoks0 caps ->
  exists cs, inst isLetter isNumber true t p = Some cs /\ cs = filt (combine (vfs_of t) (rev caps)).
Proof.
  intros [Hw Hv] Hsn Hl HM.
  destruct (lex_path_sound _ _ _ _ Hl) as (HP0 & Hs0 & _).
  destruct (cover_match_segs (t_verb t) (t_segs t) ptoks0 caps Hw (or_introl HP0) HM) as (rest & cs & R1 & R2 & R3 & R4).
  destruct R1 as [E|(_ & _ & E)]; [|subst ptoks0; exfalso; exact (PathToks_not_nil HP0)].
  destruct rest as [|x r]; [exfalso; apply Hsn; exact (match_segs_nil _ _ Hw R3)|].
  exists cs. split; [|exact R4]. rewrite inst_eq, <- Hs0, E, spell_app, spell_ptoks, <- join_seps. cbn [app].
  change (47 =? 47) with true. cbv iota.
  assert (Esp : (match t_verb t with Some v => strip_suffix (58 :: v) (join 47 (x :: r) ++ spell (tail_toks (t_verb t))) | None => Some (join 47 (x :: r) ++ spell (tail_toks (t_verb t))) end) = Some (join 47 (x :: r))).
  { destruct (t_verb t) as [v|]; cbn [tail_toks].
    - change (spell [tColon; Tok TPath v; tEOF]) with (58 :: v ++ [] ++ []). rewrite !app_nil_r. apply strip_suffix_app.
    - change (spell [tEOF]) with (@nil N). now rewrite app_nil_r. }
  rewrite Esp. cbv zeta.
  rewrite split_on_of_join; [|discriminate|eapply Forall_impl; [|exact R2]; intros a Ha; now apply piece_no_slash].
  destruct (pieces_checks _ R2) as [C1 C2]. rewrite C1, C2. exact R3.
Qed.

End Conv.

(* ================= both directions ================= *)
Lemma AbsSegs_nonnil ss segs : AbsSegs ss segs -> segs <> [].
Proof. intros []; discriminate. Qed.

(* the token-level covering and the string-level instance relation agree on every request path the
   lexer accepts, captures included *)
Theorem inst_iff_cover :
  forall isLetter isNumber resolves, Sane isLetter isNumber ->
  forall mid b es vfs t p ptoks,
  compiled isLetter isNumber resolves mid b es vfs ->
  parse_tmpl isLetter isNumber (b_tmpl b) = Some t ->
  lex_path isLetter isNumber (normalise p) = Ok ptoks ->
  (forall cs, inst isLetter isNumber true t p = Some cs ->
     exists caps, MatchEdges es ptoks caps /\ cs = filter (fun fc => negb (is_nil (fst fc))) (combine vfs (rev caps))) /\
  (forall caps, MatchEdges es ptoks caps ->
     exists cs, inst isLetter isNumber true t p = Some cs /\ cs = filter (fun fc => negb (is_nil (fst fc))) (combine vfs (rev caps))).
Proof.
  intros isLetter isNumber resolves sane mid b es vfs t p ptoks Hc Hp Hl. split.
  - intros cs Hi. exact (inst_implies_cover isLetter isNumber resolves sane mid b es vfs t p ptoks cs Hc Hp Hl Hi).
  - intros caps HM. destruct Hc as (toks & Hlex & Hc).
    pose proof (template_oracle_lexer_related isLetter isNumber sane _ _ _ Hp Hlex) as HA.
    destruct (compile_abs resolves toks t _ mid es vfs HA Hc) as [-> ->].
    apply (cover_inst isLetter isNumber sane t p caps ptoks (parse_tmpl_wf _ _ _ _ Hp)); auto.
    destruct HA as [ss sl HS|ss sl v HS]; cbn [t_segs]; eapply AbsSegs_nonnil; eauto.
Qed.
Print Assumptions inst_iff_cover.

Corollary cover_iff_inst :
  forall isLetter isNumber resolves, Sane isLetter isNumber ->
  forall mid b es vfs t p ptoks,
  compiled isLetter isNumber resolves mid b es vfs ->
  parse_tmpl isLetter isNumber (b_tmpl b) = Some t ->
  lex_path isLetter isNumber (normalise p) = Ok ptoks ->
  ((exists caps, MatchEdges es ptoks caps) <-> (exists cs, inst isLetter isNumber true t p = Some cs)).
Proof.
  intros isLetter isNumber resolves sane mid b es vfs t p ptoks Hc Hp Hl.
  destruct (inst_iff_cover isLetter isNumber resolves sane mid b es vfs t p ptoks Hc Hp Hl) as [A B]. split.
  - intros [caps HM]. destruct (B caps HM) as (cs & Hi & _). eauto.
  - intros [cs Hi]. destruct (A cs Hi) as (caps & HM & _). eauto.
Qed.
Print Assumptions cover_iff_inst.

(* ================= remarks, on concrete data ================= *)
Lemma MatchEdges_caps es toks caps : MatchEdges es toks caps -> length caps = nvars es.
Proof.
  induction 1 as [toks Hl|t0 t1 rest es caps HM IH|pat t0 c z es caps Ht Hne HMP HM IH]; cbn [nvars length]; auto.
  rewrite app_length. cbn [length]. lia.
Qed.

Definition asciiL (r : N) : bool := ((65 <=? r) && (r <=? 90)) || ((97 <=? r) && (r <=? 122)).
Definition asciiN (r : N) : bool := (48 <=? r) && (r <=? 57).

(* (1) the captures are related through the field paths, not as [map snd cs = rev caps]: a bare "*" or
   "**" segment is a variable edge with a capture for larking (field path []), while [inst] reports
   values for named variables only. Template "/*", path "/b". *)
Example bare_wildcard_capture :
  let t := {| t_segs := [TPlain PStar]; t_verb := None |} in
  parse_tmpl asciiL asciiN [47; 42] = Some t /\
  inst asciiL asciiN true t [47; 98] = Some [] /\
  lex_path asciiL asciiN (normalise [47; 98]) = Ok [tSlash; Tok TPath [98]; tEOF] /\
  MatchEdges (edges_of t) [tSlash; Tok TPath [98]; tEOF] [[98]].
Proof.
  cbv zeta. split; [vm_compute; reflexivity|]. split; [vm_compute; reflexivity|]. split; [vm_compute; reflexivity|].
  apply (ME_var [tStar] tSlash [Tok TPath [98]; tEOF] [] [] []); [reflexivity|discriminate| |apply ME_end; cbn; lia].
  apply MP_star1; [reflexivity|repeat constructor|exact I|discriminate].
Qed.

(* (2) [inst] has no counterpart of the lexer's cap of 64 tokens on the request path: a path of 32 pieces
   is an instance of "/**" for the oracle, and is refused by lex_path (so by larking: NotFound).
   The equivalence above is stated, like C01/C02, for the paths lex_path accepts. *)
Example inst_has_no_token_cap :
  let t := {| t_segs := [TPlain PStarStar]; t_verb := None |} in
  let p := concat (repeat [47; 97] 32) in
  parse_tmpl asciiL asciiN [47; 42; 42] = Some t /\
  (exists cs, inst asciiL asciiN true t p = Some cs) /\
  lex_path asciiL asciiN (normalise p) = Err EInvalid.
Proof. cbv zeta. split; [vm_compute; reflexivity|]. split; [eexists; vm_compute; reflexivity|vm_compute; reflexivity]. Qed.

(* ================= the same for any derivation related to the template value ================= *)
Section AbsForm.
Variables isLetter isNumber : N -> bool.
Notation PSeg := (PSeg isLetter isNumber).
Notation Seg := (Seg isLetter isNumber).
Notation Segs := (Segs isLetter isNumber).
Notation FieldPath := (FieldPath isLetter isNumber).
Notation Tmpl := (Tmpl isLetter isNumber).

Definition noverb_tok (t : token) : Prop := is TVerb t = false.

Lemma SegsG_noverb (SG : list token -> bool -> Prop) :
  (forall ts b, SG ts b -> Forall noverb_tok ts) -> forall ts b, SegsG SG ts b -> Forall noverb_tok ts.
Proof.
  intros H ts b HS. induction HS as [ts b G|ts rest b G HS IH]; [now apply (H ts b)|].
  apply Forall_app. split; [now apply (H ts false)|]. constructor; [reflexivity|exact IH].
Qed.
Lemma PSeg_noverb ts b : PSeg ts b -> Forall noverb_tok ts.
Proof. intros [v Hv| |]; repeat constructor. Qed.
Lemma FieldPath_noverb fp : FieldPath fp -> Forall noverb_tok fp.
Proof. induction 1; repeat constructor; auto. Qed.
Lemma Seg_noverb ts b : Seg ts b -> Forall noverb_tok ts.
Proof.
  intros [ts' b' G|fp Hfp|fp ps b' Hfp Hps].
  - now apply (PSeg_noverb ts' b').
  - constructor; [reflexivity|]. apply Forall_app. split; [now apply FieldPath_noverb|repeat constructor].
  - constructor; [reflexivity|]. apply Forall_app. split; [now apply FieldPath_noverb|].
    constructor; [reflexivity|]. apply Forall_app. split; [|repeat constructor].
    apply (SegsG_noverb _ PSeg_noverb ps b' Hps).
Qed.

Lemma Tmpl_AbsT_wf toks t : Tmpl toks -> AbsT toks t -> wf_t isLetter isNumber t /\ t_segs t <> [].
Proof.
  intros HT HA. split; [split|].
  - destruct HA as [ss sl HS|ss sl v HS]; cbn [t_segs]; eapply AbsSegs_wf; eauto.
  - destruct HA as [ss sl HS|ss sl v HS]; cbn [t_verb]; [exact I|].
    remember (tSlash :: ss ++ [tColon; Tok TLiteral v; tEOF]) as toks eqn:Et.
    destruct HT as [ss' b HS'|ss' b v' HS' Hv']; injection Et as Et.
    + exfalso. change [tColon; Tok TLiteral v; tEOF] with ([tColon; Tok TLiteral v] ++ [tEOF]) in Et.
      rewrite app_assoc in Et. apply app_inj_tail in Et. destruct Et as [Et _].
      pose proof (SegsG_noverb _ Seg_noverb ss' b HS') as Hn. rewrite Et in Hn.
      apply Forall_app in Hn. destruct Hn as [_ Hn]. apply Forall_inv in Hn. discriminate Hn.
    + change [tColon; Tok TLiteral v'; tEOF] with ([tColon] ++ [Tok TLiteral v'] ++ [tEOF]) in Et.
      change [tColon; Tok TLiteral v; tEOF] with ([tColon] ++ [Tok TLiteral v] ++ [tEOF]) in Et.
      rewrite !app_assoc in Et. apply app_inj_tail in Et. destruct Et as [Et _].
      apply app_inj_tail in Et. destruct Et as [_ Et]. injection Et as Et. subst v'. exact Hv'.
  - destruct HA as [ss sl HS|ss sl v HS]; cbn [t_segs]; eapply AbsSegs_nonnil; eauto.
Qed.
End AbsForm.

Theorem inst_iff_cover_abs :
  forall isLetter isNumber resolves, Sane isLetter isNumber ->
  forall toks t fuel mid es vfs p ptoks,
  Tmpl isLetter isNumber toks -> AbsT toks t ->
  compile resolves fuel mid toks = Ok (es, vfs) ->
  lex_path isLetter isNumber (normalise p) = Ok ptoks ->
  (forall cs, inst isLetter isNumber true t p = Some cs ->
     exists caps, MatchEdges es ptoks caps /\ cs = filter (fun fc => negb (is_nil (fst fc))) (combine vfs (rev caps))) /\
  (forall caps, MatchEdges es ptoks caps ->
     exists cs, inst isLetter isNumber true t p = Some cs /\ cs = filter (fun fc => negb (is_nil (fst fc))) (combine vfs (rev caps))).
Proof.
  intros isLetter isNumber resolves sane toks t fuel mid es vfs p ptoks HT HA Hc Hl.
  destruct (Tmpl_AbsT_wf isLetter isNumber toks t HT HA) as [Hw Hn].
  destruct (compile_abs resolves toks t _ mid es vfs HA Hc) as [-> ->]. split.
  - intros cs Hi. exact (inst_cover isLetter isNumber sane t p cs ptoks Hw Hl Hi).
  - intros caps HM. exact (cover_inst isLetter isNumber sane t p caps ptoks Hw Hn Hl HM).
Qed.
Print Assumptions inst_iff_cover_abs.

(* ================= which paths does lex_path accept ================= *)
Section LexPath.
Variables isLetter isNumber : N -> bool.
Hypothesis sane : Sane isLetter isNumber.
Notation is_path := (is_path isLetter isNumber).
Notation PathToks := (PathToks isLetter isNumber).

Lemma lex_path_loop_complete toks : PathToks toks -> forall fuel ts,
  (length toks <= fuel)%nat -> (length ts + length toks <= 64)%nat ->
  lex_path_loop isLetter isNumber fuel (Lst (spell toks) ts false) = Ok (Lst [] (rev toks ++ ts) false).
Proof.
  induction 1 as [|v r Hv Hp Hr IH|v r Hv Hp Hr IH]; intros fuel ts Hf Hl; (destruct fuel as [|f]; [cbn in Hf; lia|]).
  - cbn [length] in Hl. cbn [lex_path_loop inp]. change (spell [tEOF]) with (@nil N). cbv iota.
    rewrite emit_do by lia. reflexivity.
  - cbn [length] in Hf, Hl. change (spell (tSlash :: Tok TPath v :: r)) with (47 :: v ++ spell r).
    cbn [lex_path_loop inp]. change (47 =? 47) with true. cbv iota. rewrite emit_do by lia. cbn [bind].
    rewrite lex_run_complete; [|exact Hv|exact Hp|apply (PathToks_stops isLetter isNumber sane); exact Hr|cbn [length]; lia].
    cbn [bind]. rewrite IH by (cbn [length]; lia). cbn [rev]. rewrite <- !app_assoc. reflexivity.
  - cbn [length] in Hf, Hl. change (spell (tColon :: Tok TPath v :: r)) with (58 :: v ++ spell r).
    cbn [lex_path_loop inp]. change (58 =? 47) with false. change (58 =? 58) with true. cbv iota.
    rewrite emit_do by lia. cbn [bind].
    rewrite lex_run_complete; [|exact Hv|exact Hp|apply (PathToks_stops isLetter isNumber sane); exact Hr|cbn [length]; lia].
    cbn [bind]. rewrite IH by (cbn [length]; lia). cbn [rev]. rewrite <- !app_assoc. reflexivity.
Qed.

Lemma PathToks_length toks : PathToks toks -> (length toks <= S (length (spell toks)))%nat.
Proof.
  induction 1 as [|v r Hv Hp Hr IH|v r Hv Hp Hr IH]; [cbn; lia| |].
  - change (spell (tSlash :: Tok TPath v :: r)) with (47 :: v ++ spell r). cbn [length]. rewrite app_length.
    destruct v; [contradiction|]. cbn [length]. lia.
  - change (spell (tColon :: Tok TPath v :: r)) with (58 :: v ++ spell r). cbn [length]. rewrite app_length.
    destruct v; [contradiction|]. cbn [length]. lia.
Qed.

(* lex_path accepts exactly the separator/text sequences of at most 64 tokens *)
Theorem lex_path_complete toks : PathToks toks -> (length toks <= 64)%nat ->
  lex_path isLetter isNumber (spell toks) = Ok toks.
Proof.
  intros HP Hl. unfold lex_path.
  rewrite (lex_path_loop_complete toks HP); [|pose proof (PathToks_length toks HP); lia|cbn [length]; lia].
  cbn [bind Lexer.toks]. now rewrite app_nil_r, rev_involutive.
Qed.
End LexPath.
Print Assumptions lex_path_complete.

(* the number of tokens of a path is determined by its separators *)
Definition is_sep (r : N) : bool := (r =? 47) || (r =? 58).
Definition path_tokens (p : str) : nat := (2 * length (filter is_sep p) + 1)%nat.

Lemma PathToks_count isLetter isNumber : Sane isLetter isNumber ->
  forall toks, PathToks isLetter isNumber toks -> length toks = path_tokens (spell toks).
Proof.
  intros sane toks H. unfold path_tokens.
  assert (Hv : forall v, forallb (is_path isLetter isNumber) v = true -> filter is_sep v = []).
  { induction v as [|x v IHv]; [reflexivity|]. cbn [forallb filter]. intros Hx. apply andb_true_iff in Hx. destruct Hx as [Hx Hv].
    assert (Es : is_sep x = false).
    { unfold is_sep. destruct (N.eqb_spec x 47) as [->|]; [rewrite (is_path_47 isLetter isNumber sane) in Hx; discriminate|].
      destruct (N.eqb_spec x 58) as [->|]; [rewrite (is_path_58 isLetter isNumber sane) in Hx; discriminate|reflexivity]. }
    rewrite Es. now apply IHv. }
  induction H as [|v r Hv1 Hp Hr IH|v r Hv1 Hp Hr IH]; [reflexivity| |].
  - change (spell (tSlash :: Tok TPath v :: r)) with (47 :: v ++ spell r).
    cbn [filter]. change (is_sep 47) with true. cbv iota. rewrite filter_app, (Hv v Hp). cbn [app length]. lia.
  - change (spell (tColon :: Tok TPath v :: r)) with (58 :: v ++ spell r).
    cbn [filter]. change (is_sep 58) with true. cbv iota. rewrite filter_app, (Hv v Hp). cbn [app length]. lia.
Qed.

(* an instance (strict) of at most 64 tokens -- 31 pieces, 30 with a verb -- is a path lex_path accepts; beyond
   that the oracle still says "instance" while larking answers NotFound (inst_has_no_token_cap) *)
Theorem inst_lexes :
  forall isLetter isNumber, Sane isLetter isNumber ->
  forall t p cs, wf_t isLetter isNumber t -> inst isLetter isNumber true t p = Some cs ->
  (path_tokens (normalise p) <= 64)%nat ->
  exists ptoks, lex_path isLetter isNumber (normalise p) = Ok ptoks.
Proof.
  intros isLetter isNumber sane t p cs Hw Hi Hn.
  destruct (inst_pieces isLetter isNumber t p cs Hw Hi) as (pieces & HP & Hs & _).
  exists (ptoks pieces ++ tail_toks (t_verb t)). rewrite <- Hs.
  apply (lex_path_complete isLetter isNumber sane); [exact HP|].
  rewrite (PathToks_count isLetter isNumber sane _ HP), Hs. exact Hn.
Qed.
Print Assumptions inst_lexes.

(* with C02: a registered rule that the oracle says matches a request of at most 64 path tokens is served *)
Corollary oracle_match_is_served_bounded :
  forall isLetter isNumber resolves okconv, Sane isLetter isNumber -> (forall fp t, okconv fp t = true) ->
  forall L root verb p mid b es vfs t cs,
  Inv isLetter isNumber resolves L root -> In (mid, b) L -> covers_verb (b_verb b) verb ->
  compiled isLetter isNumber resolves mid b es vfs ->
  parse_tmpl isLetter isNumber (b_tmpl b) = Some t ->
  inst isLetter isNumber true t p = Some cs ->
  (path_tokens (normalise p) <= 64)%nat ->
  exists r, route okconv isLetter isNumber root verb p = Ok r.
Proof.
  intros isLetter isNumber resolves okconv sane conv L root verb p mid b es vfs t cs HI Hin Hcov Hc Hp Hi Hn.
  destruct (inst_lexes isLetter isNumber sane t p cs (parse_tmpl_wf _ _ _ _ Hp) Hi Hn) as [ptoks El].
  apply (oracle_match_is_served isLetter isNumber resolves okconv sane conv L root verb p mid b es vfs t cs); auto.
  now rewrite El.
Qed.
Print Assumptions oracle_match_is_served_bounded.
