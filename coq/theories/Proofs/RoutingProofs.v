(* The routing theorems proper: what route returns on any trie that registration can build
   (soundness, completeness), and when a binding is accepted. Composition of LexerProofs,
   MatchProofs and TrieProofs. *)
From Larking Require Import Base.GoSem Model.Lexer Model.Trie Model.Match Spec.Grammar Spec.Route
  Proofs.LexerProofs Proofs.MatchProofs Proofs.TrieProofs.
Local Open Scope N_scope.

Section Routing.
Variables isLetter isNumber : N -> bool.
Variable resolves body_ok resp_ok : str -> list str -> bool.
Variable okconv : list str -> str -> bool.
Hypothesis sane : Sane isLetter isNumber.

Notation PatG := (PatG isLetter isNumber).
Notation edge_gram := (edge_gram isLetter isNumber).
Notation Inv := (Inv isLetter isNumber resolves).
Notation compiled := (compiled isLetter isNumber resolves).
Notation route := (route okconv isLetter isNumber).
Notation add_binding := (add_binding resolves body_ok resp_ok isLetter isNumber).
Notation leaf := (leaf resolves body_ok resp_ok).

(* two edge sequences with grammatical patterns and the same keys are the same edges *)
Lemma keys_inj es1 : forall es2, Forall edge_gram es1 -> Forall edge_gram es2 -> keys es1 = keys es2 -> es1 = es2.
Proof.
  induction es1 as [|e1 es1 IH]; intros [|e2 es2] H1 H2 E; try discriminate; auto.
  inversion H1; subst. inversion H2; subst. cbn in E. inversion E as [[Ek Er]].
  rewrite (IH es2) by assumption. f_equal.
  destruct e1 as [k1|p1], e2 as [k2|p2]; cbn in Ek; try discriminate; inversion Ek; subst; auto.
  match goal with G1 : edge_gram (EVar p1), G2 : edge_gram (EVar p2) |- _ => destruct G1 as [b1 G1]; destruct G2 as [b2 G2] end.
  f_equal. eapply (PSegs_spell_inj isLetter isNumber sane); eauto.
Qed.

Lemma find_var_in name l c : find_var name l = Some c -> exists pat, In (pat, c) l /\ spell pat = name.
Proof.
  induction l as [|[p n] l IH]; cbn; [discriminate|].
  destruct (str_eqb (spell p) name) eqn:E.
  - intros H. inversion H; subst. exists p. split; [now left|now apply str_eqb_eq].
  - intros H. destruct (IH H) as (pat & Hin & Hs). exists pat. split; [now right|exact Hs].
Qed.

(* on a well-formed trie, walking grammatical edges by name is reaching them *)
Lemma walk_Reach es : forall nd k nd', WFn PatG k nd -> Forall edge_gram es -> walk_to es nd = Some nd' -> Reach nd es nd'.
Proof.
  induction es as [|[key|pat] es IH]; intros nd k nd' Hw Hg H; cbn in H.
  - inversion H; subst. constructor.
  - inversion Hg; subst. inversion Hw as [k0 segs vars meths mall W1 W2 W3 W4 W5]; subst. cbn [n_segs] in H.
    destruct (assoc key segs) as [c|] eqn:Ea; [|discriminate].
    eapply R_lit; [exact Ea|]. eapply IH; eauto. apply (W1 key c). now apply assoc_in.
  - inversion Hg as [|e l Hp Hg']; subst. inversion Hw as [k0 segs vars meths mall W1 W2 W3 W4 W5]; subst. cbn [n_vars] in H.
    destruct (find_var (spell pat) vars) as [c|] eqn:Ea; [|discriminate].
    destruct (find_var_in _ _ _ Ea) as (pat' & Hin & Hs). destruct (W2 pat' c Hin) as [[b' G'] Wc].
    destruct Hp as [b G].
    assert (pat' = pat) by (eapply (PSegs_spell_inj isLetter isNumber sane); eauto). subst pat'.
    eapply R_var; [exact Hin|]. eapply IH; eauto.
Qed.

Lemma bound_stored verb nd m : bound_at verb nd = Some m -> stored (info nd) verb m \/ stored (info nd) star_verb m.
Proof.
  unfold bound_at, stored, info. cbn [fst snd]. destruct (assoc verb (n_meths nd)) as [m0|] eqn:Ea.
  - intros H. inversion H; subst. left. now right.
  - intros H. right. left. auto.
Qed.

Definition covers_verb (rule_verb req_verb : str) : Prop := rule_verb = req_verb \/ rule_verb = star_verb.

(* ---- C01: a request only reaches a method whose rule covers it ---- *)
Theorem dispatch_sound L root verb p m caps :
  Inv L root -> route root verb p = Ok (m, caps) ->
  exists mid b es toks,
    In (mid, b) L /\ m_id m = mid /\ covers_verb (b_verb b) verb /\ m_body m = b_body b /\
    compiled mid b es (m_vars m) /\
    lex_path isLetter isNumber (normalise p) = Ok toks /\ MatchEdges es toks caps.
Proof.
  intros HI H. unfold Match.route in H.
  destruct (lex_path isLetter isNumber (normalise p)) as [toks| | |] eqn:El; try discriminate.
  destruct (search_sound okconv _ _ _ _ _ H) as (es & nd' & HR & HB & HM). cbn [fst snd] in HB, HM.
  destruct (Reach_walk PatG _ _ _ HR 0%nat (inv_wf _ _ _ _ _ HI)) as (Hw & _ & Hes).
  assert (Hi : info_at root es = Some (info nd')) by (unfold info_at; now rewrite Hw).
  assert (Hex : exists key, stored (info nd') key m /\ (key = verb \/ key = star_verb)).
  { destruct (bound_stored _ _ _ HB) as [Hs|Hs]; [exists verb|exists star_verb]; auto. }
  destruct Hex as (key & Hs & Hkey).
  destruct (inv_prov _ _ _ _ _ HI es _ key m Hi Hs) as (mid & b & es' & A & B & C & D & E & F).
  assert (Hes' : Forall edge_gram es').
  { destruct E as (toks' & E1 & E2).
    pose proof (compile_tmpl isLetter isNumber resolves toks' mid (proj1 (lex_template_sound _ _ _ _ E1))) as Hg.
    rewrite E2 in Hg. now destruct Hg. }
  assert (es = es') by (apply keys_inj; auto). subst es'.
  exists mid, b, es, toks. split; [exact A|]. split; [exact B|]. split; [|split; [exact D|split; [exact E|split; [reflexivity|exact HM]]]].
  unfold covers_verb. subst key. destruct Hkey as [ -> | -> ]; auto.
Qed.

Lemma PatG_ok' pat : PatG pat -> forallb pat_tok_ok pat = true.
Proof. apply PatG_ok. Qed.

(* the search never panics and never runs out of fuel on a trie registration built *)
Theorem route_total L root verb p : Inv L root -> benign (route root verb p).
Proof.
  intros HI. unfold Match.route.
  pose proof (lex_path_benign isLetter isNumber (normalise p)) as Hl.
  destruct (lex_path isLetter isNumber (normalise p)) as [toks| | |]; cbn in Hl; try contradiction; [|exact I].
  eapply search_total; [|lia]. apply (WFn_TrieInv PatG PatG_ok'). apply (inv_wf _ _ _ _ _ HI).
Qed.



(* ---- C02: a registered rule that covers the request is served ---- *)
Hypothesis conv_all : forall fp t, okconv fp t = true.


Theorem dispatch_complete L root verb p mid b es vfs toks caps :
  Inv L root -> In (mid, b) L -> covers_verb (b_verb b) verb ->
  compiled mid b es vfs -> lex_path isLetter isNumber (normalise p) = Ok toks -> MatchEdges es toks caps ->
  exists r, route root verb p = Ok r.
Proof.
  intros HI Hin Hcov Hc El HM.
  destruct (inv_present _ _ _ _ _ HI mid b Hin) as (es1 & vfs1 & i & m & Hc1 & Hi & Hs & Hm).
  assert (E : es1 = es /\ vfs1 = vfs).
  { destruct Hc as (t1 & A1 & A2), Hc1 as (t2 & B1 & B2). rewrite A1 in B1. inversion B1; subst t2. rewrite A2 in B2. inversion B2; auto. }
  destruct E as [-> ->].
  assert (Hes : Forall edge_gram es).
  { destruct Hc as (t1 & A1 & A2).
    pose proof (compile_tmpl isLetter isNumber resolves t1 mid (proj1 (lex_template_sound _ _ _ _ A1))) as Hg.
    rewrite A2 in Hg. now destruct Hg. }
  unfold info_at in Hi. destruct (walk_to es root) as [nd'|] eqn:Hw; [|discriminate]. inversion Hi; subst i.
  pose proof (walk_Reach es root 0%nat nd' (inv_wf _ _ _ _ _ HI) Hes Hw) as HR.
  assert (HB : exists m', bound_at verb nd' = Some m').
  { unfold bound_at. unfold stored, info in Hs. cbn [fst snd] in Hs.
    destruct (assoc verb (n_meths nd')) as [m0|] eqn:Ea; [eauto|].
    destruct Hs as [[Hk Hs]|Hs]; [eauto|]. destruct Hcov as [Hv|Hv].
    - rewrite Hv in Hs. congruence.
    - rewrite Hv in Hs. pose proof (inv_nostar _ _ _ _ _ HI es (info nd')) as Hn.
      unfold info_at in Hn. rewrite Hw in Hn. specialize (Hn eq_refl). cbn in Hn. congruence. }
  destruct HB as [m' HB].
  unfold Match.route. rewrite El.
  eapply (search_complete okconv conv_all verb es toks caps HM (S (length toks)) root 0%nat nd' m'); auto.
  apply (WFn_TrieInv PatG PatG_ok'). apply (inv_wf _ _ _ _ _ HI).
Qed.

(* ---- C16: when a binding is accepted ---- *)
Lemma upd_result es : forall f nd,
  match f (leaf_of nd es) with
  | Ok _ => exists nd', upd es f nd = Ok nd'
  | Err e => upd es f nd = Err e
  | Panic c => upd es f nd = Panic c
  | OutOfFuel => upd es f nd = OutOfFuel
  end.
Proof.
  induction es as [|[k|pat] es IH]; intros f nd.
  - unfold leaf_of. cbn. destruct (f nd); eauto.
  - rewrite leaf_of_lit. cbn [upd]. specialize (IH f (match assoc k (n_segs nd) with Some c => c | None => empty_node end)).
    destruct (f (leaf_of _ es)); [destruct IH as [c' ->]; cbn; eauto| | |]; rewrite IH; reflexivity.
  - rewrite leaf_of_var. cbn [upd]. specialize (IH f (match find_var (spell pat) (n_vars nd) with Some c => c | None => empty_node end)).
    destruct (f (leaf_of _ es)); [destruct IH as [c' ->]; cbn; eauto| | |]; rewrite IH; reflexivity.
Qed.

(* the template of a binding is well-formed: a derivation of the grammar that spells it, within the token cap *)
Definition tmpl_wf (t : str) : Prop :=
  exists toks, Tmpl isLetter isNumber toks /\ spell toks = t /\ (length toks <= 64)%nat.

(* a malformed template is refused *)
Theorem reject_malformed mid root b : ~ tmpl_wf (b_tmpl b) -> exists e, add_binding mid root b = Err e.
Proof.
  intros Hn. unfold Trie.add_binding.
  pose proof (lex_template_benign isLetter isNumber (b_tmpl b)) as Hb.
  destruct (lex_template isLetter isNumber (b_tmpl b)) as [toks|e| |] eqn:El; cbn in Hb; try contradiction.
  - exfalso. apply Hn. exists toks. now apply lex_template_sound.
  - cbn. eauto.
Qed.

(* a well-formed template is lexed into exactly its derivation *)
Theorem accept_lex b toks : Tmpl isLetter isNumber toks -> spell toks = b_tmpl b -> (length toks <= 64)%nat ->
  lex_template isLetter isNumber (b_tmpl b) = Ok toks.
Proof. intros HT Hs Hl. rewrite <- Hs. now apply lex_template_complete. Qed.

(* a binding that would sit where another method already has a binding under an overlapping verb is refused *)
Theorem reject_conflict L root mid b es vfs i key m :
  Inv L root -> compiled mid b es vfs ->
  info_at root es = Some i -> stored i key m -> m_id m <> mid -> overlap key (b_verb b) ->
  exists e, add_binding mid root b = Err e.
Proof.
  intros HI (toks & El & Ec) Hi Hs Hne Hov. unfold Trie.add_binding. rewrite El. cbn [bind]. rewrite Ec. cbn [bind fst snd].
  pose proof (upd_result es (leaf mid b vfs) root) as Hu.
  assert (Hn : assoc star_verb (n_meths (leaf_of root es)) = None).
  { pose proof (inv_nostar _ _ _ _ _ HI es i Hi) as X. now rewrite (info_leaf_of _ _ _ Hi) in X. }
  rewrite (info_leaf_of _ _ _ Hi) in Hs.
  destruct (leaf_rejects_conflict resolves body_ok resp_ok mid b vfs _ key m Hn Hs Hne Hov) as [e He].
  rewrite He in Hu. eauto.
Qed.

(* the node a template leads to holds no binding of another method under an overlapping verb *)
Definition no_foreign (mid verb : str) (nd : node) : Prop :=
  (forall y, n_mall nd = Some y -> m_id y = mid) /\
  (verb = star_verb -> forall k m, In (k, m) (n_meths nd) -> m_id m = mid) /\
  (forall y, assoc verb (n_meths nd) = Some y -> m_id y = mid).

(* a binding whose template is well-formed and resolves, whose selectors are usable and which meets
   no other method's binding is accepted; afterwards it is served (Inv_step, dispatch_complete) *)
Theorem accept_binding root mid b es vfs :
  compiled mid b es vfs -> no_foreign mid (b_verb b) (leaf_of root es) ->
  (match b_body b with BField p => resolves mid p && body_ok mid p | _ => true end = true) ->
  (match b_resp b with [] => true | p => resp_ok mid p end = true) ->
  exists root', add_binding mid root b = Ok root'.
Proof.
  intros (toks & El & Ec) (F1 & F2 & F3) Hbody Hresp. unfold Trie.add_binding. rewrite El. cbn [bind]. rewrite Ec. cbn [bind fst snd].
  pose proof (upd_result es (leaf mid b vfs) root) as Hu.
  assert (Hl : exists leaf', leaf mid b vfs (leaf_of root es) = Ok leaf').
  { set (nd := leaf_of root es) in *. unfold Trie.leaf. rewrite Hbody, Hresp. cbn [andb bind].
    assert (Hc : forall y, m_id y = mid -> conflict mid y = false).
    { intros y Hy. unfold conflict. rewrite Hy. now rewrite str_eqb_refl. }
    assert (Hm : match n_mall nd with Some y => conflict mid y | None => false end = false).
    { destruct (n_mall nd) as [y|]; auto. }
    rewrite Hm.
    destruct (str_eqb (b_verb b) star_verb) eqn:Ev.
    - apply str_eqb_eq in Ev.
      replace (existsb (fun kv => conflict mid (snd kv)) (n_meths nd)) with false.
      + destruct (n_mall nd); eauto.
      + symmetry. apply not_true_is_false. intros Hex. apply existsb_exists in Hex. destruct Hex as ([k m] & Hin & Hcm).
        cbn in Hcm. rewrite (Hc m (F2 Ev k m Hin)) in Hcm. discriminate.
    - destruct (assoc (b_verb b) (n_meths nd)) as [y0|] eqn:Ea.
      + rewrite (Hc y0 (F3 y0 eq_refl)). eauto.
      + eauto. }
  destruct Hl as [leaf' Hl]. rewrite Hl in Hu. exact Hu.
Qed.


(* a template whose field paths do not resolve in the request type is refused *)
Theorem reject_unresolved mid root b toks e :
  lex_template isLetter isNumber (b_tmpl b) = Ok toks -> compile resolves (S (length toks)) mid toks = Err e ->
  add_binding mid root b = Err e.
Proof. intros El Ec. unfold Trie.add_binding. rewrite El. cbn [bind]. now rewrite Ec. Qed.

(* an unusable body or response_body selector is refused -- also when the pattern is already bound by
   the method (since the repair of R11 the selectors are checked before the duplicate test) *)
Theorem reject_bad_selector root mid b es vfs :
  compiled mid b es vfs ->
  (match b_body b with BField p => resolves mid p && body_ok mid p | _ => true end) &&
  (match b_resp b with [] => true | p => resp_ok mid p end) = false ->
  exists e, add_binding mid root b = Err e.
Proof.
  intros (toks & El & Ec) Hbad. unfold Trie.add_binding. rewrite El. cbn [bind]. rewrite Ec. cbn [bind fst snd].
  pose proof (upd_result es (leaf mid b vfs) root) as Hu.
  assert (Hl : exists e, leaf mid b vfs (leaf_of root es) = Err e).
  { set (nd := leaf_of root es) in *. unfold Trie.leaf.
    match goal with |- context [if ?c then Ok ?x else Err EInvalid] => replace c with false by (symmetry; exact Hbad) end. cbn. eauto. }
  destruct Hl as [e Hl]. rewrite Hl in Hu. eauto.
Qed.

(* an additional binding that has additional bindings of its own is refused *)
Lemma add_additional_nested mid : forall adds root a,
  In a adds -> b_nested a = true -> exists e, Trie.add_additional resolves body_ok resp_ok isLetter isNumber mid root adds = Err e.
Proof.
  induction adds as [|x adds IH]; intros root a Hin Hn; [contradiction|]. cbn.
  destruct (b_nested x) eqn:Ex; [eauto|].
  destruct Hin as [->|Hin]; [congruence|].
  pose proof (add_binding_benign isLetter isNumber resolves body_ok resp_ok mid root x) as B.
  destruct (add_binding mid root x) as [r1|e| |]; cbn in B; try contradiction; cbn [bind]; eauto.
Qed.
Theorem reject_nested mid root r a :
  In a (h_adds r) -> b_nested a = true ->
  exists e, Trie.add_rule resolves body_ok resp_ok isLetter isNumber mid root r = Err e.
Proof.
  intros Hin Hn. unfold Trie.add_rule.
  pose proof (add_binding_benign isLetter isNumber resolves body_ok resp_ok mid root (h_main r)) as B.
  destruct (add_binding mid root (h_main r)) as [r1|e| |]; cbn in B; try contradiction; cbn [bind]; eauto.
  eapply add_additional_nested; eauto.
Qed.

(* ---- every trie that a history of registerService calls publishes ---- *)
Fixpoint run_services (root : node) (svcs : list (list mdecl)) : node :=
  match svcs with
  | [] => root
  | ds :: rest => run_services (fst (Trie.register_service resolves body_ok resp_ok isLetter isNumber root ds)) rest
  end.

Theorem published_Inv : forall svcs L root, Inv L root ->
  exists L', Inv (L' ++ L) (run_services root svcs) /\
    forall x, In x L' -> exists ds, In ds svcs /\ decls_regs ds x.
Proof.
  induction svcs as [|ds svcs IH]; intros L root HI; cbn.
  - exists []. split; auto. intros x [].
  - unfold Trie.register_service.
    destruct (Trie.register_methods resolves body_ok resp_ok isLetter isNumber root ds) as [r1| | |] eqn:E; cbn [fst].
    + destruct (register_methods_Inv isLetter isNumber resolves body_ok resp_ok ds L root r1 HI E) as (A & HI1 & HA).
      destruct (IH _ _ HI1) as (B & HI2 & HB). exists (B ++ A). split; [now rewrite <- app_assoc|].
      intros x Hx. apply in_app_or in Hx. destruct Hx as [Hx|Hx].
      * destruct (HB x Hx) as (ds' & Hd & Hr). exists ds'. split; [now right|auto].
      * exists ds. split; [now left|auto].
    + destruct (IH _ _ HI) as (B & HI2 & HB). exists B. split; auto. intros x Hx. destruct (HB x Hx) as (ds' & Hd & Hr). exists ds'. split; [now right|auto].
    + destruct (IH _ _ HI) as (B & HI2 & HB). exists B. split; auto. intros x Hx. destruct (HB x Hx) as (ds' & Hd & Hr). exists ds'. split; [now right|auto].
    + destruct (IH _ _ HI) as (B & HI2 & HB). exists B. split; auto. intros x Hx. destruct (HB x Hx) as (ds' & Hd & Hr). exists ds'. split; [now right|auto].
Qed.

End Routing.
