(* C03, continued: repeated query keys (Append order) and oneof siblings.

   The model already renders both: params.set appends for a repeated last field
   (Schema.append_field) and Set / Mutable clear the other members of a oneof
   (Schema.clear_sibs inside set_field and mutable_msg).  Nothing in Model/ is changed here.

   Contents
   1. extensional equality of flattened messages (meq), the total version of params.set on
      walkable paths (walk_t / apply_t);
   2. what one iteration does outside its own field (walk_t_outside) and that, inside, it only
      reads its own field (walk_t_local);
   3. two iterations for paths that do not touch each other commute (walk_commute);
   4. admissible orders: a tagged list, one tag per client-side leaf; two lists are admissible
      re-orderings of each other when they have the same occurrences, in the same order, for every
      tag (same_per_key); such lists build the same message (apply_same_per_key);
   5. the round trip with groups: a leaf is a field path with the list of its values
      (rebuild_rep, roundtrip_rep), oneof siblings (last step and steps on the way);
   6. examples, property-level statements. *)
From Larking Require Import Base.GoSem Model.Schema Model.Params Model.Transcode
  Proofs.ParamsProofs Proofs.RoundtripProofs.
Local Open Scope N_scope.

(* ---------- 1. extensional equality, total params.set ---------- *)
Definition meq (M N : msg) : Prop := forall q, lookup q M = lookup q N.

Lemma meq_refl M : meq M M.
Proof. intros q. reflexivity. Qed.
Lemma meq_sym M N : meq M N -> meq N M.
Proof. intros H q. symmetry. apply H. Qed.
Lemma meq_trans M N P : meq M N -> meq N P -> meq M P.
Proof. intros H1 H2 q. rewrite H1. apply H2. Qed.

(* params.set for one parameter, without the error cases (they do not occur on walkable paths) *)
Fixpoint walk_t (fds : list step) (pp : path) (v : pval) (M : msg) : msg :=
  match fds with
  | [] => M
  | st :: rest =>
    match rest with
    | [] => match f_card (snd st) with
            | Repeated => append_field st pp v M
            | _ => set_field st pp v M
            end
    | _ => walk_t rest (pp ++ [step_num st]) v (mutable_msg st pp M)
    end
  end.
Definition set_t (p : param) (M : msg) : msg := walk_t (fst p) [] (snd p) M.
Definition apply_t (ps : list param) (M : msg) : msg := fold_left (fun acc p => set_t p acc) ps M.

Lemma set_walk_t : forall fds pp v M, walkable fds = true -> set_walk fds pp v M = Ok (walk_t fds pp v M).
Proof.
  induction fds as [|st rest IH]; intros pp v M W; [discriminate|].
  destruct rest as [|st2 rest2].
  - cbn [walkable set_walk walk_t] in *. destruct (f_card (snd st)); try discriminate; reflexivity.
  - cbn [walkable] in W. cbn [set_walk walk_t].
    destruct (f_card (snd st)); try discriminate. destruct (field_msg (snd st)); try discriminate.
    apply IH. exact W.
Qed.

Lemma params_set_t : forall ps M, (forall p, In p ps -> walkable (fst p) = true) ->
  params_set ps M = Ok (apply_t ps M).
Proof.
  induction ps as [|p ps IH]; intros M W; [reflexivity|].
  cbn [params_set apply_t fold_left]. unfold set_param.
  rewrite (set_walk_t (fst p) [] (snd p) M (W p (or_introl eq_refl))). cbn [bind].
  apply IH. intros x Hx. apply W. now right.
Qed.

Lemma apply_t_app A B M : apply_t (A ++ B) M = apply_t B (apply_t A M).
Proof. unfold apply_t. apply fold_left_app. Qed.
Lemma apply_t_cons a B M : apply_t (a :: B) M = apply_t B (set_t a M).
Proof. reflexivity. Qed.

Lemma walkable_tail st st2 rest : walkable (st :: st2 :: rest) = true ->
  walkable (st2 :: rest) = true /\ f_card (snd st) = Singular /\ exists m, field_msg (snd st) = Some m.
Proof.
  cbn [walkable]. destruct (f_card (snd st)); try discriminate.
  destruct (field_msg (snd st)) as [m|]; try discriminate. intros W. split; [exact W|]. split; [reflexivity|eauto].
Qed.

(* ---------- 2. one iteration, seen from a path ---------- *)
Definition in_sibs (st : step) (pp q : path) : bool :=
  existsb (fun n => is_prefix (pp ++ [n]) q) (sibs (fst st) (snd st)).

(* does the iteration for st :: rest, arriving at parent pp, clear the siblings of st? *)
Definition clears (st : step) (rest : list step) (pp : path) (M : msg) : bool :=
  match rest with
  | [] => match f_card (snd st) with Repeated => false | _ => true end
  | _ => match lookup (pp ++ [step_num st]) M with Some EPresent => false | _ => true end
  end.

Lemma path_neq_of_not_prefix p q : is_prefix p q = false -> path_eqb q p = false.
Proof.
  intros H. apply path_eqb_neq. intros ->. rewrite <- (app_nil_r p) in H at 2. rewrite is_prefix_app in H. discriminate.
Qed.

Lemma is_prefix_app_l p q r : is_prefix (p ++ q) r = true -> is_prefix p r = true.
Proof. intros H. eapply is_prefix_trans; [apply is_prefix_app|exact H]. Qed.

Lemma lookup_mutable_outside st pp M q :
  is_prefix (pp ++ [step_num st]) q = false ->
  lookup q (mutable_msg st pp M) =
  if clears st [st] pp M && in_sibs st pp q then None else lookup q M.
Proof.
  intros H. unfold mutable_msg, clears, in_sibs.
  destruct (lookup (pp ++ [step_num st]) M) as [[| |]|]; cbn [andb]; auto;
    rewrite lookup_put, (path_neq_of_not_prefix _ _ H), lookup_clear_sibs; reflexivity.
Qed.

Lemma lookup_mutable_self st pp M : lookup (pp ++ [step_num st]) (mutable_msg st pp M) = Some EPresent.
Proof.
  unfold mutable_msg. destruct (lookup (pp ++ [step_num st]) M) as [[| |]|] eqn:E; auto;
    rewrite lookup_put, path_eqb_refl; reflexivity.
Qed.

(* strictly below its own field, Mutable changes nothing *)
Lemma lookup_mutable_below st pp M a r :
  lookup ((pp ++ [step_num st]) ++ a :: r) (mutable_msg st pp M) = lookup ((pp ++ [step_num st]) ++ a :: r) M.
Proof.
  unfold mutable_msg. destruct (lookup (pp ++ [step_num st]) M) as [[| |]|]; auto;
    rewrite lookup_put, lookup_clear_sibs, app_cons_assoc, existsb_snoc_prefix,
      (sibs_not_self (fst st) (snd st) : existsb (N.eqb (step_num st)) _ = false);
    (rewrite path_eqb_neq; [reflexivity|]);
    intros X; rewrite <- app_cons_assoc in X; rewrite <- (app_nil_r (pp ++ [step_num st])) in X at 2;
    apply app_inv_head in X; discriminate.
Qed.

Lemma walk_t_frame : forall st rest pp v M p,
  walkable (st :: rest) = true ->
  is_prefix (pp ++ [step_num st]) p = false -> in_sibs st pp p = false ->
  lookup p (walk_t (st :: rest) pp v M) = lookup p M.
Proof.
  intros st rest pp v M p W H1 H2.
  exact (set_walk_frame (st :: rest) pp v M _ p st rest eq_refl (set_walk_t _ pp v M W) H1 H2).
Qed.

(* outside its own field an iteration only clears (or not) the oneof siblings of its first step *)
Lemma walk_t_outside : forall st rest pp v M q,
  walkable (st :: rest) = true ->
  is_prefix (pp ++ [step_num st]) q = false ->
  lookup q (walk_t (st :: rest) pp v M) =
  if clears st rest pp M && in_sibs st pp q then None else lookup q M.
Proof.
  intros st rest pp v M q W H.
  destruct rest as [|st2 rest2].
  - cbn [walk_t clears].
    assert (NE : path_eqb q (pp ++ [step_num st]) = false) by (apply path_neq_of_not_prefix; exact H).
    destruct (f_card (snd st)) eqn:C.
    + unfold set_field. fold (step_num st). unfold in_sibs. cbn [andb].
      assert (R : lookup q (remove_under (pp ++ [step_num st]) (clear_sibs (fst st) (snd st) pp M)) =
                  if existsb (fun n => is_prefix (pp ++ [n]) q) (sibs (fst st) (snd st)) then None else lookup q M).
      { rewrite lookup_remove_under, H, lookup_clear_sibs. reflexivity. }
      destruct v as [s|t].
      * destruct (negb (f_pres (snd st)) && is_default s); [exact R|]. rewrite lookup_put, NE. exact R.
      * rewrite lookup_app, lookup_put, NE, R, lookup_graft_out by exact H.
        destruct (existsb _ _); [reflexivity|]. destruct (lookup q M); reflexivity.
    + cbn [andb]. unfold append_field.
      destruct (lookup (pp ++ [step_num st]) M) as [[| |]|]; rewrite lookup_put, NE; reflexivity.
    + cbn [walkable] in W. rewrite C in W. discriminate.
  - destruct (walkable_tail _ _ _ W) as [W2 _].
    change (walk_t (st :: st2 :: rest2) pp v M) with (walk_t (st2 :: rest2) (pp ++ [step_num st]) v (mutable_msg st pp M)).
    rewrite walk_t_frame; [| exact W2 | |].
    + rewrite lookup_mutable_outside by exact H. reflexivity.
    + destruct (is_prefix ((pp ++ [step_num st]) ++ [step_num st2]) q) eqn:E; auto.
      apply is_prefix_app_l in E. congruence.
    + apply not_true_is_false. intros E. apply existsb_exists in E. destruct E as [sb [_ E]].
      apply is_prefix_app_l in E. congruence.
Qed.

Definition agree_under (p : path) (M N : msg) : Prop := forall r, lookup (p ++ r) M = lookup (p ++ r) N.

Lemma agree_under_app p a M N : agree_under p M N -> agree_under (p ++ a) M N.
Proof. intros H r. rewrite <- !app_assoc. apply H. Qed.

Lemma clears_agree st rest pp M N :
  lookup (pp ++ [step_num st]) M = lookup (pp ++ [step_num st]) N -> clears st rest pp M = clears st rest pp N.
Proof. intros H. unfold clears. rewrite H. reflexivity. Qed.

(* a path under p either is p, or continues with some number *)
Lemma is_prefix_cases p q : is_prefix p q = true -> exists r, q = p ++ r.
Proof. apply is_prefix_spec. Qed.

(* inside its own field, an iteration reads nothing but that field *)
Lemma walk_t_local : forall rest st pp v M N,
  walkable (st :: rest) = true ->
  agree_under (pp ++ [step_num st]) M N ->
  agree_under (pp ++ [step_num st]) (walk_t (st :: rest) pp v M) (walk_t (st :: rest) pp v N).
Proof.
  induction rest as [|st2 rest2 IH]; intros st pp v M N W H r.
  - cbn [walk_t]. destruct (f_card (snd st)) eqn:C.
    + unfold step_num. rewrite !lookup_set_field. reflexivity.
    + unfold append_field. pose proof (H []) as H0. rewrite app_nil_r in H0. rewrite <- H0.
      destruct (lookup (pp ++ [step_num st]) M) as [[| |]|]; rewrite !lookup_put;
        (destruct (path_eqb _ _); [reflexivity|apply H]).
    + unfold step_num. rewrite !lookup_set_field. reflexivity.
  - destruct (walkable_tail _ _ _ W) as [W2 _].
    change (walk_t (st :: st2 :: rest2) pp v M) with (walk_t (st2 :: rest2) (pp ++ [step_num st]) v (mutable_msg st pp M)).
    change (walk_t (st :: st2 :: rest2) pp v N) with (walk_t (st2 :: rest2) (pp ++ [step_num st]) v (mutable_msg st pp N)).
    set (p := pp ++ [step_num st]).
    assert (A1 : agree_under p (mutable_msg st pp M) (mutable_msg st pp N)).
    { intros x. destruct x as [|a x].
      - rewrite app_nil_r. unfold p. rewrite !lookup_mutable_self. reflexivity.
      - unfold p. rewrite !lookup_mutable_below. apply H. }
    destruct (is_prefix (p ++ [step_num st2]) (p ++ r)) eqn:E.
    + apply is_prefix_cases in E. destruct E as [r2 E]. rewrite E.
      apply IH; [exact W2|]. apply agree_under_app. exact A1.
    + rewrite !walk_t_outside by (exact W2 || exact E).
      rewrite (clears_agree st2 rest2 p _ _ (A1 [step_num st2])), (A1 r). reflexivity.
Qed.

(* extensional equality is a congruence for one iteration *)
Lemma walk_t_meq : forall st rest pp v M N, walkable (st :: rest) = true -> meq M N ->
  meq (walk_t (st :: rest) pp v M) (walk_t (st :: rest) pp v N).
Proof.
  intros st rest pp v M N W H q.
  destruct (is_prefix (pp ++ [step_num st]) q) eqn:E.
  - apply is_prefix_cases in E. destruct E as [r ->].
    apply walk_t_local; [exact W|]. intros x. apply H.
  - rewrite !walk_t_outside by (exact W || exact E).
    rewrite (clears_agree st rest pp M N (H _)), (H q). reflexivity.
Qed.

Lemma set_t_meq p M N : walkable (fst p) = true -> meq M N -> meq (set_t p M) (set_t p N).
Proof.
  intros W H. unfold set_t. destruct (fst p) as [|st rest]; [discriminate|]. apply walk_t_meq; assumption.
Qed.
Lemma apply_t_meq : forall ps M N, (forall p, In p ps -> walkable (fst p) = true) -> meq M N ->
  meq (apply_t ps M) (apply_t ps N).
Proof.
  induction ps as [|p ps IH]; intros M N W H; [exact H|].
  rewrite !apply_t_cons. apply IH; [intros x Hx; apply W; now right|].
  apply set_t_meq; [apply W; now left|exact H].
Qed.

(* ---------- 3. iterations that do not touch each other commute ---------- *)

(* two field paths walk the same steps as long as they walk the same field numbers (always so for
   paths resolved in one schema whose messages have unique field numbers: field_path_coherent) *)
Fixpoint coherent (a b : list step) : Prop :=
  match a, b with
  | sa :: ra, sb :: rb => step_num sa = step_num sb -> sa = sb /\ coherent ra rb
  | _, _ => True
  end.

Lemma coherent_sym : forall a b, coherent a b -> coherent b a.
Proof.
  induction a as [|sa ra IH]; intros b H; destruct b as [|sb rb]; cbn [coherent] in *; auto.
  intros E. destruct (H (eq_sym E)) as [-> Hr]. split; [reflexivity|apply IH; exact Hr].
Qed.
Lemma coherent_refl : forall a, coherent a a.
Proof. induction a as [|sa ra IH]; cbn [coherent]; auto. Qed.

(* "non-touching", both ways, plus coherence *)
Definition indep (a b : list step) : Prop :=
  untouched a (steps_path b) = true /\ untouched b (steps_path a) = true /\ coherent a b.
Lemma indep_sym a b : indep a b -> indep b a.
Proof. intros [H1 [H2 H3]]. split; [exact H2|split; [exact H1|apply coherent_sym; exact H3]]. Qed.

Lemma in_sibs_longer st2 p : in_sibs st2 p p = false.
Proof.
  unfold in_sibs. induction (sibs (fst st2) (snd st2)) as [|x l IH]; cbn [existsb]; auto.
  rewrite is_prefix_longer, IH. reflexivity.
Qed.

Lemma mutable_after_walk st st2 rest2 pp v M :
  walkable (st2 :: rest2) = true ->
  mutable_msg st pp (walk_t (st2 :: rest2) (pp ++ [step_num st]) v (mutable_msg st pp M)) =
  walk_t (st2 :: rest2) (pp ++ [step_num st]) v (mutable_msg st pp M).
Proof.
  intros W. unfold mutable_msg at 1.
  rewrite walk_t_frame; [| exact W | apply is_prefix_longer | apply in_sibs_longer].
  rewrite lookup_mutable_self. reflexivity.
Qed.

Lemma walk_t_other_field st rest pp v M n r :
  walkable (st :: rest) = true -> (step_num st =? n) = false ->
  existsb (N.eqb n) (sibs (fst st) (snd st)) = false ->
  lookup ((pp ++ [n]) ++ r) (walk_t (st :: rest) pp v M) = lookup ((pp ++ [n]) ++ r) M.
Proof.
  intros W E S. apply walk_t_frame; [exact W| |].
  - rewrite app_cons_assoc, is_prefix_snoc. exact E.
  - unfold in_sibs. rewrite app_cons_assoc, existsb_snoc_prefix. exact S.
Qed.

Lemma walk_commute : forall A B pp vA vB M,
  walkable A = true -> walkable B = true ->
  untouched A (steps_path B) = true -> untouched B (steps_path A) = true -> coherent A B ->
  meq (walk_t A pp vA (walk_t B pp vB M)) (walk_t B pp vB (walk_t A pp vA M)).
Proof.
  induction A as [|stA rA IH]; intros B pp vA vB M WA WB UA UB C; [discriminate|].
  destruct B as [|stB rB]; [discriminate|].
  cbn [steps_path map untouched] in UA, UB.
  destruct (step_num stB =? step_num stA) eqn:E.
  - apply N.eqb_eq in E. rewrite E, N.eqb_refl in UB. cbn [coherent] in C.
    destruct (C (eq_sym E)) as [Est Cr]. subst stB. clear C E.
    destruct rA as [|a2 rA2]; [discriminate|]. destruct rB as [|b2 rB2]; [discriminate|].
    destruct (walkable_tail _ _ _ WA) as [WA2 _]. destruct (walkable_tail _ _ _ WB) as [WB2 _].
    change (meq (walk_t (a2 :: rA2) (pp ++ [step_num stA]) vA
                   (mutable_msg stA pp (walk_t (b2 :: rB2) (pp ++ [step_num stA]) vB (mutable_msg stA pp M))))
                (walk_t (b2 :: rB2) (pp ++ [step_num stA]) vB
                   (mutable_msg stA pp (walk_t (a2 :: rA2) (pp ++ [step_num stA]) vA (mutable_msg stA pp M))))).
    rewrite !mutable_after_walk by assumption.
    apply IH; assumption.
  - rewrite N.eqb_sym, E in UB. apply negb_true_iff in UA. apply negb_true_iff in UB.
    assert (E' : (step_num stA =? step_num stB) = false) by (rewrite N.eqb_sym; exact E).
    assert (FB : forall X r, lookup ((pp ++ [step_num stA]) ++ r) (walk_t (stB :: rB) pp vB X) =
                             lookup ((pp ++ [step_num stA]) ++ r) X).
    { intros X r. apply walk_t_other_field; assumption. }
    assert (FA : forall X r, lookup ((pp ++ [step_num stB]) ++ r) (walk_t (stA :: rA) pp vA X) =
                             lookup ((pp ++ [step_num stB]) ++ r) X).
    { intros X r. apply walk_t_other_field; assumption. }
    intros q.
    destruct (is_prefix (pp ++ [step_num stA]) q) eqn:PA.
    { apply is_prefix_cases in PA. destruct PA as [r ->].
      rewrite FB. apply walk_t_local; [exact WA|]. intros x. apply FB. }
    destruct (is_prefix (pp ++ [step_num stB]) q) eqn:PB.
    { apply is_prefix_cases in PB. destruct PB as [r ->].
      rewrite FA. symmetry. apply walk_t_local; [exact WB|]. intros x. apply FA. }
    rewrite (walk_t_outside stA rA pp vA _ q WA PA), (walk_t_outside stB rB pp vB M q WB PB).
    rewrite (walk_t_outside stB rB pp vB _ q WB PB), (walk_t_outside stA rA pp vA M q WA PA).
    assert (CA : clears stA rA pp (walk_t (stB :: rB) pp vB M) = clears stA rA pp M).
    { apply clears_agree. pose proof (FB M []) as X. rewrite app_nil_r in X. exact X. }
    assert (CB : clears stB rB pp (walk_t (stA :: rA) pp vA M) = clears stB rB pp M).
    { apply clears_agree. pose proof (FA M []) as X. rewrite app_nil_r in X. exact X. }
    rewrite CA, CB.
    destruct (clears stA rA pp M && in_sibs stA pp q); destruct (clears stB rB pp M && in_sibs stB pp q); reflexivity.
Qed.

Lemma set_t_commute a b M :
  walkable (fst a) = true -> walkable (fst b) = true -> indep (fst a) (fst b) ->
  meq (set_t a (set_t b M)) (set_t b (set_t a M)).
Proof. intros Wa Wb [U1 [U2 C]]. unfold set_t. apply walk_commute; assumption. Qed.

(* a parameter moves to the right past parameters it does not touch *)
Lemma apply_t_move : forall pre x R M,
  walkable (fst x) = true ->
  (forall p, In p (pre ++ R) -> walkable (fst p) = true) ->
  (forall p, In p pre -> indep (fst x) (fst p)) ->
  meq (apply_t (x :: pre ++ R) M) (apply_t (pre ++ x :: R) M).
Proof.
  induction pre as [|a pre IH]; intros x R M Wx W I; [apply meq_refl|].
  cbn [app]. rewrite (apply_t_cons a (pre ++ x :: R)).
  eapply meq_trans; [|apply IH].
  - rewrite !apply_t_cons. apply apply_t_meq.
    + intros p Hp. apply W. right. exact Hp.
    + apply set_t_commute; [apply W; left; reflexivity|exact Wx|]. apply indep_sym. apply I. left. reflexivity.
  - exact Wx.
  - intros p Hp. apply W. right. exact Hp.
  - intros p Hp. apply I. right. exact Hp.
Qed.

(* ---------- 4. admissible orders ---------- *)

(* A parameter with the number of the client-side leaf (query key, path variable) it comes from.
   url.Values keeps, per key, the values in order of appearance; between keys nothing is kept. *)
Notation tparam := (nat * param)%type (only parsing).
Definition has_tag (k : nat) (x : tparam) : bool := Nat.eqb (fst x) k.
(* the occurrences of key k, in order *)
Definition occ (k : nat) (l : list tparam) : list tparam := filter (has_tag k) l.
(* l2 is l1 with the keys interleaved in another way: every key keeps its occurrences, in order *)
Definition same_per_key (l1 l2 : list tparam) : Prop := forall k, occ k l1 = occ k l2.

Lemma same_per_key_refl l : same_per_key l l.
Proof. intros k. reflexivity. Qed.
Lemma same_per_key_sym l1 l2 : same_per_key l1 l2 -> same_per_key l2 l1.
Proof. intros H k. symmetry. apply H. Qed.
Lemma same_per_key_trans l1 l2 l3 : same_per_key l1 l2 -> same_per_key l2 l3 -> same_per_key l1 l3.
Proof. intros H1 H2 k. rewrite H1. apply H2. Qed.

Lemma filter_head_split {A} (f : A -> bool) : forall l x r, filter f l = x :: r ->
  exists pre post, l = pre ++ x :: post /\ filter f pre = [] /\ filter f post = r.
Proof.
  induction l as [|a l IH]; intros x r H; [discriminate|].
  cbn [filter] in H. destruct (f a) eqn:Fa.
  - inversion H; subst. exists [], l. split; [reflexivity|]. split; reflexivity.
  - destruct (IH x r H) as [pre [post [-> [Hp Hq]]]]. exists (a :: pre), post.
    split; [reflexivity|]. split; [cbn [filter]; rewrite Fa; exact Hp|exact Hq].
Qed.

Lemma same_per_key_nil l : same_per_key [] l -> l = [].
Proof.
  intros H. destruct l as [|x l]; [reflexivity|].
  specialize (H (fst x)). unfold occ in H. cbn [filter] in H. unfold has_tag at 1 in H.
  rewrite Nat.eqb_refl in H. discriminate.
Qed.

Lemma same_per_key_In l1 l2 p : same_per_key l1 l2 -> In p l2 -> In p l1.
Proof.
  intros H Hp. assert (X : In p (occ (fst p) l2)).
  { unfold occ. apply filter_In. split; [exact Hp|]. unfold has_tag. apply Nat.eqb_refl. }
  rewrite <- H in X. unfold occ in X. apply filter_In in X. apply X.
Qed.

Lemma filter_nil_In {A} (f : A -> bool) l x : filter f l = [] -> In x l -> f x = false.
Proof.
  intros H Hx. destruct (f x) eqn:E; auto.
  assert (X : In x (filter f l)) by (apply filter_In; split; assumption). rewrite H in X. destruct X.
Qed.

(* lists with the same occurrences per key build the same message *)
Theorem apply_same_per_key : forall l1 l2,
  (forall a, In a l1 -> walkable (fst (snd a)) = true) ->
  (forall a b, In a l1 -> In b l1 -> fst a <> fst b -> indep (fst (snd a)) (fst (snd b))) ->
  same_per_key l1 l2 ->
  forall M, meq (apply_t (map snd l1) M) (apply_t (map snd l2) M).
Proof.
  induction l1 as [|x l1 IH]; intros l2 W I S M.
  - rewrite (same_per_key_nil l2 S). apply meq_refl.
  - pose proof (S (fst x)) as Sk. unfold occ in Sk. cbn [filter] in Sk. unfold has_tag at 1 in Sk.
    rewrite Nat.eqb_refl in Sk. symmetry in Sk.
    destruct (filter_head_split _ _ _ _ Sk) as [pre [post [El2 [Hpre Hpost]]]].
    assert (S' : same_per_key l1 (pre ++ post)).
    { intros k. unfold occ. rewrite filter_app.
      destruct (Nat.eqb (fst x) k) eqn:Ek.
      - apply Nat.eqb_eq in Ek. subst k. rewrite Hpre, Hpost. reflexivity.
      - pose proof (S k) as Sk'. unfold occ in Sk'. rewrite El2, filter_app in Sk'. cbn [filter] in Sk'.
        assert (Hx : has_tag k x = false) by exact Ek. rewrite !Hx in Sk'. exact Sk'. }
    assert (Hin : forall a, In a (pre ++ post) -> In a l1) by (intros a Ha; exact (same_per_key_In _ _ a S' Ha)).
    assert (Hpre_tag : forall a, In a pre -> fst a <> fst x).
    { intros a Ha Et. pose proof (filter_nil_In _ _ a Hpre Ha) as X. unfold has_tag in X. rewrite Et, Nat.eqb_refl in X. discriminate. }
    cbn [map]. rewrite apply_t_cons.
    eapply meq_trans.
    + apply (IH (pre ++ post)); [intros a Ha; apply W; right; exact Ha| |exact S'].
      intros a b Ha Hb. apply I; right; assumption.
    + rewrite El2, !map_app. cbn [map]. rewrite <- apply_t_cons.
      apply apply_t_move.
      * apply W. left. reflexivity.
      * rewrite <- map_app. intros p Hp. apply in_map_iff in Hp. destruct Hp as [a [<- Ha]].
        apply W. right. apply Hin. exact Ha.
      * intros p Hp. apply in_map_iff in Hp. destruct Hp as [a [<- Ha]].
        apply I; [left; reflexivity|right; apply Hin; apply in_or_app; left; exact Ha|].
        intros Et. apply (Hpre_tag a Ha). symmetry. exact Et.
Qed.

(* moving one key to the end, or to the front, is admissible *)
Lemma filter_filter_same {A} (f : A -> bool) l : filter f (filter f l) = filter f l.
Proof. induction l as [|a l IH]; cbn [filter]; auto. destruct (f a) eqn:E; cbn [filter]; rewrite ?E, IH; reflexivity. Qed.
Lemma filter_filter_none {A} (f g : A -> bool) l : (forall x, f x = true -> g x = false) -> filter f (filter g l) = [].
Proof.
  intros H. induction l as [|a l IH]; cbn [filter]; auto.
  destruct (g a) eqn:E; cbn [filter]; auto. destruct (f a) eqn:F; auto. rewrite (H a F) in E. discriminate.
Qed.
Lemma filter_filter_all {A} (f g : A -> bool) l : (forall x, f x = true -> g x = true) -> filter f (filter g l) = filter f l.
Proof.
  intros H. induction l as [|a l IH]; cbn [filter]; auto.
  destruct (g a) eqn:E; cbn [filter]; destruct (f a) eqn:F; auto.
  - rewrite IH. reflexivity.
  - rewrite (H a F) in E. discriminate.
Qed.

Definition others (i : nat) (l : list tparam) : list tparam := filter (fun x => negb (has_tag i x)) l.

Lemma has_tag_excl i k : Nat.eqb i k = false -> forall x : tparam, has_tag k x = true -> has_tag i x = false.
Proof. intros E x Hx. unfold has_tag in *. apply Nat.eqb_eq in Hx. rewrite Hx, (Nat.eqb_sym k i). exact E. Qed.
Lemma has_tag_neg i k : Nat.eqb i k = false -> forall x : tparam, has_tag k x = true -> negb (has_tag i x) = true.
Proof. intros E x Hx. rewrite (has_tag_excl i k E x Hx). reflexivity. Qed.
Lemma has_tag_self_neg i : forall x : tparam, has_tag i x = true -> negb (has_tag i x) = false.
Proof. intros x Hx. rewrite Hx. reflexivity. Qed.

Lemma key_to_end i l : same_per_key l (others i l ++ occ i l).
Proof.
  intros k. unfold occ, others. rewrite filter_app.
  destruct (Nat.eqb i k) eqn:E.
  - apply Nat.eqb_eq in E. subst k.
    rewrite (filter_filter_none (has_tag i) (fun x => negb (has_tag i x)) l (has_tag_self_neg i)).
    rewrite filter_filter_same. reflexivity.
  - rewrite (filter_filter_none (has_tag k) (has_tag i) l (has_tag_excl i k E)), app_nil_r.
    rewrite (filter_filter_all (has_tag k) (fun x => negb (has_tag i x)) l (has_tag_neg i k E)). reflexivity.
Qed.
Lemma key_to_front i l : same_per_key l (occ i l ++ others i l).
Proof.
  intros k. unfold occ, others. rewrite filter_app.
  destruct (Nat.eqb i k) eqn:E.
  - apply Nat.eqb_eq in E. subst k.
    rewrite (filter_filter_none (has_tag i) (fun x => negb (has_tag i x)) l (has_tag_self_neg i)).
    rewrite filter_filter_same, app_nil_r. reflexivity.
  - rewrite (filter_filter_none (has_tag k) (has_tag i) l (has_tag_excl i k E)). cbn [app].
    rewrite (filter_filter_all (has_tag k) (fun x => negb (has_tag i x)) l (has_tag_neg i k E)). reflexivity.
Qed.

(* ---------- 5. leaves with several values ---------- *)

(* a client-side leaf: its field path and the values sent for it, in order.  A singular leaf has
   one value (if it has more, the last one wins: rebuild_rep); a repeated leaf has all its items. *)
Definition leafg := (list step * list pval)%type.
Definition expand (g : leafg) : list param := map (fun v => (fst g, v)) (snd g).
Definition leaf_at (gs : list leafg) (k : nat) : list param :=
  match nth_error gs k with Some g => expand g | None => [] end.

(* the list l handed to params.set is admissible for the leaves gs: its elements can be labelled
   with leaf numbers so that the occurrences of label k are, in order, the values of leaf k *)
Definition admissible (gs : list leafg) (l : list param) : Prop :=
  exists tl : list tparam, map snd tl = l /\ forall k, occ k tl = map (pair k) (leaf_at gs k).

(* one admissible list: leaf after leaf (what parse_query produces for one iteration order) *)
Fixpoint tag_from (n : nat) (gs : list leafg) : list tparam :=
  match gs with
  | [] => []
  | g :: r => map (pair n) (expand g) ++ tag_from (S n) r
  end.
Definition tagged (gs : list leafg) : list tparam := tag_from 0 gs.

Lemma filter_tag_map k n (X : list param) :
  filter (has_tag k) (map (pair n) X) = if Nat.eqb n k then map (pair n) X else [].
Proof.
  induction X as [|x X IH]; cbn [map filter]; [destruct (Nat.eqb n k); reflexivity|].
  unfold has_tag at 1. cbn [fst]. rewrite IH. destruct (Nat.eqb n k); reflexivity.
Qed.

Lemma occ_tag_from : forall gs n k,
  occ k (tag_from n gs) = if Nat.ltb k n then [] else map (pair k) (leaf_at gs (k - n)).
Proof.
  induction gs as [|g r IH]; intros n k.
  - unfold leaf_at. cbn [tag_from occ filter]. destruct (k - n)%nat; destruct (Nat.ltb k n); reflexivity.
  - cbn [tag_from]. specialize (IH (S n) k). unfold occ in *. rewrite filter_app, filter_tag_map, IH.
    destruct (Nat.ltb k n) eqn:L.
    + apply Nat.ltb_lt in L. replace (Nat.eqb n k) with false by (symmetry; apply Nat.eqb_neq; lia).
      replace (Nat.ltb k (S n)) with true by (symmetry; apply Nat.ltb_lt; lia). reflexivity.
    + apply Nat.ltb_ge in L. destruct (Nat.eqb n k) eqn:E.
      * apply Nat.eqb_eq in E. subst k. replace (Nat.ltb n (S n)) with true by (symmetry; apply Nat.ltb_lt; lia).
        rewrite Nat.sub_diag, app_nil_r. reflexivity.
      * apply Nat.eqb_neq in E. replace (Nat.ltb k (S n)) with false by (symmetry; apply Nat.ltb_ge; lia).
        replace (k - n)%nat with (S (k - S n)) by lia. reflexivity.
Qed.

Lemma occ_tagged gs k : occ k (tagged gs) = map (pair k) (leaf_at gs k).
Proof. unfold tagged. rewrite occ_tag_from. cbn. rewrite Nat.sub_0_r. reflexivity. Qed.

Lemma map_snd_tag_from : forall gs n, map snd (tag_from n gs) = concat (map expand gs).
Proof.
  induction gs as [|g r IH]; intros n; [reflexivity|].
  cbn [tag_from map concat]. rewrite map_app, IH, map_map. cbn [snd]. rewrite map_id. reflexivity.
Qed.

Lemma admissible_concat gs : admissible gs (concat (map expand gs)).
Proof. exists (tagged gs). split; [apply map_snd_tag_from|apply occ_tagged]. Qed.

Lemma admissible_same gs l : admissible gs l <-> exists tl, map snd tl = l /\ same_per_key (tagged gs) tl.
Proof.
  split; intros [tl [E H]]; exists tl; (split; [exact E|]); intros k.
  - rewrite occ_tagged, H. reflexivity.
  - rewrite <- H. apply occ_tagged.
Qed.

Lemma In_tagged gs a : In a (tagged gs) -> exists g, nth_error gs (fst a) = Some g /\ In (snd a) (expand g).
Proof.
  intros H. assert (X : In a (occ (fst a) (tagged gs))).
  { unfold occ. apply filter_In. split; [exact H|]. unfold has_tag. apply Nat.eqb_refl. }
  rewrite occ_tagged in X. unfold leaf_at in X. destruct (nth_error gs (fst a)) as [g|]; [|destruct X].
  exists g. split; [reflexivity|]. apply in_map_iff in X. destruct X as [p [<- Hp]]. exact Hp.
Qed.

Lemma In_expand g p : In p (expand g) -> fst p = fst g /\ In (snd p) (snd g).
Proof. unfold expand. intros H. apply in_map_iff in H. destruct H as [v [<- Hv]]. split; [reflexivity|exact Hv]. Qed.

Definition list_at (p : path) (M : msg) : list item :=
  match lookup p M with Some (EList l) => l | _ => [] end.

Lemma sib_not_self pf fd s : In s (sibs pf fd) -> (f_num fd =? s) = false.
Proof.
  intros H. destruct (f_num fd =? s) eqn:E; auto. apply N.eqb_eq in E. subst s.
  pose proof (sibs_not_self pf fd) as X.
  assert (Y : existsb (N.eqb (f_num fd)) (sibs pf fd) = true).
  { apply existsb_exists. exists (f_num fd). split; [exact H|apply N.eqb_refl]. }
  congruence.
Qed.

Lemma last_step_cons st st2 rest : last_step (st :: st2 :: rest) = last_step (st2 :: rest).
Proof. reflexivity. Qed.

(* Append: the list grows at its end, nothing below it changes *)
Lemma walk_t_append : forall fds pp v M,
  walkable fds = true -> f_card (snd (last_step fds)) = Repeated ->
  lookup (pp ++ steps_path fds) (walk_t fds pp v M) =
    Some (EList (list_at (pp ++ steps_path fds) M ++ [item_of v])) /\
  forall a r, lookup (pp ++ steps_path fds ++ a :: r) (walk_t fds pp v M) = lookup (pp ++ steps_path fds ++ a :: r) M.
Proof.
  induction fds as [|st rest IH]; intros pp v M W C; [discriminate|].
  destruct rest as [|st2 rest2].
  - unfold last_step in C. cbn [last] in C. cbn [walk_t steps_path map]. rewrite C.
    unfold append_field, list_at. split.
    + destruct (lookup (pp ++ [step_num st]) M) as [[| |]|]; rewrite lookup_put, path_eqb_refl; reflexivity.
    + intros a r. assert (NE : path_eqb (pp ++ [step_num st] ++ a :: r) (pp ++ [step_num st]) = false).
      { apply path_eqb_neq. rewrite app_assoc. intros X. rewrite <- (app_nil_r (pp ++ [step_num st])) in X at 2.
        apply app_inv_head in X. discriminate. }
      destruct (lookup (pp ++ [step_num st]) M) as [[| |]|]; rewrite lookup_put, NE; reflexivity.
  - destruct (walkable_tail _ _ _ W) as [W2 _]. rewrite last_step_cons in C.
    change (walk_t (st :: st2 :: rest2) pp v M) with (walk_t (st2 :: rest2) (pp ++ [step_num st]) v (mutable_msg st pp M)).
    destruct (IH (pp ++ [step_num st]) v (mutable_msg st pp M) W2 C) as [I1 I2].
    cbn [steps_path map] in *. rewrite !app_cons_assoc in I1. split.
    + rewrite I1. unfold list_at.
      rewrite <- (app_cons_assoc pp (step_num st) (step_num st2 :: map step_num rest2)), lookup_mutable_below.
      reflexivity.
    + intros a r. specialize (I2 a r). rewrite app_cons_assoc in I2. cbn [app] in *. rewrite I2.
      rewrite <- (app_cons_assoc pp (step_num st)). apply lookup_mutable_below.
Qed.

(* Set on the last step removes everything under the other members of its oneof *)
Lemma walk_t_clears_last : forall fds pp v M s rel,
  walkable fds = true -> singular_last fds ->
  In s (sibs (fst (last_step fds)) (snd (last_step fds))) ->
  lookup (pp ++ removelast (steps_path fds) ++ s :: rel) (walk_t fds pp v M) = None.
Proof.
  induction fds as [|st rest IH]; intros pp v M s rel W S Hs; [discriminate|].
  destruct rest as [|st2 rest2].
  - unfold singular_last, last_step in *. cbn [last] in *. cbn [steps_path map removelast app].
    rewrite (walk_t_outside st [] pp v M (pp ++ s :: rel) W).
    + unfold clears, in_sibs. rewrite S, existsb_snoc_prefix. cbn [andb].
      replace (existsb (N.eqb s) (sibs (fst st) (snd st))) with true; [reflexivity|].
      symmetry. apply existsb_exists. exists s. split; [exact Hs|apply N.eqb_refl].
    + rewrite is_prefix_snoc. exact (sib_not_self _ _ _ Hs).
  - destruct (walkable_tail _ _ _ W) as [W2 _].
    change (walk_t (st :: st2 :: rest2) pp v M) with (walk_t (st2 :: rest2) (pp ++ [step_num st]) v (mutable_msg st pp M)).
    unfold singular_last in *. rewrite last_step_cons in *.
    specialize (IH (pp ++ [step_num st]) v (mutable_msg st pp M) s rel W2 S Hs).
    cbn [steps_path map] in *.
    change (removelast (step_num st :: step_num st2 :: map step_num rest2))
      with (step_num st :: removelast (step_num st2 :: map step_num rest2)).
    rewrite app_cons_assoc in IH. exact IH.
Qed.

(* one leaf applied on its own *)
Lemma expand_snoc fds vs v : expand (fds, vs ++ [v]) = expand (fds, vs) ++ [(fds, v)].
Proof. unfold expand. cbn [fst snd]. rewrite map_app. reflexivity. Qed.

Lemma walkable_ne fds : walkable fds = true -> fds <> [].
Proof. destruct fds; [discriminate|discriminate]. Qed.

Lemma group_singular fds vs d N rel :
  walkable fds = true -> singular_last fds -> vs <> [] ->
  lookup (steps_path fds ++ rel) (apply_t (expand (fds, vs)) N) =
  lookup rel (field_image (snd (last_step fds)) (last vs d)).
Proof.
  intros W S Hv. rewrite (app_removelast_last d Hv) at 1. rewrite expand_snoc, apply_t_app.
  cbn [apply_t fold_left]. unfold set_t. cbn [fst snd].
  exact (set_walk_wins fds [] (last vs d) _ _ rel (walkable_ne _ W) S (set_walk_t fds [] _ _ W)).
Qed.

Lemma group_parents fds vs N p r :
  walkable fds = true -> vs <> [] -> steps_path fds = p ++ r -> p <> [] -> r <> [] ->
  lookup p (apply_t (expand (fds, vs)) N) = Some EPresent.
Proof.
  intros W Hv E Hp Hr. rewrite (app_removelast_last (PScalar (SBool false)) Hv). rewrite expand_snoc, apply_t_app.
  cbn [apply_t fold_left]. unfold set_t. cbn [fst snd].
  exact (set_walk_parents fds [] _ _ _ p r (set_walk_t fds [] _ _ W) E Hp Hr).
Qed.

Lemma group_sibs_cleared fds vs N s rel :
  walkable fds = true -> singular_last fds -> vs <> [] ->
  In s (sibs (fst (last_step fds)) (snd (last_step fds))) ->
  lookup (removelast (steps_path fds) ++ s :: rel) (apply_t (expand (fds, vs)) N) = None.
Proof.
  intros W S Hv Hs. rewrite (app_removelast_last (PScalar (SBool false)) Hv). rewrite expand_snoc, apply_t_app.
  cbn [apply_t fold_left]. unfold set_t. cbn [fst snd].
  exact (walk_t_clears_last fds [] _ _ s rel W S Hs).
Qed.

Lemma group_repeated fds : walkable fds = true -> f_card (snd (last_step fds)) = Repeated ->
  forall vs N,
  list_at (steps_path fds) (apply_t (expand (fds, vs)) N) = list_at (steps_path fds) N ++ map item_of vs /\
  (vs <> [] -> lookup (steps_path fds) (apply_t (expand (fds, vs)) N) =
               Some (EList (list_at (steps_path fds) N ++ map item_of vs))) /\
  (forall a r, lookup (steps_path fds ++ a :: r) (apply_t (expand (fds, vs)) N) = lookup (steps_path fds ++ a :: r) N).
Proof.
  intros W C. induction vs as [|v vs IH]; intros N.
  - cbn. rewrite app_nil_r. split; [reflexivity|]. split; [congruence|reflexivity].
  - change (expand (fds, v :: vs)) with ((fds, v) :: expand (fds, vs)). rewrite apply_t_cons.
    destruct (IH (set_t (fds, v) N)) as [I1 [I2 I3]].
    destruct (walk_t_append fds [] v N W C) as [A1 A2]. cbn [app] in A1, A2.
    assert (L : list_at (steps_path fds) (set_t (fds, v) N) = list_at (steps_path fds) N ++ [item_of v]).
    { unfold list_at at 1. unfold set_t. cbn [fst snd]. rewrite A1. reflexivity. }
    cbn [map]. split; [|split].
    + rewrite I1, L, <- app_assoc. reflexivity.
    + intros _. destruct vs as [|v2 vs2].
      * cbn [expand map snd apply_t fold_left]. unfold set_t. cbn [fst snd]. rewrite A1. reflexivity.
      * rewrite (I2 ltac:(discriminate)), L, <- app_assoc. reflexivity.
    + intros a r. rewrite I3. unfold set_t. cbn [fst snd]. apply A2.
Qed.

(* ---- oneof siblings of a step on the way ---- *)
Lemma walk_t_cons2 st rest pp v M : rest <> [] ->
  walk_t (st :: rest) pp v M = walk_t rest (pp ++ [step_num st]) v (mutable_msg st pp M).
Proof. intros H. destruct rest; [contradiction|reflexivity]. Qed.
Lemma walkable_cons2 st rest : rest <> [] -> walkable (st :: rest) = true -> walkable rest = true.
Proof. intros H W. destruct rest as [|st2 rest2]; [contradiction|]. apply (walkable_tail _ _ _ W). Qed.

(* Mutable on a step of the way clears the other members of its oneof, unless the member was set
   already (then a well-formed message has nothing under the other members) *)
Lemma walk_t_clears_mid : forall A1 st A2 pp v M s rel,
  walkable (A1 ++ st :: A2) = true -> A2 <> [] ->
  In s (sibs (fst st) (snd st)) ->
  (lookup (pp ++ steps_path A1 ++ [step_num st]) M = Some EPresent -> lookup (pp ++ steps_path A1 ++ s :: rel) M = None) ->
  lookup (pp ++ steps_path A1 ++ s :: rel) (walk_t (A1 ++ st :: A2) pp v M) = None.
Proof.
  induction A1 as [|a A1 IH]; intros st A2 pp v M s rel W HA2 Hs HM.
  - cbn [app steps_path map] in *.
    rewrite (walk_t_outside st A2 pp v M (pp ++ s :: rel) W).
    + unfold clears, in_sibs. destruct A2 as [|b A2']; [contradiction|].
      rewrite existsb_snoc_prefix.
      replace (existsb (N.eqb s) (sibs (fst st) (snd st))) with true
        by (symmetry; apply existsb_exists; exists s; split; [exact Hs|apply N.eqb_refl]).
      destruct (lookup (pp ++ [step_num st]) M) as [[| |]|] eqn:L; cbn [andb]; auto.
    + rewrite is_prefix_snoc. exact (sib_not_self _ _ _ Hs).
  - assert (NE : A1 ++ st :: A2 <> []) by (destruct A1; discriminate).
    change ((a :: A1) ++ st :: A2) with (a :: (A1 ++ st :: A2)) in *.
    rewrite (walk_t_cons2 a _ pp v M NE).
    cbn [steps_path map app] in *. rewrite <- (app_cons_assoc pp (step_num a) (map step_num A1 ++ [step_num st])), <- (app_cons_assoc pp (step_num a) (map step_num A1 ++ s :: rel)) in HM.
    specialize (IH st A2 (pp ++ [step_num a]) v (mutable_msg a pp M) s rel (walkable_cons2 _ _ NE W) HA2 Hs).
    rewrite <- (app_cons_assoc pp (step_num a)). apply IH.
    assert (B1 : forall x y, lookup ((pp ++ [step_num a]) ++ map step_num A1 ++ x :: y) (mutable_msg a pp M) =
                             lookup ((pp ++ [step_num a]) ++ map step_num A1 ++ x :: y) M).
    { intros x y. destruct (map step_num A1) as [|z zs]; cbn [app]; apply lookup_mutable_below. }
    unfold steps_path. rewrite (B1 (step_num st) []), (B1 s rel). exact HM.
Qed.

Definition diverge (p q : path) : Prop := is_prefix p q = false /\ is_prefix q p = false.

(* an iteration writes only along and under its own path: elsewhere, nothing appears *)
Lemma walk_t_keeps_none : forall fds pp v M q,
  walkable fds = true -> diverge q (steps_path fds) ->
  lookup (pp ++ q) M = None -> lookup (pp ++ q) (walk_t fds pp v M) = None.
Proof.
  induction fds as [|st rest IH]; intros pp v M q W [D1 D2] L; [discriminate|].
  destruct q as [|m q']; [discriminate|]. cbn [steps_path map is_prefix] in D1, D2.
  destruct (m =? step_num st) eqn:E.
  - apply N.eqb_eq in E. subst m. rewrite N.eqb_refl in D2. cbn [andb] in D1, D2.
    destruct rest as [|st2 rest2]; [cbn in D2; discriminate|].
    destruct (walkable_tail _ _ _ W) as [W2 _].
    rewrite (walk_t_cons2 st (st2 :: rest2) pp v M ltac:(discriminate)).
    rewrite <- app_cons_assoc. apply IH; [exact W2|split; assumption|].
    destruct q' as [|x y]; [discriminate|]. rewrite lookup_mutable_below, app_cons_assoc. exact L.
  - rewrite (walk_t_outside st rest pp v M (pp ++ m :: q') W).
    + rewrite L. destruct (clears st rest pp M && in_sibs st pp (pp ++ m :: q')); reflexivity.
    + rewrite is_prefix_snoc, N.eqb_sym. exact E.
Qed.

Lemma apply_t_keeps_none : forall ps M q,
  (forall p, In p ps -> walkable (fst p) = true /\ diverge q (steps_path (fst p))) ->
  lookup q M = None -> lookup q (apply_t ps M) = None.
Proof.
  induction ps as [|p ps IH]; intros M q H L; [exact L|].
  rewrite apply_t_cons. apply IH; [intros x Hx; apply H; now right|].
  destruct (H p (or_introl eq_refl)) as [W D]. unfold set_t.
  exact (walk_t_keeps_none (fst p) [] (snd p) M q W D L).
Qed.

Lemma diverge_head m n p q : (m =? n) = false -> diverge (m :: p) (n :: q).
Proof. intros E. split; cbn [is_prefix]; [|rewrite N.eqb_sym]; rewrite E; reflexivity. Qed.
Lemma diverge_cons n p q : diverge p q -> diverge (n :: p) (n :: q).
Proof. intros [D1 D2]. split; cbn [is_prefix]; rewrite N.eqb_refl; assumption. Qed.

(* a path under a oneof sibling of a step of A is off the path of every B that A does not touch *)
Lemma sib_diverges : forall A1 st A2 B s rel,
  untouched (A1 ++ st :: A2) (steps_path B) = true ->
  In s (sibs (fst st) (snd st)) ->
  diverge (steps_path A1 ++ s :: rel) (steps_path B).
Proof.
  induction A1 as [|a A1 IH]; intros st A2 B s rel U Hs.
  - cbn [app steps_path map] in *. destruct B as [|stB B']; [discriminate|]. cbn [steps_path map untouched] in U |- *.
    destruct (step_num stB =? step_num st) eqn:E.
    + apply N.eqb_eq in E. rewrite E. apply diverge_head. rewrite N.eqb_sym. exact (sib_not_self _ _ _ Hs).
    + apply diverge_head. apply negb_true_iff in U.
      destruct (s =? step_num stB) eqn:E2; auto. apply N.eqb_eq in E2. subst s.
      assert (Y : existsb (N.eqb (step_num stB)) (sibs (fst st) (snd st)) = true).
      { apply existsb_exists. exists (step_num stB). split; [exact Hs|apply N.eqb_refl]. }
      congruence.
  - change ((a :: A1) ++ st :: A2) with (a :: (A1 ++ st :: A2)) in U.
    destruct B as [|stB B']; [discriminate|]. cbn [steps_path map untouched app] in U |- *.
    destruct (step_num stB =? step_num a) eqn:E.
    + apply N.eqb_eq in E. rewrite E. apply diverge_cons.
      destruct (A1 ++ st :: A2) eqn:EA; [discriminate|]. rewrite <- EA in U. exact (IH st A2 B' s rel U Hs).
    + apply diverge_head. rewrite N.eqb_sym. exact E.
Qed.

Lemma untouched_self_sib : forall A1 st A2 s rel, In s (sibs (fst st) (snd st)) ->
  diverge (steps_path A1 ++ s :: rel) (steps_path (A1 ++ st :: A2)).
Proof.
  induction A1 as [|a A1 IH]; intros st A2 s rel Hs; cbn [app steps_path map].
  - apply diverge_head. rewrite N.eqb_sym. exact (sib_not_self _ _ _ Hs).
  - apply diverge_cons. apply IH. exact Hs.
Qed.

Section RebuildRep.
Variable gs : list leafg.
Hypothesis walk : forall g, In g gs -> walkable (fst g) = true.
(* different leaves do not touch each other (as in C03_roundtrip; a repeated leaf is treated like a
   singular one: its path is not at, under or above another leaf's path nor under a oneof sibling
   of one of its steps, and conversely) and resolve common field numbers to common fields *)
Hypothesis indep_gs : forall i j gi gj, i <> j -> nth_error gs i = Some gi -> nth_error gs j = Some gj ->
  untouched (fst gj) (steps_path (fst gi)) = true /\ coherent (fst gi) (fst gj).

Lemma indep_pair i j gi gj : i <> j -> nth_error gs i = Some gi -> nth_error gs j = Some gj -> indep (fst gi) (fst gj).
Proof.
  intros Hij Hi Hj. destruct (indep_gs i j gi gj Hij Hi Hj) as [U1 C].
  destruct (indep_gs j i gj gi (not_eq_sym Hij) Hj Hi) as [U2 _].
  split; [exact U2|split; [exact U1|exact C]].
Qed.

Lemma tagged_fst a : In a (tagged gs) -> exists g, nth_error gs (fst a) = Some g /\ fst (snd a) = fst g.
Proof.
  intros H. destruct (In_tagged gs a H) as [g [Hn Hp]]. exists g. split; [exact Hn|]. apply In_expand. exact Hp.
Qed.
Lemma tagged_walk a : In a (tagged gs) -> walkable (fst (snd a)) = true.
Proof. intros H. destruct (tagged_fst a H) as [g [Hn ->]]. apply walk. eapply nth_error_In. exact Hn. Qed.
Lemma tagged_indep a b : In a (tagged gs) -> In b (tagged gs) -> fst a <> fst b -> indep (fst (snd a)) (fst (snd b)).
Proof.
  intros Ha Hb Hab. destruct (tagged_fst a Ha) as [ga [Hna ->]]. destruct (tagged_fst b Hb) as [gb [Hnb ->]].
  exact (indep_pair _ _ ga gb Hab Hna Hnb).
Qed.

Lemma canonical_meq l M : admissible gs l -> meq (apply_t (map snd (tagged gs)) M) (apply_t l M).
Proof.
  intros H. apply admissible_same in H. destruct H as [tl [<- S]].
  apply apply_same_per_key; [exact tagged_walk|exact tagged_indep|exact S].
Qed.

(* all admissible orders build the same message *)
Theorem order_free_t l1 l2 M : admissible gs l1 -> admissible gs l2 -> meq (apply_t l1 M) (apply_t l2 M).
Proof.
  intros H1 H2. eapply meq_trans; [apply meq_sym; apply canonical_meq; exact H1|apply canonical_meq; exact H2].
Qed.

Lemma admissible_walk l : admissible gs l -> forall p, In p l -> walkable (fst p) = true.
Proof.
  intros H p Hp. apply admissible_same in H. destruct H as [tl [<- S]].
  apply in_map_iff in Hp. destruct Hp as [a [<- Ha]]. apply tagged_walk. exact (same_per_key_In _ _ a S Ha).
Qed.
Lemma admissible_from l : admissible gs l -> forall p, In p l -> exists g, In g gs /\ fst p = fst g.
Proof.
  intros H p Hp. apply admissible_same in H. destruct H as [tl [<- S]].
  apply in_map_iff in Hp. destruct Hp as [a [<- Ha]].
  destruct (tagged_fst a (same_per_key_In _ _ a S Ha)) as [g [Hn E]]. exists g. split; [eapply nth_error_In; exact Hn|exact E].
Qed.

Definition rest_of (i : nat) : list param := map snd (others i (tagged gs)).

(* any admissible order is as good as: all other leaves first, then leaf i *)
Lemma to_end l i gi M : admissible gs l -> nth_error gs i = Some gi ->
  meq (apply_t l M) (apply_t (expand gi) (apply_t (rest_of i) M)).
Proof.
  intros H Hi. eapply meq_trans; [apply meq_sym; apply canonical_meq; exact H|].
  pose proof (apply_same_per_key (tagged gs) _ tagged_walk tagged_indep (key_to_end i (tagged gs)) M) as X.
  rewrite map_app, apply_t_app, occ_tagged, map_map in X. cbn [snd] in X. rewrite map_id in X.
  unfold leaf_at in X. rewrite Hi in X. exact X.
Qed.
Lemma to_front l i gi M : admissible gs l -> nth_error gs i = Some gi ->
  meq (apply_t l M) (apply_t (rest_of i) (apply_t (expand gi) M)).
Proof.
  intros H Hi. eapply meq_trans; [apply meq_sym; apply canonical_meq; exact H|].
  pose proof (apply_same_per_key (tagged gs) _ tagged_walk tagged_indep (key_to_front i (tagged gs)) M) as X.
  rewrite map_app, apply_t_app, occ_tagged, map_map in X. cbn [snd] in X. rewrite map_id in X.
  unfold leaf_at in X. rewrite Hi in X. exact X.
Qed.

Lemma rest_of_spec i p : In p (rest_of i) ->
  exists j gj, j <> i /\ nth_error gs j = Some gj /\ fst p = fst gj.
Proof.
  intros Hp. unfold rest_of, others in Hp. apply in_map_iff in Hp. destruct Hp as [a [<- Ha]].
  apply filter_In in Ha. destruct Ha as [Ha Ht]. destruct (tagged_fst a Ha) as [g [Hn E]].
  exists (fst a), g. split; [|split; assumption].
  intros X. unfold has_tag in Ht. rewrite X, Nat.eqb_refl in Ht. discriminate.
Qed.
Lemma rest_of_walk i p : In p (rest_of i) -> walkable (fst p) = true.
Proof. intros Hp. destruct (rest_of_spec i p Hp) as [j [gj [_ [Hn ->]]]]. apply walk. eapply nth_error_In. exact Hn. Qed.

(* the other leaves leave everything at and under leaf i alone *)
Lemma rest_of_frame i gi M rel : nth_error gs i = Some gi ->
  lookup (steps_path (fst gi) ++ rel) (apply_t (rest_of i) M) = lookup (steps_path (fst gi) ++ rel) M.
Proof.
  intros Hi. apply (params_set_untouched (rest_of i) M); [|apply params_set_t; apply rest_of_walk].
  intros p Hp. apply untouched_app. destruct (rest_of_spec i p Hp) as [j [gj [Hj [Hn ->]]]].
  apply (indep_gs i j gi gj (not_eq_sym Hj) Hi Hn).
Qed.

Theorem rebuild_rep : forall l M0 M', admissible gs l -> params_set l M0 = Ok M' ->
  (* a singular leaf: the image of its (last) value, nothing else at or under it *)
  (forall i fds vs d rel, nth_error gs i = Some (fds, vs) -> singular_last fds -> vs <> [] ->
     lookup (steps_path fds ++ rel) M' = lookup rel (field_image (snd (last_step fds)) (last vs d))) /\
  (* a repeated leaf: its values appended in order to what was there; nothing changes under it *)
  (forall i fds vs, nth_error gs i = Some (fds, vs) -> f_card (snd (last_step fds)) = Repeated ->
     list_at (steps_path fds) M' = list_at (steps_path fds) M0 ++ map item_of vs /\
     (vs <> [] -> lookup (steps_path fds) M' = Some (EList (list_at (steps_path fds) M0 ++ map item_of vs))) /\
     (forall a r, lookup (steps_path fds ++ a :: r) M' = lookup (steps_path fds ++ a :: r) M0)) /\
  (* the parents of a leaf are present *)
  (forall i fds vs p r, nth_error gs i = Some (fds, vs) -> vs <> [] -> steps_path fds = p ++ r -> p <> [] -> r <> [] ->
     lookup p M' = Some EPresent) /\
  (* everything no leaf touches is as before *)
  (forall q, (forall g, In g gs -> untouched (fst g) q = true) -> lookup q M' = lookup q M0) /\
  (* nothing is left under the oneof siblings of a singular leaf *)
  (forall i fds vs s rel, nth_error gs i = Some (fds, vs) -> singular_last fds -> vs <> [] ->
     In s (sibs (fst (last_step fds)) (snd (last_step fds))) ->
     lookup (removelast (steps_path fds) ++ s :: rel) M' = None).
Proof.
  intros l M0 M' Ha H.
  assert (EM : M' = apply_t l M0).
  { rewrite (params_set_t l M0 (admissible_walk l Ha)) in H. inversion H; reflexivity. }
  split; [|split; [|split; [|split]]].
  - intros i fds vs d rel Hi S Hv. rewrite EM, (to_end l i _ M0 Ha Hi).
    apply group_singular; [exact (walk _ (nth_error_In _ _ Hi))|exact S|exact Hv].
  - intros i fds vs Hi C.
    assert (W : walkable fds = true) by exact (walk _ (nth_error_In _ _ Hi)).
    destruct (group_repeated fds W C vs (apply_t (rest_of i) M0)) as [G1 [G2 G3]].
    pose proof (rest_of_frame i _ M0 [] Hi) as F0. cbn [fst] in F0. rewrite app_nil_r in F0.
    assert (L0 : list_at (steps_path fds) (apply_t (rest_of i) M0) = list_at (steps_path fds) M0).
    { unfold list_at. rewrite F0. reflexivity. }
    split; [|split].
    + unfold list_at at 1. rewrite EM, (to_end l i _ M0 Ha Hi). fold (list_at (steps_path fds) (apply_t (expand (fds, vs)) (apply_t (rest_of i) M0))).
      rewrite G1, L0. reflexivity.
    + intros Hv. rewrite EM, (to_end l i _ M0 Ha Hi), (G2 Hv), L0. reflexivity.
    + intros a r. rewrite EM, (to_end l i _ M0 Ha Hi), G3. exact (rest_of_frame i _ M0 (a :: r) Hi).
  - intros i fds vs p r Hi Hv E Hp Hr. rewrite EM, (to_end l i _ M0 Ha Hi).
    exact (group_parents fds vs _ p r (walk _ (nth_error_In _ _ Hi)) Hv E Hp Hr).
  - intros q U. apply (params_set_untouched l M0 M' q); [|exact H].
    intros p Hp. destruct (admissible_from l Ha p Hp) as [g [Hg ->]]. apply U. exact Hg.
  - intros i fds vs s rel Hi S Hv Hs. rewrite EM, (to_end l i _ M0 Ha Hi).
    exact (group_sibs_cleared fds vs _ s rel (walk _ (nth_error_In _ _ Hi)) S Hv Hs).
Qed.

Theorem order_free : forall l1 l2 M0 M1 M2, admissible gs l1 -> admissible gs l2 ->
  params_set l1 M0 = Ok M1 -> params_set l2 M0 = Ok M2 -> meq M1 M2.
Proof.
  intros l1 l2 M0 M1 M2 H1 H2 E1 E2.
  rewrite (params_set_t l1 M0 (admissible_walk l1 H1)) in E1. rewrite (params_set_t l2 M0 (admissible_walk l2 H2)) in E2.
  inversion E1; inversion E2; subst. apply order_free_t; assumption.
Qed.

Lemma admissible_ok l M0 : admissible gs l -> exists M', params_set l M0 = Ok M'.
Proof. intros H. eexists. apply params_set_t. apply admissible_walk. exact H. Qed.
(* a step on the way to leaf i that is a oneof member: nothing is left under the other members,
   provided the starting message did not already have the member together with entries under them *)
Theorem mid_sibs_cleared : forall l M0 M' i A1 st A2 vs s rel,
  admissible gs l -> params_set l M0 = Ok M' ->
  nth_error gs i = Some (A1 ++ st :: A2, vs) -> vs <> [] -> A2 <> [] ->
  In s (sibs (fst st) (snd st)) ->
  (lookup (steps_path A1 ++ [step_num st]) M0 = Some EPresent -> lookup (steps_path A1 ++ s :: rel) M0 = None) ->
  lookup (steps_path A1 ++ s :: rel) M' = None.
Proof.
  intros l M0 M' i A1 st A2 vs s rel Ha H Hi Hv HA2 Hs HM.
  assert (EM : M' = apply_t l M0).
  { rewrite (params_set_t l M0 (admissible_walk l Ha)) in H. inversion H; reflexivity. }
  assert (W : walkable (A1 ++ st :: A2) = true) by exact (walk _ (nth_error_In _ _ Hi)).
  rewrite EM, (to_front l i _ M0 Ha Hi).
  apply apply_t_keeps_none.
  - intros p Hp. split; [exact (rest_of_walk i p Hp)|].
    destruct (rest_of_spec i p Hp) as [j [gj [Hj [Hn ->]]]].
    destruct (indep_gs j i gj _ Hj Hn Hi) as [U _]. cbn [fst] in U.
    exact (sib_diverges A1 st A2 (fst gj) s rel U Hs).
  - destruct vs as [|v vs']; [contradiction|].
    change (expand (A1 ++ st :: A2, v :: vs')) with ((A1 ++ st :: A2, v) :: expand (A1 ++ st :: A2, vs')).
    rewrite apply_t_cons. apply apply_t_keeps_none.
    + intros p Hp. apply In_expand in Hp. destruct Hp as [-> _]. cbn [fst].
      split; [exact W|apply untouched_self_sib; exact Hs].
    + unfold set_t. cbn [fst snd].
      exact (walk_t_clears_mid A1 st A2 [] v M0 s rel W HA2 Hs HM).
Qed.
End RebuildRep.

(* ---------- the whole request, query keys with several values ---------- *)
Section RequestRep.
Variable ofloat : bool -> bytes -> option N.
Variable owkt : wkt -> bool -> bytes -> option subtree.

(* one query key as the client wrote it: key, its field path, and for every occurrence of the key,
   in order of appearance, the text and the value it stands for *)
Definition rqleaf := (bytes * list step * list (bytes * pval))%type.
Definition rqleaf_ok (sch : schema) (root : list field) (l : rqleaf) : Prop :=
  match l with (key, fds, tvs) =>
    field_path sch root (split_dots [] key) = Some fds /\
    Forall (fun tv => parse_param ofloat owkt sch fds (fst tv) = Ok (snd tv)) tvs end.
Definition rqleaf_query (l : rqleaf) : bytes * list bytes := match l with (key, _, tvs) => (key, map fst tvs) end.
Definition rqleaf_group (l : rqleaf) : leafg := match l with (_, fds, tvs) => (fds, map snd tvs) end.
Definition pleaf_group (l : pleaf) : leafg := (fst (fst l), [snd l]).

Lemma parse_values_leaves sch fds : forall tvs,
  Forall (fun tv => parse_param ofloat owkt sch fds (fst tv) = Ok (snd tv)) tvs ->
  parse_values ofloat owkt sch fds (map fst tvs) = Ok (expand (fds, map snd tvs)).
Proof.
  induction tvs as [|[t v] tvs IH]; intros H; [reflexivity|].
  inversion H as [|? ? Hp Hr]; subst. cbn [fst snd] in Hp. cbn [map fst snd parse_values]. rewrite Hp. cbn [bind].
  rewrite (IH Hr). reflexivity.
Qed.

Lemma parse_query_rleaves : forall sch root ls, Forall (rqleaf_ok sch root) ls ->
  parse_query ofloat owkt sch root (map rqleaf_query ls) = Ok (concat (map expand (map rqleaf_group ls))).
Proof.
  induction ls as [|[[key fds] tvs] ls IH]; intros H; [reflexivity|].
  inversion H as [|? ? Hok Hr]; subst. cbn in Hok. destruct Hok as [Hf Hp].
  cbn [map rqleaf_query parse_query rqleaf_group concat]. rewrite Hf, (parse_values_leaves sch fds tvs Hp). cbn [bind].
  rewrite (IH Hr). reflexivity.
Qed.

Lemma concat_pleaf_groups (X : list pleaf) :
  concat (map expand (map pleaf_group X)) = map (fun l => (fst (fst l), snd l)) X.
Proof. induction X as [|x X IH]; [reflexivity|]. cbn [map concat]. rewrite IH. reflexivity. Qed.
End RequestRep.

Section RoundTripRep.
Variable ofloat : bool -> bytes -> option N.
Variable owkt : wkt -> bool -> bytes -> option subtree.
Variable marshal : nat -> nat -> subtree -> bytes.
Variable unmarshal : nat -> nat -> bytes -> option subtree.
Hypothesis codec_inverse : forall c ty t, unmarshal c ty (marshal c ty t) = Some t.
Variable deflate : bytes -> bytes.
Variable inflate : bytes -> option bytes.
Hypothesis gzip_inverse : forall b, inflate (deflate b) = Some b.

Definition split_request_rep (sch : schema) (r : rule) (pls : list pleaf) (qls : list rqleaf)
           (body : option subtree) (codec : nat) (gz : bool) : request :=
  mkReq (map (fun l => snd (fst l)) pls) (map rqleaf_query qls)
        (option_map (fun t => let b := marshal codec (body_type sch r) t in if gz then deflate b else b) body)
        (Some codec) gz.

(* the leaves of a request: the query keys (in the iteration order of the map), then the path
   variables, innermost first; one value per variable *)
Definition split_groups (pls : list pleaf) (qls : list rqleaf) : list leafg :=
  map rqleaf_group qls ++ rev (map pleaf_group pls).

Lemma split_groups_concat pls qls :
  concat (map expand (split_groups pls qls)) =
  concat (map expand (map rqleaf_group qls)) ++ rev (map (fun l => (fst (fst l), snd l)) pls).
Proof.
  unfold split_groups. rewrite map_app, concat_app, <- map_rev, concat_pleaf_groups, map_rev. reflexivity.
Qed.

(* the request is served, and the handler's message is the one params.set builds from the body part *)
Lemma decode_request_rep : forall sch r pls qls body codec gz M0,
  r_vars r = map (fun l => fst (fst l)) pls ->
  Forall (pleaf_ok ofloat owkt sch) pls ->
  Forall (rqleaf_ok ofloat owkt sch (msg_fields sch (r_input r))) qls ->
  (r_body r = BNone -> body = None) ->
  body_image r body = Ok M0 ->
  decode_request ofloat owkt unmarshal inflate sch r (split_request_rep sch r pls qls body codec gz) =
  params_set (concat (map expand (split_groups pls qls))) M0.
Proof.
  intros sch r pls qls body codec gz M0 Hv Hp Hq Hnone Hb.
  set (rq := split_request_rep sch r pls qls body codec gz).
  set (enc := fun t : subtree => let b := marshal codec (body_type sch r) t in if gz then deflate b else b).
  assert (Ec : q_caps rq = map (fun l => snd (fst l)) pls) by reflexivity.
  assert (Eq : q_query rq = map rqleaf_query qls) by reflexivity.
  assert (Eg : q_gzip rq = gz) by reflexivity.
  assert (Ebd : q_body rq = option_map enc body) by reflexivity.
  assert (Ecd : q_codec rq = Some codec) by reflexivity.
  assert (Einf : forall t, (if gz then inflate (enc t) else Some (enc t)) = Some (marshal codec (body_type sch r) t)).
  { intros t. unfold enc. destruct gz; [apply gzip_inverse|reflexivity]. }
  unfold decode_request. rewrite Ec, Eq, Hv, combine_pleaves, (path_params_leaves ofloat owkt sch pls Hp). cbn [bind].
  rewrite (parse_query_rleaves ofloat owkt sch _ qls Hq). cbn [bind].
  rewrite Eg, Ebd.
  assert (G : (if gz then match option_map enc body with Some b => inflate b | None => Some [] end else Some []) <> None).
  { destruct gz; [|discriminate]. destruct body as [t|]; cbn [option_map]; [|discriminate].
    pose proof (Einf t) as X. cbn in X. rewrite X. discriminate. }
  destruct (if gz then _ else _) as [x|]; [|contradiction]. clear G x.
  unfold recv_first. rewrite <- split_groups_concat. rewrite Ebd.
  assert (B : match r_body r, option_map enc body with
              | BStar, Some b => decode_body unmarshal inflate sch r rq [] b
              | BField fds, Some b => decode_body unmarshal inflate sch r rq fds b
              | _, _ => Ok []
              end = Ok M0).
  { unfold body_image in Hb. destruct (r_body r) as [| |fds] eqn:Eb.
    - pose proof (Hnone eq_refl) as Hbn. subst body. cbn [option_map]. exact Hb.
    - destruct body as [t|]; cbn [option_map]; [|exact Hb].
      unfold decode_body. cbn [body_walk bind steps_path map]. rewrite Ecd, Eg, Einf, codec_inverse. exact Hb.
    - destruct body as [t|]; cbn [option_map]; [|exact Hb].
      unfold decode_body. destruct (body_walk fds [] []) as [W| | |]; cbn [bind] in *; try discriminate.
      rewrite Ecd, Eg, Einf, codec_inverse. exact Hb. }
  rewrite B. cbn [bind]. reflexivity.
Qed.
End RoundTripRep.

(* ---------- what the hypotheses exclude, and where coherence comes from ---------- *)

(* two leaves that set, or walk through, two members of one oneof of one message touch each other:
   the result would depend on the order (Go's map order for two query keys), as for two spellings
   of one field; the theorems do not speak about such requests (ex_oneof_race below) *)
Lemma oneof_members_touch : forall A1 stA A2 B1 stB B2,
  steps_path A1 = steps_path B1 ->
  In (step_num stB) (sibs (fst stA) (snd stA)) ->
  untouched (A1 ++ stA :: A2) (steps_path (B1 ++ stB :: B2)) = false.
Proof.
  induction A1 as [|a A1 IH]; intros stA A2 B1 stB B2 E Hs.
  - destruct B1 as [|b B1]; [|discriminate]. cbn [app steps_path map untouched].
    rewrite N.eqb_sym. unfold step_num at 1. rewrite (sib_not_self _ _ _ Hs).
    apply negb_false_iff. apply existsb_exists. exists (step_num stB). split; [exact Hs|apply N.eqb_refl].
  - destruct B1 as [|b B1]; [discriminate|]. cbn [steps_path map] in E. inversion E as [[E1 E2]].
    change ((a :: A1) ++ stA :: A2) with (a :: (A1 ++ stA :: A2)).
    change ((b :: B1) ++ stB :: B2) with (b :: (B1 ++ stB :: B2)).
    cbn [steps_path map untouched]. rewrite E1, N.eqb_refl.
    destruct (A1 ++ stA :: A2) eqn:EA; [destruct A1; discriminate|]. rewrite <- EA.
    exact (IH stA A2 B1 stB B2 E2 Hs).
Qed.

(* two spellings of one repeated field are two leaves with one path: they touch each other *)
Lemma same_path_touch : forall A B, A <> [] -> steps_path A = steps_path B -> untouched A (steps_path B) = false.
Proof.
  induction A as [|a A IH]; intros B HA E; [contradiction|].
  destruct B as [|b B]; [discriminate|]. cbn [steps_path map] in E. inversion E as [[E1 E2]].
  cbn [steps_path map untouched]. rewrite E1, N.eqb_refl.
  destruct A as [|a2 A2]; [reflexivity|]. apply IH; [discriminate|exact E2].
Qed.

(* field paths resolved by fieldPath in one schema are coherent when field numbers are unique *)
Lemma NoDup_map_inj {A B} (f : A -> B) : forall l a b, NoDup (map f l) -> In a l -> In b l -> f a = f b -> a = b.
Proof.
  induction l as [|x l IH]; intros a b N Ha Hb E; [destruct Ha|].
  cbn [map] in N. apply NoDup_cons_iff in N. destruct N as [Nx Nl].
  destruct Ha as [<-|Ha]; destruct Hb as [<-|Hb]; auto.
  - exfalso. apply Nx. rewrite E. apply in_map. exact Hb.
  - exfalso. apply Nx. rewrite <- E. apply in_map. exact Ha.
Qed.

Lemma find_by_In key : forall pf n f, find_by key pf n = Some f -> In f pf.
Proof.
  induction pf as [|g pf IH]; intros n f H; [discriminate|]. cbn [find_by] in H.
  destruct (bytes_eqb (key g) n); [inversion H; left; reflexivity|right; eapply IH; exact H].
Qed.
Lemma find_field_In pf n f : find_field pf n = Some f -> In f pf.
Proof.
  unfold find_field. destruct (find_by f_json pf n) eqn:E.
  - intros H. inversion H; subst. eapply find_by_In. exact E.
  - apply find_by_In.
Qed.

Lemma field_path_cons sch pf n rest A : field_path sch pf (n :: rest) = Some A ->
  exists fd A', find_field pf n = Some fd /\ A = (pf, fd) :: A' /\
    ((rest = [] /\ A' = []) \/
     (exists m, rest <> [] /\ field_msg fd = Some m /\ field_path sch (msg_fields sch m) rest = Some A')).
Proof.
  cbn [field_path]. destruct (find_field pf n) as [fd|]; [|discriminate].
  destruct rest as [|n2 rest2].
  - intros H. inversion H; subst. exists fd, []. split; [reflexivity|]. split; [reflexivity|]. left. split; reflexivity.
  - destruct (field_msg fd) as [m|] eqn:Hm; [|discriminate].
    destruct (field_path sch (msg_fields sch m) (n2 :: rest2)) as [A'|] eqn:E; [|discriminate].
    intros H. inversion H; subst. exists fd, A'. split; [reflexivity|]. split; [reflexivity|]. right.
    exists m. split; [discriminate|]. split; [exact Hm|exact E].
Qed.

Lemma coherent_nil_r a : coherent a [].
Proof. destruct a; exact I. Qed.

Lemma field_path_coherent : forall sch,
  (forall m, NoDup (map f_num (msg_fields sch m))) ->
  forall na root nb A B, NoDup (map f_num root) ->
  field_path sch root na = Some A -> field_path sch root nb = Some B -> coherent A B.
Proof.
  intros sch U. induction na as [|n rest IH]; intros root nb A B Ur HA HB.
  - cbn in HA. inversion HA; subst. exact I.
  - destruct nb as [|n' rest']; [cbn in HB; inversion HB; subst; apply coherent_nil_r|].
    destruct (field_path_cons _ _ _ _ _ HA) as [fd [A' [Ff [-> HA']]]].
    destruct (field_path_cons _ _ _ _ _ HB) as [fd' [B' [Ff' [-> HB']]]].
    cbn [coherent]. unfold step_num. cbn [snd]. intros En.
    assert (Efd : fd = fd').
    { apply (NoDup_map_inj f_num root); [exact Ur|eapply find_field_In; exact Ff|eapply find_field_In; exact Ff'|exact En]. }
    subst fd'. split; [reflexivity|].
    destruct HA' as [[_ ->]|[m [_ [Hm HA']]]]; [exact I|].
    destruct HB' as [[_ ->]|[m' [_ [Hm' HB']]]]; [apply coherent_nil_r|].
    assert (m' = m) by congruence. subst m'.
    exact (IH (msg_fields sch m) rest' A' B' (U m) HA' HB').
Qed.

(* ---------- the iteration order of url.Values: any order of the keys is admissible ---------- *)
From Coq Require Import Permutation.

Definition tag_l (lg : list (nat * leafg)) : list (nat * param) :=
  concat (map (fun kg => map (pair (fst kg)) (expand (snd kg))) lg).

Lemma tag_l_cons x lg : tag_l (x :: lg) = map (pair (fst x)) (expand (snd x)) ++ tag_l lg.
Proof. reflexivity. Qed.

Lemma tag_l_perm : forall lg lg', Permutation lg lg' -> NoDup (map fst lg) -> same_per_key (tag_l lg) (tag_l lg').
Proof.
  intros lg lg' P. induction P as [|x l l' P IH|x y l|l l' l'' P1 IH1 P2 IH2]; intros ND k.
  - reflexivity.
  - rewrite !tag_l_cons. unfold occ. rewrite !filter_app. f_equal. apply IH. cbn [map] in ND. inversion ND; assumption.
  - rewrite !tag_l_cons. unfold occ. rewrite !filter_app, !filter_tag_map.
    cbn [map] in ND. inversion ND as [|? ? Nx _]; subst.
    destruct (Nat.eqb (fst y) k) eqn:Ey; destruct (Nat.eqb (fst x) k) eqn:Ex; cbn [app]; try reflexivity.
    exfalso. apply Nx. left. apply Nat.eqb_eq in Ey. apply Nat.eqb_eq in Ex. congruence.
  - eapply same_per_key_trans; [apply IH1; exact ND|apply IH2].
    exact (Permutation_NoDup (Permutation_map fst P1) ND).
Qed.

Lemma tag_from_l : forall gs n, tag_from n gs = tag_l (combine (seq n (length gs)) gs).
Proof. induction gs as [|g gs IH]; intros n; [reflexivity|]. cbn [tag_from length seq combine]. rewrite tag_l_cons, IH. reflexivity. Qed.
Lemma map_snd_tag_l : forall lg, map snd (tag_l lg) = concat (map expand (map snd lg)).
Proof.
  induction lg as [|x lg IH]; [reflexivity|]. rewrite tag_l_cons, map_app, IH, map_map. cbn [snd map concat].
  rewrite map_id. reflexivity.
Qed.
Lemma combine_seq_snd {A} : forall (gs : list A) n, map snd (combine (seq n (length gs)) gs) = gs.
Proof. induction gs as [|g gs IH]; intros n; [reflexivity|]. cbn. rewrite IH. reflexivity. Qed.
Lemma combine_seq_fst {A} : forall (gs : list A) n, map fst (combine (seq n (length gs)) gs) = seq n (length gs).
Proof. induction gs as [|g gs IH]; intros n; [reflexivity|]. cbn. rewrite IH. reflexivity. Qed.

(* leaf after leaf, with the leaves taken in any order, is an admissible list *)
Lemma admissible_perm gs gs' : Permutation gs gs' -> admissible gs (concat (map expand gs')).
Proof.
  intros P. set (lg := combine (seq 0 (length gs)) gs).
  assert (P' : Permutation gs' (map snd lg)) by (unfold lg; rewrite combine_seq_snd; apply Permutation_sym; exact P).
  destruct (Permutation_map_inv snd _ P') as [l3 [E3 P3]].
  apply admissible_same. exists (tag_l l3). split.
  - rewrite map_snd_tag_l, <- E3. reflexivity.
  - unfold tagged. rewrite tag_from_l. fold lg. apply tag_l_perm; [exact P3|].
    unfold lg. rewrite combine_seq_fst. apply seq_NoDup.
Qed.

(* ---------- the statements ---------- *)

(* "the message is rebuilt": what M' is, given the leaves gs and the message M0 the parameters were
   applied to (the body part) *)
Definition rebuilt (gs : list leafg) (M0 M' : msg) : Prop :=
  (* a singular leaf: exactly the image of its value (of the last one, if the key came several times) *)
  (forall i fds vs d rel, nth_error gs i = Some (fds, vs) -> singular_last fds -> vs <> [] ->
     lookup (steps_path fds ++ rel) M' = lookup rel (field_image (snd (last_step fds)) (last vs d))) /\
  (* a repeated leaf: its values, in order, after the items M0 had there; nothing changes under it *)
  (forall i fds vs, nth_error gs i = Some (fds, vs) -> f_card (snd (last_step fds)) = Repeated ->
     list_at (steps_path fds) M' = list_at (steps_path fds) M0 ++ map item_of vs /\
     (vs <> [] -> lookup (steps_path fds) M' = Some (EList (list_at (steps_path fds) M0 ++ map item_of vs))) /\
     (forall a r, lookup (steps_path fds ++ a :: r) M' = lookup (steps_path fds ++ a :: r) M0)) /\
  (* every parent message of a leaf is present *)
  (forall i fds vs p r, nth_error gs i = Some (fds, vs) -> vs <> [] -> steps_path fds = p ++ r -> p <> [] -> r <> [] ->
     lookup p M' = Some EPresent) /\
  (* what no leaf touches is as in M0 *)
  (forall q, (forall g, In g gs -> untouched (fst g) q = true) -> lookup q M' = lookup q M0) /\
  (* no entry under the other members of the oneof of a singular leaf *)
  (forall i fds vs s rel, nth_error gs i = Some (fds, vs) -> singular_last fds -> vs <> [] ->
     In s (sibs (fst (last_step fds)) (snd (last_step fds))) ->
     lookup (removelast (steps_path fds) ++ s :: rel) M' = None) /\
  (* no entry under the other members of the oneof of a message on the way to a leaf, unless M0
     had that message set and entries under the other members as well *)
  (forall i A1 st A2 vs s rel, nth_error gs i = Some (A1 ++ st :: A2, vs) -> vs <> [] -> A2 <> [] ->
     In s (sibs (fst st) (snd st)) ->
     (lookup (steps_path A1 ++ [step_num st]) M0 = Some EPresent -> lookup (steps_path A1 ++ s :: rel) M0 = None) ->
     lookup (steps_path A1 ++ s :: rel) M' = None).

(* the hypotheses on the leaves: each walkable; different leaves do not touch each other and
   resolve common field numbers to common fields *)
Definition leaves_ok (gs : list leafg) : Prop :=
  (forall g, In g gs -> walkable (fst g) = true) /\
  (forall i j gi gj, i <> j -> nth_error gs i = Some gi -> nth_error gs j = Some gj ->
     untouched (fst gj) (steps_path (fst gi)) = true /\ coherent (fst gi) (fst gj)).

Theorem params_rebuild_rep : forall gs, leaves_ok gs ->
  forall l M0 M', admissible gs l -> params_set l M0 = Ok M' -> rebuilt gs M0 M'.
Proof.
  intros gs [W I] l M0 M' Ha H.
  destruct (rebuild_rep gs W I l M0 M' Ha H) as [C1 [C2 [C3 [C4 C5]]]].
  split; [exact C1|]. split; [exact C2|]. split; [exact C3|]. split; [exact C4|]. split; [exact C5|].
  intros i A1 st A2 vs s rel Hi Hv HA2 Hs HM.
  exact (mid_sibs_cleared gs W I l M0 M' i A1 st A2 vs s rel Ha H Hi Hv HA2 Hs HM).
Qed.

Theorem repeated_order_free : forall gs, leaves_ok gs ->
  forall l1 l2 M0, admissible gs l1 -> admissible gs l2 ->
  exists M1 M2, params_set l1 M0 = Ok M1 /\ params_set l2 M0 = Ok M2 /\ meq M1 M2.
Proof.
  intros gs [W I] l1 l2 M0 H1 H2.
  destruct (admissible_ok gs W l1 M0 H1) as [M1 E1]. destruct (admissible_ok gs W l2 M0 H2) as [M2 E2].
  exists M1, M2. split; [exact E1|]. split; [exact E2|]. exact (order_free gs W I l1 l2 M0 M1 M2 H1 H2 E1 E2).
Qed.

Section RoundTripRepThm.
Variable ofloat : bool -> bytes -> option N.
Variable owkt : wkt -> bool -> bytes -> option subtree.
Variable marshal : nat -> nat -> subtree -> bytes.
Variable unmarshal : nat -> nat -> bytes -> option subtree.
Hypothesis codec_inverse : forall c ty t, unmarshal c ty (marshal c ty t) = Some t.
Variable deflate : bytes -> bytes.
Variable inflate : bytes -> option bytes.
Hypothesis gzip_inverse : forall b, inflate (deflate b) = Some b.

Theorem roundtrip_rep : forall sch r pls qls body codec gz M0,
  r_vars r = map (fun l => fst (fst l)) pls ->
  Forall (pleaf_ok ofloat owkt sch) pls ->
  Forall (rqleaf_ok ofloat owkt sch (msg_fields sch (r_input r))) qls ->
  leaves_ok (split_groups pls qls) ->
  (r_body r = BNone -> body = None) ->
  body_image r body = Ok M0 ->
  exists M',
    decode_request ofloat owkt unmarshal inflate sch r (split_request_rep marshal deflate sch r pls qls body codec gz) = Ok M' /\
    rebuilt (split_groups pls qls) M0 M' /\
    (* the same message as params.set builds from any admissible list of the parameters *)
    (forall l, admissible (split_groups pls qls) l -> exists M'', params_set l M0 = Ok M'' /\ meq M'' M') /\
    (* and as the request with the keys of the query in any other order *)
    (forall qls', Permutation qls qls' -> exists M'',
       decode_request ofloat owkt unmarshal inflate sch r (split_request_rep marshal deflate sch r pls qls' body codec gz) = Ok M'' /\
       meq M'' M').
Proof.
  intros sch r pls qls body codec gz M0 Hv Hp Hq Hok Hnone Hb.
  pose proof (decode_request_rep ofloat owkt marshal unmarshal codec_inverse deflate inflate gzip_inverse
                sch r pls qls body codec gz M0 Hv Hp Hq Hnone Hb) as D.
  pose proof (admissible_concat (split_groups pls qls)) as A0.
  destruct Hok as [W I].
  destruct (admissible_ok _ W _ M0 A0) as [M' HM'].
  exists M'. split; [rewrite D; exact HM'|]. split; [|split].
  - exact (params_rebuild_rep _ (conj W I) _ M0 M' A0 HM').
  - intros l Hl. destruct (admissible_ok _ W l M0 Hl) as [M'' HM'']. exists M''. split; [exact HM''|].
    exact (order_free _ W I l _ M0 M'' M' Hl A0 HM'' HM').
  - intros qls' P.
    assert (Hq' : Forall (rqleaf_ok ofloat owkt sch (msg_fields sch (r_input r))) qls').
    { apply Forall_forall. intros x Hx. rewrite Forall_forall in Hq. apply Hq.
      exact (Permutation_in x (Permutation_sym P) Hx). }
    pose proof (decode_request_rep ofloat owkt marshal unmarshal codec_inverse deflate inflate gzip_inverse
                  sch r pls qls' body codec gz M0 Hv Hp Hq' Hnone Hb) as D'.
    assert (A' : admissible (split_groups pls qls) (concat (map expand (split_groups pls qls')))).
    { apply admissible_perm. unfold split_groups. apply Permutation_app_tail. apply Permutation_map. exact P. }
    destruct (admissible_ok _ W _ M0 A') as [M'' HM'']. exists M''. split; [rewrite D'; exact HM''|].
    exact (order_free _ W I _ _ M0 M'' M' A' A0 HM'' HM').
Qed.
End RoundTripRepThm.

(* ---------- examples ---------- *)
Definition xo_float (_ : bool) (_ : bytes) : option N := None.
Definition xo_wkt (_ : wkt) (_ : bool) (_ : bytes) : option subtree := None.
(* message Root { string n = 1; repeated int32 r = 5; oneof o { string a = 6; int32 b = 7; Inner s = 8; } }
   message Inner { string t = 1; } *)
Definition x_n := mkField 1 [110] [110] KString Singular None false.
Definition x_r := mkField 5 [114] [114] KInt32 Repeated None false.
Definition x_a := mkField 6 [97] [97] KString Singular (Some 0%nat) true.
Definition x_b := mkField 7 [98] [98] KInt32 Singular (Some 0%nat) true.
Definition x_s := mkField 8 [115] [115] (KMessage 1) Singular (Some 0%nat) true.
Definition x_t := mkField 1 [116] [116] KString Singular None false.
Definition x_root := [x_n; x_r; x_a; x_b; x_s].
Definition x_sch := mkSchema [mkMsg WNone x_root; mkMsg WNone [x_t]] [].
Definition p_r (z : Z) : param := ([(x_root, x_r)], PScalar (SInt z)).
Definition p_n : param := ([(x_root, x_n)], PScalar (SStr [120])).

(* ?r=1&n=x&r=2&r=3 and ?r=1&r=2&n=x&r=3 (and n first): the same message *)
Definition x_msg : msg :=
  [([5], EList [IScalar (SInt 1); IScalar (SInt 2); IScalar (SInt 3)]); ([1], ELeaf (SStr [120]))].
Example ex_rep_interleaved :
  params_set [p_r 1; p_n; p_r 2; p_r 3] [] = Ok x_msg /\
  params_set [p_r 1; p_r 2; p_n; p_r 3] [] = Ok x_msg /\
  params_set [p_n; p_r 1; p_r 2; p_r 3] [] = Ok x_msg.
Proof. vm_compute. repeat split; reflexivity. Qed.

(* these lists are admissible for the leaves r = [1; 2; 3], n = "x", and the leaves satisfy the
   hypotheses of the theorems *)
Definition x_gs : list leafg :=
  [([(x_root, x_r)], [PScalar (SInt 1); PScalar (SInt 2); PScalar (SInt 3)]); ([(x_root, x_n)], [PScalar (SStr [120])])].
Example ex_rep_admissible :
  admissible x_gs [p_r 1; p_n; p_r 2; p_r 3] /\ admissible x_gs [p_r 1; p_r 2; p_n; p_r 3] /\
  admissible x_gs [p_n; p_r 1; p_r 2; p_r 3].
Proof.
  split; [|split].
  - exists [(0%nat, p_r 1); (1%nat, p_n); (0%nat, p_r 2); (0%nat, p_r 3)]. split; [reflexivity|].
    intros k. destruct k as [|[|k]]; [reflexivity|reflexivity|]. destruct k; reflexivity.
  - exists [(0%nat, p_r 1); (0%nat, p_r 2); (1%nat, p_n); (0%nat, p_r 3)]. split; [reflexivity|].
    intros k. destruct k as [|[|k]]; [reflexivity|reflexivity|]. destruct k; reflexivity.
  - exists [(1%nat, p_n); (0%nat, p_r 1); (0%nat, p_r 2); (0%nat, p_r 3)]. split; [reflexivity|].
    intros k. destruct k as [|[|k]]; [reflexivity|reflexivity|]. destruct k; reflexivity.
Qed.
Example ex_rep_leaves_ok : leaves_ok x_gs.
Proof.
  split.
  - intros g [<-|[<-|[]]]; reflexivity.
  - intros i j gi gj Hij Hi Hj.
    destruct i as [|[|i]]; destruct j as [|[|j]]; cbn in Hi, Hj; try congruence;
      try (destruct i; discriminate); try (destruct j; discriminate);
      inversion Hi; inversion Hj; subst; (split; [reflexivity|]);
      unfold coherent; intros E; vm_compute in E; discriminate E.
Qed.

(* the same through the whole request, body "*" carrying a = "old": the two iteration orders of the
   query give messages with the same entries *)
Definition x_rule := mkRule 0 [] BStar.
Definition x_body : subtree := [([6], ELeaf (SStr [111; 108; 100]))].
Definition x_unm (_ _ : nat) (_ : bytes) : option subtree := Some x_body.
Definition x_infl (b : bytes) : option bytes := Some b.
Definition x_req (q : list (bytes * list bytes)) : request := mkReq [] q (Some []) (Some 0%nat) false.
Definition x_serve (q : list (bytes * list bytes)) : outcome msg :=
  decode_request xo_float xo_wkt x_unm x_infl x_sch x_rule (x_req q).
Example ex_rep_request :
  x_serve [([114], [[49]; [50]; [51]]); ([110], [[120]])] =
    Ok [([1], ELeaf (SStr [120])); ([5], EList [IScalar (SInt 1); IScalar (SInt 2); IScalar (SInt 3)]);
        ([6], ELeaf (SStr [111; 108; 100]))] /\
  x_serve [([110], [[120]]); ([114], [[49]; [50]; [51]])] =
    Ok [([5], EList [IScalar (SInt 1); IScalar (SInt 2); IScalar (SInt 3)]); ([1], ELeaf (SStr [120]));
        ([6], ELeaf (SStr [111; 108; 100]))].
Proof. vm_compute. split; reflexivity. Qed.

Definition x_qls : list rqleaf :=
  [([114], [(x_root, x_r)], [([49], PScalar (SInt 1)); ([50], PScalar (SInt 2)); ([51], PScalar (SInt 3))]);
   ([110], [(x_root, x_n)], [([120], PScalar (SStr [120]))])].
Example ex_rep_roundtrip_hyps :
  r_vars x_rule = map (fun l => fst (fst l)) ([] : list pleaf) /\
  Forall (pleaf_ok xo_float xo_wkt x_sch) [] /\
  Forall (rqleaf_ok xo_float xo_wkt x_sch (msg_fields x_sch (r_input x_rule))) x_qls /\
  split_groups [] x_qls = x_gs /\
  map rqleaf_query x_qls = [([114], [[49]; [50]; [51]]); ([110], [[120]])] /\
  body_image x_rule (Some x_body) = Ok x_body.
Proof.
  split; [reflexivity|]. split; [constructor|]. split.
  - repeat constructor.
  - repeat split; reflexivity.
Qed.

(* oneof: the body carries a = "old".  ?b=5 leaves no entry for a; ?s.t=z (Mutable on the way)
   neither *)
Example ex_oneof_cleared :
  x_serve [([98], [[53]])] = Ok [([7], ELeaf (SInt 5))] /\
  x_serve [([115; 46; 116], [[122]])] = Ok [([8; 1], ELeaf (SStr [122])); ([8], EPresent)].
Proof. vm_compute. split; reflexivity. Qed.

(* two keys for two members of one oneof: the last one in map order wins -- such requests are
   outside the theorems (oneof_members_touch) *)
Example ex_oneof_race :
  x_serve [([98], [[53]]); ([97], [[120]])] = Ok [([6], ELeaf (SStr [120]))] /\
  x_serve [([97], [[120]]); ([98], [[53]])] = Ok [([7], ELeaf (SInt 5))] /\
  untouched [(x_root, x_b)] (steps_path [(x_root, x_a)]) = false.
Proof. vm_compute. repeat split; reflexivity. Qed.

Example ex_oneof_hyps :
  leaves_ok [([(x_root, x_b)], [PScalar (SInt 5)])] /\
  sibs x_root x_b = [6; 8] /\
  leaves_ok [([(x_root, x_s); ([x_t], x_t)], [PScalar (SStr [122])])] /\
  sibs x_root x_s = [6; 7].
Proof.
  assert (H : forall g : leafg, walkable (fst g) = true -> leaves_ok [g]).
  { intros g W. split.
    - intros g' [<-|[]]. exact W.
    - intros i j gi gj Hij Hi Hj. destruct i as [|i]; destruct j as [|j]; try congruence;
        cbn in Hi, Hj; try (destruct i; discriminate); destruct j; discriminate. }
  split; [apply H; reflexivity|]. split; [reflexivity|]. split; [apply H; reflexivity|reflexivity].
Qed.

(* why coherence is asked: two field paths that walk field 8 as a member of the oneof {6, 7, 8}
   (the first) and as a plain field (the second) do not touch each other, but whichever comes
   first decides whether field 6 is cleared *)
Definition x_s' := mkField 8 [115] [115] (KMessage 1) Singular None true.
Definition x_u := mkField 2 [117] [117] KString Singular None false.
Definition p_st : param := ([(x_root, x_s); ([x_t], x_t)], PScalar (SStr [122])).
Definition p_su : param := ([([x_n; x_s'], x_s'); ([x_t; x_u], x_u)], PScalar (SStr [122])).
Definition at6 (o : outcome msg) : option (option entry) := match o with Ok M => Some (lookup [6] M) | _ => None end.
Example ex_incoherent_race :
  untouched (fst p_st) (steps_path (fst p_su)) = true /\ untouched (fst p_su) (steps_path (fst p_st)) = true /\
  at6 (params_set [p_st; p_su] x_body) = Some None /\
  at6 (params_set [p_su; p_st] x_body) = Some (Some (ELeaf (SStr [111; 108; 100]))).
Proof. vm_compute. repeat split; reflexivity. Qed.
