(* Proofs for C06: the modelled RecvMsg loops of every transport refine the schedule-free stream
   parsers of Spec/StreamSpec.v, for every read schedule; the parsers invert the writers; a body
   cut strictly inside a message gives the complete prefix followed by an error. Builds on the
   per-call refinement of ReadNext proved for C17 (Proofs/CodecProofs.v). *)
From Larking Require Import Base.GoSem Base.Reader Base.Varint Base.B64 Spec.Frames Spec.StreamSpec
  Model.Codec Model.StreamHTTP Model.GrpcFrame Proofs.CodecProofs.

(* ================= HTTP transcoding ================= *)

(* the stream state stands for the not yet parsed rest L of the logical stream *)
Definition hinv (st : hst) (L : bytes) : Prop :=
  (rEOF st = false /\ L = rbuf st ++ rem (hsrc st)) \/ (rEOF st = true /\ L = []).

Definition step_ok (c : codec) (limit : nat) (valid : bytes -> bool) (L : bytes) (r : hcall) : Prop :=
  match r with
  | HRet (RFrame m) st' => exists rest, parse c limit L = FMsg m rest /\ vld c valid m = true /\ hinv st' rest
  | HRet RParams _ => False
  | HStop e _ =>
      (e = EEOF /\ parse c limit L = FEnd) \/ (e <> EEOF /\ parse c limit L = FErr e) \/
      (e = EInvalid /\ exists m rest, parse c limit L = FMsg m rest /\ vld c valid m = false)
  | HPanic | HFuel => False
  end.

Lemma slice_from_ok {A} n (l : list A) : n <= length l -> slice_from n l = Ok (skipn n l).
Proof. intros H. unfold slice_from. apply Nat.leb_le in H. now rewrite H. Qed.
Lemma slice0_ok {A} n (l : list A) : n <= length l -> slice 0 n l = Ok (firstn n l).
Proof.
  intros H. unfold slice. apply Nat.leb_le in H. rewrite H. cbn [Nat.leb andb skipn]. now rewrite Nat.sub_0_r.
Qed.

Lemma recv_msg_step cf valid st L :
  streamingClient cf = true -> withBody cf = true -> 0 < hlimit cf -> (N.of_nat (hlimit cf) < 2 ^ 63)%N ->
  hinv st L -> step_ok (hcodec cf) (hlimit cf) valid L (recv_msg cf valid st).
Proof.
  intros Hsc Hwb Hl Hi Hinv. unfold recv_msg, read_msg. rewrite Hwb, Hsc.
  destruct Hinv as [[HE HL] | [HE HL]]; rewrite HE.
  2: { subst L. cbn [step_ok]. left. split; [reflexivity|]. now apply parse_nil. }
  pose proof (read_next_refines (hcodec cf) (rbuf st) (hsrc st) (hlimit cf) Hl Hi) as R. rewrite <- HL in R.
  destruct (read_next (hcodec cf) (rbuf st) (hsrc st) (hlimit cf)) as [dst n [e|] s'| |]; cbn [refines] in R; try contradiction.
  - assert (Hoth : e <> EEOF -> n = 0 /\ parse (hcodec cf) (hlimit cf) L = FErr e ->
      step_ok (hcodec cf) (hlimit cf) valid L
        (match match slice_from n dst, slice 0 n dst with
               | Ok rest, Ok _ => HStop e (HSt rest s' false (S (recvCount st)))
               | _, _ => HPanic end with
         | HRet (RFrame m) st' => match hcodec cf with
                                  | CBody => HRet (RFrame m) st'
                                  | _ => if valid m then HRet (RFrame m) st' else HStop EInvalid st' end
         | r => r end)).
    { intros Hne [-> Hp]. rewrite slice_from_ok, slice0_ok by lia. cbn [step_ok]. right. left. auto. }
    destruct e; try (apply Hoth; [discriminate|exact R]). clear Hoth.
    destruct R as [(-> & Hp & Hd) | (Hc & Hn & Hle & Hp & Hr)].
    + cbn [Nat.eqb step_ok]. left. auto.
    + destruct n as [|n']; [lia|]. cbn [Nat.eqb]. rewrite slice_from_ok, slice0_ok by lia.
      rewrite Hc. cbn [step_ok]. exists []. rewrite Hc in Hp. repeat split; auto.
      right. split; [reflexivity|]. destruct (skipn (S n') dst); [reflexivity|discriminate].
  - destruct R as (Hn & Hp & Hb). rewrite slice_from_ok, slice0_ok by lia.
    assert (Hinv' : hinv (HSt (skipn n dst) s' false (S (recvCount st))) (skipn n dst ++ rem s')).
    { left. split; reflexivity. }
    destruct (hcodec cf) eqn:C; cbn [step_ok vld].
    + destruct (valid (firstn n dst)) eqn:V; cbn [step_ok].
      * eexists. repeat split; eauto.
      * right. right. split; [reflexivity|]. do 2 eexists. split; eauto.
    + destruct (valid (firstn n dst)) eqn:V; cbn [step_ok].
      * eexists. repeat split; eauto.
      * right. right. split; [reflexivity|]. do 2 eexists. split; eauto.
    + eexists. repeat split; eauto.
Qed.

(* the handler's loop over RecvMsg is the schedule-free parse of the logical stream *)
Theorem http_recv_refines : forall fuel cf valid st L,
  streamingClient cf = true -> withBody cf = true -> 0 < hlimit cf -> (N.of_nat (hlimit cf) < 2 ^ 63)%N ->
  hinv st L -> length L < fuel ->
  fst (http_recv_all fuel cf valid st) = map RFrame (fst (http_stream fuel (hcodec cf) (hlimit cf) valid L)) /\
  end_rel (snd (http_recv_all fuel cf valid st)) (snd (http_stream fuel (hcodec cf) (hlimit cf) valid L)).
Proof.
  induction fuel as [|f IH]; intros cf valid st L Hsc Hwb Hl Hi Hinv Hf; [lia|].
  cbn [http_recv_all http_stream].
  pose proof (recv_msg_step cf valid st L Hsc Hwb Hl Hi Hinv) as S.
  destruct (recv_msg cf valid st) as [[m|] st'|e st'| |]; cbn [step_ok] in S; try contradiction.
  - destruct S as (rest & Hp & Hv & Hinv'). rewrite Hp, Hv.
    pose proof (parse_progress _ _ _ _ _ Hl Hp) as Hprog.
    specialize (IH cf valid st' rest Hsc Hwb Hl Hi Hinv' ltac:(lia)).
    destruct (http_recv_all f cf valid st') as [ms e].
    destruct (http_stream f (hcodec cf) (hlimit cf) valid rest) as [ms' e'].
    cbn [fst snd map] in *. destruct IH as [-> IH2]. auto.
  - destruct S as [[-> Hp] | [[Hne Hp] | (-> & m & rest & Hp & Hv)]].
    + rewrite Hp. cbn. auto.
    + rewrite Hp. destruct e; cbn; auto; congruence.
    + rewrite Hp, Hv. cbn. auto.
Qed.

Corollary http_recv_is_parser c limit valid s :
  0 < limit -> (N.of_nat limit < 2 ^ 63)%N ->
  let cf := HCfg c limit true true in
  let fuel := S (length (rem s)) in
  fst (http_recv_all fuel cf valid (hst0 s)) = map RFrame (fst (http_stream fuel c limit valid (rem s))) /\
  end_rel (snd (http_recv_all fuel cf valid (hst0 s))) (snd (http_stream fuel c limit valid (rem s))).
Proof.
  intros Hl Hi. cbv zeta.
  apply (http_recv_refines (S (length (rem s))) (HCfg c limit true true) valid (hst0 s) (rem s)); auto.
  left. split; reflexivity.
Qed.

(* with a codec that accepts every frame, and always for HttpBody chunks, this is Frames.parse_all *)
Lemma http_stream_body : forall fuel limit valid L,
  http_stream fuel CBody limit valid L = parse_all fuel CBody limit L.
Proof.
  induction fuel as [|f IH]; intros limit valid L; [reflexivity|]. cbn [http_stream parse_all].
  destruct (parse CBody limit L); try reflexivity. cbn [vld]. now rewrite IH.
Qed.
Lemma http_stream_all_valid : forall fuel c limit L,
  http_stream fuel c limit (fun _ => true) L = parse_all fuel c limit L.
Proof.
  induction fuel as [|f IH]; intros c limit L; [reflexivity|]. cbn [http_stream parse_all].
  destruct (parse c limit L); try reflexivity.
  replace (vld c (fun _ => true) m) with true by (destruct c; reflexivity). now rewrite IH.
Qed.

(* ---------- the parser inverts the writer: nothing phantom, dropped, merged, reordered ---------- *)
Theorem http_stream_roundtrip : forall msgs fuel c limit valid,
  0 < limit -> (N.of_nat limit < 2 ^ 63)%N -> Forall (fits c limit) msgs ->
  Forall (fun m => valid m = true) msgs ->
  length (concat (map (write_next c) msgs)) < fuel ->
  http_stream fuel c limit valid (concat (map (write_next c) msgs)) = (msgs, SClean).
Proof.
  induction msgs as [|m ms IH]; intros fuel c limit valid Hl Hi Hf Hv Hfuel.
  - destruct fuel; [lia|]. cbn [map concat http_stream]. now rewrite parse_nil.
  - inversion Hf as [|? ? Hm Hms]; subst. inversion Hv as [|? ? Hvm Hvms]; subst.
    destruct fuel as [|f]; [lia|].
    cbn [map concat http_stream]. rewrite (parse_write _ _ _ _ Hm Hi).
    replace (vld c valid m) with true by (destruct c; cbn [vld]; auto).
    pose proof (parse_progress c limit _ _ _ Hl (parse_write c limit m (concat (map (write_next c) ms)) Hm Hi)) as P.
    cbn [map concat] in Hfuel. rewrite IH; auto. lia.
Qed.

Theorem http_recv_roundtrip c msgs limit valid sch e :
  0 < limit -> (N.of_nat limit < 2 ^ 63)%N -> Forall (fits c limit) msgs ->
  Forall (fun m => valid m = true) msgs ->
  let L := concat (map (write_next c) msgs) in
  http_recv_all (S (length L)) (HCfg c limit true true) valid (hst0 (Src L sch e)) = (map RFrame msgs, EndClean).
Proof.
  intros Hl Hi Hf Hv. cbv zeta. set (L := concat (map (write_next c) msgs)).
  pose proof (http_recv_is_parser c limit valid (Src L sch e) Hl Hi) as H. cbv zeta in H. cbn [rem] in H.
  assert (P : http_stream (S (length L)) c limit valid L = (msgs, SClean)).
  { apply http_stream_roundtrip; auto. }
  rewrite P in H.
  destruct (http_recv_all (S (length L)) (HCfg c limit true true) valid (hst0 (Src L sch e))) as [ms en].
  cbn [fst snd] in H. destruct H as [-> H2]. destruct en; cbn in H2; try contradiction. reflexivity.
Qed.

(* HttpBody uploads: the chunks concatenate to the upload, none empty, none above the limit *)
Theorem http_recv_upload limit valid L sch e :
  0 < limit -> (N.of_nat limit < 2 ^ 63)%N ->
  exists chunks, http_recv_all (S (length L)) (HCfg CBody limit true true) valid (hst0 (Src L sch e)) = (map RFrame chunks, EndClean) /\
                 concat chunks = L /\ Forall (fun m => 0 < length m <= limit) chunks.
Proof.
  intros Hl Hi.
  pose proof (http_recv_is_parser CBody limit valid (Src L sch e) Hl Hi) as H. cbv zeta in H. cbn [rem] in H.
  rewrite http_stream_body in H.
  destruct (parse_all_body (S (length L)) limit L Hl ltac:(lia)) as (P1 & P2 & P3).
  exists (fst (parse_all (S (length L)) CBody limit L)).
  destruct (http_recv_all (S (length L)) (HCfg CBody limit true true) valid (hst0 (Src L sch e))) as [ms en].
  cbn [fst snd] in H. destruct H as [-> H2]. rewrite P1 in H2.
  destruct en; cbn in H2; try contradiction. auto.
Qed.

(* ---------- a request without a body; a request that is not a client stream ---------- *)
Theorem http_recv_nobody cf valid s n :
  withBody cf = false -> http_recv_all (S (S n)) cf valid (hst0 s) = ([RParams], EndClean).
Proof. intros H. cbn [http_recv_all]. unfold recv_msg. rewrite !H. cbn. reflexivity. Qed.

Lemma read_all_spec : forall fuel limit b s, length (rem s) < fuel -> length b <= limit ->
  match read_all fuel limit b s with
  | RaOk out s' => out = b ++ rem s /\ length (b ++ rem s) <= limit
  | RaErr e _ => e = ETooLarge /\ limit < length (b ++ rem s)
  | RaFuel => False
  end.
Proof.
  induction fuel as [|f IH]; intros limit b s Hf Hb; [lia|]. cbn [read_all].
  destruct (read_any s) as [[ch eof] s1] eqn:R.
  pose proof (read_any_split _ _ _ _ R) as Hs. pose proof (read_any_len _ _ _ _ R) as Hlen.
  destruct (Nat.ltb limit (length (b ++ ch))) eqn:C.
  - apply Nat.ltb_lt in C. split; [reflexivity|]. rewrite <- Hs, app_assoc, app_length. lia.
  - apply Nat.ltb_ge in C. destruct eof.
    + apply read_any_eof in R. rewrite R in Hs. rewrite app_nil_r in Hs. subst ch. auto.
    + pose proof (read_any_noeof_progress _ _ _ R) as Hne.
      specialize (IH limit (b ++ ch) s1 ltac:(destruct ch; [congruence|cbn [length] in Hlen; lia]) C).
      rewrite <- Hs, app_assoc. exact IH.
Qed.

Lemma recv_single_first c limit valid s : c <> CBody ->
  exists s', recv_msg (HCfg c limit false true) valid (hst0 s) =
    if Nat.ltb limit (length (rem s)) then HStop ETooLarge (HSt [] s' false 1)
    else if valid (rem s) then HRet (RFrame (rem s)) (HSt [] s' true 1) else HStop EInvalid (HSt [] s' true 1).
Proof.
  intros Hc. unfold recv_msg, read_msg. cbn [withBody streamingClient rEOF hst0 hsrc hlimit hcodec rbuf recvCount].
  pose proof (read_all_spec (S (S (length (rem s)))) limit [] s ltac:(lia) ltac:(cbn; lia)) as R.
  destruct (read_all (S (S (length (rem s)))) limit [] s) as [out s'|e s'|]; cbn [app] in R; try contradiction; exists s'.
  - destruct R as [-> Hle]. replace (Nat.ltb limit (length (rem s))) with false by (symmetry; apply Nat.ltb_ge; lia).
    destruct c; congruence.
  - destruct R as [-> Hlt]. replace (Nat.ltb limit (length (rem s))) with true by (symmetry; apply Nat.ltb_lt; lia).
    reflexivity.
Qed.

Theorem http_recv_single c limit valid s n :
  c <> CBody ->
  fst (http_recv_all (S (S n)) (HCfg c limit false true) valid (hst0 s)) = map RFrame (fst (single_request limit valid (rem s))) /\
  end_rel (snd (http_recv_all (S (S n)) (HCfg c limit false true) valid (hst0 s))) (snd (single_request limit valid (rem s))).
Proof.
  intros Hc. destruct (recv_single_first c limit valid s Hc) as [s' E].
  cbn [http_recv_all]. rewrite E. unfold single_request.
  destruct (Nat.ltb limit (length (rem s))); [cbn; auto|].
  destruct (valid (rem s)); cbn; auto.
Qed.

(* ---------- truncation: a body cut strictly inside a message ---------- *)
Lemma enc_f_prefix_cont : forall k v j, j < length (enc_f k v) -> Forall (fun y => (128 <= y)%N) (firstn j (enc_f k v)).
Proof.
  induction k as [|k IH]; intros v j Hj; cbn [enc_f] in *; [cbn in Hj; lia|].
  destruct (v <? 128)%N eqn:E.
  - cbn [length] in Hj. assert (j = 0) by lia. subst j. constructor.
  - destruct j as [|j']; [constructor|]. cbn [firstn length] in *. constructor; [lia|]. apply IH. lia.
Qed.

Lemma parse_proto_cut limit m j : length m <= limit -> (N.of_nat limit < 2 ^ 63)%N ->
  0 < j < length (write_proto m) -> parse_proto limit (firstn j (write_proto m)) = FErr EUnexpectedEOF.
Proof.
  intros Hm Hl Hj. unfold write_proto in *. set (v := N.of_nat (length m)) in *.
  set (ev := encode_varint v) in *. pose proof (encode_varint_len v) as Hlen. fold ev in Hlen.
  rewrite app_length in Hj.
  destruct (Nat.ltb j (length ev)) eqn:C.
  - apply Nat.ltb_lt in C. rewrite firstn_app. replace (j - length ev) with 0 by lia. cbn [firstn]. rewrite app_nil_r.
    unfold parse_proto. destruct (firstn j ev) eqn:F.
    { apply (f_equal (@length N)) in F. rewrite firstn_length in F. cbn [length] in F. lia. }
    rewrite <- F. unfold consume_varint. rewrite cv_all_cont; [reflexivity| |].
    + rewrite firstn_length. lia.
    + apply enc_f_prefix_cont. exact C.
  - apply Nat.ltb_ge in C. replace j with (length ev + (j - length ev)) by lia. rewrite firstn_app_len.
    unfold parse_proto. destruct (ev ++ firstn (j - length ev) m) eqn:F.
    { apply (f_equal (@length N)) in F. rewrite app_length in F. cbn [length] in F. lia. }
    rewrite <- F. unfold ev at 1. rewrite consume_encode by (unfold v; lia). fold ev.
    replace (N.of_nat limit <? v)%N with false by (unfold v; lia).
    pose proof (skipn_app_len ev (firstn (j - length ev) m) 0) as Sk. rewrite Nat.add_0_r in Sk. rewrite Sk. cbn [skipn].
    replace (Nat.ltb (length (firstn (j - length ev) m)) (N.to_nat v)) with true; [reflexivity|].
    symmetry. apply Nat.ltb_lt. rewrite firstn_length. unfold v. lia.
Qed.

Lemma json_step_depth st c st' : 1 <= depth st -> json_step st c = JCont st' -> 1 <= depth st'.
Proof.
  unfold json_step. intros Hd H.
  destruct (esc st); [inversion H; subst; cbn; lia|].
  destruct (inStr st).
  { destruct (c =? 92)%N; [inversion H; subst; cbn; lia|]. destruct (c =? 34)%N; inversion H; subst; cbn; lia. }
  destruct (c =? 123)%N; [inversion H; subst; cbn; lia|].
  destruct (c =? 125)%N.
  { destruct (depth st) as [|[|d]]; try discriminate. inversion H; subst. cbn. lia. }
  destruct (c =? 34)%N; inversion H; subst; cbn; lia.
Qed.
Lemma json_end_depth : forall room st l i st', 1 <= depth st -> json_scan room st l i = JEnd st' -> 1 <= depth st'.
Proof.
  induction room as [|r IH]; intros st l i st' Hd H; cbn [json_scan] in H; [discriminate|].
  destruct l as [|c l']; [inversion H; subst; exact Hd|].
  destruct (json_step st c) eqn:J; try discriminate. eapply IH; [|exact H]. eapply json_step_depth; eauto.
Qed.
(* a frame that ends exactly at the end of l: every strict prefix leaves the scanner waiting *)
Lemma json_prefix_end : forall room st l i n j, json_scan room st l i = JFrame n -> n = i + length l -> j < length l ->
  exists st', json_scan room st (firstn j l) i = JEnd st'.
Proof.
  induction room as [|r IH]; intros st l i n j H Hn Hj; cbn [json_scan] in H; [discriminate|].
  destruct l as [|c l']; [discriminate|]. cbn [length] in *.
  destruct j as [|j']; [cbn [firstn json_scan]; eauto|]. cbn [firstn json_scan].
  destruct (json_step st c) eqn:J; try discriminate.
  - eapply IH; [exact H|lia|lia].
  - inversion H; subst. lia.
Qed.

Definition json_obj (limit : nat) (m : bytes) : Prop := json_msg limit m /\ hd 0%N m = 123%N.

Lemma parse_json_cut limit m j : json_obj limit m -> 0 < j < length m ->
  parse_json limit (firstn j m) = FErr EUnexpectedEOF.
Proof.
  intros [Hm Hh] Hj. unfold json_msg in Hm. unfold parse_json.
  destruct m as [|c m']; [cbn in Hj; lia|]. cbn [hd] in Hh. subst c.
  destruct limit as [|r]; [discriminate|]. destruct j as [|j']; [lia|].
  cbn [firstn json_scan] in *. change (json_step jst0 123%N) with (JCont (JSt 1 false false)) in *. cbv iota in *.
  cbn [length] in *.
  destruct (json_prefix_end r (JSt 1 false false) m' 1 _ j' Hm ltac:(lia) ltac:(lia)) as [st' E].
  rewrite E. assert (D : 1 <= depth st') by (eapply json_end_depth; [|exact E]; cbn; lia).
  destruct (depth st'); [lia|reflexivity].
Qed.

(* a message of the stream as the client writes it: within the limit; a JSON text is an object *)
Definition wellformed (c : codec) (limit : nat) (m : bytes) : Prop :=
  match c with CProto => length m <= limit | CJSON => json_obj limit m | CBody => False end.
Lemma wellformed_fits c limit m : wellformed c limit m -> fits c limit m.
Proof. destruct c; cbn; auto. intros [H _]. exact H. Qed.

Lemma parse_cut c limit m j : wellformed c limit m -> (N.of_nat limit < 2 ^ 63)%N ->
  0 < j < length (write_next c m) -> parse c limit (firstn j (write_next c m)) = FErr EUnexpectedEOF.
Proof.
  destruct c; cbn [wellformed write_next parse]; intros H Hl Hj.
  - now apply parse_proto_cut.
  - now apply parse_json_cut.
  - contradiction.
Qed.

Theorem http_stream_truncated : forall pre fuel c limit valid m j,
  0 < limit -> (N.of_nat limit < 2 ^ 63)%N -> Forall (wellformed c limit) pre -> wellformed c limit m ->
  Forall (fun x => valid x = true) pre -> 0 < j < length (write_next c m) ->
  length (concat (map (write_next c) pre) ++ firstn j (write_next c m)) < fuel ->
  http_stream fuel c limit valid (concat (map (write_next c) pre) ++ firstn j (write_next c m)) = (pre, SErr EUnexpectedEOF).
Proof.
  induction pre as [|p ps IH]; intros fuel c limit valid m j Hl Hi Hw Hm Hv Hj Hfuel.
  - destruct fuel; [lia|]. cbn [map concat app http_stream]. now rewrite parse_cut.
  - inversion Hw as [|? ? Hp Hps]; subst. inversion Hv as [|? ? Hvp Hvps]; subst.
    destruct fuel as [|f]; [lia|]. cbn [map concat http_stream]. rewrite <- app_assoc.
    pose proof (parse_write c limit p (concat (map (write_next c) ps) ++ firstn j (write_next c m)) (wellformed_fits _ _ _ Hp) Hi) as PW.
    rewrite PW. replace (vld c valid p) with true by (destruct c; cbn [vld]; auto).
    pose proof (parse_progress c limit _ _ _ Hl PW) as P.
    cbn [map concat] in Hfuel. rewrite <- app_assoc in Hfuel. rewrite IH; auto. lia.
Qed.

(* the same for every cut offset k of the complete body that falls strictly inside message m *)
Corollary http_stream_cut_offset c limit valid pre m post k :
  0 < limit -> (N.of_nat limit < 2 ^ 63)%N -> Forall (wellformed c limit) pre -> wellformed c limit m ->
  Forall (fun x => valid x = true) pre ->
  length (concat (map (write_next c) pre)) < k < length (concat (map (write_next c) (pre ++ [m]))) ->
  let L := firstn k (concat (map (write_next c) (pre ++ m :: post))) in
  http_stream (S (length L)) c limit valid L = (pre, SErr EUnexpectedEOF).
Proof.
  intros Hl Hi Hw Hm Hv Hk. cbv zeta.
  rewrite map_app, concat_app in *. cbn [map concat] in *. rewrite app_nil_r in Hk. rewrite app_length in Hk.
  set (A := concat (map (write_next c) pre)) in *.
  replace k with (length A + (k - length A)) by lia. rewrite firstn_app_len.
  rewrite firstn_app. replace (k - length A - length (write_next c m)) with 0 by lia. cbn [firstn]. rewrite app_nil_r.
  apply http_stream_truncated; auto; lia.
Qed.

(* ================= gRPC / gRPC-web ================= *)

Lemma read_full_short : forall fuel need acc s out s',
  read_full fuel need acc s = Some (out, false, s') -> out = acc ++ rem s /\ rem s' = [] /\ length (rem s) < need.
Proof.
  induction fuel as [|f IH]; intros need acc s out s' H; destruct need as [|n]; cbn [read_full] in H; try discriminate.
  destruct (read1 (S n) s) as [[ch e] s1] eqn:R.
  pose proof (read1_split _ _ _ _ _ R) as Hs. pose proof (read1_len _ _ _ _ _ R) as Hl.
  destruct ch as [|c ch'].
  - inversion H; subst. cbn [app] in Hs.
    destruct (rem s) as [|x r] eqn:E.
    + destruct (read1_nil_eof _ _ _ _ _ R E) as (_ & _ & ->). rewrite E, app_nil_r. repeat split; auto. cbn; lia.
    + exfalso. eapply (read1_progress (S n)); eauto; [lia|congruence].
  - apply IH in H. destruct H as (H1 & H2 & H3). rewrite <- Hs. repeat split; auto.
    + rewrite H1, <- app_assoc. reflexivity.
    + rewrite app_length. lia.
Qed.

(* io.ReadFull over a reader with a tail: all [need] bytes, or the error of an exhausted stream *)
Lemma read_full_x_spec need x :
  match read_full_x need x with
  | Some (got, None, x') =>
      got = firstn need (rem (xs x)) /\ rem (xs x') = skipn need (rem (xs x)) /\ need <= length (rem (xs x)) /\ xtail x' = xtail x
  | Some (got, Some e, x') =>
      length (rem (xs x)) < need /\ e = short_err (xtail x) (negb (is_nil (rem (xs x)))) /\ rem (xs x') = [] /\ xtail x' = xtail x
  | None => False
  end.
Proof.
  unfold read_full_x.
  pose proof (read_full_total (S (length (rem (xs x)))) need [] (xs x) ltac:(lia)) as T.
  destruct (read_full (S (length (rem (xs x)))) need [] (xs x)) as [[[got ok] s']|] eqn:R; [|congruence].
  destruct ok.
  - apply read_full_spec in R. destruct R as (R1 & R2 & R3). cbn [app] in R1. cbn [xs xtail]. auto.
  - apply read_full_short in R. destruct R as (R1 & R2 & R3). cbn [app] in R1. subst got. cbn [xs xtail]. auto.
Qed.

Definition gstep_ok (limit : nat) gunzip (valid : bytes -> bool) (t : tail) (R : bytes) (r : gcall) : Prop :=
  match r with
  | GRet m x' => exists flag p rest, parse_gframe (N.of_nat limit) t R = GMsg flag p rest /\
                   gmessage gunzip valid flag p = inl m /\ rem (xs x') = rest /\ xtail x' = t
  | GStop e _ =>
      (e = EEOF /\ parse_gframe (N.of_nat limit) t R = GEnd) \/
      (e <> EEOF /\ ((exists e', parse_gframe (N.of_nat limit) t R = GErr e') \/
                     exists flag p rest, parse_gframe (N.of_nat limit) t R = GMsg flag p rest /\ gmessage gunzip valid flag p = inr e))
  | GPanic | GFuel => False
  end.

Lemma short_err_some t : short_err t true <> EEOF.
Proof. destruct t; discriminate. Qed.

Lemma grpc_recv1_step limit gunzip valid x :
  gstep_ok limit gunzip valid (xtail x) (rem (xs x)) (grpc_recv1 limit gunzip valid x).
Proof.
  unfold grpc_recv1. pose proof (read_full_x_spec 5 x) as H5.
  destruct (read_full_x 5 x) as [[[hd [e|]] x1]|]; try contradiction.
  - destruct H5 as (Hlen & -> & Hr & Ht). cbn [gstep_ok].
    destruct (rem (xs x)) as [|a0 R'] eqn:ER.
    + cbn [is_nil negb]. destruct (xtail x) eqn:T; cbn [short_err].
      * left. split; reflexivity.
      * right. split; [discriminate|]. left. eexists. reflexivity.
      * right. split; [discriminate|]. left. eexists. reflexivity.
    + cbn [is_nil negb]. right. split.
      { pose proof (short_err_some (xtail x)). destruct (short_err (xtail x) true); congruence. }
      left. cbn [length] in Hlen.
      destruct R' as [|a1 [|a2 [|a3 [|a4 R5]]]]; cbn [parse_gframe]; try (eexists; reflexivity). cbn [length] in Hlen. lia.
  - destruct H5 as (-> & Hr & Hlen & Ht).
    destruct (rem (xs x)) as [|flag [|a [|b [|c [|d r]]]]] eqn:ER; cbn [length] in Hlen; try lia.
    cbn [firstn skipn] in *. cbn [parse_gframe].
    destruct (N.of_nat limit <? gun_be32 a b c d)%N eqn:Big.
    { cbn [gstep_ok]. right. split; [discriminate|]. left. cbn [parse_gframe]. rewrite Big. eexists. reflexivity. }
    pose proof (read_full_x_spec (N.to_nat (gun_be32 a b c d)) x1) as HP. rewrite Hr, Ht in HP.
    destruct (read_full_x (N.to_nat (gun_be32 a b c d)) x1) as [[[p [e|]] x2]|]; try contradiction.
    + destruct HP as (Hshort & -> & Hr2 & Ht2). cbn [gstep_ok]. right. split.
      { destruct (xtail x); destruct r; cbn; discriminate. }
      left. cbn [parse_gframe]. rewrite Big.
      replace (Nat.ltb (length r) (N.to_nat (gun_be32 a b c d))) with true by (symmetry; apply Nat.ltb_lt; lia).
      eexists. reflexivity.
    + destruct HP as (-> & Hr2 & Hfull & Ht2).
      assert (PG : parse_gframe (N.of_nat limit) (xtail x) (flag :: a :: b :: c :: d :: r) =
                   GMsg flag (firstn (N.to_nat (gun_be32 a b c d)) r) (skipn (N.to_nat (gun_be32 a b c d)) r)).
      { cbn [parse_gframe]. rewrite Big.
        replace (Nat.ltb (length r) (N.to_nat (gun_be32 a b c d))) with false by (symmetry; apply Nat.ltb_ge; lia). reflexivity. }
      set (p := firstn (N.to_nat (gun_be32 a b c d)) r) in *.
      pose proof (eq_refl (gmessage gunzip valid flag p)) as GM. unfold gmessage at 2 in GM.
      destruct (if (flag =? 1)%N then match gunzip with Some z => z p | None => None end else Some p) as [m|].
      * destruct (valid m); cbn [gstep_ok].
        -- do 3 eexists. repeat split; eauto. congruence.
        -- right. split; [discriminate|]. right. do 3 eexists. split; eauto.
      * cbn [gstep_ok]. right. split; [discriminate|]. right. do 3 eexists. split; eauto.
Qed.

(* clean end against clean end, error against error (on gRPC the class of a framing error is the
   transport's: a cut inside the 5-byte header is reported as a Canceled status) *)
Definition end_sim (e : rend) (p : send) : Prop :=
  match e, p with EndClean, SClean => True | EndErr _, SErr _ => True | _, _ => False end.

Lemma parse_gframe_progress limit t R flag p rest : parse_gframe limit t R = GMsg flag p rest -> length rest < length R.
Proof.
  unfold parse_gframe. destruct R as [|f0 [|a [|b [|c [|d r]]]]]; try discriminate; try (destruct t; discriminate).
  destruct (limit <? gun_be32 a b c d)%N; [discriminate|].
  destruct (Nat.ltb (length r) (N.to_nat (gun_be32 a b c d))); [discriminate|].
  intros H. inversion H; subst. rewrite skipn_length. cbn [length]. lia.
Qed.

Theorem grpc_recv_refines : forall fuel limit gunzip valid x,
  length (rem (xs x)) < fuel ->
  fst (grpc_recv_all fuel limit gunzip valid x) = fst (grpc_stream fuel limit gunzip valid (xtail x) (rem (xs x))) /\
  end_sim (snd (grpc_recv_all fuel limit gunzip valid x)) (snd (grpc_stream fuel limit gunzip valid (xtail x) (rem (xs x)))).
Proof.
  induction fuel as [|f IH]; intros limit gunzip valid x Hf; [lia|].
  cbn [grpc_recv_all grpc_stream].
  pose proof (grpc_recv1_step limit gunzip valid x) as S.
  destruct (grpc_recv1 limit gunzip valid x) as [m x'|e x'| |]; cbn [gstep_ok] in S; try contradiction.
  - destruct S as (flag & p & rest & Hp & Hg & Hr & Ht). rewrite Hp, Hg.
    pose proof (parse_gframe_progress _ _ _ _ _ _ Hp) as Hprog.
    specialize (IH limit gunzip valid x' ltac:(rewrite Hr; lia)). rewrite Hr, Ht in IH.
    destruct (grpc_recv_all f limit gunzip valid x') as [ms e].
    destruct (grpc_stream f limit gunzip valid (xtail x) rest) as [ms' e'].
    cbn [fst snd] in *. destruct IH as [-> IH2]. auto.
  - destruct S as [[-> Hp] | [Hne [[e' Hp] | (flag & p & rest & Hp & Hg)]]].
    + rewrite Hp. cbn. auto.
    + rewrite Hp. destruct e; cbn; auto; congruence.
    + rewrite Hp, Hg. destruct e; cbn; auto; congruence.
Qed.

(* ---------- the frame parser inverts SendMsg's framing ---------- *)
Lemma gun_be32_gbe32 n : (n < 2 ^ 32)%N ->
  match gbe32 n with [a; b; c; d] => gun_be32 a b c d = n | _ => False end.
Proof.
  intros H. unfold gbe32, gun_be32.
  change (2 ^ 32)%N with 4294967296%N in H.
  assert (A : (n / 16777216 < 256)%N) by (apply N.div_lt_upper_bound; lia).
  rewrite (N.mod_small _ _ A).
  assert (E2 : (n / 65536 / 256 = n / 16777216)%N) by (rewrite N.div_div by lia; reflexivity).
  assert (E3 : (n / 256 / 256 = n / 65536)%N) by (rewrite N.div_div by lia; reflexivity).
  pose proof (N.div_mod (n / 65536) 256 ltac:(lia)) as D5. rewrite E2 in D5.
  pose proof (N.div_mod (n / 256) 256 ltac:(lia)) as D6. rewrite E3 in D6.
  pose proof (N.div_mod n 256 ltac:(lia)) as D3.
  lia.
Qed.

Lemma parse_gframe_frame limit t flag m R : (N.of_nat (length m) <= limit)%N -> (N.of_nat (length m) < 2 ^ 32)%N ->
  parse_gframe limit t (gframe flag m ++ R) = GMsg flag m R.
Proof.
  intros Hl H32. unfold gframe. pose proof (gun_be32_gbe32 _ H32) as G.
  destruct (gbe32 (N.of_nat (length m))) as [|a [|b [|c [|d [|? ?]]]]]; try contradiction.
  cbn [app parse_gframe]. rewrite G.
  replace (limit <? N.of_nat (length m))%N with false by lia. rewrite Nat2N.id.
  replace (Nat.ltb (length (m ++ R)) (length m)) with false by (symmetry; apply Nat.ltb_ge; rewrite app_length; lia).
  pose proof (firstn_app_len m R 0) as F1. pose proof (skipn_app_len m R 0) as F2.
  rewrite Nat.add_0_r in F1, F2. rewrite F1, F2. cbn [firstn skipn]. now rewrite app_nil_r.
Qed.

Section Gzip.
  (* the negotiated compressor and decompressor are an inverse pair (oracle) *)
  Variable gzip : bytes -> bytes.
  Variable gunzip : bytes -> option bytes.
  Hypothesis gunzip_gzip : forall m, gunzip (gzip m) = Some m.

  Definition comp_pair (on : bool) : option (bytes -> bytes) * option (bytes -> option bytes) :=
    if on then (Some gzip, Some gunzip) else (None, None).

  Definition sendable (limit : nat) (on : bool) (m : bytes) : Prop :=
    let w := if on then gzip m else m in length w <= limit /\ (N.of_nat (length w) < 2 ^ 32)%N.

  Lemma gmessage_send on valid m : valid m = true ->
    gmessage (snd (comp_pair on)) valid (if on then 1%N else 0%N) (if on then gzip m else m) = inl m.
  Proof.
    intros V. destruct on; unfold gmessage, comp_pair; cbn [snd].
    - rewrite N.eqb_refl, gunzip_gzip. now rewrite V.
    - change (0 =? 1)%N with false. cbv iota. now rewrite V.
  Qed.

  Lemma grpc_send1_form on m : grpc_send1 (fst (comp_pair on)) m = gframe (if on then 1%N else 0%N) (if on then gzip m else m).
  Proof. destruct on; reflexivity. Qed.

  Theorem grpc_stream_roundtrip : forall msgs fuel limit on valid R t,
    Forall (sendable limit on) msgs -> Forall (fun m => valid m = true) msgs ->
    length (grpc_send (fst (comp_pair on)) msgs ++ R) < fuel ->
    grpc_stream fuel limit (snd (comp_pair on)) valid t (grpc_send (fst (comp_pair on)) msgs ++ R) =
    let '(ms, e) := grpc_stream (fuel - length msgs) limit (snd (comp_pair on)) valid t R in (msgs ++ ms, e).
  Proof.
    induction msgs as [|m ms IH]; intros fuel limit on valid R t Hs Hv Hfuel.
    - cbn [grpc_send map concat app length]. rewrite Nat.sub_0_r. destruct (grpc_stream fuel limit _ valid t R). reflexivity.
    - inversion Hs as [|? ? [Hm1 Hm2] Hms]; subst. inversion Hv as [|? ? Hvm Hvms]; subst.
      destruct fuel as [|f]; [lia|]. unfold grpc_send in *. cbn [map concat grpc_stream length] in *. rewrite <- app_assoc in *.
      rewrite grpc_send1_form in *.
      rewrite parse_gframe_frame by (try exact Hm2; lia). rewrite (gmessage_send on valid m Hvm).
      rewrite app_length in Hfuel. unfold gframe in Hfuel. cbn [length] in Hfuel.
      rewrite IH by (auto; lia). cbn [Nat.sub].
      destruct (grpc_stream (f - length ms) limit (snd (comp_pair on)) valid t R). reflexivity.
  Qed.

  Corollary grpc_stream_sent limit on valid msgs :
    Forall (sendable limit on) msgs -> Forall (fun m => valid m = true) msgs ->
    let L := grpc_send (fst (comp_pair on)) msgs in
    grpc_stream (S (length L)) limit (snd (comp_pair on)) valid TClean L = (msgs, SClean).
  Proof.
    intros Hs Hv. cbv zeta.
    pose proof (grpc_stream_roundtrip msgs (S (length (grpc_send (fst (comp_pair on)) msgs))) limit on valid [] TClean Hs Hv) as H.
    rewrite app_nil_r in H. rewrite H by lia.
    assert (Hlen : length msgs <= length (grpc_send (fst (comp_pair on)) msgs)).
    { clear. induction msgs as [|m ms IH]; [cbn; lia|]. unfold grpc_send in *. cbn [map concat length]. rewrite app_length.
      rewrite grpc_send1_form. unfold gframe. cbn [length]. lia. }
    destruct (S (length (grpc_send (fst (comp_pair on)) msgs)) - length msgs) eqn:E; [lia|].
    cbn [grpc_stream parse_gframe]. now rewrite app_nil_r.
  Qed.

  (* a body cut strictly inside frame m: the frames before it, then an error *)
  Lemma parse_gframe_cut limit flag w j : (N.of_nat (length w) < 2 ^ 32)%N -> 0 < j < length (gframe flag w) ->
    parse_gframe limit TClean (firstn j (gframe flag w)) = GErr EUnexpectedEOF \/
    parse_gframe limit TClean (firstn j (gframe flag w)) = GErr ETooLarge.
  Proof.
    unfold gframe. intros Hlt Hj.
    pose proof (gun_be32_gbe32 (N.of_nat (length w)) Hlt) as GG.
    destruct (gbe32 (N.of_nat (length w))) as [|a [|b [|c [|d [|? ?]]]]] eqn:G; try contradiction.
    cbn [app length] in *.
    destruct j as [|[|[|[|[|j']]]]]; cbn [firstn parse_gframe short_err]; auto; [lia|].
    destruct (limit <? gun_be32 a b c d)%N; auto.
    rewrite GG, Nat2N.id.
    replace (Nat.ltb (length (firstn j' w)) (length w)) with true by (symmetry; apply Nat.ltb_lt; rewrite firstn_length; lia). auto.
  Qed.

  Theorem grpc_stream_truncated limit on valid pre m j :
    Forall (sendable limit on) pre -> Forall (fun x => valid x = true) pre ->
    (N.of_nat (length (if on then gzip m else m)) < 2 ^ 32)%N ->
    0 < j < length (grpc_send1 (fst (comp_pair on)) m) ->
    let L := grpc_send (fst (comp_pair on)) pre ++ firstn j (grpc_send1 (fst (comp_pair on)) m) in
    exists e, grpc_stream (S (length L)) limit (snd (comp_pair on)) valid TClean L = (pre, SErr e).
  Proof.
    intros Hs Hv H32 Hj. cbv zeta.
    rewrite (grpc_stream_roundtrip pre _ limit on valid _ TClean Hs Hv) by lia.
    assert (Hlen : length pre <= length (grpc_send (fst (comp_pair on)) pre)).
    { clear. induction pre as [|p ps IH]; [cbn; lia|]. unfold grpc_send in *. cbn [map concat length]. rewrite app_length.
      rewrite grpc_send1_form. unfold gframe. cbn [length]. lia. }
    rewrite app_length.
    destruct (S (length (grpc_send (fst (comp_pair on)) pre) + length (firstn j (grpc_send1 (fst (comp_pair on)) m))) - length pre) eqn:E; [lia|].
    cbn [grpc_stream]. rewrite grpc_send1_form in *.
    destruct (parse_gframe_cut (N.of_nat limit) _ _ j H32 Hj) as [-> | ->]; rewrite app_nil_r; eauto.
  Qed.
End Gzip.

(* ---------- gRPC-web: the request body in binary and in base64 text mode ---------- *)
Theorem web_recv_refines text body sch eofwd limit gunzip valid :
  let x := web_src text body sch eofwd in
  let '(L, t) := if text then web_text_decode body else (body, TClean) in
  fst (grpc_recv_all (S (length L)) limit gunzip valid x) = fst (grpc_stream (S (length L)) limit gunzip valid t L) /\
  end_sim (snd (grpc_recv_all (S (length L)) limit gunzip valid x)) (snd (grpc_stream (S (length L)) limit gunzip valid t L)).
Proof.
  cbv zeta. unfold web_src. destruct text.
  - destruct (web_text_decode body) as [d t].
    apply (grpc_recv_refines (S (length d)) limit gunzip valid (XSrc (Src d sch eofwd) t)). cbn. lia.
  - apply (grpc_recv_refines (S (length body)) limit gunzip valid (XSrc (Src body sch eofwd) TClean)). cbn. lia.
Qed.

Local Open Scope N_scope.
Lemma b64_char_not_nl v : is_nl (b64_char false v) = false.
Proof.
  unfold is_nl, b64_char. destruct (v <? 26) eqn:A; [lia|]. destruct (v <? 52) eqn:B; [lia|].
  destruct (v <? 62) eqn:C; [lia|]. destruct (v =? 62); reflexivity.
Qed.
Lemma filter_b64_encode : forall n m, (length m <= n)%nat ->
  filter (fun c => negb (is_nl c)) (b64_encode false true m) = b64_encode false true m.
Proof.
  induction n as [|n IH]; intros m Hn.
  - destruct m; [reflexivity|cbn in Hn; lia].
  - destruct m as [|a [|b [|c r]]]; cbn [b64_encode filter length] in *; rewrite ?b64_char_not_nl; cbn [negb filter];
      try reflexivity.
    rewrite IH by lia. reflexivity.
Qed.

Theorem b64_stream_roundtrip : forall fuel m, Forall (fun b => b < 256) m ->
  (length m < fuel)%nat -> b64_stream fuel (b64_encode false true m) = (m, TClean).
Proof.
  induction fuel as [|f IH]; intros m H Hf; [lia|].
  destruct m as [|a [|b [|c r]]].
  - reflexivity.
  - inversion H as [|? ? Ha _]; subst. cbn [b64_encode app b64_stream].
    rewrite (b64_val_char false _ (sext1 a Ha)).
    assert (V2 : b64_val false (b64_char false (a mod 4 * 16)) = Some (a mod 4 * 16)).
    { apply b64_val_char. pose proof (N.mod_lt a 4). lia. }
    rewrite V2, !N.eqb_refl. cbn [is_nil andb]. f_equal. f_equal.
    replace ((a mod 4 * 16) / 16) with (a mod 4) by (symmetry; apply N.div_mul; lia).
    pose proof (N.div_mod a 4). lia.
  - inversion H as [|? ? Ha H']; subst. inversion H' as [|? ? Hb _]; subst. cbn [b64_encode app b64_stream].
    rewrite (b64_val_char false _ (sext1 a Ha)), (b64_val_char false _ (sext2 a b Ha Hb)).
    assert (V3 : b64_val false (b64_char false (b mod 16 * 4)) = Some (b mod 16 * 4)).
    { apply b64_val_char. pose proof (N.mod_lt b 16). lia. }
    assert (N61 : b64_char false (b mod 16 * 4) <> 61) by (eapply b64_val_not_pad; eauto).
    replace (b64_char false (b mod 16 * 4) =? 61) with false by lia. rewrite V3, N.eqb_refl. cbn [is_nil].
    assert (E2 : ((a mod 4 * 16 + b / 16) mod 16) * 16 + (b mod 16 * 4) / 4 = b).
    { pose proof (byte2 a b 0 Ha Hb ltac:(lia)) as B. cbn in B. rewrite N.add_0_r in B. exact B. }
    f_equal. f_equal; [apply byte1; auto|f_equal; exact E2].
  - inversion H as [|? ? Ha H']; subst. inversion H' as [|? ? Hb H'']; subst.
    inversion H'' as [|? ? Hc Hr]; subst. cbn [b64_encode b64_stream].
    rewrite (b64_val_char false _ (sext1 a Ha)), (b64_val_char false _ (sext2 a b Ha Hb)).
    assert (V3 := b64_val_char false _ (sext3 b c Hb Hc)). assert (V4 := b64_val_char false _ (sext4 c)).
    assert (N3 : b64_char false (b mod 16 * 4 + c / 64) <> 61) by (eapply b64_val_not_pad; eauto).
    assert (N4 : b64_char false (c mod 64) <> 61) by (eapply b64_val_not_pad; eauto).
    replace (b64_char false (b mod 16 * 4 + c / 64) =? 61) with false by lia. rewrite V3.
    replace (b64_char false (c mod 64) =? 61) with false by lia. rewrite V4.
    cbn [length] in Hf. rewrite IH by (auto; lia).
    rewrite byte1, byte2, byte3 by auto. reflexivity.
Qed.
Local Close Scope N_scope.

Theorem web_text_roundtrip m : Forall (fun b => (b < 256)%N) m -> web_text_decode (b64_encode false true m) = (m, TClean).
Proof.
  intros H. unfold web_text_decode. rewrite (filter_b64_encode (length m) m) by lia.
  apply b64_stream_roundtrip; auto.
  pose proof (b64_encode_len false true (length m) m ltac:(lia)). lia.
Qed.

(* ---------- the send side ---------- *)
Lemma gframe_wf flag w : (flag < 256)%N -> Forall (fun b => (b < 256)%N) w -> Forall (fun b => (b < 256)%N) (gframe flag w).
Proof.
  intros Hf Hw. unfold gframe, gbe32. constructor; [exact Hf|].
  repeat (constructor; [apply N.mod_lt; lia|]). exact Hw.
Qed.

Section Send.
  Variable gzip : bytes -> bytes.
  Variable gunzip : bytes -> option bytes.
  Hypothesis gunzip_gzip : forall m, gunzip (gzip m) = Some m.

  Definition wire (on : bool) (m : bytes) : byte * bytes := if on then (1%N, gzip m) else (0%N, m).
  Definition small (on : bool) (m : bytes) : Prop := (N.of_nat (length (snd (wire on m))) < 2 ^ 32)%N.

  Lemma send1_wire on m : grpc_send1 (fst (comp_pair gzip gunzip on)) m = gframe (fst (wire on m)) (snd (wire on m)).
  Proof. destruct on; reflexivity. Qed.

  (* gRPC: the response body is exactly one frame per reply, in order, nothing else *)
  Theorem grpc_resp_frames : forall out fuel on, Forall (small on) out ->
    length (grpc_send (fst (comp_pair gzip gunzip on)) out) < fuel ->
    parse_grpc_resp fuel (grpc_send (fst (comp_pair gzip gunzip on)) out) = Some (map (wire on) out).
  Proof.
    induction out as [|m ms IH]; intros fuel on Hs Hf.
    - destruct fuel; [lia|]. reflexivity.
    - inversion Hs as [|? ? Hm Hms]; subst. destruct fuel as [|f]; [lia|].
      unfold grpc_send in *. cbn [map concat parse_grpc_resp] in *. rewrite send1_wire in *.
      rewrite parse_gframe_frame by (unfold small in Hm; lia).
      rewrite app_length in Hf. unfold gframe in Hf. cbn [length] in Hf.
      rewrite IH by (auto; lia). destruct (wire on m). reflexivity.
  Qed.

  (* gRPC-web: the same frames followed by exactly one trailer frame, nothing after it *)
  Theorem web_resp_frames : forall out fuel on trailer, Forall (small on) out -> (N.of_nat (length trailer) < 2 ^ 32)%N ->
    length (grpc_send (fst (comp_pair gzip gunzip on)) out ++ gframe 128 trailer) < fuel ->
    parse_web_resp fuel (grpc_send (fst (comp_pair gzip gunzip on)) out ++ gframe 128 trailer) = Some (map (wire on) out, trailer).
  Proof.
    induction out as [|m ms IH]; intros fuel on trailer Hs Ht Hf.
    - destruct fuel; [lia|]. cbn [grpc_send map concat app parse_web_resp].
      pose proof (parse_gframe_frame (2 ^ 32) TClean 128 trailer [] ltac:(lia) Ht) as P. rewrite app_nil_r in P. rewrite P.
      reflexivity.
    - inversion Hs as [|? ? Hm Hms]; subst. destruct fuel as [|f]; [lia|].
      unfold grpc_send in *. cbn [map concat parse_web_resp] in *. rewrite send1_wire in *. rewrite <- app_assoc in *.
      rewrite parse_gframe_frame by (unfold small in Hm; lia).
      replace (128 <=? fst (wire on m))%N with false by (destruct on; reflexivity).
      rewrite app_length in Hf. unfold gframe in Hf at 1. cbn [length] in Hf.
      rewrite IH by (auto; lia). destruct (wire on m). reflexivity.
  Qed.

  (* text mode: the body is one base64 stream of exactly those bytes (the encoder is closed) *)
  Theorem web_resp_text on out trailer :
    Forall (fun m => Forall (fun b => (b < 256)%N) (snd (wire on m))) out -> Forall (fun b => (b < 256)%N) trailer ->
    b64_decode false true (web_resp true (fst (comp_pair gzip gunzip on)) out true trailer) =
    Some (web_resp false (fst (comp_pair gzip gunzip on)) out true trailer).
  Proof.
    intros Ho Ht. unfold web_resp. apply b64_roundtrip.
    apply Forall_app. split; [|apply gframe_wf; [lia|exact Ht]].
    unfold grpc_send. induction out as [|m ms IH]; [constructor|].
    inversion Ho as [|? ? Hm Hms]; subst. cbn [map concat]. apply Forall_app. split; [|auto].
    rewrite send1_wire. apply gframe_wf; [destruct on; cbn; lia|exact Hm].
  Qed.
End Send.

(* ================= WebSocket ================= *)
Theorem ws_recv_normal_close valid msgs : Forall (fun m => valid m = true) msgs ->
  ws_recv_all valid (map WData msgs ++ [WClose 1000]) = (msgs, EndClean).
Proof.
  induction 1 as [|m ms Hm _ IH]; [reflexivity|]. cbn [map app ws_recv_all]. now rewrite Hm, IH.
Qed.
Theorem ws_recv_broken valid msgs ev : Forall (fun m => valid m = true) msgs ->
  ev = WAbort \/ (exists c, ev = WClose c /\ c <> 1000%N) ->
  exists e, ws_recv_all valid (map WData msgs ++ [ev]) = (msgs, EndErr e).
Proof.
  intros H Hev. induction H as [|m ms Hm _ IH].
  - cbn [map app ws_recv_all]. destruct Hev as [-> | (c & -> & Hc)]; [eauto|].
    replace (c =? 1000)%N with false by lia. eauto.
  - destruct IH as [e IH]. exists e. cbn [map app ws_recv_all]. now rewrite Hm, IH.
Qed.
Theorem ws_send_shape out code :
  exists frames, ws_send out code = frames ++ [WClose code] /\ frames = map WData out /\ length frames = length out.
Proof. exists (map WData out). repeat split; auto. apply map_length. Qed.
