(* Order independence of registration: two accepted orders of the same bindings build tries on
   which every request is routed identically. *)
From Larking Require Import Base.GoSem Model.Lexer Model.Trie Model.Match Spec.Grammar Spec.Route
  Proofs.LexerProofs Proofs.MatchProofs Proofs.TrieProofs Proofs.RoutingProofs.
From Coq Require Import Sorting.Sorted Permutation.
Local Open Scope N_scope.

(* ---- which nodes exist after an update ---- *)
Lemma is_prefix_nil b : is_prefix [] b = true.
Proof. reflexivity. Qed.
Lemma is_prefix_cons x a y b : is_prefix (x :: a) (y :: b) = true <-> x = y /\ is_prefix a b = true.
Proof.
  cbn. destruct (ekey_dec x y) as [E|E]; split; intros H.
  - auto.
  - tauto.
  - discriminate.
  - destruct H; contradiction.
Qed.

Definition exists_at (nd : node) (es : list edge) : Prop := walk_to es nd <> None.

Lemma exists_empty es : exists_at empty_node es <-> es = [].
Proof.
  unfold exists_at. destruct es as [|[k|p] es]; cbn; split; intros H; try discriminate; auto; try (exfalso; now apply H).
Qed.

Lemma upd_exists es0 : forall f nd nd' es,
  keeps_children f -> upd es0 f nd = Ok nd' ->
  (exists_at nd' es <-> exists_at nd es \/ is_prefix (keys es) (keys es0) = true).
Proof.
  induction es0 as [|[k|pat] es0 IH]; intros f nd nd' es Hk H; cbn in H.
  - destruct (Hk _ _ H) as [Hs Hv]. unfold exists_at.
    destruct es as [|[k2|p2] es]; cbn [walk_to keys map is_prefix].
    + split; [intros _; left; discriminate|intros _; discriminate].
    + rewrite Hs. split; [auto|intros [X|X]; [exact X|discriminate]].
    + rewrite Hv. split; [auto|intros [X|X]; [exact X|discriminate]].
  - destruct (upd es0 f _) as [c'| | |] eqn:Eu; try discriminate. inversion H; subst nd'. clear H.
    unfold exists_at in *.
    destruct es as [|[k2|p2] es]; cbn [walk_to n_segs n_vars keys map].
    + split; [intros _; left; discriminate|intros _; discriminate].
    + destruct (list_eq_dec N.eq_dec k2 k) as [->|Hne].
      * rewrite assoc_set_eq. rewrite (IH f _ c' es Hk Eu). unfold exists_at.
        change (keys (ELit k :: es0)) with (KLit k :: keys es0). change (edge_key (ELit k)) with (KLit k).
        rewrite is_prefix_cons.
        destruct (assoc k (n_segs nd)) as [c|] eqn:Ea.
        -- split; intros [X|X]; auto; right; tauto.
        -- split.
           ++ intros [X|X]; [apply exists_empty in X; subst es; right; split; [reflexivity|reflexivity]|right; tauto].
           ++ intros [X|[_ X]]; [exfalso; now apply X|right; exact X].
      * rewrite assoc_set_neq by exact Hne.
        change (keys (ELit k :: es0)) with (KLit k :: keys es0). change (edge_key (ELit k2)) with (KLit k2).
        split; [auto|]. intros [X|X]; [exact X|]. apply is_prefix_cons in X. destruct X as [E _]. inversion E. contradiction.
    + change (keys (ELit k :: es0)) with (KLit k :: keys es0). change (edge_key (EVar p2)) with (KVar (spell p2)).
      split; [auto|]. intros [X|X]; [exact X|]. apply is_prefix_cons in X. destruct X as [E _]. discriminate.
  - destruct (upd es0 f _) as [c'| | |] eqn:Eu; try discriminate. inversion H; subst nd'. clear H.
    unfold exists_at in *.
    destruct es as [|[k2|p2] es]; cbn [walk_to n_segs n_vars keys map].
    + split; [intros _; left; discriminate|intros _; discriminate].
    + change (keys (EVar pat :: es0)) with (KVar (spell pat) :: keys es0). change (edge_key (ELit k2)) with (KLit k2).
      split; [auto|]. intros [X|X]; [exact X|]. apply is_prefix_cons in X. destruct X as [E _]. discriminate.
    + destruct (list_eq_dec N.eq_dec (spell p2) (spell pat)) as [E0|Hne].
      * rewrite E0, find_set_eq. rewrite (IH f _ c' es Hk Eu). unfold exists_at.
        change (keys (EVar pat :: es0)) with (KVar (spell pat) :: keys es0). change (edge_key (EVar p2)) with (KVar (spell p2)).
        rewrite is_prefix_cons, E0.
        destruct (find_var (spell pat) (n_vars nd)) as [c|] eqn:Ea.
        -- split; intros [X|X]; auto; right; tauto.
        -- split.
           ++ intros [X|X]; [apply exists_empty in X; subst es; right; split; [reflexivity|reflexivity]|right; tauto].
           ++ intros [X|[_ X]]; [exfalso; now apply X|right; exact X].
      * rewrite find_set_neq by exact Hne.
        change (keys (EVar pat :: es0)) with (KVar (spell pat) :: keys es0). change (edge_key (EVar p2)) with (KVar (spell p2)).
        split; [auto|]. intros [X|X]; [exact X|]. apply is_prefix_cons in X. destruct X as [E _]. inversion E. contradiction.
Qed.

Section Order.
Variables isLetter isNumber : N -> bool.
Variable resolves body_ok resp_ok : str -> list str -> bool.
Variable okconv : list str -> str -> bool.
Hypothesis sane : Sane isLetter isNumber.

Notation PatG := (PatG isLetter isNumber).
Notation edge_gram := (edge_gram isLetter isNumber).
Notation Inv := (Inv isLetter isNumber resolves).
Notation compiled := (compiled isLetter isNumber resolves).
Notation add_binding := (add_binding resolves body_ok resp_ok isLetter isNumber).
Notation leaf := (leaf resolves body_ok resp_ok).

Definition mk_of (x : str * brule) (vfs : list (list str)) : minfo :=
  Build_minfo (fst x) vfs (b_body (snd x)) (b_resp (snd x)).

(* x is registered at the node the edges es lead to, under the verb key *)
Definition at_node (L : regs) (es : list edge) (key : str) (m : minfo) : Prop :=
  exists x es_b vfs, In x L /\ compiled (fst x) (snd x) es_b vfs /\ keys es_b = keys es /\ b_verb (snd x) = key /\ m = mk_of x vfs.

(* no two different registered bindings sit at the same node under the same verb *)
Definition Distinct (L : regs) : Prop :=
  forall x y ex vx ey vy, In x L -> In y L -> compiled (fst x) (snd x) ex vx -> compiled (fst y) (snd y) ey vy ->
    keys ex = keys ey -> b_verb (snd x) = b_verb (snd y) -> x = y.

Lemma compiled_fun mid b e1 v1 e2 v2 : compiled mid b e1 v1 -> compiled mid b e2 v2 -> e1 = e2 /\ v1 = v2.
Proof.
  intros (t1 & A1 & A2) (t2 & B1 & B2). rewrite A1 in B1. inversion B1; subst t2. rewrite A2 in B2. inversion B2. auto.
Qed.

(* the exact content of a built trie, in terms of the list of registered bindings *)
Record InvX (L : regs) (root : node) : Prop := {
  invx_inv : Inv L root;
  invx_dom : forall es, exists_at root es <->
      es = [] \/ exists x es_b vfs, In x L /\ compiled (fst x) (snd x) es_b vfs /\ is_prefix (keys es) (keys es_b) = true;
  invx_info : forall es i key m, info_at root es = Some i -> (stored i key m <-> at_node L es key m);
  invx_nodup : forall es i, info_at root es = Some i -> NoDup (map fst (fst i))
}.

Lemma NoDup_app_snoc {A} (l : list A) x : NoDup l -> ~ In x l -> NoDup (l ++ [x]).
Proof.
  induction 1 as [|y l Hy Hl IH]; intros Hx; cbn; [repeat constructor; auto|].
  constructor.
  - intros H. apply in_app_or in H. destruct H as [H|[H|[]]]; [contradiction|]. subst. apply Hx. now left.
  - apply IH. intros H. apply Hx. now right.
Qed.

Lemma InvX_empty : InvX [] empty_node.
Proof.
  constructor.
  - apply Inv_empty.
  - intros es. rewrite exists_empty. split; [auto|]. intros [H|(x & _ & _ & [] & _)]. exact H.
  - intros es i key m H. apply info_at_empty in H. subst i. split.
    + intros Hs. now apply stored_empty in Hs.
    + intros (x & _ & _ & [] & _).
  - intros es i H. apply info_at_empty in H. subst i. constructor.
Qed.

Lemma assoc_none_notin {A} k (l : list (str * A)) : assoc k l = None -> ~ In k (map fst l).
Proof.
  induction l as [|[k' v] l IH]; cbn; [tauto|]. destruct (str_eqb k' k) eqn:E; [discriminate|].
  intros H [X|X]; [apply str_eqb_neq in E; contradiction|now apply IH].
Qed.
Lemma leaf_nodup mid b vfs nd nd' :
  Trie.leaf resolves body_ok resp_ok mid b vfs nd = Ok nd' -> NoDup (map fst (n_meths nd)) -> NoDup (map fst (n_meths nd')).
Proof.
  intros H Hn. unfold Trie.leaf in H.
  destruct (_ && _); [cbn [bind] in H|discriminate].
  destruct (match n_mall nd with Some y => conflict mid y | None => false end); [discriminate|].
  destruct (str_eqb (b_verb b) star_verb).
  - destruct (existsb _ _); [discriminate|]. destruct (n_mall nd); inversion H; subst; auto.
  - destruct (assoc (b_verb b) (n_meths nd)) eqn:Ea.
    + destruct (conflict mid m); [discriminate|]. inversion H; subst; auto.
    + inversion H; subst. cbn [n_meths].
      rewrite map_app. cbn. apply NoDup_app_snoc; auto. now apply assoc_none_notin.
Qed.

Lemma stored_fun i key m m' : assoc star_verb (fst i) = None -> stored i key m -> stored i key m' -> m = m'.
Proof.
  intros Hn [[E A]|A] [[E' B]|B]; subst; try congruence.
Qed.

Lemma is_prefix_refl a : is_prefix a a = true.
Proof. induction a as [|x a IH]; cbn; auto. destruct (ekey_dec x x); [exact IH|contradiction]. Qed.
Lemma is_prefix_eq_len a : forall b, is_prefix a b = true -> length a = length b -> a = b.
Proof.
  induction a as [|x a IH]; intros [|y b] H Hl; cbn in *; try discriminate; auto.
  destruct (ekey_dec x y); [|discriminate]. subst. f_equal. apply IH; auto.
Qed.

Theorem InvX_step L root mid b root' :
  InvX L root -> Distinct ((mid, b) :: L) -> add_binding mid root b = Ok root' -> InvX ((mid, b) :: L) root'.
Proof.
  intros [HI Hd Hi Hnd] HD H.
  pose proof (Inv_step isLetter isNumber resolves body_ok resp_ok L root mid b root' HI H) as HI'.
  destruct (add_binding_inv isLetter isNumber resolves body_ok resp_ok _ _ _ _ H) as (es0 & vfs & leaf' & Hc & Hu & Hl & Hw & Hlen & Hg).
  pose proof (leaf_keeps resolves body_ok resp_ok mid b vfs) as Hk.
  destruct (leaf_spec resolves body_ok resp_ok _ _ _ _ _ Hl) as (S1 & S2 & S3).
  constructor; [exact HI'| | |].
  - intros es. rewrite (upd_exists es0 _ _ _ es Hk Hu), Hd. split.
    + intros [[E|(x & eb & vb & A & B & C)]|P]; auto.
      * right. exists x, eb, vb. split; [now right|auto].
      * right. exists (mid, b), es0, vfs. split; [now left|auto].
    + intros [E|(x & eb & vb & [A|A] & B & C)]; auto.
      * subst x. cbn in B. destruct (compiled_fun _ _ _ _ _ _ B Hc) as [-> ->]. right. exact C.
      * left. right. exists x, eb, vb. auto.
  - intros es i key m Hinfo.
    destruct (list_eq_dec ekey_dec (keys es) (keys es0)) as [E1|Hne].
    + (* the rewritten leaf *)
      assert (E2 : i = info leaf').
      { rewrite (info_at_keys root' es es0 E1) in Hinfo. unfold info_at in Hinfo. rewrite Hw in Hinfo. now inversion Hinfo. }
      subst i. split.
      * intros Hs. destruct (S1 key m Hs) as [Hs0|[-> ->]].
        -- destruct (info_at root es0) as [i0|] eqn:Ei0.
           ++ rewrite <- (info_leaf_of _ _ _ Ei0) in Hs0. apply (Hi es0 i0 key m Ei0) in Hs0.
              destruct Hs0 as (x & eb & vb & A & B & C & D & E). exists x, eb, vb. split; [now right|]. split; auto. split; [congruence|auto].
           ++ rewrite (info_leaf_none _ _ Ei0) in Hs0. now apply stored_empty in Hs0.
        -- exists (mid, b), es0, vfs. split; [now left|]. split; [exact Hc|]. split; [now symmetry|]. split; reflexivity.
      * intros (x & eb & vb & [A|A] & B & C & D & E).
        -- subst x. cbn in B, D, E. destruct (compiled_fun _ _ _ _ _ _ B Hc) as [-> ->]. subst key m.
           destruct S3 as (m0 & Hs0 & Hm0).
           destruct (S1 (b_verb b) m0 Hs0) as [Hold|[_ ->]]; [|exact Hs0].
           destruct (info_at root es0) as [i0|] eqn:Ei0; [|rewrite (info_leaf_none _ _ Ei0) in Hold; now apply stored_empty in Hold].
           rewrite <- (info_leaf_of _ _ _ Ei0) in Hold. apply (Hi es0 i0 _ m0 Ei0) in Hold.
           destruct Hold as (y & ey & vy & A' & B' & C' & D' & E').
           assert (y = (mid, b)).
           { apply (HD y (mid, b) ey vy es0 vfs); [now right|now left|exact B'|exact Hc|exact C'|exact D']. }
           subst y. cbn in B'. destruct (compiled_fun _ _ _ _ _ _ B' Hc) as [-> ->]. subst m0. exact Hs0.
        -- apply S2. destruct (info_at root es0) as [i0|] eqn:Ei0.
           ++ rewrite <- (info_leaf_of _ _ _ Ei0). apply (Hi es0 i0 key m Ei0). exists x, eb, vb. split; [exact A|]. split; [exact B|]. split; [congruence|auto].
           ++ exfalso. assert (Hex : exists_at root es0).
              { apply Hd. right. exists x, eb, vb. split; [exact A|]. split; [exact B|]. rewrite C, E1. apply is_prefix_refl. }
              unfold exists_at, info_at in *. destruct (walk_to es0 root); [discriminate|now apply Hex].
    + (* any other node *)
      destruct (info_at root es) as [i0|] eqn:Ei0.
      * pose proof (upd_info_keep es0 _ _ _ es i0 Hk Hu Hne Ei0) as Hkeep. rewrite Hkeep in Hinfo. inversion Hinfo; subst i0.
        rewrite (Hi es i key m Ei0). split.
        -- intros (x & eb & vb & A & B & C & D & F). exists x, eb, vb. split; [now right|auto].
        -- intros (x & eb & vb & [A|A] & B & C & D & F).
           ++ subst x. cbn in B. destruct (compiled_fun _ _ _ _ _ _ B Hc) as [-> ->]. exfalso. apply Hne. now symmetry.
           ++ exists x, eb, vb. auto.
      * destruct (upd_info_inv es0 _ _ _ leaf' es i Hk Hu Hl Hinfo) as [[E1 _]|[E|E]]; [contradiction|congruence|].
        subst i. split; [intros Hs; now apply stored_empty in Hs|].
        intros (x & eb & vb & [A|A] & B & C & D & F).
        -- subst x. cbn in B. destruct (compiled_fun _ _ _ _ _ _ B Hc) as [-> ->]. exfalso. apply Hne. now symmetry.
        -- exfalso. assert (Hex : exists_at root es).
           { apply Hd. right. exists x, eb, vb. split; [exact A|]. split; [exact B|]. rewrite C. apply is_prefix_refl. }
           unfold exists_at, info_at in *. destruct (walk_to es root); [discriminate|now apply Hex].
  - intros es i Hinfo.
    destruct (upd_info_inv es0 _ _ _ leaf' es i Hk Hu Hl Hinfo) as [[E1 E2]|[E|E]].
    + subst i. cbn [info fst]. eapply leaf_nodup; [exact Hl|].
      destruct (info_at root es0) as [i0|] eqn:Ei0.
      * pose proof (Hnd es0 i0 Ei0) as X. now rewrite (info_leaf_of _ _ _ Ei0) in X.
      * rewrite (info_leaf_none _ _ Ei0). constructor.
    + eauto.
    + subst i. constructor.
Qed.


(* ---- two tries with the same registered bindings route identically ---- *)
Lemma walk_to_app a : forall b nd, walk_to (a ++ b) nd = match walk_to a nd with Some n => walk_to b n | None => None end.
Proof.
  induction a as [|[k|p] a IH]; intros b nd; cbn; auto.
  - destruct (assoc k (n_segs nd)); auto.
  - destruct (find_var (spell p) (n_vars nd)); auto.
Qed.

Lemma walk_WFn (P : list token -> Prop) es : forall nd k nd', WFn P k nd -> walk_to es nd = Some nd' -> WFn P (k + nvars es) nd'.
Proof.
  induction es as [|[key|pat] es IH]; intros nd k nd' Hw H; cbn in H.
  - inversion H; subst. cbn. now rewrite Nat.add_0_r.
  - inversion Hw as [k0 segs vars meths mall W1 W2 W3 W4 W5]; subst. cbn [n_segs] in H.
    destruct (assoc key segs) as [c|] eqn:Ea; [|discriminate]. cbn [nvars]. eapply IH; [|exact H]. apply (W1 key c). now apply assoc_in.
  - inversion Hw as [k0 segs vars meths mall W1 W2 W3 W4 W5]; subst. cbn [n_vars] in H.
    destruct (find_var (spell pat) vars) as [c|] eqn:Ea; [|discriminate].
    destruct (find_var_in _ _ _ Ea) as (pat' & Hin & _). destruct (W2 pat' c Hin) as [_ Wc].
    cbn [nvars]. replace (k + S (nvars es))%nat with (S k + nvars es)%nat by lia. eapply IH; eauto.
Qed.

Lemma sorted_same (l1 : list str) : forall l2,
  StronglySorted (fun a b => str_ltb a b = true) l1 -> StronglySorted (fun a b => str_ltb a b = true) l2 ->
  (forall x, In x l1 <-> In x l2) -> l1 = l2.
Proof.
  induction l1 as [|a l1 IH]; intros [|b l2] S1 S2 Hin; auto.
  - exfalso. apply (Hin b). now left.
  - exfalso. apply (Hin a). now left.
  - inversion S1 as [|? ? S1' A1]; subst. inversion S2 as [|? ? S2' A2]; subst.
    rewrite Forall_forall in A1, A2.
    assert (a = b).
    { destruct (proj1 (Hin a) (or_introl eq_refl)) as [E|E]; [auto|].
      destruct (proj2 (Hin b) (or_introl eq_refl)) as [E'|E']; [auto|].
      pose proof (A2 a E) as X. pose proof (A1 b E') as Y.
      pose proof (str_ltb_trans _ _ _ X Y) as Z. rewrite str_ltb_irrefl in Z. discriminate. }
    subst b. f_equal. apply IH; auto.
    intros x. split; intros Hx.
    + destruct (proj1 (Hin x) (or_intror Hx)) as [E|E]; [|exact E]. subst x. pose proof (A1 a Hx) as X. rewrite str_ltb_irrefl in X. discriminate.
    + destruct (proj2 (Hin x) (or_intror Hx)) as [E|E]; [|exact E]. subst x. pose proof (A2 a Hx) as X. rewrite str_ltb_irrefl in X. discriminate.
Qed.

Lemma find_var_some_iff name l : find_var name l <> None <-> In name (map vname l).
Proof.
  induction l as [|[p n] l IH]; cbn; [split; [intros H; now apply H|intros []]|].
  unfold vname at 1. cbn [fst]. destruct (str_eqb (spell p) name) eqn:E.
  - apply str_eqb_eq in E. split; [intros _; now left|intros _; discriminate].
  - rewrite IH. split; [intros H; now right|]. intros [H|H]; [|exact H]. apply str_eqb_neq in E. contradiction.
Qed.

Lemma try_vars_ext rec1 rec2 tl : forall vs1 vs2,
  Forall2 (fun x y => fst x = fst y /\ forall z, rec1 (snd x) z = rec2 (snd y) z) vs1 vs2 ->
  try_vars okconv rec1 tl vs1 = try_vars okconv rec2 tl vs2.
Proof.
  induction 1 as [|[p1 c1] [p2 c2] vs1 vs2 [E R] HF IH]; cbn [try_vars]; auto.
  cbn in E, R. subst p2. destruct (var_index p1 tl) as [[[c z]|]| | |]; auto.
  rewrite R. destruct (rec2 c2 z) as [[m ps]| | |]; auto.
Qed.

Section Same.
Variables (L1 L2 : regs) (r1 r2 : node).
Hypothesis HX1 : InvX L1 r1.
Hypothesis HX2 : InvX L2 r2.
Hypothesis Hmem : forall x, In x L1 <-> In x L2.

Lemma same_dom es : exists_at r1 es <-> exists_at r2 es.
Proof.
  rewrite (invx_dom _ _ HX1), (invx_dom _ _ HX2). split; (intros [E|(x & eb & vb & A & B)]; [now left|right; exists x, eb, vb; split; [apply Hmem; exact A|exact B]]).
Qed.

Lemma same_at es key m : at_node L1 es key m <-> at_node L2 es key m.
Proof. split; intros (x & eb & vb & A & B); exists x, eb, vb; (split; [apply Hmem; exact A|exact B]). Qed.

Lemma same_info es nd1 nd2 : walk_to es r1 = Some nd1 -> walk_to es r2 = Some nd2 ->
  (forall key, assoc key (n_meths nd1) = assoc key (n_meths nd2)) /\ n_mall nd1 = n_mall nd2.
Proof.
  intros W1 W2.
  assert (I1 : info_at r1 es = Some (info nd1)) by (unfold info_at; now rewrite W1).
  assert (I2 : info_at r2 es = Some (info nd2)) by (unfold info_at; now rewrite W2).
  pose proof (inv_nostar _ _ _ _ _ (invx_inv _ _ HX1) es _ I1) as N1. pose proof (inv_nostar _ _ _ _ _ (invx_inv _ _ HX2) es _ I2) as N2.
  cbn in N1, N2.
  assert (Hst : forall key m, stored (info nd1) key m <-> stored (info nd2) key m).
  { intros key m. rewrite (invx_info _ _ HX1 es _ key m I1), (invx_info _ _ HX2 es _ key m I2). apply same_at. }
  split.
  - intros key. destruct (list_eq_dec N.eq_dec key star_verb) as [->|Hk]; [congruence|].
    destruct (assoc key (n_meths nd1)) as [m1|] eqn:E1.
    + assert (S : stored (info nd2) key m1) by (apply Hst; right; exact E1).
      destruct S as [[X _]|S]; [contradiction|]. cbn in S. now rewrite S.
    + destruct (assoc key (n_meths nd2)) as [m2|] eqn:E2; auto.
      assert (S : stored (info nd1) key m2) by (apply Hst; right; exact E2).
      destruct S as [[X _]|S]; [contradiction|]. cbn in S. congruence.
  - destruct (n_mall nd1) as [m1|] eqn:E1.
    + assert (S : stored (info nd2) star_verb m1) by (apply Hst; left; split; [reflexivity|exact E1]).
      destruct S as [[_ S]|S]; cbn in S; congruence.
    + destruct (n_mall nd2) as [m2|] eqn:E2; auto.
      assert (S : stored (info nd1) star_verb m2) by (apply Hst; left; split; [reflexivity|exact E2]).
      destruct S as [[_ S]|S]; cbn in S; congruence.
Qed.

Theorem search_same verb fuel : forall es0 nd1 nd2 toks,
  walk_to es0 r1 = Some nd1 -> walk_to es0 r2 = Some nd2 ->
  search okconv fuel verb nd1 toks = search okconv fuel verb nd2 toks.
Proof.
  induction fuel as [|f IH]; intros es0 nd1 nd2 toks W1 W2; [reflexivity|].
  cbn [search]. unfold search_body.
  destruct (same_info es0 nd1 nd2 W1 W2) as [Hm Ha].
  assert (Hpick : pick verb nd1 = pick verb nd2) by (unfold pick; now rewrite Hm, Ha).
  destruct toks as [|t0 [|t1 rest]]; auto.
  (* literal child *)
  set (key := tval t0 ++ tval t1).
  assert (Hlit : match assoc key (n_segs nd1), assoc key (n_segs nd2) with
                 | Some c1, Some c2 => forall z, search okconv f verb c1 z = search okconv f verb c2 z
                 | None, None => True | _, _ => False end).
  { pose proof (same_dom (es0 ++ [ELit key])) as D. unfold exists_at in D.
    rewrite !walk_to_app, W1, W2 in D. cbn [walk_to] in D.
    destruct (assoc key (n_segs nd1)) as [c1|] eqn:E1, (assoc key (n_segs nd2)) as [c2|] eqn:E2; auto.
    - intros z. apply (IH (es0 ++ [ELit key])); rewrite walk_to_app; [rewrite W1|rewrite W2]; cbn [walk_to]; [now rewrite E1|now rewrite E2].
    - apply (proj1 D). discriminate. reflexivity.
    - apply (proj2 D). discriminate. reflexivity. }
  (* variables *)
  assert (Hvars : Forall2 (fun x y => fst x = fst y /\ forall z, search okconv f verb (snd x) z = search okconv f verb (snd y) z)
                          (n_vars nd1) (n_vars nd2)).
  { pose proof (walk_WFn PatG es0 r1 0%nat nd1 (inv_wf _ _ _ _ _ (invx_inv _ _ HX1)) W1) as Wf1.
    pose proof (walk_WFn PatG es0 r2 0%nat nd2 (inv_wf _ _ _ _ _ (invx_inv _ _ HX2)) W2) as Wf2.
    inversion Wf1 as [k1 s1 v1 m1 a1 A1 B1 C1 D1 E1]; subst. inversion Wf2 as [k2 s2 v2 m2 a2 A2 B2 C2 D2 E2]; subst.
    cbn [n_vars].
    assert (Hnames : map vname v1 = map vname v2).
    { apply sorted_same; auto. intros n. rewrite <- !find_var_some_iff.
      pose proof (same_dom (es0 ++ [EVar [Tok TLiteral n]])) as D. unfold exists_at in D.
      rewrite !walk_to_app, W1, W2 in D. cbn [walk_to n_vars] in D.
      replace (spell [Tok TLiteral n]) with n in D by (unfold spell; cbn; now rewrite app_nil_r).
      destruct (find_var n v1), (find_var n v2); split; intros H; try discriminate; try (exfalso; now apply H);
        try (destruct D as [D1' D2']; first [exfalso; apply D1'; [discriminate|reflexivity] | exfalso; apply D2'; [discriminate|reflexivity]]). }
    assert (Hgen : forall u1 u2, (forall x, In x u1 -> In x v1) -> (forall y, In y u2 -> In y v2) -> map vname u1 = map vname u2 ->
              Forall2 (fun x y => fst x = fst y /\ forall z, search okconv f verb (snd x) z = search okconv f verb (snd y) z) u1 u2).
    { induction u1 as [|[p1 c1] u1 IHu]; intros [|[p2 c2] u2] S1 S2 Hn; cbn in Hn; try discriminate; [constructor|].
      inversion Hn as [[Hp Hrest]]. unfold vname in Hp. cbn [fst] in Hp.
      assert (I1 : In (p1, c1) v1) by (apply S1; now left). assert (I2 : In (p2, c2) v2) by (apply S2; now left).
      destruct (B1 p1 c1 I1) as [[b1 G1] _]. destruct (B2 p2 c2 I2) as [[b2 G2] _].
      assert (p1 = p2) by (eapply (PSegs_spell_inj isLetter isNumber sane); eauto). subst p2.
      constructor.
      - split; [reflexivity|]. cbn [snd]. intros z.
        apply (IH (es0 ++ [EVar p1])); rewrite walk_to_app; [rewrite W1|rewrite W2]; cbn [walk_to n_vars].
        + now rewrite (sorted_find p1 c1 _ C1 I1).
        + now rewrite (sorted_find p1 c2 _ C2 I2).
      - apply IHu; auto; intros; [apply S1|apply S2]; now right. }
    apply Hgen; auto. }
  assert (Hv : (if is TSlash t0 then try_vars okconv (search okconv f verb) (t1 :: rest) (n_vars nd1) else Err ENotFound) =
               (if is TSlash t0 then try_vars okconv (search okconv f verb) (t1 :: rest) (n_vars nd2) else Err ENotFound)).
  { destruct (is TSlash t0); auto. now apply try_vars_ext. }
  fold key. destruct (assoc key (n_segs nd1)) as [c1|], (assoc key (n_segs nd2)) as [c2|]; try contradiction.
  - rewrite Hlit. destruct (search okconv f verb c2 rest); auto.
  - exact Hv.
Qed.
End Same.


Theorem route_same L1 L2 r1 r2 verb p :
  InvX L1 r1 -> InvX L2 r2 -> (forall x, In x L1 <-> In x L2) ->
  route okconv isLetter isNumber r1 verb p = route okconv isLetter isNumber r2 verb p.
Proof.
  intros H1 H2 Hm. unfold Match.route. destruct (lex_path isLetter isNumber (normalise p)); auto.
  apply (search_same L1 L2 r1 r2 H1 H2 Hm verb _ []); reflexivity.
Qed.

(* ---- registering a list of bindings, in list order ---- *)
Fixpoint build_from (root : node) (l : regs) : outcome node :=
  match l with
  | [] => Ok root
  | x :: r => do r1 <- add_binding (fst x) root (snd x); build_from r1 r
  end.

Lemma Distinct_sub L L' : (forall x, In x L' -> In x L) -> Distinct L -> Distinct L'.
Proof. intros Hs HD x y ex vx ey vy Hx Hy. apply HD; auto. Qed.

Lemma build_InvX l : forall L0 root r,
  InvX L0 root -> Distinct (rev l ++ L0) -> build_from root l = Ok r -> InvX (rev l ++ L0) r.
Proof.
  induction l as [|[mid b] l IH]; intros L0 root r HX HD H; cbn in H.
  - inversion H; subst. exact HX.
  - destruct (add_binding mid root b) as [r1| | |] eqn:E1; try discriminate. cbn [bind] in H.
    cbn [rev]. rewrite <- app_assoc. cbn [app].
    cbn [rev] in HD. rewrite <- app_assoc in HD. cbn [app] in HD.
    apply (IH ((mid, b) :: L0) r1 r); auto.
    apply (InvX_step L0 root mid b r1 HX); [|exact E1]. eapply Distinct_sub; [|exact HD]. intros x Hx. apply in_or_app. now right.
Qed.

(* order independence: two accepted registration orders of the same (pairwise distinct) bindings
   route every request identically *)
Theorem order_independent l1 l2 r1 r2 :
  Permutation l1 l2 -> Distinct l1 ->
  build_from empty_node l1 = Ok r1 -> build_from empty_node l2 = Ok r2 ->
  forall verb p, route okconv isLetter isNumber r1 verb p = route okconv isLetter isNumber r2 verb p.
Proof.
  intros HP HD B1 B2 verb p.
  assert (D1 : Distinct (rev l1 ++ [])) by (eapply Distinct_sub; [|exact HD]; intros x Hx; rewrite app_nil_r in Hx; now apply in_rev).
  assert (D2 : Distinct (rev l2 ++ [])).
  { eapply Distinct_sub; [|exact HD]. intros x Hx. rewrite app_nil_r in Hx. apply in_rev in Hx. eapply Permutation_in; [apply Permutation_sym; exact HP|exact Hx]. }
  pose proof (build_InvX l1 [] empty_node r1 InvX_empty D1 B1) as X1.
  pose proof (build_InvX l2 [] empty_node r2 InvX_empty D2 B2) as X2.
  apply (route_same _ _ r1 r2 verb p X1 X2).
  intros x. rewrite !app_nil_r. rewrite <- !in_rev. split; intros Hx; [eapply Permutation_in; [exact HP|exact Hx]|eapply Permutation_in; [apply Permutation_sym; exact HP|exact Hx]].
Qed.

End Order.
