(* Routing and conversion composed (C01, last clause; C07): "every template variable's bound field
   equals the path text it covers, converted to the field's type".

   Routing (Model/Trie.v, Model/Match.v) knows the schema only through two oracles: resolves (which
   field paths of a method's request type exist) and okconv (which texts convert for a field path).
   Request reconstruction (Model/Schema.v, Model/Params.v, Model/Transcode.v) knows nothing of the
   trie: it is handed resolved field paths and captured texts.  Here the oracles are instantiated
   from a schema (resolves_of, okconv_of), the names a routed binding carries are resolved with
   Params.field_path, the captures are converted with Params.parse_param, and the theorems of both
   halves are joined:

     route ... = Ok (m, caps)                                      (Match.route)
       -> a registered binding of method m_id m covers the path with captures caps
       -> every named variable resolves in the request message of the method
       -> the parameters (field_path names, parse_param text) written by params.set leave, at the
          steps of every variable, the image of the converted capture -- the value the proto3-JSON
          text denotes (Spec/Json3.v) for the kinds with a grammar.

   What the routing invariant does NOT give, and what therefore is a hypothesis about the template
   (earlier_leave): a variable that comes earlier in the template is applied later by params.set
   (path.search builds the slice innermost first), so it must not write into the field of the
   variable considered.  For the first variable of a template there is nothing to assume; for
   "/v1/{num}/{num}" the second capture is lost (Example dup_variable_first_wins).
   The last field must be singular (a repeated field is appended to, not set); larking registers
   templates with repeated or map leaves, so this is a hypothesis as well. *)
From Larking Require Import Base.GoSem Base.B64 Model.Lexer Model.Trie Model.Match Spec.Grammar Spec.Route
  Proofs.LexerProofs Proofs.MatchProofs Proofs.TrieProofs Proofs.RoutingProofs Proofs.SpellProofs.
From Larking Require Import Model.Schema Model.Params Model.Transcode Spec.Json3
  Proofs.ParamsProofs Proofs.ParamsConvProofs Proofs.RoundtripProofs.
Local Open Scope N_scope.

(* ---------- lists ---------- *)
Lemma nth_error_rev_idx {A} (l : list A) : forall i, (i < length l)%nat ->
  nth_error (rev l) i = nth_error l (length l - S i).
Proof.
  induction l as [|a l IH]; intros i Hi; cbn [length] in *; [lia|]. cbn [rev].
  destruct (Nat.eq_dec i (length l)) as [E|E].
  - subst i. rewrite nth_error_app2 by (rewrite rev_length; lia). rewrite rev_length, Nat.sub_diag.
    replace (S (length l) - S (length l))%nat with 0%nat by lia. reflexivity.
  - rewrite nth_error_app1 by (rewrite rev_length; lia). rewrite IH by lia.
    replace (S (length l) - S i)%nat with (S (length l - S i)) by lia. reflexivity.
Qed.

Lemma filter_rev_comm {A} (f : A -> bool) (l : list A) : filter f (rev l) = rev (filter f l).
Proof.
  induction l as [|a l IH]; [reflexivity|]. cbn [rev filter]. rewrite filter_app, IH. cbn [filter].
  destruct (f a); [reflexivity|apply app_nil_r].
Qed.

Lemma combine_app_same {A B} (l1 : list A) (l1' : list B) l2 l2' :
  length l1 = length l1' -> combine (l1 ++ l2) (l1' ++ l2') = combine l1 l1' ++ combine l2 l2'.
Proof.
  revert l1'. induction l1 as [|a l1 IH]; intros [|b l1'] H; cbn in *; try lia; [reflexivity|].
  rewrite IH by lia. reflexivity.
Qed.

Lemma combine_rev_rev {A B} (l : list A) : forall (l' : list B), length l = length l' ->
  combine (rev l) (rev l') = rev (combine l l').
Proof.
  induction l as [|a l IH]; intros [|b l'] H; cbn [length] in *; try lia; [reflexivity|].
  cbn [rev combine]. rewrite combine_app_same by (rewrite !rev_length; lia). rewrite IH by lia. reflexivity.
Qed.

(* ---------- path.search only returns captures the conversion oracle accepted ---------- *)
Section SearchConv.
Variable okconv : list str -> str -> bool.

(* the indexing is the one of path.search: capture j belongs to m.vars[len(m.vars) - j - 1] *)
Definition Conv (r : Match.result) : Prop :=
  forall j c ns, nth_error (snd r) j = Some c ->
    nth_error (m_vars (fst r)) (length (m_vars (fst r)) - j - 1) = Some ns -> ns <> [] -> okconv ns c = true.

Lemma pick_conv verb nd r : pick verb nd = Ok r -> Conv r.
Proof.
  destruct r as [m ps]. intros H. apply pick_bound in H. destruct H as [_ ->].
  intros j c ns Hj. cbn [snd] in Hj. destruct j; discriminate.
Qed.

Lemma try_vars_conv rec tl vs r :
  (forall nd toks r', rec nd toks = Ok r' -> Conv r') ->
  try_vars okconv rec tl vs = Ok r -> Conv r.
Proof.
  intros Hrec. induction vs as [|[pat nxt] vs IH]; cbn [try_vars]; [discriminate|].
  destruct (var_index pat tl) as [[[c z]|]| | |] eqn:Ev; try discriminate; [|exact IH].
  destruct (rec nxt z) as [[m' ps']| | |] eqn:Er; try discriminate; [|exact IH].
  destruct (Nat.ltb (length ps') (length (m_vars m'))) eqn:El; [|discriminate].
  destruct (nth_error (m_vars m') (length (m_vars m') - length ps' - 1)) as [fds|] eqn:En; [|discriminate].
  intros H.
  assert (E : r = (m', ps' ++ [spell c]) /\ (fds <> [] -> okconv fds (spell c) = true)).
  { destruct fds as [|f0 fds']; cbn [is_nil] in H.
    - inversion H; subst. split; [reflexivity|congruence].
    - destruct (okconv (f0 :: fds') (spell c)) eqn:Eo; inversion H; subst. split; [reflexivity|reflexivity]. }
  destruct E as [-> Hok]. intros j c0 ns Hj Hn Hne. cbn [fst snd] in *.
  destruct (Nat.lt_ge_cases j (length ps')) as [Hlt|Hge].
  - rewrite nth_error_app1 in Hj by exact Hlt.
    exact (Hrec nxt z (m', ps') Er j c0 ns Hj Hn Hne).
  - rewrite nth_error_app2 in Hj by exact Hge.
    destruct (j - length ps')%nat as [|k] eqn:Ek; [|destruct k; discriminate].
    cbn in Hj. inversion Hj; subst c0. assert (j = length ps') by lia. subst j.
    rewrite En in Hn. inversion Hn; subst ns. exact (Hok Hne).
Qed.

Theorem search_conv fuel verb : forall nd toks r, search okconv fuel verb nd toks = Ok r -> Conv r.
Proof.
  induction fuel as [|f IH]; intros nd toks r H; cbn in H; [discriminate|].
  unfold search_body in H.
  assert (Hvars : forall t0 rest',
             (if is TSlash t0 then try_vars okconv (search okconv f verb) rest' (n_vars nd) else Err ENotFound) = Ok r ->
             Conv r).
  { intros t0 rest' Hv. destruct (is TSlash t0); [|discriminate]. exact (try_vars_conv _ _ _ _ IH Hv). }
  destruct toks as [|t0 [|t1 rest]].
  - exact (pick_conv _ _ _ H).
  - exact (pick_conv _ _ _ H).
  - destruct (assoc (tval t0 ++ tval t1) (n_segs nd)) as [nxt|] eqn:Ea.
    + destruct (search okconv f verb nxt rest) as [r'| | |] eqn:Er; try discriminate.
      * inversion H; subst r'. exact (IH _ _ _ Er).
      * exact (Hvars _ _ H).
    + exact (Hvars _ _ H).
Qed.
End SearchConv.

(* ---------- what compile records as a variable's field path resolved ---------- *)
Lemma field_keys_nonnil : forall ts acc, acc <> [] -> fst (field_keys acc ts) <> [].
Proof.
  fix IH 1. intros ts acc Ha. destruct ts as [|d [|k ts']]; cbn [field_keys fst]; try exact Ha.
  destruct (is TDot d); cbn [fst]; [|exact Ha]. apply IH. destruct acc; discriminate.
Qed.

Definition var_resolved (resolves : str -> list str -> bool) (mid : str) (ns : list str) : Prop :=
  ns = [] \/ (ns <> [] /\ resolves mid ns = true).

Lemma compile_vars_resolve resolves : forall fuel mid ts es vfs,
  compile resolves fuel mid ts = Ok (es, vfs) -> Forall (var_resolved resolves mid) vfs.
Proof.
  induction fuel as [|f IH]; intros mid ts es vfs H; cbn [compile] in H; [discriminate|].
  destruct ts as [|tok ts1]; [discriminate|].
  destruct (ttyp tok); try discriminate.
  - (* slash *)
    destruct ts1 as [|val ts2]; [discriminate|].
    destruct (ttyp val); try discriminate.
    + destruct (compile resolves f mid ts2) as [[es' vfs']| | |] eqn:Ec; try discriminate. cbn [bind fst snd] in H.
      inversion H; subst. constructor; [left; reflexivity|exact (IH _ _ _ _ Ec)].
    + destruct (compile resolves f mid ts2) as [[es' vfs']| | |] eqn:Ec; try discriminate. cbn [bind fst snd] in H.
      inversion H; subst. constructor; [left; reflexivity|exact (IH _ _ _ _ Ec)].
    + destruct ts2 as [|id ts3]; [discriminate|].
      pose proof (field_keys_nonnil ts3 [tval id] ltac:(discriminate)) as Hk.
      destruct (field_keys [tval id] ts3) as [keys ts4]. cbn [fst] in Hk.
      destruct ts4 as [|nxt ts5]; [discriminate|].
      destruct (ttyp nxt); try discriminate.
      * destruct (resolves mid keys) eqn:Er; [|discriminate].
        destruct (compile resolves f mid ts5) as [[es' vfs']| | |] eqn:Ec; try discriminate. cbn [bind fst snd] in H.
        inversion H; subst. constructor; [right; split; assumption|exact (IH _ _ _ _ Ec)].
      * destruct (until_varend ts5) as [[pat ts6]|]; [|discriminate].
        destruct (resolves mid keys) eqn:Er; [|discriminate].
        destruct (compile resolves f mid ts6) as [[es' vfs']| | |] eqn:Ec; try discriminate. cbn [bind fst snd] in H.
        inversion H; subst. constructor; [right; split; assumption|exact (IH _ _ _ _ Ec)].
    + destruct (compile resolves f mid ts2) as [[es' vfs']| | |] eqn:Ec; try discriminate. cbn [bind fst snd] in H.
      inversion H; subst. exact (IH _ _ _ _ Ec).
  - (* verb *)
    destruct ts1 as [|val ts2]; [discriminate|]. inversion H; subst. constructor.
  - inversion H; subst. constructor.
Qed.

(* ---------- untouched, read as a statement about two field paths ---------- *)
(* A parameter for the field path fds leaves the path q alone iff q leaves fds's path at some step
   for a field that is neither that step's field nor another member of its oneof.  So "the variables
   of a template do not touch each other" means: they bind different fields, neither nested in the
   other (untouched_self, untouched_nested), and not two members of one oneof. *)
Lemma untouched_iff_diverge : forall fds q,
  untouched fds q = true <->
  (fds = [] \/ exists A st B n q', fds = A ++ st :: B /\ q = steps_path A ++ n :: q' /\
     n <> step_num st /\ ~ In n (sibs (fst st) (snd st))).
Proof.
  induction fds as [|st rest IH]; intros q.
  - cbn. split; auto.
  - split.
    + intros H. right. destruct q as [|n q']; [discriminate|]. cbn [untouched] in H.
      destruct (n =? step_num st) eqn:E.
      * apply N.eqb_eq in E. subst n. destruct rest as [|st2 rest2]; [discriminate|].
        apply IH in H. destruct H as [H|(A & st' & B & n & q2 & E1 & E2 & E3 & E4)]; [discriminate|].
        exists (st :: A), st', B, n, q2. rewrite E1, E2. repeat split; auto.
      * apply N.eqb_neq in E. exists [], st, rest, n, q'. repeat split; auto.
        intros Hin. apply negb_true_iff in H.
        assert (X : existsb (N.eqb n) (sibs (fst st) (snd st)) = true).
        { apply existsb_exists. exists n. split; [exact Hin|apply N.eqb_refl]. }
        congruence.
    + intros [H|(A & st' & B & n & q' & E1 & E2 & E3 & E4)]; [discriminate|].
      destruct A as [|a A].
      * cbn in E1, E2. inversion E1; subst st' B q. cbn [untouched].
        apply N.eqb_neq in E3. rewrite E3. apply negb_true_iff. apply not_true_is_false. intros X.
        apply existsb_exists in X. destruct X as (x & Hx & Ex). apply N.eqb_eq in Ex. subst x. contradiction.
      * cbn in E1, E2. injection E1 as Ea Er. subst a q. cbn [untouched]. rewrite N.eqb_refl.
        destruct rest as [|x l]; [destruct A; discriminate|].
        apply IH. right. exists A, st', B, n, q'. repeat split; auto.
Qed.


(* a field nested under (or equal to) the field of fds is touched by fds, and the other way round *)
Lemma untouched_nested fds : forall r, fds <> [] -> untouched fds (steps_path fds ++ r) = false.
Proof.
  induction fds as [|st rest IH]; intros r H; [contradiction|].
  cbn [steps_path map app untouched]. fold (step_num st). rewrite N.eqb_refl.
  destruct rest as [|st2 rest2]; [reflexivity|]. apply (IH r). discriminate.
Qed.
Lemma untouched_self fds : fds <> [] -> untouched fds (steps_path fds) = false.
Proof. intros H. rewrite <- (app_nil_r (steps_path fds)). apply untouched_nested. exact H. Qed.
Lemma untouched_parent : forall A B, B <> [] -> untouched (A ++ B) (steps_path A) = false.
Proof.
  induction A as [|st A IH]; intros B HB.
  - destruct B; [contradiction|reflexivity].
  - cbn [app steps_path map untouched]. fold (step_num st). rewrite N.eqb_refl.
    destruct (A ++ B) as [|x l] eqn:E; [reflexivity|]. rewrite <- E. apply IH. exact HB.
Qed.

(* ---------- the oracles, from a schema ---------- *)
Section Bound.
Variable ofloat : bool -> bytes -> option N.
Variable owkt : wkt -> bool -> bytes -> option subtree.
Variable sch : schema.
(* the request message type of every method (index into s_msgs), by method id *)
Variable req : str -> option nat.

Definition req_fields (rm : nat) : list field := msg_fields sch rm.

(* addRule: fieldPath(desc.Input().Fields(), keys...) != nil *)
Definition resolves_of (mid : str) (names : list str) : bool :=
  match req mid with
  | Some rm => match field_path sch (req_fields rm) names with Some _ => true | None => false end
  | None => false
  end.

(* path.search: parseParam(fds, capture) has no error, fds being the resolved names.  Match.route
   hands its oracle the names only (not the method), so the instance is per request message type. *)
Definition okconv_of (rm : nat) (names : list str) (text : str) : bool :=
  match field_path sch (req_fields rm) names with
  | Some fds => is_ok (parse_param ofloat owkt sch fds text)
  | None => false
  end.

(* serveHTTP: each (names, text) of the routing result becomes (fieldPath names, parseParam text) *)
Fixpoint convert_params (rm : nat) (nps : list (list str * str)) : outcome (list param) :=
  match nps with
  | [] => Ok []
  | (ns, c) :: r =>
    match field_path sch (req_fields rm) ns with
    | None => Err EInvalid
    | Some fds => do v <- parse_param ofloat owkt sch fds c; do ps <- convert_params rm r; Ok ((fds, v) :: ps)
    end
  end.

Definition conv (rm : nat) (nc : list str * str) (p : param) : Prop :=
  field_path sch (req_fields rm) (fst nc) = Some (fst p) /\ parse_param ofloat owkt sch (fst p) (snd nc) = Ok (snd p).

Lemma convert_params_conv rm : forall nps ps, convert_params rm nps = Ok ps -> Forall2 (conv rm) nps ps.
Proof.
  induction nps as [|[ns c] nps IH]; intros ps H; cbn [convert_params] in H.
  - inversion H; subst. constructor.
  - destruct (field_path sch (req_fields rm) ns) as [fds|] eqn:Ef; [|discriminate].
    destruct (parse_param ofloat owkt sch fds c) as [v| | |] eqn:Ep; cbn [bind] in H; try discriminate.
    destruct (convert_params rm nps) as [ps'| | |] eqn:Ec; cbn [bind] in H; try discriminate.
    inversion H; subst. constructor; [split; assumption|apply IH; reflexivity].
Qed.

Lemma convert_params_ok rm : forall nps,
  (forall nc, In nc nps -> okconv_of rm (fst nc) (snd nc) = true) -> exists ps, convert_params rm nps = Ok ps.
Proof.
  induction nps as [|[ns c] nps IH]; intros H; cbn [convert_params]; [eauto|].
  pose proof (H (ns, c) (or_introl eq_refl)) as H0. unfold okconv_of in H0. cbn [fst snd] in H0.
  destruct (field_path sch (req_fields rm) ns) as [fds|]; [|discriminate].
  destruct (parse_param ofloat owkt sch fds c) as [v| | |]; try discriminate. cbn [bind].
  destruct (IH (fun nc Hin => H nc (or_intror Hin))) as [ps ->]. cbn [bind]. eauto.
Qed.

Lemma parse_param_kind fds c :
  fds <> [] -> parse_param ofloat owkt sch fds c = parse_kind ofloat owkt sch (f_kind (snd (last_step fds))) c.
Proof. destruct fds; [contradiction|reflexivity]. Qed.
Lemma parse_param_nonnil fds c v : parse_param ofloat owkt sch fds c = Ok v -> fds <> [].
Proof. intros H ->. discriminate. Qed.

(* the text of a converted capture is a text of the proto3-JSON grammar for its value *)
Lemma converted_is_json3 fds c v :
  parse_param ofloat owkt sch fds c = Ok v ->
  (exact_kind (f_kind (snd (last_step fds))) = true \/ f_kind (snd (last_step fds)) = KBytes) ->
  json3_text sch (f_kind (snd (last_step fds))) v c.
Proof.
  intros H Hk. rewrite (parse_param_kind fds c (parse_param_nonnil _ _ _ H)) in H.
  exact (reject_not_coerce ofloat owkt sch _ c v Hk H).
Qed.
(* ... and for the kinds with a grammar, exactly the texts of the grammar convert, to exactly that value *)
Lemma converted_iff_json3 fds c v :
  fds <> [] -> exact_kind (f_kind (snd (last_step fds))) = true ->
  (parse_param ofloat owkt sch fds c = Ok v <-> json3_text sch (f_kind (snd (last_step fds))) v c).
Proof. intros Hne Hk. rewrite (parse_param_kind fds c Hne). exact (conv_exact ofloat owkt sch _ c v Hk). Qed.

(* ---------- params.set over the converted parameters of one template ---------- *)
Definition named (nc : list str * str) : bool := negb (is_nil (fst nc)).

(* the variables before variable i in the template (they are applied after it) leave its field alone *)
Definition earlier_leave (rm : nat) (vars : list (list str)) (i : nat) (fds : list step) : Prop :=
  forall j nsj fj, (j < i)%nat -> nth_error vars j = Some nsj -> nsj <> [] ->
    field_path sch (req_fields rm) nsj = Some fj -> untouched fj (steps_path fds) = true.

(* the same for all pairs: two variables of the template bind fields that do not touch *)
Definition vars_nontouching (rm : nat) (vars : list (list str)) : Prop :=
  forall i j nsi nsj fi fj, i <> j -> nth_error vars i = Some nsi -> nth_error vars j = Some nsj ->
    nsi <> [] -> nsj <> [] ->
    field_path sch (req_fields rm) nsi = Some fi -> field_path sch (req_fields rm) nsj = Some fj ->
    untouched fj (steps_path fi) = true.

Lemma nontouching_earlier rm vars i ns fds :
  vars_nontouching rm vars -> nth_error vars i = Some ns -> ns <> [] ->
  field_path sch (req_fields rm) ns = Some fds -> earlier_leave rm vars i fds.
Proof.
  intros Hn Hi Hne Hf j nsj fj Hj Hnj Hnej Hfj.
  apply (Hn i j ns nsj fds fj); auto. lia.
Qed.

(* vcs: (names, capture) per variable in template order; the slice is the named ones, reversed *)
Lemma conv_split rm : forall vcs ps i ns c,
  Forall2 (conv rm) (rev (filter named vcs)) ps -> nth_error vcs i = Some (ns, c) -> ns <> [] ->
  exists pre fds v post, ps = pre ++ (fds, v) :: post /\
    field_path sch (req_fields rm) ns = Some fds /\ parse_param ofloat owkt sch fds c = Ok v /\
    forall p, In p post -> exists j nsj cj, (j < i)%nat /\ nth_error vcs j = Some (nsj, cj) /\ nsj <> [] /\
                                       field_path sch (req_fields rm) nsj = Some (fst p).
Proof.
  induction vcs as [|[n0 c0] vcs IH]; intros ps i ns c HF Hn Hne.
  - destruct i; discriminate.
  - cbn [filter] in HF. unfold named at 1 in HF. cbn [fst] in HF.
    destruct n0 as [|x0 n0']; cbn [is_nil negb] in HF.
    + destruct i as [|i]; [cbn in Hn; inversion Hn; subst; contradiction|]. cbn [nth_error] in Hn.
      destruct (IH ps i ns c HF Hn Hne) as (pre & fds & v & post & E & Hf & Hp & Hpost).
      exists pre, fds, v, post. repeat split; auto.
      intros p Hin. destruct (Hpost p Hin) as (j & nsj & cj & Hj & Hnj & Hnej & Hfj).
      exists (S j), nsj, cj. repeat split; auto. lia.
    + cbn [rev] in HF. apply Forall2_app_inv_l in HF. destruct HF as (ps1 & ps2 & F1 & F2 & ->).
      inversion F2 as [|x p0 lx lp Hc0 Hnil]; subst. inversion Hnil; subst.
      destruct Hc0 as [Hf0 Hp0]. cbn [fst snd] in Hf0, Hp0.
      destruct i as [|i].
      * cbn in Hn. inversion Hn; subst ns c. destruct p0 as [fds v]. cbn [fst snd] in *.
        exists ps1, fds, v, []. repeat split; auto. intros p [].
      * cbn [nth_error] in Hn.
        destruct (IH ps1 i ns c F1 Hn Hne) as (pre & fds & v & post & -> & Hf & Hp & Hpost).
        exists pre, fds, v, (post ++ [p0]). split; [rewrite <- app_assoc; reflexivity|]. split; [exact Hf|]. split; [exact Hp|].
        intros p Hin. apply in_app_or in Hin. destruct Hin as [Hin|[<-|[]]].
        -- destruct (Hpost p Hin) as (j & nsj & cj & Hj & Hnj & Hnej & Hfj).
           exists (S j), nsj, cj. repeat split; auto. lia.
        -- exists 0%nat, (x0 :: n0'), c0. repeat split; auto; [lia|discriminate].
Qed.

Lemma bound_field_core rm : forall vars rcaps ps M0 M' i ns c,
  Forall2 (conv rm) (rev (filter named (combine vars rcaps))) ps ->
  params_set ps M0 = Ok M' ->
  nth_error vars i = Some ns -> ns <> [] -> nth_error rcaps i = Some c ->
  exists fds v, field_path sch (req_fields rm) ns = Some fds /\ fds <> [] /\
    parse_param ofloat owkt sch fds c = Ok v /\ In (fds, v) ps /\
    (singular_last fds -> earlier_leave rm vars i fds ->
       forall rel, Schema.lookup (steps_path fds ++ rel) M' = Schema.lookup rel (field_image (snd (last_step fds)) v)).
Proof.
  intros vars rcaps ps M0 M' i ns c HF HS Hv Hne Hc.
  destruct (conv_split rm _ ps i ns c HF (nth_error_combine _ _ _ _ _ Hv Hc) Hne)
    as (pre & fds & v & post & -> & Hf & Hp & Hpost).
  exists fds, v. split; [exact Hf|]. split; [exact (parse_param_nonnil _ _ _ Hp)|]. split; [exact Hp|].
  split; [apply in_or_app; right; left; reflexivity|].
  intros Hs He rel.
  apply (params_set_wins pre fds v post M0 M' rel (parse_param_nonnil _ _ _ Hp) Hs); [|exact HS].
  intros p Hin. destruct (Hpost p Hin) as (j & nsj & cj & Hj & Hnj & Hnej & Hfj).
  apply nth_error_combine_fst in Hnj. exact (He j nsj (fst p) Hj Hnj Hnej Hfj).
Qed.

Lemma nth_error_combine_snd {A B} : forall (l : list A) (l' : list B) i a b,
  nth_error (combine l l') i = Some (a, b) -> nth_error l' i = Some b.
Proof.
  induction l as [|x l IH]; intros l' i a b H; destruct l' as [|y l']; destruct i; cbn in *; try discriminate.
  - congruence.
  - eauto.
Qed.

(* the slice of path parameters, read in template order *)
Lemma path_params_template m caps : length caps = length (m_vars m) ->
  Match.path_params (m, caps) = rev (filter named (combine (m_vars m) (rev caps))).
Proof.
  intros Hl. unfold Match.path_params.
  transitivity (filter named (combine (rev (m_vars m)) (rev (rev caps)))); [rewrite rev_involutive; reflexivity|].
  rewrite combine_rev_rev by (rewrite rev_length; lia). apply filter_rev_comm.
Qed.

(* ---------- the routed binding ---------- *)
Section Routed.
Variables isLetter isNumber : N -> bool.
Hypothesis sane : Sane isLetter isNumber.

Notation Inv := (TrieProofs.Inv isLetter isNumber resolves_of).
Notation compiled := (TrieProofs.compiled isLetter isNumber resolves_of).

(* what routing alone says about the result (dispatch_sound, covering_spells_path, search_conv,
   compile_vars_resolve), for the same binding b and edges es *)
Lemma routed_facts okconv L root verb p m caps :
  Inv L root -> Match.route okconv isLetter isNumber root verb p = Ok (m, caps) ->
  exists b es toks,
    In (m_id m, b) L /\ covers_verb (b_verb b) verb /\ m_body m = b_body b /\
    compiled (m_id m) b es (m_vars m) /\
    lex_path isLetter isNumber (normalise p) = Ok toks /\ MatchEdges es toks caps /\
    fill es (rev caps) = Some (normalise p) /\
    length caps = length (m_vars m) /\
    Forall (var_resolved resolves_of (m_id m)) (m_vars m) /\
    (forall i ns c, nth_error (m_vars m) i = Some ns -> ns <> [] -> nth_error (rev caps) i = Some c ->
       okconv ns c = true).
Proof.
  intros HI H.
  destruct (dispatch_sound isLetter isNumber resolves_of okconv sane L root verb p m caps HI H)
    as (mid & b & es & toks & A & B & C & D & E & F & G).
  subst mid. exists b, es, toks.
  assert (Hlen : length caps = length (m_vars m)).
  { unfold Match.route in H. rewrite F in H.
    pose proof (search_sound okconv _ _ _ _ _ H) as HS.
    pose proof (sound_caps_length okconv verb root 0%nat toks m caps
                  (WFn_TrieInv (PatG isLetter isNumber) (PatG_ok isLetter isNumber) 0%nat root (inv_wf _ _ _ _ _ HI)) HS) as HL.
    cbn in HL. lia. }
  split; [exact A|]. split; [exact C|]. split; [exact D|]. split; [exact E|]. split; [exact F|]. split; [exact G|].
  split; [|split; [exact Hlen|split]].
  - assert (Hes : Forall (edge_gram isLetter isNumber) es).
    { destruct E as (toks' & E1 & E2).
      pose proof (compile_tmpl isLetter isNumber resolves_of toks' (m_id m) (proj1 (lex_template_sound _ _ _ _ E1))) as Hg.
      rewrite E2 in Hg. now destruct Hg. }
    destruct (lex_path_sound _ _ _ _ F) as (HP & Hsp & _).
    rewrite <- Hsp. apply (covering_spells_path isLetter isNumber); [exact Hes|right; exact HP|exact G].
  - destruct E as (toks' & E1 & E2). exact (compile_vars_resolve resolves_of _ _ _ _ _ E2).
  - intros i ns c Hi Hne Hc.
    unfold Match.route in H. rewrite F in H.
    pose proof (search_conv okconv _ _ _ _ _ H) as HC. unfold Conv in HC. cbn [fst snd] in HC.
    assert (Hi' : (i < length (m_vars m))%nat) by (apply nth_error_Some; congruence).
    rewrite nth_error_rev_idx in Hc by lia.
    apply (HC (length caps - S i)%nat c ns Hc); [|exact Hne].
    replace (length (m_vars m) - (length caps - S i) - 1)%nat with i by lia. exact Hi.
Qed.

(* a named variable of a registered template resolves in the request message of its method *)
Lemma var_resolved_field_path mid ns : var_resolved resolves_of mid ns -> ns <> [] ->
  exists rm fds, req mid = Some rm /\ field_path sch (req_fields rm) ns = Some fds.
Proof.
  intros [->|[_ H]] Hne; [contradiction|]. unfold resolves_of in H.
  destruct (req mid) as [rm|]; [|discriminate].
  destruct (field_path sch (req_fields rm) ns) as [fds|] eqn:Ef; [|discriminate]. eauto.
Qed.

Lemma field_path_nonnil pf ns fds : ns <> [] -> field_path sch pf ns = Some fds -> fds <> [].
Proof.
  intros Hne Hf ->. destruct ns as [|n0 rest]; [contradiction|]. cbn [field_path] in Hf.
  destruct (find_field pf n0) as [fd|]; [|discriminate Hf].
  destruct rest as [|n1 rest']; [discriminate Hf|].
  destruct (field_msg fd) as [mm|]; [|discriminate Hf].
  destruct (field_path sch (msg_fields sch mm) (n1 :: rest')); discriminate Hf.
Qed.

(* ---------- the main theorem ---------- *)
Theorem bound_fields_are_converted_captures :
  forall okconv L root verb p m caps,
  Inv L root -> Match.route okconv isLetter isNumber root verb p = Ok (m, caps) ->
  exists b es toks,
    (* routing: a registered binding of the method covers the path, with these captures *)
    In (m_id m, b) L /\ covers_verb (b_verb b) verb /\ m_body m = b_body b /\
    compiled (m_id m) b es (m_vars m) /\
    lex_path isLetter isNumber (normalise p) = Ok toks /\ MatchEdges es toks caps /\
    fill es (rev caps) = Some (normalise p) /\
    length caps = length (m_vars m) /\
    (* every named variable resolves in the request message of the method, and the router's
       conversion oracle accepted its capture *)
    (forall i ns, nth_error (m_vars m) i = Some ns -> ns <> [] ->
       exists rm fds, req (m_id m) = Some rm /\ field_path sch (req_fields rm) ns = Some fds /\ fds <> []) /\
    (forall i ns c, nth_error (m_vars m) i = Some ns -> ns <> [] -> nth_error (rev caps) i = Some c ->
       okconv ns c = true) /\
    forall rm, req (m_id m) = Some rm ->
      (* with the router's oracle instantiated from the schema, serveHTTP's conversion succeeds *)
      ((forall ns c, okconv ns c = true -> okconv_of rm ns c = true) ->
         exists ps, convert_params rm (Match.path_params (m, caps)) = Ok ps) /\
      (* conversion: what params.set leaves in the message *)
      forall ps M0 M', convert_params rm (Match.path_params (m, caps)) = Ok ps -> params_set ps M0 = Ok M' ->
      forall i ns c, nth_error (m_vars m) i = Some ns -> ns <> [] -> nth_error (rev caps) i = Some c ->
      exists fds v,
        field_path sch (req_fields rm) ns = Some fds /\ fds <> [] /\
        parse_param ofloat owkt sch fds c = Ok v /\ In (fds, v) ps /\
        ((exact_kind (f_kind (snd (last_step fds))) = true \/ f_kind (snd (last_step fds)) = KBytes) ->
           json3_text sch (f_kind (snd (last_step fds))) v c) /\
        (singular_last fds -> earlier_leave rm (m_vars m) i fds ->
           forall rel, Schema.lookup (steps_path fds ++ rel) M' = Schema.lookup rel (field_image (snd (last_step fds)) v)).
Proof.
  intros okconv L root verb p m caps HI H.
  destruct (routed_facts okconv L root verb p m caps HI H) as (b & es & toks & A & B & C & D & E & F & G & Hlen & Hres & Hok).
  exists b, es, toks.
  split; [exact A|]. split; [exact B|]. split; [exact C|]. split; [exact D|]. split; [exact E|]. split; [exact F|].
  split; [exact G|]. split; [exact Hlen|]. split; [|split; [exact Hok|]].
  - intros i ns Hi Hne.
    pose proof (proj1 (Forall_forall _ _) Hres ns (nth_error_In _ _ Hi)) as Hr.
    destruct (var_resolved_field_path _ _ Hr Hne) as (rm & fds & Hrm & Hf).
    exists rm, fds. split; [exact Hrm|]. split; [exact Hf|].
    exact (field_path_nonnil _ _ _ Hne Hf).
  - intros rm Hrm. rewrite (path_params_template m caps Hlen). split.
    + intros Himp. apply convert_params_ok. intros [ns c] Hin. cbn [fst snd].
      apply in_rev in Hin. apply filter_In in Hin. destruct Hin as [Hin Hnamed].
      apply In_nth_error in Hin. destruct Hin as [i Hi].
      apply Himp. apply (Hok i ns c).
      * exact (nth_error_combine_fst _ _ _ _ _ Hi).
      * unfold named in Hnamed. cbn [fst] in Hnamed. intros ->. discriminate.
      * exact (nth_error_combine_snd _ _ _ _ _ Hi).
    + intros ps M0 M' Hconv Hset i ns c Hi Hne Hc.
      destruct (bound_field_core rm (m_vars m) (rev caps) ps M0 M' i ns c (convert_params_conv rm _ _ Hconv) Hset Hi Hne Hc)
        as (fds & v & Hf & Hfn & Hp & Hin & Hwin).
      exists fds, v. split; [exact Hf|]. split; [exact Hfn|]. split; [exact Hp|]. split; [exact Hin|].
      split; [exact (converted_is_json3 fds c v Hp)|exact Hwin].
Qed.

(* Partial statement with no hypothesis about other variables: a variable that only bare wildcards
   precede -- the first named variable of any template, the variable of a template with one -- *)
Corollary bound_fields_are_converted_captures_partial :
  forall okconv L root verb p m caps,
  Inv L root -> Match.route okconv isLetter isNumber root verb p = Ok (m, caps) ->
  forall rm ps M0 M', req (m_id m) = Some rm ->
  convert_params rm (Match.path_params (m, caps)) = Ok ps -> params_set ps M0 = Ok M' ->
  forall i ns c, nth_error (m_vars m) i = Some ns -> ns <> [] -> nth_error (rev caps) i = Some c ->
  (forall j nsj, (j < i)%nat -> nth_error (m_vars m) j = Some nsj -> nsj = []) ->
  exists fds v,
    field_path sch (req_fields rm) ns = Some fds /\ parse_param ofloat owkt sch fds c = Ok v /\
    ((exact_kind (f_kind (snd (last_step fds))) = true \/ f_kind (snd (last_step fds)) = KBytes) ->
       json3_text sch (f_kind (snd (last_step fds))) v c) /\
    (singular_last fds ->
       forall rel, Schema.lookup (steps_path fds ++ rel) M' = Schema.lookup rel (field_image (snd (last_step fds)) v)).
Proof.
  intros okconv L root verb p m caps HI H rm ps M0 M' Hrm Hconv Hset i ns c Hi Hne Hc Hfirst.
  destruct (bound_fields_are_converted_captures okconv L root verb p m caps HI H)
    as (b & es & toks & _ & _ & _ & _ & _ & _ & _ & _ & _ & _ & Hmain).
  destruct (Hmain rm Hrm) as [_ Hm].
  destruct (Hm ps M0 M' Hconv Hset i ns c Hi Hne Hc) as (fds & v & Hf & _ & Hp & _ & Hj & Hwin).
  exists fds, v. split; [exact Hf|]. split; [exact Hp|]. split; [exact Hj|].
  intros Hs. apply (Hwin Hs). intros j nsj fj Hlt Hnj Hnej _. exfalso. exact (Hnej (Hfirst j nsj Hlt Hnj)).
Qed.

(* General statement for every variable, for templates whose variables bind non-touching fields *)
Corollary bound_fields_nontouching :
  forall okconv L root verb p m caps,
  Inv L root -> Match.route okconv isLetter isNumber root verb p = Ok (m, caps) ->
  forall rm ps M0 M', req (m_id m) = Some rm -> vars_nontouching rm (m_vars m) ->
  convert_params rm (Match.path_params (m, caps)) = Ok ps -> params_set ps M0 = Ok M' ->
  forall i ns c, nth_error (m_vars m) i = Some ns -> ns <> [] -> nth_error (rev caps) i = Some c ->
  exists fds v,
    field_path sch (req_fields rm) ns = Some fds /\ parse_param ofloat owkt sch fds c = Ok v /\
    ((exact_kind (f_kind (snd (last_step fds))) = true \/ f_kind (snd (last_step fds)) = KBytes) ->
       json3_text sch (f_kind (snd (last_step fds))) v c) /\
    (singular_last fds ->
       forall rel, Schema.lookup (steps_path fds ++ rel) M' = Schema.lookup rel (field_image (snd (last_step fds)) v)).
Proof.
  intros okconv L root verb p m caps HI H rm ps M0 M' Hrm Hnt Hconv Hset i ns c Hi Hne Hc.
  destruct (bound_fields_are_converted_captures okconv L root verb p m caps HI H)
    as (b & es & toks & _ & _ & _ & _ & _ & _ & _ & _ & _ & _ & Hmain).
  destruct (Hmain rm Hrm) as [_ Hm].
  destruct (Hm ps M0 M' Hconv Hset i ns c Hi Hne Hc) as (fds & v & Hf & _ & Hp & _ & Hj & Hwin).
  exists fds, v. split; [exact Hf|]. split; [exact Hp|]. split; [exact Hj|].
  intros Hs. apply (Hwin Hs). exact (nontouching_earlier rm (m_vars m) i ns fds Hnt Hi Hne Hf).
Qed.

(* ---------- with a query and a body: decode_request (C07) ---------- *)
(* the field paths of the variables, resolved, in template order ([] stays []: fieldPath of no names) *)
Fixpoint vars_steps (rm : nat) (vars : list (list str)) : option (list (list step)) :=
  match vars with
  | [] => Some []
  | ns :: r =>
    match field_path sch (req_fields rm) ns, vars_steps rm r with
    | Some f, Some l => Some (f :: l)
    | _, _ => None
    end
  end.

Lemma vars_steps_nth rm : forall vars vs i, vars_steps rm vars = Some vs ->
  (forall ns, nth_error vars i = Some ns -> exists fds, nth_error vs i = Some fds /\ field_path sch (req_fields rm) ns = Some fds) /\
  (forall fds, nth_error vs i = Some fds -> exists ns, nth_error vars i = Some ns /\ field_path sch (req_fields rm) ns = Some fds).
Proof.
  induction vars as [|n0 vars IH]; intros vs i H; cbn [vars_steps] in H.
  - inversion H; subst. split; intros x Hx; destruct i; discriminate.
  - destruct (field_path sch (req_fields rm) n0) as [f0|] eqn:Ef; [|discriminate].
    destruct (vars_steps rm vars) as [l|] eqn:El; [|discriminate]. inversion H; subst vs.
    destruct i as [|i]; cbn [nth_error].
    + split; intros x Hx; inversion Hx; subst; eauto.
    + exact (IH l i eq_refl).
Qed.

Lemma vars_steps_total rm mid : forall vars,
  req mid = Some rm -> Forall (var_resolved resolves_of mid) vars -> exists vs, vars_steps rm vars = Some vs.
Proof.
  intros vars Hrm HF. induction HF as [|ns vars Hr HF IH]; cbn [vars_steps]; [eauto|].
  destruct IH as [l ->].
  destruct ns as [|n0 ns'].
  - cbn [field_path]. eauto.
  - destruct (var_resolved_field_path mid (n0 :: ns') Hr ltac:(discriminate)) as (rm' & fds & Hrm' & Hf).
    rewrite Hrm in Hrm'. inversion Hrm'; subst rm'. rewrite Hf. eauto.
Qed.

Section Decode.
Variable unmarshal : nat -> nat -> bytes -> option subtree.
Variable inflate : bytes -> option bytes.

(* path_wins (C07) under the hypothesis its proof uses: only the variables BEFORE variable i in the
   template are applied after it, so only they have to leave its field alone.  (vars_independent, as
   C07_path_wins states it, asks this of every ordered pair; for the pair (bare wildcard, named
   variable) it reads untouched fds [] = true, which is false -- see vars_independent_no_wildcard
   below -- so C07_path_wins itself says nothing about templates that mix "*" with named variables.
   The success of the conversion is separated from the two conditions as well.) *)
Lemma decode_request_path_param : forall r rq M i fds c,
  nth_error (r_vars r) i = Some fds -> fds <> [] -> nth_error (q_caps rq) i = Some c ->
  decode_request ofloat owkt unmarshal inflate sch r rq = Ok M ->
  exists v, parse_param ofloat owkt sch fds c = Ok v /\
    (singular_last fds ->
     (forall j fj, (j < i)%nat -> nth_error (r_vars r) j = Some fj -> untouched fj (steps_path fds) = true) ->
     forall rel, Schema.lookup (steps_path fds ++ rel) M = Schema.lookup rel (field_image (snd (last_step fds)) v)).
Proof.
  intros r rq M i fds c Hv Hne Hc H.
  unfold decode_request in H.
  destruct (Transcode.path_params ofloat owkt sch (combine (r_vars r) (q_caps rq))) as [ps| | |] eqn:Ep; cbn [bind] in H; try discriminate.
  destruct (parse_query ofloat owkt sch (msg_fields sch (r_input r)) (q_query rq)) as [qs| | |]; cbn [bind] in H; try discriminate.
  destruct (if q_gzip rq then _ else _); try discriminate.
  unfold recv_first in H.
  destruct (match r_body r with Transcode.BNone => _ | Transcode.BStar => _ | Transcode.BField _ => _ end) as [M0| | |]; cbn [bind] in H; try discriminate.
  destruct (path_params_split ofloat owkt unmarshal inflate sch _ ps i fds c Ep (nth_error_combine _ _ _ _ _ Hv Hc) Hne) as [pre [v [post [-> [Hpv Hpost]]]]].
  exists v. split; [exact Hpv|]. intros Hs Hind rel.
  rewrite app_assoc in H.
  apply (params_set_wins (qs ++ pre) fds v post M0 M rel Hne Hs); [|exact H].
  intros p Hp. destruct (Hpost p Hp) as [j [c' [Hj Hnth]]].
  apply nth_error_combine_fst in Hnth. exact (Hind j (fst p) Hj Hnth).
Qed.

(* The routed binding as a rule of the request decoder: input type, resolved variables, any body
   selector; the request: the captures in template order, any query, any body.  If the request is
   served, the handler's message holds at every variable's field the converted capture -- whatever
   the query and the body said about that field (path parameters are applied last). *)
Theorem bound_fields_with_query_and_body :
  forall okconv L root verb p m caps,
  Inv L root -> Match.route okconv isLetter isNumber root verb p = Ok (m, caps) ->
  forall rm, req (m_id m) = Some rm ->
  exists vs, vars_steps rm (m_vars m) = Some vs /\ length vs = length (rev caps) /\
  forall bd query body codec gz M,
    decode_request ofloat owkt unmarshal inflate sch (mkRule rm vs bd) (mkReq (rev caps) query body codec gz) = Ok M ->
    forall i ns c, nth_error (m_vars m) i = Some ns -> ns <> [] -> nth_error (rev caps) i = Some c ->
    exists fds v,
      field_path sch (req_fields rm) ns = Some fds /\ nth_error vs i = Some fds /\ fds <> [] /\
      parse_param ofloat owkt sch fds c = Ok v /\
      ((exact_kind (f_kind (snd (last_step fds))) = true \/ f_kind (snd (last_step fds)) = KBytes) ->
         json3_text sch (f_kind (snd (last_step fds))) v c) /\
      (singular_last fds -> earlier_leave rm (m_vars m) i fds ->
         forall rel, Schema.lookup (steps_path fds ++ rel) M = Schema.lookup rel (field_image (snd (last_step fds)) v)).
Proof.
  intros okconv L root verb p m caps HI H rm Hrm.
  destruct (routed_facts okconv L root verb p m caps HI H) as (b & es & toks & _ & _ & _ & _ & _ & _ & _ & Hlen & Hres & _).
  destruct (vars_steps_total rm (m_id m) (m_vars m) Hrm Hres) as [vs Hvs].
  exists vs. split; [exact Hvs|]. split.
  { rewrite rev_length, Hlen. clear -Hvs. revert vs Hvs. induction (m_vars m) as [|n0 l IH]; intros vs Hvs; cbn [vars_steps] in Hvs.
    - inversion Hvs; reflexivity.
    - destruct (field_path sch (req_fields rm) n0); [|discriminate]. destruct (vars_steps rm l) as [l'|]; [|discriminate].
      inversion Hvs; subst. cbn. rewrite (IH l' eq_refl). reflexivity. }
  intros bd query body codec gz M HD i ns c Hi Hne Hc.
  destruct (proj1 (vars_steps_nth rm _ vs i Hvs) ns Hi) as (fds & Hvi & Hf).
  pose proof (field_path_nonnil _ _ _ Hne Hf) as Hfn.
  destruct (decode_request_path_param (mkRule rm vs bd) (mkReq (rev caps) query body codec gz) M i fds c Hvi Hfn Hc HD)
    as (v & Hp & Hwin).
  exists fds, v. split; [exact Hf|]. split; [exact Hvi|]. split; [exact Hfn|]. split; [exact Hp|].
  split; [exact (converted_is_json3 fds c v Hp)|].
  intros Hs He. apply (Hwin Hs). intros j fj Hj Hnj. cbn [r_vars] in Hnj.
  destruct (proj2 (vars_steps_nth rm _ vs j Hvs) fj Hnj) as (nsj & Hnsj & Hfj).
  destruct nsj as [|x nsj'].
  - cbn [field_path] in Hfj. inversion Hfj; subst fj. reflexivity.
  - exact (He j (x :: nsj') fj Hj Hnsj ltac:(discriminate) Hfj).
Qed.
End Decode.
End Routed.
End Bound.

(* C07's vars_independent asks every pair of variables, in both directions, to leave each other's
   path alone; the path of a bare wildcard is empty and no parameter leaves the empty path alone, so
   no rule with a bare wildcard and a named variable is vars_independent.  The theorems above need
   (and state) the direction that matters only. *)
Lemma vars_independent_no_wildcard r i j fj :
  nth_error (r_vars r) i = Some [] -> nth_error (r_vars r) j = Some fj -> fj <> [] -> ~ vars_independent r.
Proof.
  intros Hi Hj Hne Hind.
  assert (Hij : i <> j) by (intros ->; rewrite Hi in Hj; inversion Hj; subst; contradiction).
  specialize (Hind i j [] fj Hij Hi Hj). destruct fj; [contradiction|]. cbn in Hind. discriminate.
Qed.

(* ---------- a concrete instance ---------- *)
(* message 0 { int32 num = 1; Nest nest = 2; }   message 1 (Nest) { string a = 1; }
   method /S/M with request type 0 and the rule GET /v1/{num}/x/{nest.a} *)
Definition bf_letter (r : N) : bool := ((65 <=? r) && (r <=? 90)) || ((97 <=? r) && (r <=? 122)).
Definition bf_number (r : N) : bool := (48 <=? r) && (r <=? 57).
Example bf_sane : Sane bf_letter bf_number.
Proof. intros r H. cbn in H. repeat (destruct H as [ <- | H ]; [split; reflexivity|]). contradiction. Qed.

Definition bf_s (l : list N) : str := l.
Definition n_num := bf_s [110;117;109].              (* "num" *)
Definition n_nest := bf_s [110;101;115;116].         (* "nest" *)
Definition n_a := bf_s [97].                         (* "a" *)
Definition bf_num : field := mkField 1 n_num n_num KInt32 Singular None false.
Definition bf_nest : field := mkField 2 n_nest n_nest (KMessage 1) Singular None true.
Definition bf_a : field := mkField 1 n_a n_a KString Singular None false.
Definition bf_sch : schema := mkSchema [mkMsg WNone [bf_num; bf_nest]; mkMsg WNone [bf_a]] [].
Definition bf_mid : str := bf_s [47;83;47;77].       (* "/S/M" *)
Definition bf_req (mid : str) : option nat := if str_eqb mid bf_mid then Some 0%nat else None.
Definition bf_nofloat (_ : bool) (_ : bytes) : option N := None.
Definition bf_nowkt (_ : wkt) (_ : bool) (_ : bytes) : option subtree := None.
Definition bf_GET : str := bf_s [71;69;84].
Definition bf_all (_ : str) (_ : list str) := true.
Definition bf_decl (tmpl : str) : list mdecl :=
  [ {| d_id := bf_mid; d_config := [];
       d_annot := Some {| h_main := {| b_verb := bf_GET; b_tmpl := tmpl; b_body := Trie.BNone; b_resp := []; b_nested := false |};
                          h_adds := [] |} |} ].
Definition bf_trie (tmpl : str) : node :=
  run_services bf_letter bf_number (resolves_of bf_sch bf_req) bf_all bf_all empty_node [bf_decl tmpl].
Definition bf_okconv := okconv_of bf_nofloat bf_nowkt bf_sch 0%nat.
Definition bf_convert := convert_params bf_nofloat bf_nowkt bf_sch 0%nat.

(* "/v1/{num}/x/{nest.a}" *)
Definition bf_tmpl : str := bf_s [47;118;49;47;123;110;117;109;125;47;120;47;123;110;101;115;116;46;97;125].
Definition bf_root : node := bf_trie bf_tmpl.
(* "/v1/42/x/hello" *)
Definition bf_path : str := bf_s [47;118;49;47;52;50;47;120;47;104;101;108;108;111].
Definition t_42 := bf_s [52;50].
Definition t_hello := bf_s [104;101;108;108;111].
Definition bf_m : minfo := {| m_id := bf_mid; m_vars := [[n_num]; [n_nest; n_a]]; m_body := Trie.BNone; m_resp := [] |}.
Definition bf_ps : list param :=
  [ ([([bf_num; bf_nest], bf_nest); ([bf_a], bf_a)], PScalar (SStr t_hello)); ([([bf_num; bf_nest], bf_num)], PScalar (SInt 42)) ].

(* the routed binding, the captures (deepest first), the parameters, the final message *)
Example bf_routed :
  Match.route bf_okconv bf_letter bf_number bf_root bf_GET bf_path = Ok (bf_m, [t_hello; t_42]) /\
  Match.path_params (bf_m, [t_hello; t_42]) = [([n_nest; n_a], t_hello); ([n_num], t_42)] /\
  bf_convert (Match.path_params (bf_m, [t_hello; t_42])) = Ok bf_ps /\
  params_set bf_ps [] = Ok [([1], ELeaf (SInt 42)); ([2; 1], ELeaf (SStr t_hello)); ([2], EPresent)].
Proof. vm_compute. repeat split; reflexivity. Qed.

(* the hypotheses of the theorems hold for it: the trie satisfies the registration invariant, the
   router's oracle is the schema's, the two variables bind non-touching singular fields -- and the
   conclusion, obtained from the theorem (not by evaluation), is what the evaluation shows *)
Example bf_inv : exists L, TrieProofs.Inv bf_letter bf_number (resolves_of bf_sch bf_req) L bf_root.
Proof.
  destruct (published_Inv bf_letter bf_number (resolves_of bf_sch bf_req) bf_all bf_all [bf_decl bf_tmpl] [] empty_node
              (Inv_empty bf_letter bf_number (resolves_of bf_sch bf_req))) as (L' & HI & _).
  exists (L' ++ []). exact HI.
Qed.

Example bf_nontouching : vars_nontouching bf_sch 0%nat (m_vars bf_m).
Proof.
  intros i j nsi nsj fi fj Hij Hi Hj _ _ Hfi Hfj. cbn [m_vars bf_m] in Hi, Hj.
  destruct i as [|[|[|i]]]; cbn in Hi; try discriminate; inversion Hi; subst nsi;
  destruct j as [|[|[|j]]]; cbn in Hj; try discriminate; inversion Hj; subst nsj; try contradiction;
  vm_compute in Hfi; vm_compute in Hfj; inversion Hfi; inversion Hfj; subst; reflexivity.
Qed.

Example bf_by_theorem : forall M', params_set bf_ps [] = Ok M' ->
  Schema.lookup [1] M' = Some (ELeaf (SInt 42)) /\ Schema.lookup [2; 1] M' = Some (ELeaf (SStr t_hello)).
Proof.
  intros M' HS. destruct bf_inv as [L HI]. destruct bf_routed as (HR & _ & HC & _).
  split.
  - destruct (bound_fields_nontouching bf_nofloat bf_nowkt bf_sch bf_req bf_letter bf_number bf_sane
                bf_okconv L bf_root bf_GET bf_path bf_m _ HI HR 0%nat bf_ps [] M' eq_refl bf_nontouching HC HS
                0%nat [n_num] t_42 eq_refl ltac:(discriminate) eq_refl) as (fds & v & Hf & Hp & _ & Hwin).
    vm_compute in Hf. inversion Hf; subst fds. vm_compute in Hp. inversion Hp; subst v.
    exact (Hwin eq_refl []).
  - destruct (bound_fields_nontouching bf_nofloat bf_nowkt bf_sch bf_req bf_letter bf_number bf_sane
                bf_okconv L bf_root bf_GET bf_path bf_m _ HI HR 0%nat bf_ps [] M' eq_refl bf_nontouching HC HS
                1%nat [n_nest; n_a] t_hello eq_refl ltac:(discriminate) eq_refl) as (fds & v & Hf & Hp & _ & Hwin).
    vm_compute in Hf. inversion Hf; subst fds. vm_compute in Hp. inversion Hp; subst v.
    exact (Hwin eq_refl []).
Qed.

(* the hypothesis about earlier variables is needed, and registration does not provide it:
   "/v1/{num}/{num}" is registered, "/v1/1/2" is routed to it with captures "2" (deepest) and "1",
   and the message holds the capture of the FIRST variable -- the second one's is overwritten *)
Definition bf_dup_tmpl : str := bf_s [47;118;49;47;123;110;117;109;125;47;123;110;117;109;125].
Definition bf_dup_path : str := bf_s [47;118;49;47;49;47;50].
Definition bf_dup_m : minfo := {| m_id := bf_mid; m_vars := [[n_num]; [n_num]]; m_body := Trie.BNone; m_resp := [] |}.
Example dup_variable_first_wins :
  Match.route bf_okconv bf_letter bf_number (bf_trie bf_dup_tmpl) bf_GET bf_dup_path = Ok (bf_dup_m, [bf_s [50]; bf_s [49]]) /\
  exists ps, bf_convert (Match.path_params (bf_dup_m, [bf_s [50]; bf_s [49]])) = Ok ps /\
    params_set ps [] = Ok [([1], ELeaf (SInt 1))].
Proof. split; [vm_compute; reflexivity|]. eexists. split; vm_compute; reflexivity. Qed.

(* the same request with a query (?num=7&nest.a=q) and a body (num = 5, nest.a = "b") that
   contradict the path: the handler's message has the path's values *)
Definition bf_vs : list (list step) := [[([bf_num; bf_nest], bf_num)]; [([bf_num; bf_nest], bf_nest); ([bf_a], bf_a)]].
Definition bf_body : subtree := [([1], ELeaf (SInt 5)); ([2], EPresent); ([2; 1], ELeaf (SStr (bf_s [98])))].
Definition bf_query : list (bytes * list bytes) := [(n_num, [bf_s [55]]); (bf_s [110;101;115;116;46;97], [bf_s [113]])].
Example bf_with_query_and_body :
  vars_steps bf_sch 0%nat (m_vars bf_m) = Some bf_vs /\
  exists M,
    decode_request bf_nofloat bf_nowkt (fun _ _ _ => Some bf_body) (fun b => Some b) bf_sch
      (mkRule 0%nat bf_vs Transcode.BStar) (mkReq (rev [t_hello; t_42]) bf_query (Some []) (Some 0%nat) false) = Ok M /\
    Schema.lookup [1] M = Some (ELeaf (SInt 42)) /\ Schema.lookup [2; 1] M = Some (ELeaf (SStr t_hello)).
Proof. split; [vm_compute; reflexivity|]. eexists. vm_compute. repeat split; reflexivity. Qed.

(* ================= property-level statements (for Properties/C01.v and Properties/C07.v) ================= *)
