(* Reading a covering back as text: the request path is the template with each variable replaced
   by its capture. *)
From Larking Require Import Base.GoSem Model.Lexer Model.Trie Model.Match Spec.Grammar Spec.Route
  Proofs.LexerProofs Proofs.MatchProofs Proofs.TrieProofs Proofs.RoutingProofs.
Local Open Scope N_scope.

Section Spell.
Variables isLetter isNumber : N -> bool.
Notation PathToks := (PathToks isLetter isNumber).
Notation PSeg := (PSeg isLetter isNumber).
Notation PSegs := (PSegs isLetter isNumber).
Notation PatG := (PatG isLetter isNumber).

Definition Good (ts : list token) : Prop := ts = [] \/ PathToks ts.

Definition head_sep (z : list token) : Prop := match z with t :: _ => is TSlash t = true \/ is TVerb t = true | [] => False end.

(* every suffix of a path token list that starts at a separator is a path token list *)
Lemma PathToks_suffix ts : PathToks ts -> forall a z, ts = a ++ z -> head_sep z -> PathToks z.
Proof.
  induction 1 as [|v rest Hv Hp HP IH|v rest Hv Hp HP IH]; intros a z E Hs.
  - destruct a as [|x a]; cbn in E.
    + subst z. cbn in Hs. destruct Hs; discriminate.
    + injection E as Ex Ea. apply eq_sym, app_eq_nil in Ea. destruct Ea as [_ ->]. cbn in Hs. contradiction.
  - destruct a as [|x [|y a]]; cbn in E.
    + subst z. now apply PT_slash.
    + inversion E; subst. cbn in Hs. destruct Hs; discriminate.
    + inversion E; subst. eapply IH; eauto.
  - destruct a as [|x [|y a]]; cbn in E.
    + subst z. now apply PT_colon.
    + inversion E; subst. cbn in Hs. destruct Hs; discriminate.
    + inversion E; subst. eapply IH; eauto.
Qed.

Lemma PathToks_head ts : PathToks ts -> ts = [tEOF] \/ head_sep ts.
Proof. intros [|v r _ _ _|v r _ _ _]; [now left|right; left; reflexivity|right; right; reflexivity]. Qed.

(* a run of non-separators off a path token position *)
Lemma star_run a z v rest : Forall nosep a -> at_sep z -> a ++ z = Tok TPath v :: rest -> PathToks rest -> Good z.
Proof.
  intros Ha Hs E HP. destruct a as [|x a]; cbn in E.
  - rewrite E in Hs. cbn in Hs. destruct Hs; discriminate.
  - injection E as Ex Ea. apply Forall_inv_tail in Ha.
    destruct (PathToks_head _ HP) as [Er|Hh].
    + rewrite Er in Ea. destruct a as [|y a]; cbn in Ea.
      * rewrite Ea in Hs. cbn in Hs. destruct Hs; discriminate.
      * injection Ea as Ey Ea2. apply app_eq_nil in Ea2. destruct Ea2 as [_ Ez]. left. exact Ez.
    + destruct a as [|y a]; cbn in Ea.
      * right. rewrite Ea. exact HP.
      * exfalso. rewrite <- Ea in Hh. cbn in Hh. apply Forall_inv in Ha. destruct Ha as [N1 N2]. destruct Hh; congruence.
Qed.

Lemma starstar_run a z v rest : Forall noverb a -> at_verb z -> a ++ z = Tok TPath v :: rest -> PathToks rest -> Good z.
Proof.
  intros Ha Hs E HP. destruct a as [|x a]; cbn in E.
  - subst z. cbn in Hs. discriminate.
  - injection E as Ex Ea. subst x.
    destruct z as [|t z']; [now left|]. right.
    apply (PathToks_suffix rest HP a (t :: z')); [now symmetry|]. cbn. right. exact Hs.
Qed.

Lemma MatchPat_app p1 : forall p2 c z, MatchPat (p1 ++ p2) c z ->
  exists c1 c2, c = c1 ++ c2 /\ MatchPat p1 c1 (c2 ++ z) /\ MatchPat p2 c2 z.
Proof.
  induction p1 as [|p p1 IH]; intros p2 c z H; cbn in H.
  - exists [], c. split; [reflexivity|]. split; [constructor|exact H].
  - inversion H as [|? t ? c' ? Hp Ht HM|? t ? c' ? Hp Ht Hv HM|? a ? c' ? Hp Ha Hs Hne HM|? a ? c' ? Hp Ha Hs Hne HM]; subst.
    + destruct (IH _ _ _ HM) as (c1 & c2 & -> & M1 & M2). exists (t :: c1), c2. split; [reflexivity|]. split; [now apply MP_slash|exact M2].
    + destruct (IH _ _ _ HM) as (c1 & c2 & -> & M1 & M2). exists (t :: c1), c2. split; [reflexivity|]. split; [now apply MP_lit|exact M2].
    + destruct (IH _ _ _ HM) as (c1 & c2 & -> & M1 & M2). exists (a ++ c1), c2. split; [now rewrite app_assoc|]. split; [|exact M2].
      rewrite <- app_assoc in Hs, Hne. apply MP_star; auto.
    + destruct (IH _ _ _ HM) as (c1 & c2 & -> & M1 & M2). exists (a ++ c1), c2. split; [now rewrite app_assoc|]. split; [|exact M2].
      rewrite <- app_assoc in Hs, Hne. apply MP_starstar; auto.
Qed.

Lemma pseg_state ts b : PSeg ts b -> forall c z v rest, MatchPat ts c z -> c ++ z = Tok TPath v :: rest -> PathToks rest -> Good z.
Proof.
  intros [l Hl| |] c z v rest HM E HP.
  - inversion HM as [|? ? ? ? ? Hp|? t ? c' ? Hp Ht Hv HM'| |]; subst; try discriminate. inversion HM'; subst. cbn in E. inversion E; subst. now right.
  - inversion HM as [|? ? ? ? ? Hp|? ? ? ? ? Hp|? a ? c' ? Hp Ha Hs Hne HM'|? ? ? ? ? Hp]; subst; try discriminate.
    inversion HM'; subst. rewrite app_nil_r in E. cbn [app] in Hs. eapply star_run; eauto.
  - inversion HM as [|? ? ? ? ? Hp|? ? ? ? ? Hp|? ? ? ? ? Hp|? a ? c' ? Hp Ha Hs Hne HM']; subst; try discriminate.
    inversion HM'; subst. rewrite app_nil_r in E. cbn [app] in Hs. eapply starstar_run; eauto.
Qed.

Lemma psegs_state pat b : PSegs pat b -> forall c z v rest, MatchPat pat c z -> c ++ z = Tok TPath v :: rest -> PathToks rest -> Good z.
Proof.
  induction 1 as [ts b G|ts rp b G HS IH]; intros c z v rest HM E HP.
  - eapply pseg_state; eauto.
  - destruct (MatchPat_app _ _ _ _ HM) as (c1 & c2 & -> & M1 & M2).
    rewrite <- app_assoc in E.
    pose proof (pseg_state ts false G c1 (c2 ++ z) v rest M1 E HP) as G1.
    inversion M2 as [|? t ? c2' ? Hp Ht HM2| | |]; subst; try discriminate.
    destruct G1 as [G1|G1]; [discriminate|].
    inversion G1 as [|v2 r2 Hv2 Hp2 HP2|v2 r2 Hv2 Hp2 HP2]; subst; try discriminate.
    eapply IH; eauto.
Qed.

Theorem covering_spells_path es : forall toks caps,
  Forall (edge_gram isLetter isNumber) es -> Good toks -> MatchEdges es toks caps -> fill es (rev caps) = Some (spell toks).
Proof.
  intros toks caps Hg HG HM. revert Hg HG.
  induction HM as [toks Hl|t0 t1 rest es caps HM IH|pat t0 c z es caps Ht Hne HMP HM IH]; intros Hg HG.
  - cbn. destruct HG as [->|HP]; [reflexivity|]. inversion HP; subst; cbn in Hl; try lia. reflexivity.
  - inversion Hg; subst. destruct HG as [HG|HP]; [discriminate|].
    inversion HP as [|v r Hv Hp Hr|v r Hv Hp Hr]; subst; cbn [fill]; rewrite (IH H2 (or_intror Hr)); reflexivity.
  - inversion Hg as [|e l He Hg']; subst. destruct HG as [HG|HP]; [discriminate HG|]. destruct He as [b Hb].
    remember (t0 :: c ++ z) as ts eqn:Ets.
    destruct HP as [|v r Hv Hp Hr|v r Hv Hp Hr]; injection Ets as E0 E1; subst t0; try (cbn in Ht; discriminate Ht).
    assert (Gz : Good z) by (eapply psegs_state; [exact Hb|exact HMP|symmetry; exact E1|exact Hr]).
    rewrite rev_app_distr. cbn [rev app fill]. rewrite (IH Hg' Gz).
    rewrite E1. change (spell (tSlash :: c ++ z)) with (47 :: spell (c ++ z)). now rewrite spell_app.
Qed.

End Spell.

(* the request path read back from the dispatch: the (normalised) path is the registered template's
   edge sequence with every literal edge spelled as registered and every variable edge replaced by
   "/" and its capture -- nothing else, nothing missing *)
Theorem path_is_instance :
  forall isLetter isNumber resolves okconv, Sane isLetter isNumber ->
  forall L root verb p m caps,
  Inv isLetter isNumber resolves L root -> route okconv isLetter isNumber root verb p = Ok (m, caps) ->
  exists mid b es,
    In (mid, b) L /\ m_id m = mid /\ covers_verb (b_verb b) verb /\
    compiled isLetter isNumber resolves mid b es (m_vars m) /\
    fill es (rev caps) = Some (normalise p).
Proof.
  intros isLetter isNumber resolves okconv sane L root verb p m caps HI H.
  destruct (dispatch_sound isLetter isNumber resolves okconv sane L root verb p m caps HI H)
    as (mid & b & es & toks & A & B & C & D & E & F & G).
  exists mid, b, es. split; [exact A|]. split; [exact B|]. split; [exact C|]. split; [exact E|].
  assert (Hes : Forall (edge_gram isLetter isNumber) es).
  { destruct E as (toks' & E1 & E2).
    pose proof (compile_tmpl isLetter isNumber resolves toks' mid (proj1 (lex_template_sound _ _ _ _ E1))) as Hg.
    rewrite E2 in Hg. now destruct Hg. }
  destruct (lex_path_sound _ _ _ _ F) as (HP & Hsp & _).
  rewrite <- Hsp. apply (covering_spells_path isLetter isNumber); [exact Hes|right; exact HP|exact G].
Qed.

