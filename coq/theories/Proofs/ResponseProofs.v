(* Proofs about Model/Response.v: what a 200 response of a unary call carries. Marshalling and
   compression are opaque inverse pairs (Section variables with the inverse law as hypothesis). *)
From Coq Require Import QArith.
From Larking Require Import Base.GoSem Model.Negotiate Model.Response Spec.AcceptSpec Spec.ResponseSpec Proofs.NegotiateProofs.
Local Close Scope Q_scope.
Local Open Scope nat_scope.
Local Open Scope bool_scope.

(* ---- sort.Strings keeps the elements ---- *)
Lemma insert_sorted_in k l x : In x (insert_sorted k l) <-> x = k \/ In x l.
Proof.
  induction l as [|y l IH]; cbn [insert_sorted In].
  - split; intros [H|H]; auto.
  - destruct (bytes_leb k y); cbn [In]; [split; intros [H|H]; auto|].
    rewrite IH. split; intros H; tauto.
Qed.
Lemma sort_strings_in l x : In x (sort_strings l) <-> In x l.
Proof.
  induction l as [|y l IH]; cbn [sort_strings fold_right In]; [tauto|].
  fold (sort_strings l). rewrite insert_sorted_in, IH. split; intros [H|H]; auto.
Qed.

Lemma lookup_in {A} k (m : list (bytes * A)) : In k (map fst m) -> exists v, lookup k m = Some v.
Proof.
  induction m as [|[k' v] m IH]; cbn [map fst In lookup]; [tauto|].
  intros [H|H].
  - subst. replace (bytes_eqb k k) with true by (symmetry; apply bytes_eqb_eq; reflexivity). eauto.
  - destruct (bytes_eqb k' k); eauto.
Qed.
Lemma lookup_some_in {A} k (m : list (bytes * A)) v : lookup k m = Some v -> In (k, v) m.
Proof.
  induction m as [|[k' v'] m IH]; cbn [lookup]; [discriminate|].
  destruct (bytes_eqb k' k) eqn:E.
  - intros H; inversion H; subst. apply bytes_eqb_eq in E. subst. left; reflexivity.
  - intros H. right. auto.
Qed.

Lemma offers_in cfg t : In t (content_type_offers cfg) <-> In t (map fst (codecs cfg)) /\ t <> http_body_name.
Proof.
  unfold content_type_offers. rewrite sort_strings_in, filter_In, negb_true_iff. split; intros [H1 H2]; split; auto.
  - intros E. subst. assert (bytes_eqb http_body_name http_body_name = true) by (apply bytes_eqb_eq; reflexivity). congruence.
  - destruct (bytes_eqb t http_body_name) eqn:E; auto. apply bytes_eqb_eq in E. contradiction.
Qed.

Section ResponseProofs.
  Variables msg field : Type.
  Variable get_msg : field -> msg -> option msg.
  Variable full_name : msg -> bytes.
  Variable body_ct body_data : msg -> bytes.
  Variable marshal : codec -> msg -> outcome bytes.
  Variable marshal_status : codec -> N -> outcome bytes.
  Variable compress : bytes -> bytes -> bytes.

  Notation walk := (walk msg field get_msg).
  Notation get_codec := (get_codec msg full_name).
  Notation send_msg := (send_msg msg field get_msg full_name body_ct body_data marshal).
  Notation serve_unary := (serve_unary msg field get_msg full_name body_ct body_data marshal marshal_status compress).
  Notation select := (select msg field get_msg).
  Notation payload := (payload msg full_name body_ct body_data marshal).
  Notation sane := (sane msg marshal marshal_status).

  Lemma walk_select path : forall m cur, walk path m = Ok cur <-> select path m = Some cur.
  Proof.
    induction path as [|fd path IH]; intros m cur; cbn [Response.walk ResponseSpec.select].
    - split; intros H; inversion H; reflexivity.
    - destruct (get_msg fd m); [apply IH|]. split; discriminate.
  Qed.
  Lemma walk_no_err path : forall m e, walk path m <> Err e.
  Proof.
    induction path as [|fd path IH]; intros m e; cbn [Response.walk]; [discriminate|].
    destruct (get_msg fd m); [apply IH|discriminate].
  Qed.

  Lemma send_msg_ok cfg path accept reply s :
    send_msg cfg path accept reply = Ok s ->
    exists cur c, select path reply = Some cur /\ get_codec cfg accept cur = Ok c /\
      payload c accept cur = Ok (s_body s, s_ct s) /\ (N.of_nat (length (s_body s)) <= max_send cfg)%N.
  Proof.
    unfold Response.send_msg. intros H.
    destruct (walk path reply) as [cur| | |] eqn:Hw; try discriminate. cbn [bind] in H.
    destruct (get_codec cfg accept cur) as [c| | |] eqn:Hc; try discriminate. cbn [bind] in H.
    fold (payload c accept cur) in H.
    destruct (payload c accept cur) as [[b ct]| | |] eqn:Hp; try discriminate. cbn [bind] in H.
    destruct (max_send cfg <? N.of_nat (length b))%N eqn:Hl; try discriminate.
    inversion H; subst; cbn [s_body s_ct].
    exists cur, c. split; [apply walk_select; auto|]. split; auto. split; auto.
    apply N.ltb_ge in Hl. exact Hl.
  Qed.

  (* the send limit: refused exactly when the bytes exceed it *)
  Lemma send_msg_limit cfg path accept reply cur c b ct :
    select path reply = Some cur -> get_codec cfg accept cur = Ok c -> payload c accept cur = Ok (b, ct) ->
    send_msg cfg path accept reply =
      if (max_send cfg <? N.of_nat (length b))%N then Err ETooLarge else Ok (mksent ct b).
  Proof.
    intros Hs Hc Hp. apply walk_select in Hs. unfold Response.send_msg.
    rewrite Hs. cbn [bind]. rewrite Hc. cbn [bind]. fold (payload c accept cur). rewrite Hp. cbn [bind]. reflexivity.
  Qed.

  Lemma serve_200 cfg reqct accept accept_enc has_body reqcur path reply r :
    serve_unary cfg reqct accept accept_enc has_body reqcur path reply = Ok r -> r_status r = 200%N ->
    exists aspecs especs s,
      parse_accept accept = Ok aspecs /\ nonneg aspecs /\ parse_accept accept_enc = Ok especs /\
      send_msg cfg path (negotiate_content_type aspecs (content_type_offers cfg) (request_content_type reqct)) reply = Ok s /\
      r_ct r = Some (s_ct s) /\ r_code r = 0%N /\
      let enc := negotiate_encoding especs (encoding_type_offers cfg) in
      (memb enc (compressors cfg) = true /\ r_ce r = Some enc /\ r_wire r = compress enc (s_body s) \/
       memb enc (compressors cfg) = false /\ r_ce r = None /\ r_wire r = s_body s).
  Proof.
    unfold Response.serve_unary. intros H H200.
    destruct (parse_accept_ok accept) as [aspecs [Ha Hnn]]. rewrite Ha in H. cbn [bind] in H.
    destruct (parse_accept_ok accept_enc) as [especs [He _]]. rewrite He in H. cbn [bind] in H.
    set (acc := negotiate_content_type aspecs (content_type_offers cfg) (request_content_type reqct)) in *.
    set (enc := negotiate_encoding especs (encoding_type_offers cfg)) in *.
    destruct (if has_body then get_codec cfg (request_content_type reqct) reqcur else Ok CJSON) as [c0|e| |] eqn:Hreq; cbn [bind] in H.
    - destruct (send_msg cfg path acc reply) as [s|e| |] eqn:Hs.
      + inversion H; subst r. cbn [r_ct r_code r_ce r_wire].
        exists aspecs, especs, s. repeat (split; auto). fold enc.
        destruct (memb enc (compressors cfg)); [left|right]; auto.
      + destruct (lookup _ (codecs cfg)); [|discriminate].
        destruct (marshal_status c (err_code e)); cbn [bind] in H; try discriminate.
        inversion H; subst r. cbn [r_status] in H200. discriminate.
      + discriminate.
      + discriminate.
    - destruct (lookup _ (codecs cfg)); [|discriminate].
      destruct (marshal_status c (err_code e)); cbn [bind] in H; try discriminate.
      inversion H; subst r. cbn [r_status] in H200. discriminate.
    - discriminate.
    - discriminate.
  Qed.

  Section Inverse.
    Variable unmarshal : codec -> bytes -> option msg.
    Variable decompress : bytes -> bytes -> bytes.
    Hypothesis marshal_inverse : forall c m b, marshal c m = Ok b -> unmarshal c b = Some m.
    Hypothesis compress_inverse : forall e b, decompress e (compress e b) = b.

    (* Content-Encoding is truthful: undoing what the header names gives the bytes of the codec *)
    Lemma serve_200_body cfg reqct accept accept_enc has_body reqcur path reply r :
      serve_unary cfg reqct accept accept_enc has_body reqcur path reply = Ok r -> r_status r = 200%N ->
      exists aspecs s,
        parse_accept accept = Ok aspecs /\ nonneg aspecs /\
        send_msg cfg path (negotiate_content_type aspecs (content_type_offers cfg) (request_content_type reqct)) reply = Ok s /\
        r_ct r = Some (s_ct s) /\ decode_wire decompress (r_ce r) (r_wire r) = s_body s /\
        (r_ce r = None \/ exists e, r_ce r = Some e /\ memb e (compressors cfg) = true).
    Proof.
      intros H H200. destruct (serve_200 _ _ _ _ _ _ _ _ _ H H200) as [aspecs [especs [s [Ha [Hnn [He [Hs [Hct [_ Henc]]]]]]]]].
      exists aspecs, s. repeat (split; auto).
      - cbn zeta in Henc. destruct Henc as [[_ [E1 E2]]|[_ [E1 E2]]]; rewrite E1, E2; cbn [decode_wire]; auto.
      - cbn zeta in Henc. destruct Henc as [[M [E1 _]]|[_ [E1 _]]]; [right; eauto|left; auto].
    Qed.

    Lemma httpbody_passthrough cfg reqct accept accept_enc has_body reqcur path reply r cur :
      serve_unary cfg reqct accept accept_enc has_body reqcur path reply = Ok r -> r_status r = 200%N ->
      select path reply = Some cur -> full_name cur = http_body_name ->
      r_ct r = Some (body_ct cur) /\ decode_wire decompress (r_ce r) (r_wire r) = body_data cur.
    Proof.
      intros H H200 Hsel Hn.
      destruct (serve_200_body _ _ _ _ _ _ _ _ _ H H200) as [aspecs [s [_ [_ [Hs [Hct [Hw _]]]]]]].
      destruct (send_msg_ok _ _ _ _ _ Hs) as [cur' [c [Hsel' [_ [Hp _]]]]].
      rewrite Hsel in Hsel'. inversion Hsel'; subst cur'.
      unfold ResponseSpec.payload in Hp. rewrite Hn in Hp.
      replace (bytes_eqb http_body_name http_body_name) with true in Hp by (symmetry; apply bytes_eqb_eq; reflexivity).
      inversion Hp. rewrite Hct, Hw. split; congruence.
    Qed.

    Lemma body_decodes cfg reqct accept accept_enc has_body reqcur path reply r cur :
      serve_unary cfg reqct accept accept_enc has_body reqcur path reply = Ok r -> r_status r = 200%N ->
      select path reply = Some cur -> full_name cur <> http_body_name ->
      lookup (full_name cur) (codecs cfg) = None ->
      exists aspecs t c, parse_accept accept = Ok aspecs /\
        t = negotiate_content_type aspecs (content_type_offers cfg) (request_content_type reqct) /\
        r_ct r = Some t /\ lookup t (codecs cfg) = Some c /\
        unmarshal c (decode_wire decompress (r_ce r) (r_wire r)) = Some cur.
    Proof.
      intros H H200 Hsel Hn Hlk.
      destruct (serve_200_body _ _ _ _ _ _ _ _ _ H H200) as [aspecs [s [Ha [_ [Hs [Hct [Hw _]]]]]]].
      destruct (send_msg_ok _ _ _ _ _ Hs) as [cur' [c [Hsel' [Hc [Hp _]]]]].
      rewrite Hsel in Hsel'. inversion Hsel'; subst cur'.
      set (t := negotiate_content_type aspecs (content_type_offers cfg) (request_content_type reqct)) in *.
      unfold ResponseSpec.payload in Hp.
      destruct (bytes_eqb (full_name cur) http_body_name) eqn:E; [apply bytes_eqb_eq in E; contradiction|].
      destruct (marshal c cur) as [b| | |] eqn:Hm; try discriminate. inversion Hp as [[Eb Et]].
      unfold Response.get_codec in Hc. rewrite Hlk in Hc.
      destruct (lookup t (codecs cfg)) as [c'|] eqn:Hl; [|discriminate].
      destruct (bytes_eqb t http_body_name); [discriminate|]. inversion Hc; subst c'.
      exists aspecs, t, c. split; [auto|]. split; [reflexivity|]. split; [rewrite Hct, <- Et; reflexivity|].
      split; [auto|]. rewrite Hw, <- Eb. apply marshal_inverse. exact Hm.
    Qed.

    Lemma sent_within_limit cfg reqct accept accept_enc has_body reqcur path reply r :
      serve_unary cfg reqct accept accept_enc has_body reqcur path reply = Ok r -> r_status r = 200%N ->
      (N.of_nat (length (decode_wire decompress (r_ce r) (r_wire r))) <= max_send cfg)%N.
    Proof.
      intros H H200.
      destruct (serve_200_body _ _ _ _ _ _ _ _ _ H H200) as [aspecs [s [_ [_ [Hs [_ [Hw _]]]]]]].
      destruct (send_msg_ok _ _ _ _ _ Hs) as [cur' [c [_ [_ [_ Hl]]]]]. rewrite Hw. exact Hl.
    Qed.
  End Inverse.

  (* an over-long reply is answered with the error response, never with a 200 *)
  Lemma over_limit_refused cfg reqct accept accept_enc has_body reqcur path reply r aspecs cur c b ct :
    serve_unary cfg reqct accept accept_enc has_body reqcur path reply = Ok r ->
    parse_accept accept = Ok aspecs ->
    let acc := negotiate_content_type aspecs (content_type_offers cfg) (request_content_type reqct) in
    select path reply = Some cur -> get_codec cfg acc cur = Ok c -> payload c acc cur = Ok (b, ct) ->
    (max_send cfg < N.of_nat (length b))%N ->
    r_status r = 500%N /\ r_code r <> 0%N.
  Proof.
    intros H Ha acc Hsel Hc Hp Hl. unfold Response.serve_unary in H.
    rewrite Ha in H. cbn [bind] in H.
    destruct (parse_accept accept_enc) as [especs| | |]; try discriminate. cbn [bind] in H.
    fold acc in H. rewrite (send_msg_limit cfg path acc reply cur c b ct Hsel Hc Hp) in H.
    apply N.ltb_lt in Hl. rewrite Hl in H.
    assert (Herr : forall e, err_code e <> 0%N) by (intros []; cbn; discriminate).
    destruct (if has_body then get_codec cfg (request_content_type reqct) reqcur else Ok CJSON) as [c0|e| |]; cbn [bind] in H; try discriminate.
    - destruct (lookup _ (codecs cfg)); [|discriminate].
      destruct (marshal_status c1 (err_code ETooLarge)); cbn [bind] in H; try discriminate.
      inversion H; subst r. cbn [r_status r_code]. split; [reflexivity|discriminate].
    - destruct (lookup _ (codecs cfg)); [|discriminate].
      destruct (marshal_status c0 (err_code e)); cbn [bind] in H; try discriminate.
      inversion H; subst r. cbn [r_status r_code]. split; [reflexivity|apply Herr].
  Qed.

  (* T5: with the internal codec reachable by message name only, nothing on the unary path panics *)
  Lemma get_codec_body cfg media cur c :
    (forall k, lookup k (codecs cfg) = Some CBody -> k = http_body_name) ->
    get_codec cfg media cur = Ok c -> c = CBody -> full_name cur = http_body_name.
  Proof.
    intros Hb H E. subst c. unfold Response.get_codec in H.
    destruct (lookup (full_name cur) (codecs cfg)) as [c|] eqn:E1.
    - inversion H; subst. apply Hb. exact E1.
    - destruct (lookup media (codecs cfg)) as [c|] eqn:E2; [|discriminate].
      destruct (bytes_eqb media http_body_name) eqn:E3; [discriminate|].
      inversion H; subst. apply Hb in E2. subst.
      assert (bytes_eqb http_body_name http_body_name = true) by (apply bytes_eqb_eq; reflexivity). congruence.
  Qed.

  Lemma get_codec_no_crash cfg media cur : no_crash (get_codec cfg media cur).
  Proof.
    unfold Response.get_codec. destruct (lookup (full_name cur) (codecs cfg)); [exact I|].
    destruct (lookup media (codecs cfg)); [|exact I]. destruct (bytes_eqb media http_body_name); exact I.
  Qed.

  Lemma send_msg_no_crash cfg path accept reply cur :
    sane cfg -> select path reply = Some cur -> no_crash (send_msg cfg path accept reply).
  Proof.
    intros [Hb [_ [Hm _]]] Hsel. apply walk_select in Hsel. unfold Response.send_msg. rewrite Hsel. cbn [bind].
    pose proof (get_codec_no_crash cfg accept cur) as Hn.
    destruct (get_codec cfg accept cur) as [c| | |] eqn:Hc; cbn [bind]; cbn in Hn; auto.
    destruct (bytes_eqb (full_name cur) http_body_name) eqn:E; cbn [bind].
    - destruct (max_send cfg <? _)%N; exact I.
    - assert (Hc' : c <> CBody).
      { intros E'. apply (get_codec_body cfg accept cur c Hb Hc) in E'. rewrite E' in E.
        assert (bytes_eqb http_body_name http_body_name = true) by (apply bytes_eqb_eq; reflexivity). congruence. }
      specialize (Hm c cur Hc'). destruct (marshal c cur); cbn [bind]; cbn in Hm; auto.
      destruct (max_send cfg <? _)%N; exact I.
  Qed.

  Lemma err_codec_exists cfg aspecs : sane cfg -> nonneg aspecs ->
    exists c, lookup (negotiate_content_type aspecs (content_type_offers cfg) json_type) (codecs cfg) = Some c /\ c <> CBody.
  Proof.
    intros [Hb [[cj Hj] _]] Hnn.
    destruct (negotiate_in aspecs (content_type_offers cfg) json_type Hnn) as [Hin|Heq].
    - apply offers_in in Hin. destruct Hin as [Hin Hne]. destruct (lookup_in _ _ Hin) as [c Hc].
      exists c. split; auto. intros E; subst. apply Hb in Hc. contradiction.
    - rewrite Heq. exists cj. split; auto. intros E; subst. apply Hb in Hj.
      assert (bytes_eqb json_type http_body_name = false) by reflexivity.
      rewrite Hj in H. assert (bytes_eqb http_body_name http_body_name = true) by (apply bytes_eqb_eq; reflexivity). congruence.
  Qed.

  Lemma serve_unary_no_crash cfg reqct accept accept_enc has_body reqcur path reply cur :
    sane cfg -> select path reply = Some cur ->
    no_crash (serve_unary cfg reqct accept accept_enc has_body reqcur path reply).
  Proof.
    intros Hsane Hsel. unfold Response.serve_unary.
    destruct (parse_accept_ok accept) as [aspecs [Ha Hnn]]. rewrite Ha. cbn [bind].
    destruct (parse_accept_ok accept_enc) as [especs [He _]]. rewrite He. cbn [bind].
    set (acc := negotiate_content_type aspecs (content_type_offers cfg) (request_content_type reqct)).
    destruct (err_codec_exists cfg aspecs Hsane Hnn) as [ce [Hce Hne]].
    assert (Herr : forall e, no_crash (
      match lookup (negotiate_content_type aspecs (content_type_offers cfg) json_type) (codecs cfg) with
      | None => Panic PNil
      | Some c => do b <- marshal_status c (err_code e);
          Ok (mkresp 500%N (Some (negotiate_content_type aspecs (content_type_offers cfg) json_type))
               (if match e with ETooLarge => true | _ => false end
                then (if memb (negotiate_encoding especs (encoding_type_offers cfg)) (compressors cfg) then Some (negotiate_encoding especs (encoding_type_offers cfg)) else None)
                else Some identity)
               (b ++ (if memb (negotiate_encoding especs (encoding_type_offers cfg)) (compressors cfg) then compress (negotiate_encoding especs (encoding_type_offers cfg)) [] else []))
               (err_code e))
      end)).
    { intros e. rewrite Hce. destruct Hsane as [_ [_ [_ Hms]]]. specialize (Hms ce (err_code e) Hne).
      destruct (marshal_status ce (err_code e)); cbn [bind]; cbn in Hms; try contradiction; exact I. }
    pose proof (get_codec_no_crash cfg (request_content_type reqct) reqcur) as Hreq.
    destruct (if has_body then get_codec cfg (request_content_type reqct) reqcur else Ok CJSON) as [c0|e| |] eqn:Hr; cbn [bind].
    - pose proof (send_msg_no_crash cfg path acc reply cur Hsane Hsel) as Hs.
      destruct (send_msg cfg path acc reply) as [s|e| |]; cbn in Hs; try contradiction.
      + exact I.
      + apply Herr.
    - apply Herr.
    - destruct has_body; [rewrite Hr in Hreq; cbn in Hreq; contradiction|discriminate].
    - destruct has_body; [rewrite Hr in Hreq; cbn in Hreq; contradiction|discriminate].
  Qed.
End ResponseProofs.

(* with the offers built from the codec keys, no Accept-Encoding can ever select a compressor of
   the default configuration: Content-Encoding is truthful because it is never sent *)
Lemma default_never_compresses especs :
  memb (negotiate_encoding especs (encoding_type_offers default_config)) (compressors default_config) = false.
Proof.
  pose proof (negotiate_encoding_in especs (encoding_type_offers default_config)) as H. cbn zeta in H.
  set (r := negotiate_encoding especs (encoding_type_offers default_config)) in *. clearbody r.
  destruct H as [H|[H|H]].
  - rewrite H. reflexivity.
  - rewrite H. reflexivity.
  - apply sort_strings_in in H. cbn in H.
    destruct H as [H|[H|[H|[H|[]]]]]; rewrite <- H; reflexivity.
Qed.

Lemma resp_path_ok_iff kinds : resp_path_ok kinds = true <-> kinds <> [] /\ Forall (fun k => k = KMessage) kinds.
Proof.
  unfold resp_path_ok. rewrite andb_true_iff, negb_true_iff, forallb_forall, Forall_forall. split.
  - intros [H1 H2]. split; [destruct kinds; [discriminate|discriminate]|].
    intros k Hk. specialize (H2 k Hk). destruct k; try discriminate; reflexivity.
  - intros [H1 H2]. split; [destruct kinds; [contradiction|reflexivity]|].
    intros k Hk. rewrite (H2 k Hk). reflexivity.
Qed.
