(* C03: the parameters and the body rebuild the message (singular fields; any order of the keys). *)
From Larking Require Import Base.GoSem Model.Schema Model.Params Model.Transcode Proofs.ParamsProofs.
Local Open Scope N_scope.

(* a field path params.set can walk: singular message fields, then a field that is not a map *)
Fixpoint walkable (fds : list step) : bool :=
  match fds with
  | [] => false
  | st :: rest =>
    match rest with
    | [] => match f_card (snd st) with MapField => false | _ => true end
    | _ => match f_card (snd st), field_msg (snd st) with Singular, Some _ => walkable rest | _, _ => false end
    end
  end.

Lemma set_walk_ok : forall fds pp v M, walkable fds = true -> exists M', set_walk fds pp v M = Ok M'.
Proof.
  induction fds as [|st rest IH]; intros pp v M W; [discriminate|].
  destruct rest as [|st2 rest2].
  - cbn [walkable set_walk] in *. destruct (f_card (snd st)); try discriminate; eauto.
  - cbn [walkable set_walk] in *. destruct (f_card (snd st)); try discriminate.
    destruct (field_msg (snd st)); try discriminate. apply IH. exact W.
Qed.

Lemma is_prefix_longer pp x : is_prefix (pp ++ [x]) pp = false.
Proof. induction pp as [|a pp IH]; cbn; auto. rewrite N.eqb_refl. exact IH. Qed.

(* every parent message on the way is present afterwards *)
Lemma set_walk_parents : forall fds pp v M M' p r,
  set_walk fds pp v M = Ok M' -> steps_path fds = p ++ r -> p <> [] -> r <> [] ->
  lookup (pp ++ p) M' = Some EPresent.
Proof.
  induction fds as [|st rest IH]; intros pp v M M' p r H E Hp Hr.
  - cbn in E. destruct p; [contradiction|discriminate].
  - destruct p as [|n p']; [contradiction|]. cbn [steps_path map app] in E. inversion E as [[En Er]]. subst n.
    destruct rest as [|st2 rest2].
    { cbn in Er. destruct p'; [|discriminate]. cbn in Er. subst r. contradiction. }
    cbn [set_walk] in H.
    destruct (f_card (snd st)); try discriminate; destruct (field_msg (snd st)); try discriminate.
    destruct p' as [|n2 p2].
    + rewrite (set_walk_frame (st2 :: rest2) (pp ++ [step_num st]) v _ M' (pp ++ [step_num st]) st2 rest2 eq_refl H).
      * unfold mutable_msg. destruct (lookup (pp ++ [step_num st]) M) as [[| |]|] eqn:L; auto;
          rewrite lookup_put, path_eqb_refl; reflexivity.
      * apply is_prefix_longer.
      * apply not_true_is_false. intros X. apply existsb_exists in X. destruct X as [sb [_ X]].
        rewrite is_prefix_longer in X. discriminate.
    + rewrite <- app_cons_assoc. apply (IH (pp ++ [step_num st]) v _ M' (n2 :: p2) r H); auto. discriminate.
Qed.

(* a parameter that leaves path p ++ r alone either leaves p alone or has p among its parents *)
Lemma untouched_prefix : forall fds p r, r <> [] -> untouched fds (p ++ r) = true ->
  p = [] \/ untouched fds p = true \/ (exists r', r' <> [] /\ steps_path fds = p ++ r').
Proof.
  induction fds as [|st rest IH]; intros p r Hr U.
  - right. left. reflexivity.
  - destruct p as [|n p']; [left; reflexivity|]. right. cbn [app untouched] in U. cbn [untouched].
    destruct (n =? step_num st) eqn:E.
    + apply N.eqb_eq in E. subst n. destruct rest as [|st2 rest2]; [discriminate|].
      destruct (IH p' r Hr U) as [->|[H|[r' [Hr' H]]]].
      * right. exists (steps_path (st2 :: rest2)). split; [discriminate|reflexivity].
      * left. exact H.
      * right. exists r'. split; [exact Hr'|]. cbn [steps_path map] in *. rewrite H. reflexivity.
    + left. exact U.
Qed.

Section Rebuild.
Variable leaves : list param.
Hypothesis shape : forall p, In p leaves -> fst p <> [] /\ singular_last (fst p).
Hypothesis indep : forall i j pi pj, i <> j -> nth_error leaves i = Some pi -> nth_error leaves j = Some pj ->
  untouched (fst pj) (steps_path (fst pi)) = true.

Lemma split_nth {A} : forall (l : list A) i x, nth_error l i = Some x ->
  exists pre post, l = pre ++ x :: post /\ length pre = i.
Proof.
  induction l as [|a l IH]; intros i x H; destruct i; try discriminate.
  - inversion H; subst. exists [], l. split; reflexivity.
  - destruct (IH i x H) as [pre [post [-> Hl]]]. exists (a :: pre), post. split; [reflexivity|cbn; lia].
Qed.

Lemma nth_after {A} (pre post : list A) x y : In y post -> exists j, j <> length pre /\ nth_error (pre ++ x :: post) j = Some y.
Proof.
  intros H. apply In_nth_error in H. destruct H as [k H]. exists (length pre + S k)%nat. split; [lia|].
  rewrite nth_error_app2 by lia. replace (length pre + S k - length pre)%nat with (S k) by lia. exact H.
Qed.
Lemma nth_before {A} (pre post : list A) x y : In y pre -> exists j, j <> length pre /\ nth_error (pre ++ x :: post) j = Some y.
Proof.
  intros H. apply In_nth_error in H. destruct H as [k H]. exists k.
  assert (k < length pre)%nat by (apply nth_error_Some; congruence). split; [lia|].
  rewrite nth_error_app1 by lia. exact H.
Qed.
Lemma nth_mid {A} (pre post : list A) x : nth_error (pre ++ x :: post) (length pre) = Some x.
Proof. rewrite nth_error_app2 by lia. rewrite Nat.sub_diag. reflexivity. Qed.

(* parents stay present through parameters that are independent of the leaf below them *)
Lemma parents_persist : forall post M M' p r,
  r <> [] -> p <> [] ->
  (forall x, In x post -> untouched (fst x) (p ++ r) = true) ->
  lookup p M = Some EPresent -> params_set post M = Ok M' -> lookup p M' = Some EPresent.
Proof.
  induction post as [|x post IH]; intros M M' p r Hr Hp U L H.
  - cbn in H. inversion H; subst. exact L.
  - cbn [params_set] in H. destruct (set_param x M) as [M1| | |] eqn:E; cbn [bind] in H; try discriminate.
    apply (IH M1 M' p r Hr Hp); auto.
    + intros y Hy. apply U. now right.
    + unfold set_param in E.
      destruct (untouched_prefix (fst x) p r Hr (U x (or_introl eq_refl))) as [->|[Hu|[r' [Hr' Hs]]]].
      * contradiction.
      * pose proof (set_walk_untouched (fst x) [] (snd x) M M1 p Hu E) as X. cbn [app] in X. rewrite X. exact L.
      * exact (set_walk_parents (fst x) [] (snd x) M M1 p r' E Hs Hp Hr').
Qed.

Theorem rebuild : forall M0 M', params_set leaves M0 = Ok M' ->
  (forall i fds v rel, nth_error leaves i = Some (fds, v) ->
     lookup (steps_path fds ++ rel) M' = lookup rel (field_image (snd (last_step fds)) v)) /\
  (forall i fds v p r, nth_error leaves i = Some (fds, v) -> steps_path fds = p ++ r -> p <> [] -> r <> [] ->
     lookup p M' = Some EPresent) /\
  (forall q, (forall p, In p leaves -> untouched (fst p) q = true) -> lookup q M' = lookup q M0).
Proof.
  intros M0 M' H. split; [|split].
  - intros i fds v rel Hn. destruct (split_nth leaves i _ Hn) as [pre [post [El Hl]]].
    destruct (shape (fds, v)) as [Hne Hs]; [eapply nth_error_In; eauto|].
    rewrite El in H. apply (params_set_wins pre fds v post M0 M' rel Hne Hs); [|exact H].
    intros x Hx. destruct (nth_after pre post (fds, v) x Hx) as [j [Hj Hnj]]. rewrite <- El in Hnj.
    apply (indep i j (fds, v) x); auto. lia.
  - intros i fds v p r Hn Es Hp Hr. destruct (split_nth leaves i _ Hn) as [pre [post [El Hl]]].
    rewrite El, params_set_app in H.
    destruct (params_set pre M0) as [M1| | |]; cbn [bind] in H; try discriminate.
    cbn [params_set] in H. destruct (set_param (fds, v) M1) as [M2| | |] eqn:E; cbn [bind] in H; try discriminate.
    apply (parents_persist post M2 M' p r Hr Hp); auto.
    + intros x Hx. destruct (nth_after pre post (fds, v) x Hx) as [j [Hj Hnj]]. rewrite <- El in Hnj.
      rewrite <- Es. apply (indep i j (fds, v) x); auto. lia.
    + unfold set_param in E. exact (set_walk_parents fds [] v M1 M2 p r E Es Hp Hr).
  - intros q U. apply (params_set_untouched leaves M0 M' q U H).
Qed.

Lemma params_set_ok : forall ps M, (forall p, In p ps -> walkable (fst p) = true) -> exists M', params_set ps M = Ok M'.
Proof.
  induction ps as [|p ps IH]; intros M W; [eexists; reflexivity|].
  cbn [params_set]. destruct (set_walk_ok (fst p) [] (snd p) M (W p (or_introl eq_refl))) as [M1 E].
  unfold set_param. rewrite E. cbn [bind]. apply IH. intros x Hx. apply W. now right.
Qed.
End Rebuild.

(* ---------- from the texts of a request to the parameters ---------- *)
Section Request.
Variable ofloat : bool -> bytes -> option N.
Variable owkt : wkt -> bool -> bytes -> option subtree.

(* one query key with one value, as the client wrote it: key, its field path, text, value *)
Definition qleaf := (bytes * list step * bytes * pval)%type.
Definition qleaf_ok (sch : schema) (root : list field) (l : qleaf) : Prop :=
  match l with (key, fds, txt, v) =>
    field_path sch root (split_dots [] key) = Some fds /\ parse_param ofloat owkt sch fds txt = Ok v end.
Definition qleaf_query (l : qleaf) : bytes * list bytes := match l with (key, _, txt, _) => (key, [txt]) end.
Definition qleaf_param (l : qleaf) : param := match l with (_, fds, _, v) => (fds, v) end.

Lemma parse_query_leaves : forall sch root ls, Forall (qleaf_ok sch root) ls ->
  parse_query ofloat owkt sch root (map qleaf_query ls) = Ok (map qleaf_param ls).
Proof.
  induction ls as [|[[[key fds] txt] v] ls IH]; intros H; [reflexivity|].
  inversion H as [|? ? Hok Hr]; subst. cbn in Hok. destruct Hok as [Hf Hp]. cbn [map qleaf_query parse_query qleaf_param].
  rewrite Hf. cbn [parse_values]. rewrite Hp. cbn [bind]. rewrite (IH Hr). reflexivity.
Qed.

(* the captures, template order: field path, text, value *)
Definition pleaf := (list step * bytes * pval)%type.
Definition pleaf_ok (sch : schema) (l : pleaf) : Prop :=
  match l with (fds, txt, v) => fds <> [] /\ parse_param ofloat owkt sch fds txt = Ok v end.
Lemma path_params_leaves : forall sch (ls : list pleaf), Forall (pleaf_ok sch) ls ->
  path_params ofloat owkt sch (map (fun l => (fst (fst l), snd (fst l))) ls) =
  Ok (rev (map (fun l => (fst (fst l), snd l)) ls)).
Proof.
  induction ls as [|[[fds txt] v] ls IH]; intros H; [reflexivity|].
  inversion H as [|? ? Hok Hr]; subst. cbn in Hok. destruct Hok as [Hne Hp]. cbn [map fst snd path_params rev].
  rewrite (IH Hr). cbn [bind]. destruct fds as [|s f]; [contradiction|]. rewrite Hp. reflexivity.
Qed.
End Request.

(* ---------- the whole request ---------- *)
Section RoundTrip.
Variable ofloat : bool -> bytes -> option N.
Variable owkt : wkt -> bool -> bytes -> option subtree.
(* the body codec and the compressor: opaque inverse pairs *)
Variable marshal : nat -> nat -> subtree -> bytes.
Variable unmarshal : nat -> nat -> bytes -> option subtree.
Hypothesis codec_inverse : forall c ty t, unmarshal c ty (marshal c ty t) = Some t.
Variable deflate : bytes -> bytes.
Variable inflate : bytes -> option bytes.
Hypothesis gzip_inverse : forall b, inflate (deflate b) = Some b.

(* where the body part of the message sits before the parameters are applied *)
Definition body_image (r : rule) (body : option subtree) : outcome msg :=
  match r_body r, body with
  | BStar, Some t => Ok ([] ++ graft [] t)
  | BField fds, Some t => do W <- body_walk fds [] []; Ok (W ++ graft (steps_path fds) t)
  | _, _ => Ok []
  end.

Definition split_request (sch : schema) (r : rule) (pls : list pleaf) (qls : list qleaf)
           (body : option subtree) (codec : nat) (gz : bool) : request :=
  mkReq (map (fun l => snd (fst l)) pls) (map qleaf_query qls)
        (option_map (fun t => let b := marshal codec (body_type sch r) t in if gz then deflate b else b) body)
        (Some codec) gz.

Definition split_leaves (pls : list pleaf) (qls : list qleaf) : list param :=
  map qleaf_param qls ++ rev (map (fun l => (fst (fst l), snd l)) pls).

Lemma combine_pleaves (pls : list pleaf) :
  combine (map (fun l => fst (fst l)) pls) (map (fun l => snd (fst l)) pls) =
  map (fun l => (fst (fst l), snd (fst l))) pls.
Proof. induction pls as [|l pls IH]; cbn; [reflexivity|rewrite IH; reflexivity]. Qed.

Theorem roundtrip : forall sch r pls qls body codec gz M0,
  r_vars r = map (fun l => fst (fst l)) pls ->
  Forall (pleaf_ok ofloat owkt sch) pls ->
  Forall (qleaf_ok ofloat owkt sch (msg_fields sch (r_input r))) qls ->
  (forall p, In p (split_leaves pls qls) -> walkable (fst p) = true /\ singular_last (fst p)) ->
  (forall i j pi pj, i <> j -> nth_error (split_leaves pls qls) i = Some pi -> nth_error (split_leaves pls qls) j = Some pj ->
     untouched (fst pj) (steps_path (fst pi)) = true) ->
  (r_body r = BNone -> body = None) ->
  body_image r body = Ok M0 ->
  exists M', decode_request ofloat owkt unmarshal inflate sch r (split_request sch r pls qls body codec gz) = Ok M' /\
    (forall i fds v rel, nth_error (split_leaves pls qls) i = Some (fds, v) ->
       lookup (steps_path fds ++ rel) M' = lookup rel (field_image (snd (last_step fds)) v)) /\
    (forall i fds v p q, nth_error (split_leaves pls qls) i = Some (fds, v) -> steps_path fds = p ++ q -> p <> [] -> q <> [] ->
       lookup p M' = Some EPresent) /\
    (forall q, (forall p, In p (split_leaves pls qls) -> untouched (fst p) q = true) -> lookup q M' = lookup q M0).
Proof.
  intros sch r pls qls body codec gz M0 Hv Hp Hq Hshape Hind Hnone Hb.
  assert (Hw : forall p, In p (split_leaves pls qls) -> walkable (fst p) = true) by (intros p Hp'; apply Hshape; exact Hp').
  destruct (params_set_ok (split_leaves pls qls) M0 Hw) as [M' HM'].
  exists M'. split.
  - set (rq := split_request sch r pls qls body codec gz).
    set (enc := fun t : subtree => let b := marshal codec (body_type sch r) t in if gz then deflate b else b).
    assert (Ec : q_caps rq = map (fun l => snd (fst l)) pls) by reflexivity.
    assert (Eq : q_query rq = map qleaf_query qls) by reflexivity.
    assert (Eg : q_gzip rq = gz) by reflexivity.
    assert (Ebd : q_body rq = option_map enc body) by reflexivity.
    assert (Ecd : q_codec rq = Some codec) by reflexivity.
    assert (Einf : forall t, (if gz then inflate (enc t) else Some (enc t)) = Some (marshal codec (body_type sch r) t)).
    { intros t. unfold enc. destruct gz; [apply gzip_inverse|reflexivity]. }
    unfold decode_request. rewrite Ec, Eq, Hv, combine_pleaves, (path_params_leaves ofloat owkt sch pls Hp). cbn [bind].
    rewrite (parse_query_leaves ofloat owkt sch _ qls Hq). cbn [bind].
    rewrite Eg, Ebd.
    assert (G : (if gz then match option_map enc body with Some b => inflate b | None => Some [] end else Some []) <> None).
    { destruct gz; [|discriminate]. destruct body as [t|]; cbn [option_map]; [|discriminate].
      pose proof (Einf t) as X. cbn in X. rewrite X. discriminate. }
    destruct (if gz then _ else _) as [x|]; [|contradiction]. clear G x.
    unfold recv_first. fold (split_leaves pls qls). rewrite Ebd.
    assert (B : match r_body r, option_map enc body with
                | BStar, Some b => decode_body unmarshal inflate sch r rq [] b
                | BField fds, Some b => decode_body unmarshal inflate sch r rq fds b
                | _, _ => Ok []
                end = Ok M0).
    { unfold body_image in Hb. destruct (r_body r) as [| |fds] eqn:Eb.
      - pose proof (Hnone eq_refl) as Hbn. subst body. cbn [option_map]. exact Hb.
      - destruct body as [t|]; cbn [option_map]; [|exact Hb].
        unfold decode_body. cbn [body_walk bind steps_path map]. rewrite Ecd, Eg, Einf, codec_inverse. exact Hb.
      - destruct body as [t|]; cbn [option_map]; [|exact Hb].
        unfold decode_body. destruct (body_walk fds [] []) as [W| | |]; cbn [bind] in *; try discriminate.
        rewrite Ecd, Eg, Einf, codec_inverse. exact Hb. }
    rewrite B. cbn [bind]. exact HM'.
  - apply (rebuild (split_leaves pls qls)); auto.
    intros p Hp'. destruct (Hshape p Hp') as [W S]. split; [|exact S].
    destruct (fst p); [discriminate|discriminate].
Qed.
End RoundTrip.
